(* RootsR.v — theorems about Crop/Roots.v (root_development, germination, pre_irrigation) at the real instance.
   Properties: C05 (roots share), C01/C03 (pre_irrigation). *)
From Flocq Require Import Core.
From AC Require Import Num RInst Params Kernels.
From AC.proofs Require Import ProfR KernelsR.
From AC.Crop Require Import Roots.
Local Open Scope R_scope.

(* boolean comparisons of the real instance as propositions *)
Ltac rlra := rnum; lra.

Lemma ltb_true_R a b : nltb (F:=R) num_ops a b = true -> a < b.
Proof. rnum. destruct (Rltb_spec a b); [auto|discriminate]. Qed.
Lemma ltb_false_R a b : nltb (F:=R) num_ops a b = false -> b <= a.
Proof. rnum. destruct (Rltb_spec a b); [discriminate|lra]. Qed.
Lemma leb_true_R a b : nleb (F:=R) num_ops a b = true -> a <= b.
Proof. rnum. destruct (Rleb_spec a b); [auto|discriminate]. Qed.
Lemma leb_false_R a b : nleb (F:=R) num_ops a b = false -> b < a.
Proof. rnum. destruct (Rleb_spec a b); [discriminate|lra]. Qed.
Lemma eqb_true_R a b : neqb (F:=R) num_ops a b = true -> a = b.
Proof. rnum. destruct (Reqb_spec a b); [auto|discriminate]. Qed.
Lemma eqb_false_R a b : neqb (F:=R) num_ops a b = false -> a <> b.
Proof. rnum. destruct (Reqb_spec a b); [discriminate|auto]. Qed.

(* ================================================================================================== *)
(* pre_irrigation                                                                                     *)
(* ================================================================================================== *)

Lemma pre_thcrit_range smt c : wf_comp c -> 0 <= smt <= 100 -> c_th_wp c <= pre_thcrit smt c <= c_th_fc c.
Proof.
  intros Hc [H0 H1]. unfold pre_thcrit. rnum. pose proof (wf_wp_fc c Hc) as Hw.
  assert (0 <= smt / 100 <= 1) by (split; lra).
  split; nra.
Qed.

(* the loop: storage grows by exactly the amount accounted in PreIrr, PreIrr only grows, the result has the length of th *)
Lemma pre_loop_balance rd smt p : forall th pre th' q,
  pre_loop rd smt p th pre = Some (th', q) ->
  storage p th' = storage p th + (q - pre) /\ length th' = length th.
Proof.
  induction p as [|c p IH]; intros th pre th' q H; cbn [pre_loop] in H; [discriminate|].
  destruct (nleb num_ops rd (c_dzsum c)).
  - inversion H; subst. split; [lra|reflexivity].
  - destruct th as [|t th]; [discriminate|].
    destruct (nltb num_ops t (pre_thcrit smt c)).
    + destruct (pre_loop rd smt p th _) as [[r q']|] eqn:E; [|discriminate]. inversion H; subst; clear H.
      destruct (IH _ _ _ _ E) as [A B]. split; [|simpl; congruence].
      rewrite !storage_cons, A. unfold W, pre_thcrit. rnum. ring.
    + destruct (pre_loop rd smt p th pre) as [[r q']|] eqn:E; [|discriminate]. inversion H; subst; clear H.
      destruct (IH _ _ _ _ E) as [A B]. split; [|simpl; congruence].
      rewrite !storage_cons, A. ring.
Qed.

Lemma pre_loop_nonneg rd smt p : wf_prof p -> forall th pre th' q,
  pre_loop rd smt p th pre = Some (th', q) -> pre <= q.
Proof.
  induction 1 as [|c p Hc Hp IH]; intros th pre th' q H; cbn [pre_loop] in H; [discriminate|].
  destruct (nleb num_ops rd (c_dzsum c)).
  - inversion H; subst. lra.
  - destruct th as [|t th]; [discriminate|].
    destruct (nltb num_ops t (pre_thcrit smt c)) eqn:Et.
    + destruct (pre_loop rd smt p th _) as [[r q']|] eqn:E; [|discriminate]. inversion H; subst; clear H.
      apply IH in E. apply ltb_true_R in Et. revert E. rnum. intros E.
      pose proof (wf_dz c Hc).
      assert (0 <= (pre_thcrit smt c - t) * 1000 * c_dz c) by (apply Rmult_le_pos; [apply Rmult_le_pos|]; rnum; lra).
      rnum; lra.
    + destruct (pre_loop rd smt p th pre) as [[r q']|] eqn:E; [|discriminate]. inversion H; subst; clear H.
      eapply IH; eassumption.
Qed.

Lemma pre_loop_bounds rd smt p : wf_prof p -> 0 <= smt <= 100 -> forall th pre th' q,
  in_bounds p th -> pre_loop rd smt p th pre = Some (th', q) -> in_bounds p th'.
Proof.
  intros Hp Hs. induction Hp as [|c p Hc Hp IH]; intros th pre th' q Hb H; cbn [pre_loop] in H; [discriminate|].
  destruct (nleb num_ops rd (c_dzsum c)).
  - inversion H; subst. exact Hb.
  - destruct th as [|t th]; [discriminate|]. inversion Hb as [|? ? ? ? Ht Hb']; subst.
    pose proof (pre_thcrit_range smt c Hc Hs) as Hr.
    pose proof (wf_dry_wp c Hc). pose proof (wf_fc_s c Hc).
    destruct (nltb num_ops t (pre_thcrit smt c)).
    + destruct (pre_loop rd smt p th _) as [[r q']|] eqn:E; [|discriminate]. inversion H; subst; clear H.
      constructor; [unfold pre_thcrit in *; rlra | eapply IH; eassumption].
    + destruct (pre_loop rd smt p th pre) as [[r q']|] eqn:E; [|discriminate]. inversion H; subst; clear H.
      constructor; [exact Ht | eapply IH; eassumption].
Qed.

(* every compartment is left unchanged or raised to its threshold: th' >= th pointwise *)
Lemma pre_loop_mono rd smt p : forall th pre th' q,
  pre_loop rd smt p th pre = Some (th', q) -> Forall2 Rle th th'.
Proof.
  induction p as [|c p IH]; intros th pre th' q H; cbn [pre_loop] in H; [discriminate|].
  destruct (nleb num_ops rd (c_dzsum c)).
  - inversion H; subst. clear. induction th'; constructor; [lra|assumption].
  - destruct th as [|t th]; [discriminate|].
    destruct (nltb num_ops t (pre_thcrit smt c)) eqn:Et.
    + destruct (pre_loop rd smt p th _) as [[r q']|] eqn:E; [|discriminate]. inversion H; subst; clear H.
      apply ltb_true_R in Et.
      constructor; [unfold pre_thcrit in *; rlra | eapply IH; eassumption].
    + destruct (pre_loop rd smt p th pre) as [[r q']|] eqn:E; [|discriminate]. inversion H; subst; clear H.
      constructor; [unfold pre_thcrit in *; rlra | eapply IH; eassumption].
Qed.

(* C01: the water added to the profile is exactly the reported PreIrr, which is non-negative *)
Theorem pre_irrigation_balance p zmin zroot th dap gs method smt th' pre :
  wf_prof p ->
  pre_irrigation p zmin zroot th dap gs method smt = Some (th', pre) ->
  storage p th' = storage p th + pre /\ 0 <= pre.
Proof.
  intros Hp H. unfold pre_irrigation in H.
  destruct gs; [destruct (negb (method =? 4)%Z || negb (dap =? 1)%Z)|].
  - inversion H; subst. rnum. lra.
  - pose proof (pre_loop_balance _ _ _ _ _ _ _ H) as [A _]. pose proof (pre_loop_nonneg _ _ _ Hp _ _ _ _ H) as B.
    revert A B. rnum. intros; lra.
  - inversion H; subst. rnum. lra.
Qed.

(* C03: water contents stay within [th_dry, th_s]  (thCrit <= th_fc for a threshold of 0..100 % of TAW) *)
Theorem pre_irrigation_bounds p zmin zroot th dap gs method smt th' pre :
  wf_prof p -> 0 <= smt <= 100 -> in_bounds p th ->
  pre_irrigation p zmin zroot th dap gs method smt = Some (th', pre) ->
  in_bounds p th' /\ Forall2 Rle th th'.
Proof.
  intros Hp Hs Hb H. unfold pre_irrigation in H.
  assert (Hrefl : Forall2 Rle th th) by (clear; induction th; constructor; [lra|assumption]).
  destruct gs; [destruct (negb (method =? 4)%Z || negb (dap =? 1)%Z)|].
  - inversion H; subst. split; assumption.
  - split; [eapply pre_loop_bounds; eassumption | eapply pre_loop_mono; eassumption].
  - inversion H; subst. split; assumption.
Qed.

(* nothing happens unless net irrigation (method 4) is configured and it is the first day after planting *)
Theorem pre_irrigation_inert p zmin zroot th dap gs method smt :
  (method <> 4)%Z \/ (dap <> 1)%Z \/ gs = false ->
  pre_irrigation p zmin zroot th dap gs method smt = Some (th, 0).
Proof.
  intros H. unfold pre_irrigation. destruct gs; [|reflexivity].
  destruct H as [H|[H|H]]; [| |discriminate].
  - apply Z.eqb_neq in H. rewrite H. reflexivity.
  - apply Z.eqb_neq in H. rewrite H. rewrite orb_true_r. reflexivity.
Qed.

(* unfolding lemmas for concrete runs of the loop *)
Lemma pre_loop_stop rd smt c p th pre : rd <= c_dzsum c -> pre_loop rd smt (c :: p) th pre = Some (th, pre).
Proof. intros H. cbn [pre_loop]. rnum. rewrite Rleb_true by exact H. reflexivity. Qed.
Lemma pre_loop_raise rd smt c p t th pre :
  c_dzsum c < rd /\ t < pre_thcrit smt c ->
  pre_loop rd smt (c :: p) (t :: th) pre =
  match pre_loop rd smt p th (pre + (pre_thcrit smt c - t) * 1000 * c_dz c) with
  | Some (r, q) => Some (pre_thcrit smt c :: r, q) | None => None end.
Proof. intros [H1 H2]. cbn [pre_loop]. rnum. rewrite Rleb_false by exact H1. rewrite Rltb_true by exact H2. reflexivity. Qed.

(* a concrete, non-trivial instance: three 0.1 m compartments of sandy loam at wilting point, Zmin = 0.3 m, SMT 80 % *)
Definition ex_comp (dzsum : R) : Comp R :=
  {| c_dz := 1/10; c_dzsum := dzsum; c_zmid := dzsum - 1/20; c_layer := 1; c_th_dry := 5/100; c_th_wp := 10/100;
     c_th_fc := 22/100; c_th_s := 41/100; c_ksat := 1200; c_tau := 1; c_pen := 100; c_acr := 0; c_bcr := 0 |}.
Definition ex_prof : list (Comp R) := [ex_comp (1/10); ex_comp (2/10); ex_comp (30/100); ex_comp (4/10)].

Lemma ex_prof_wf : wf_prof ex_prof.
Proof. repeat constructor; cbn; lra. Qed.

Lemma pow10_2 : pow10 2 = 100.
Proof. unfold pow10. simpl. lra. Qed.

Lemma Rround2_cent n : Rround 2 (IZR n / 100) = IZR n / 100.
Proof. rewrite <- pow10_2. apply Rround_IZR. Qed.

Example pre_irrigation_example :
  exists th' pre,
    pre_irrigation ex_prof (30/100) (30/100) [10/100; 10/100; 10/100; 10/100] 1 true 4 80 = Some (th', pre)
    /\ wf_prof ex_prof /\ 0 <= 80 <= 100 /\ in_bounds ex_prof [10/100; 10/100; 10/100; 10/100] /\ 0 < pre.
Proof.
  eexists; eexists. split; [|split; [exact ex_prof_wf | split; [lra | split]]].
  - unfold pre_irrigation. cbn [Z.eqb negb orb Pos.eqb]. unfold pmax. rnum.
    rewrite (Rltb_false (30/100) (30/100)) by lra. change 30 with (IZR 30). rewrite Rround2_cent.
    unfold ex_prof.
    rewrite pre_loop_raise by (cbn; unfold pre_thcrit; cbn; rnum; lra).
    rewrite pre_loop_raise by (cbn; unfold pre_thcrit; cbn; rnum; lra).
    rewrite pre_loop_stop by (cbn; lra).
    reflexivity.
  - repeat constructor; cbn; lra.
  - unfold pre_thcrit; cbn; rnum; lra.
Qed.

(* Finding: the loop is `range(int(compRz))`, so the compartment that contains the bottom of the root zone is never
   raised.  The intended contract "every compartment of the root zone ends at or above thCrit" is false: in the
   example above the third compartment (0.2–0.3 m, inside the 0.3 m root zone) stays at wilting point. *)
Theorem pre_irrigation_root_zone_refuted :
  exists p zmin zroot th smt th' pre c t',
    wf_prof p /\ 0 <= smt <= 100 /\ in_bounds p th /\
    pre_irrigation p zmin zroot th 1 true 4 smt = Some (th', pre) /\
    nth_error p 2 = Some c /\ nth_error th' 2 = Some t' /\
    c_dzsum c - c_dz c < Rround 2 (Rmax zroot zmin) (* the compartment starts above the bottom of the root zone *) /\
    t' < pre_thcrit smt c.
Proof.
  exists ex_prof, (30/100), (30/100), [10/100; 10/100; 10/100; 10/100], 80.
  eexists; eexists; exists (ex_comp (30/100)); eexists.
  split; [exact ex_prof_wf | split; [lra | split; [repeat constructor; cbn; lra | split]]].
  - unfold pre_irrigation. cbn [Z.eqb negb orb Pos.eqb]. unfold pmax. rnum.
    rewrite (Rltb_false (30/100) (30/100)) by lra. change 30 with (IZR 30). rewrite Rround2_cent.
    unfold ex_prof.
    rewrite pre_loop_raise by (cbn; unfold pre_thcrit; cbn; rnum; lra).
    rewrite pre_loop_raise by (cbn; unfold pre_thcrit; cbn; rnum; lra).
    rewrite pre_loop_stop by (cbn; lra).
    reflexivity.
  - split; [reflexivity | split; [reflexivity | split]].
    + rewrite Rmax_left by lra. change 30 with (IZR 30). rewrite Rround2_cent. cbn. lra.
    + unfold pre_thcrit. cbn. rnum. lra.
Qed.

(* ================================================================================================== *)
(* germination                                                                                        *)
(* ================================================================================================== *)

(* Frame: germination reads th and the profile and returns only the four fields it writes (germination flag, seed
   protection, the two delay counters); th, z_root and every other state field are not outputs of the model function,
   which is the frame statement.  What it writes: *)
Theorem germination_off_season germ prot dcd dgdd th zgerm p thr pm gdd :
  germination germ prot dcd dgdd th zgerm p thr pm gdd false
  = Some {| g_germ := false; g_prot := false; g_dcd := 0; g_dgdd := 0 |}.
Proof. reflexivity. Qed.

Theorem germination_once_germinated prot dcd dgdd th zgerm p thr pm gdd :
  germination true prot dcd dgdd th zgerm p thr pm gdd true
  = Some {| g_germ := true; g_prot := prot; g_dcd := dcd; g_dgdd := dgdd |}.
Proof. reflexivity. Qed.

(* in season, not yet germinated: either the crop germinates today (counters unchanged, protection = sown crop) or the
   delay counters advance by one day / today's growing degree days and the seed is unprotected *)
Theorem germination_frame germ prot dcd dgdd th zgerm p thr pm gdd g :
  germination germ prot dcd dgdd th zgerm p thr pm gdd true = Some g ->
  (germ = true /\ g = {| g_germ := true; g_prot := prot; g_dcd := dcd; g_dgdd := dgdd |})
  \/ (germ = false /\ exists w, germ_loop zgerm p th 0 0 0 = Some w /\
      ((thr <= germ_wcprop w /\ g = {| g_germ := true; g_prot := Reqb pm 1; g_dcd := dcd; g_dgdd := dgdd |})
       \/ (germ_wcprop w < thr /\ g = {| g_germ := false; g_prot := false; g_dcd := (dcd + 1)%Z; g_dgdd := dgdd + gdd |}))).
Proof.
  unfold germination. destruct germ.
  - intros H; inversion H; subst. left; split; reflexivity.
  - intros H. right; split; [reflexivity|].
    destruct (germ_loop zgerm p th _ _ _) as [w|] eqn:E in H; [|discriminate].
    exists w. split; [exact E|].
    destruct (nleb num_ops thr (germ_wcprop w)) eqn:C in H; inversion H; subst.
    + left. split; [apply leb_true_R; exact C | reflexivity].
    + right. split; [apply leb_false_R; exact C | reflexivity].
Qed.

(* the delay counters never decrease in season (given non-negative degree days) and the germination flag never reverts *)
Corollary germination_counters germ prot dcd dgdd th zgerm p thr pm gdd g :
  0 <= gdd ->
  germination germ prot dcd dgdd th zgerm p thr pm gdd true = Some g ->
  (dcd <= g_dcd g)%Z /\ dgdd <= g_dgdd g /\ (germ = true -> g_germ g = true).
Proof.
  intros Hg H. apply germination_frame in H.
  destruct H as [[E ->]|[E [w [_ [[_ ->]|[_ ->]]]]]]; cbn; repeat split; try lia; try lra; try congruence.
Qed.

Example germination_example :
  exists g, germination false false 3 (71/2) [22/100; 22/100; 22/100; 22/100] (30/100) ex_prof (2/10) 1 12 true = Some g
            /\ g_germ g = true /\ g_dcd g = 3%Z.
Proof.
  destruct (germination false false 3 (71/2) [22/100; 22/100; 22/100; 22/100] (30/100) ex_prof (2/10) 1 12 true) as [g|] eqn:E.
  - exists g. split; [reflexivity|]. apply germination_frame in E.
    destruct E as [[E _]|[_ [w [Hw [[_ ->]|[Hlt ->]]]]]]; [discriminate | split; reflexivity |].
    exfalso. revert Hw Hlt. unfold ex_prof. cbn [germ_loop ex_comp c_dzsum c_dz c_th_fc c_th_wp]. rnum.
    rewrite !(Rltb_false (30/100)) by lra.
    rewrite (Rleb_false (30/100) (1/10)), (Rleb_false (30/100) (2/10)), (Rleb_true (30/100) (30/100)) by lra.
    intros Hw; inversion Hw; subst; clear Hw. unfold germ_wcprop, germ_term. rnum.
    set (a := Rround 3 (1 * 1000 * (22/100) * (1/10))). set (b := Rround 3 (1 * 1000 * (10/100) * (1/10))).
    assert (Ha : a = 22). { unfold a. replace (1 * 1000 * (22/100) * (1/10)) with (IZR 22000 / pow10 3) by (unfold pow10; simpl; lra).
      rewrite Rround_IZR. unfold pow10; simpl; lra. }
    assert (Hb : b = 10). { unfold b. replace (1 * 1000 * (10/100) * (1/10)) with (IZR 10000 / pow10 3) by (unfold pow10; simpl; lra).
      rewrite Rround_IZR. unfold pow10; simpl; lra. }
    rewrite Ha, Hb. rewrite (Rltb_false (0 + 22 + 22 + 22) 0) by lra. lra.
  - exfalso. revert E. unfold germination, ex_prof. cbn [germ_loop ex_comp c_dzsum c_dz c_th_fc c_th_wp]. rnum.
    rewrite !(Rltb_false (30/100)) by lra.
    rewrite (Rleb_false (30/100) (1/10)), (Rleb_false (30/100) (2/10)), (Rleb_true (30/100) (30/100)) by lra.
    destruct (Rleb _ _); discriminate.
Qed.

(* ================================================================================================== *)
(* root_development                                                                                   *)
(* ================================================================================================== *)

(* decide every comparison between closed/linear terms in the goal by lra *)
Ltac rdecide :=
  repeat match goal with
  | |- context [Rleb ?a ?b] => no_if a; no_if b;
      first [rewrite (Rleb_true a b) by lra | rewrite (Rleb_false a b) by lra]
  | |- context [Rltb ?a ?b] => no_if a; no_if b;
      first [rewrite (Rltb_true a b) by lra | rewrite (Rltb_false a b) by lra]
  | |- context [Reqb ?a ?b] => no_if a; no_if b; destruct (Reqb_spec a b); [exfalso; lra | ]
  end; cbv beta iota.

(* ---- the rooting curve ---------------------------------------------------------------------------- *)
Definition curve (zi zmax T0 tmax f t : R) : R := zi + (zmax - zi) * Rpow ((t - T0) / (tmax - T0)) (1 / f).

Lemma X_range T0 tmax t : T0 < t -> t < tmax -> 0 < (t - T0) / (tmax - T0) < 1.
Proof.
  intros H1 H2. split.
  - apply Rdiv_lt_0_compat; lra.
  - apply (proj2 (div_lt_iff (t - T0) (tmax - T0) 1 ltac:(lra))). lra.
Qed.

Lemma Rpow_pos x y : 0 < x -> Rpow x y = Rpower x y.
Proof. intros H. unfold Rpow. destruct (Req_EM_T x 0); [lra|reflexivity]. Qed.

Lemma Rpower_unit x y : 0 < x < 1 -> 0 < y -> 0 < Rpower x y < 1.
Proof.
  intros [H0 H1] Hy. unfold Rpower. split; [apply exp_pos|].
  apply exp_lt_1. assert (ln x < 0) by (rewrite <- ln_1; apply ln_increasing; lra). nra.
Qed.

Lemma curve_range zi zmax T0 tmax f t :
  zi <= zmax -> 0 < f -> T0 < t -> t < tmax -> zi <= curve zi zmax T0 tmax f t <= zmax.
Proof.
  intros Hz Hf H1 H2. unfold curve. pose proof (X_range T0 tmax t H1 H2) as HX.
  rewrite Rpow_pos by lra.
  assert (Hy : 0 < 1 / f) by (apply Rdiv_lt_0_compat; lra).
  pose proof (Rpower_unit _ _ HX Hy). nra.
Qed.

Lemma curve_mono zi zmax T0 tmax f t t' :
  zi <= zmax -> 0 < f -> T0 < t -> t <= t' -> t' < tmax ->
  curve zi zmax T0 tmax f t <= curve zi zmax T0 tmax f t'.
Proof.
  intros Hz Hf H1 H2 H3. unfold curve.
  pose proof (X_range T0 tmax t H1 ltac:(lra)) as HX. pose proof (X_range T0 tmax t' ltac:(lra) H3) as HX'.
  rewrite !Rpow_pos by lra.
  assert (Hy : 0 <= 1 / f) by (left; apply Rdiv_lt_0_compat; lra).
  assert (HXX : (t - T0) / (tmax - T0) <= (t' - T0) / (tmax - T0)) by (apply div_le_mono; lra).
  pose proof (Rle_Rpower_l _ _ (1 / f) Hy (conj (proj1 HX) HXX)). nra.
Qed.

(* potential rooting depth at development time t, as computed by rd_pot *)
Definition potR (zmin zmax tmax f zi T0 t : R) : R :=
  let r := if Rleb tmax t then zmax else if Rleb t T0 then zi else curve zi zmax T0 tmax f t in
  if Rltb r zmin then zmin else r.

Lemma potR_range zmin zmax tmax f zi T0 t :
  zmin <= zmax -> zi <= zmax -> 0 < f -> zmin <= potR zmin zmax tmax f zi T0 t <= zmax.
Proof.
  intros Hm Hz Hf. unfold potR.
  destruct (Rleb_spec tmax t); [|destruct (Rleb_spec t T0)]; cbv zeta.
  - rcases; lra.
  - rcases; lra.
  - pose proof (curve_range zi zmax T0 tmax f t Hz Hf ltac:(lra) ltac:(lra)).
    destruct (Rltb_spec (curve zi zmax T0 tmax f t) zmin); lra.
Qed.

Lemma potR_mono zmin zmax tmax f zi T0 t t' :
  zmin <= zmax -> zi <= zmax -> 0 < f -> t <= t' ->
  potR zmin zmax tmax f zi T0 t <= potR zmin zmax tmax f zi T0 t'.
Proof.
  intros Hm Hz Hf Ht. unfold potR.
  assert (A : T0 < t -> t < tmax -> zi <= curve zi zmax T0 tmax f t <= zmax) by (apply curve_range; assumption).
  assert (B : T0 < t' -> t' < tmax -> zi <= curve zi zmax T0 tmax f t' <= zmax) by (apply curve_range; assumption).
  assert (C : T0 < t -> t' < tmax -> curve zi zmax T0 tmax f t <= curve zi zmax T0 tmax f t')
    by (intros; apply curve_mono; assumption).
  set (u := curve zi zmax T0 tmax f t) in *. set (u' := curve zi zmax T0 tmax f t') in *.
  destruct (Rleb_spec tmax t); destruct (Rleb_spec tmax t'); try destruct (Rleb_spec t T0); try destruct (Rleb_spec t' T0);
    cbv zeta; rcases; try lra;
    try (assert (T0 < t) by lra); try (assert (T0 < t') by lra);
    try (assert (t < tmax) by lra); try (assert (t' < tmax) by lra);
    repeat match goal with H : _ -> _ -> _ |- _ => specialize (H ltac:(assumption) ltac:(assumption)) end; lra.
Qed.

(* ---- crop hypotheses ------------------------------------------------------------------------------- *)
Record rc_ok (c : RootCrop R) : Prop := {
  ok_zmin : 0 < rc_Zmin c;
  ok_zmax : rc_Zmin c <= rc_Zmax c;
  ok_zini : rd_zini c <= rc_Zmax c;            (* Zmin * PctZmin/100 <= Zmax *)
  ok_fr : 0 < rc_fshape_r c;
  ok_pup : 0 <= rc_pup1 c < 1;
  ok_fw : rc_fshape_w1 c <> 0 }.

Definition pot (c : RootCrop R) (t : R) : R :=
  potR (rc_Zmin c) (rc_Zmax c) (rc_MaxRooting c) (rc_fshape_r c) (rd_zini c) (IZR (rd_t0 c)) t.

Lemma rd_potential_val c t : rc_fshape_r c <> 0 -> exists b, rd_potential c t = Some (pot c t, b).
Proof.
  intros Hf. unfold rd_potential, rd_pot, pot, potR, curve.
  generalize (rd_zini c) (rd_t0 c). intros zi t0. rnum.
  destruct (Rleb_spec (rc_MaxRooting c) t); [|destruct (Rleb_spec t (IZR t0))]; cbn [fst].
  - destruct (Rltb _ _); eexists; reflexivity.
  - destruct (Rltb _ _); eexists; reflexivity.
  - destruct (Reqb_spec (rc_fshape_r c) 0); [contradiction|]. cbn [fst].
    destruct (Rltb _ _); eexists; reflexivity.
Qed.

Lemma rd_potential_eq c t z b : rc_fshape_r c <> 0 -> rd_potential c t = Some (z, b) -> z = pot c t.
Proof. intros Hf H. destruct (rd_potential_val c t Hf) as [b' E]. rewrite E in H. inversion H; reflexivity. Qed.

Lemma pot_range c t : rc_ok c -> rc_Zmin c <= pot c t <= rc_Zmax c.
Proof. intros [? ? ? ? ? ?]. apply potR_range; assumption. Qed.

Lemma pot_mono c t t' : rc_ok c -> t <= t' -> pot c t <= pot c t'.
Proof. intros [? ? ? ? ? ?] H. apply potR_mono; assumption. Qed.

(* yesterday's development time is not after today's *)
Lemma rd_times_le c dap dcd gddcum dgdd gdd tadj told :
  0 <= gdd -> rd_times c dap dcd gddcum dgdd gdd = Some (tadj, told) -> told <= tadj.
Proof.
  intros Hg. unfold rd_times. destruct (rc_cal c =? 1)%Z; [|destruct (rc_cal c =? 2)%Z]; intros H; inversion H; subst; clear H.
  - rnum. apply IZR_le. lia.
  - rnum. lra.
Qed.

(* ---- numpy's sum of non-negative numbers is non-negative ---------------------------------------------- *)
Lemma seq_add_nonneg l : forall acc, 0 <= acc -> Forall (Rle 0) l -> 0 <= seq_add acc l.
Proof.
  induction l as [|x l IH]; intros acc Ha Hl; cbn [seq_add]; [exact Ha|].
  inversion Hl; subst. apply IH; [rnum; lra | assumption].
Qed.

Lemma np_block_nonneg : forall n l r0 r1 r2 r3 r4 r5 r6 r7, (length l <= n)%nat ->
  0 <= r0 -> 0 <= r1 -> 0 <= r2 -> 0 <= r3 -> 0 <= r4 -> 0 <= r5 -> 0 <= r6 -> 0 <= r7 ->
  Forall (Rle 0) l -> 0 <= np_block r0 r1 r2 r3 r4 r5 r6 r7 l.
Proof.
  induction n as [|n IH]; intros l r0 r1 r2 r3 r4 r5 r6 r7 Hlen H0 H1 H2 H3 H4 H5 H6 H7 Hl.
  - destruct l; [|simpl in Hlen; lia]. cbn [np_block seq_add]. rnum. lra.
  - destruct l as [|a0 [|a1 [|a2 [|a3 [|a4 [|a5 [|a6 [|a7 l']]]]]]]]; cbn [np_block];
      try (apply seq_add_nonneg; [rnum; lra | assumption]).
    repeat match goal with H : Forall _ (_ :: _) |- _ => inversion H; clear H; subst end.
    apply IH; try (rnum; lra); try assumption. simpl in Hlen. lia.
Qed.

Lemma np_pairwise_nonneg : forall fuel l, Forall (Rle 0) l -> 0 <= np_pairwise fuel l.
Proof.
  assert (B : forall l, Forall (Rle 0) l ->
              0 <= match l with
                   | a0 :: a1 :: a2 :: a3 :: a4 :: a5 :: a6 :: a7 :: l' => np_block a0 a1 a2 a3 a4 a5 a6 a7 l'
                   | _ => nofZ num_ops 0 end).
  { intros l Hl. destruct l as [|a0 [|a1 [|a2 [|a3 [|a4 [|a5 [|a6 [|a7 l']]]]]]]]; try (rnum; lra).
    repeat match goal with H : Forall _ (_ :: _) |- _ => inversion H; clear H; subst end.
    apply (np_block_nonneg (length l')); try assumption. lia. }
  induction fuel as [|f IH]; intros l Hl; cbn [np_pairwise];
    (destruct (Nat.ltb (length l) 8); [apply seq_add_nonneg; [rnum; lra | assumption]|]);
    (destruct (Nat.leb (length l) 128); [apply B; assumption|]).
  - rnum; lra.
  - set (n2 := (Nat.div (length l) 2 - Nat.modulo (Nat.div (length l) 2) 8)%nat).
    rewrite <- (firstn_skipn n2 l) in Hl. apply Forall_app in Hl. destruct Hl as [Ha Hb].
    pose proof (IH _ Ha). pose proof (IH _ Hb). rnum. lra.
Qed.

Lemma np_sum_nonneg l : Forall (Rle 0) l -> 0 <= np_sum l.
Proof. intros H. unfold np_sum. pose proof (np_pairwise_nonneg (length l) l H). rnum. lra. Qed.

(* ---- restrictive horizons --------------------------------------------------------------------------------
   Profile hypothesis: every penetrability is a percentage.  (Layer thicknesses are non-negative by wf_prof.) *)
Definition pen_ok (p : list (Comp R)) : Prop := Forall (fun c => 0 <= c_pen c <= 100) p.
(* Zmin is given in whole centimetres — the code compares round(Zsoil, 2) with Zmin; every catalogue crop has 0.30 *)
Definition zmin_cm (zmin : R) : Prop := exists n : Z, zmin = IZR n / 100.

Definition li_ok (e : LayerInfo R) : Prop := 0 <= fst e /\ forall pen, snd e = Some pen -> 0 <= pen <= 100.

Lemma layer_info_ok p k : wf_prof p -> pen_ok p -> li_ok (layer_info p k).
Proof.
  intros Hw Hp. unfold layer_info, li_ok. cbn [fst snd]. split.
  - apply np_sum_nonneg. apply Forall_map. apply Forall_forall. intros c Hc. apply filter_In in Hc. destruct Hc as [Hc _].
    pose proof (wf_dz c (proj1 (Forall_forall _ _) Hw c Hc)). lra.
  - intros pen. destruct (filter _ p) as [|c cs] eqn:E; [discriminate|]. intros H; inversion H; subst.
    assert (Hc : In c (filter (fun c0 => (c_layer c0 =? k)%Z) p)) by (rewrite E; left; reflexivity).
    apply filter_In in Hc. exact (proj1 (Forall_forall _ _) Hp c (proj1 Hc)).
Qed.

Lemma layer_tab_ok p : wf_prof p -> pen_ok p -> forall n k, Forall li_ok (layer_tab p k n).
Proof. intros Hw Hp. induction n; intros k; cbn [layer_tab]; constructor; [apply layer_info_ok; assumption | apply IHn]. Qed.

Lemma round2_gt_cm zmin x : zmin_cm zmin -> zmin < Rround 2 x -> zmin < x.
Proof.
  intros [n ->] H. unfold Rround in H. replace (pow10 2) with 100 in H by (unfold pow10; simpl; lra).
  assert (Hlt : IZR n < IZR (ZnearestE (x * 100))).
  { apply (Rmult_lt_compat_r 100) in H; [|lra]. unfold Rdiv in H. rewrite !Rmult_assoc, Rinv_l, !Rmult_1_r in H; lra. }
  apply lt_IZR in Hlt. assert (Hle : (n + 1 <= ZnearestE (x * 100))%Z) by lia. apply IZR_le in Hle. rewrite plus_IZR in Hle.
  pose proof (Znearest_half (fun z => negb (Z.even z)) (x * 100)) as Hh. apply Rabs_le_inv in Hh. lra.
Qed.

(* the skip loop keeps the layer table well-formed and stops either on the last layer or with Zsoil > Zmin *)
Lemma rd_skip_ok zmin : zmin_cm zmin -> forall rest zsoil cur, li_ok cur -> Forall li_ok rest ->
  let r := rd_skip zmin zsoil cur rest in
  li_ok (snd (fst r)) /\ Forall li_ok (snd r) /\ (snd r = [] \/ zmin < fst (fst r)).
Proof.
  intros Hcm. induction rest as [|e r IH]; intros zsoil cur Hc Hr; cbn [rd_skip].
  - cbn [fst snd]. split; [exact Hc | split; [constructor | left; reflexivity]].
  - inversion Hr; subst. destruct (nleb num_ops _ zmin) eqn:E; [apply IH; assumption|].
    cbn [fst snd]. split; [exact Hc | split; [exact Hr | right]].
    apply leb_false_R in E. revert E. rnum. apply round2_gt_cm. exact Hcm.
Qed.

(* the walk: result between the top of the current layer and the unrestricted depth; monotone in the depth to place *)
Lemma rd_walk_range : forall rest cur a r dz zs out,
  li_ok cur -> Forall li_ok rest -> zs = a + dz -> (rest = [] \/ 0 <= dz) -> 0 <= r ->
  rd_walk a r dz zs cur rest = Some out -> a <= out <= a + r.
Proof.
  induction rest as [|e rest IH]; intros cur a r dz zs out [Hc0 Hc] Hr Hz Hdz Hr0 H; cbn [rd_walk] in H;
    destruct (snd cur) as [pen|]; try discriminate; specialize (Hc pen eq_refl); revert H; rnum;
    set (k := pen / 100); assert (Hk : 0 <= k <= 1) by (unfold k; lra).
  - intros H; inversion H; subst. split; nra.
  - inversion Hr as [|? ? He Hrest]; subst. destruct Hdz as [Hdz|Hdz]; [discriminate|].
    destruct (Reqb_spec pen 0) as [|Hne]; cbn [orb]; [intros H; inversion H; subst; split; nra|].
    destruct (Rleb_spec (a + r * k) (a + dz)) as [|Hgt]; [intros H; inversion H; subst; split; nra|].
    intros H. assert (Hk0 : 0 < k) by (unfold k; lra).
    remember (dz / k) as q eqn:Eq. assert (Hq : q * k = dz) by (rewrite Eq; field; lra). clear Eq.
    assert (Hq0 : 0 <= q) by nra. assert (Hqd : dz <= q) by nra. assert (Hrq : q < r) by nra.
    eapply IH in H; [| exact He | exact Hrest | reflexivity | right; exact (proj1 He) | lra].
    revert H. rnum. intros H. lra.
Qed.

Lemma rd_walk_mono : forall rest cur a r1 r2 dz zs o1 o2,
  li_ok cur -> Forall li_ok rest -> zs = a + dz -> (rest = [] \/ 0 <= dz) -> 0 <= r1 -> r1 <= r2 ->
  rd_walk a r1 dz zs cur rest = Some o1 -> rd_walk a r2 dz zs cur rest = Some o2 -> o1 <= o2.
Proof.
  induction rest as [|e rest IH]; intros cur a r1 r2 dz zs o1 o2 [Hc0 Hc] Hr Hz Hdz Hr0 Hr12 H1 H2;
    cbn [rd_walk] in H1, H2; destruct (snd cur) as [pen|]; try discriminate; specialize (Hc pen eq_refl);
    revert H1 H2; rnum; set (k := pen / 100); assert (Hk : 0 <= k <= 1) by (unfold k; lra).
  - intros K1 K2; inversion K1; inversion K2; subst. nra.
  - inversion Hr as [|? ? He Hrest]; subst. destruct Hdz as [Hdz|Hdz]; [discriminate|].
    destruct (Reqb_spec pen 0) as [|Hne]; cbn [orb]; [intros K1 K2; inversion K1; inversion K2; subst; nra|].
    assert (Hk0 : 0 < k) by (unfold k; lra).
    remember (dz / k) as q eqn:Eq. assert (Hq : q * k = dz) by (rewrite Eq; field; lra). clear Eq.
    destruct (Rleb_spec (a + r1 * k) (a + dz)) as [Hle1|Hgt1]; destruct (Rleb_spec (a + r2 * k) (a + dz)) as [Hle2|Hgt2];
      intros K1 K2.
    + inversion K1; inversion K2; subst. nra.
    + inversion K1; subst. assert (Hrq : q < r2) by nra.
      eapply rd_walk_range in K2; [| exact He | exact Hrest | reflexivity | right; exact (proj1 He) | lra]. lra.
    + exfalso. nra.
    + assert (Hrq : q < r1) by nra.
      eapply (IH e (a + dz) (r1 - q) (r2 - q)); [exact He | exact Hrest | reflexivity | right; exact (proj1 He) | lra | lra | exact K1 | exact K2].
Qed.

(* _restricted_depth(Z) for Z >= Zmin:  Zmin <= restricted <= Z, monotone in Z *)
Lemma rd_restrict_range p zmin z out :
  wf_prof p -> pen_ok p -> zmin_cm zmin -> zmin <= z -> rd_restrict p zmin z = Some out -> zmin <= out <= z.
Proof.
  intros Hw Hp Hcm Hz. unfold rd_restrict.
  pose proof (layer_tab_ok p Hw Hp (nunique (map c_layer p)) 1%Z) as Ht.
  destruct (layer_tab p 1 (nunique (map c_layer p))) as [|e r]; [discriminate|].
  inversion Ht; subst.
  pose proof (rd_skip_ok zmin Hcm r (fst e) e ltac:(assumption) ltac:(assumption)) as (A & B & C).
  destruct (rd_skip zmin (fst e) e r) as [[zsoil cur] rest]. cbn [fst snd] in A, B, C.
  intros H. eapply rd_walk_range in H; [| exact A | exact B | rnum; lra | | rnum; lra].
  - revert H. rnum. intros; lra.
  - destruct C as [C|C]; [left; exact C | right; rnum; lra].
Qed.

Lemma rd_restrict_mono p zmin z1 z2 o1 o2 :
  wf_prof p -> pen_ok p -> zmin_cm zmin -> zmin <= z1 -> z1 <= z2 ->
  rd_restrict p zmin z1 = Some o1 -> rd_restrict p zmin z2 = Some o2 -> o1 <= o2.
Proof.
  intros Hw Hp Hcm Hz H12. unfold rd_restrict.
  pose proof (layer_tab_ok p Hw Hp (nunique (map c_layer p)) 1%Z) as Ht.
  destruct (layer_tab p 1 (nunique (map c_layer p))) as [|e r]; [discriminate|].
  inversion Ht; subst.
  pose proof (rd_skip_ok zmin Hcm r (fst e) e ltac:(assumption) ltac:(assumption)) as (A & B & C).
  destruct (rd_skip zmin (fst e) e r) as [[zsoil cur] rest]. cbn [fst snd] in A, B, C.
  intros K1 K2. eapply (rd_walk_mono rest cur zmin (z1 - zmin) (z2 - zmin)); [exact A | exact B | | | | | exact K1 | exact K2];
    try (rnum; lra).
  destruct C as [C|C]; [left; exact C | right; rnum; lra].
Qed.

(* the guarded version used for yesterday's depth (identity at Zmin) *)
Lemma rd_restricted_range p zmin z out :
  wf_prof p -> pen_ok p -> zmin_cm zmin -> zmin <= z -> rd_restricted p zmin z = Some out -> zmin <= out <= z.
Proof.
  intros Hw Hp Hcm Hz. unfold rd_restricted. destruct (nltb num_ops zmin z).
  - apply rd_restrict_range; assumption.
  - intros H; inversion H; subst; lra.
Qed.

Lemma rd_restricted_mono p zmin z1 z2 o1 o2 :
  wf_prof p -> pen_ok p -> zmin_cm zmin -> zmin <= z1 -> z1 <= z2 ->
  rd_restricted p zmin z1 = Some o1 -> rd_restricted p zmin z2 = Some o2 -> o1 <= o2.
Proof.
  intros Hw Hp Hcm Hz H12. unfold rd_restricted.
  destruct (nltb num_ops zmin z1) eqn:E1; destruct (nltb num_ops zmin z2) eqn:E2.
  - apply rd_restrict_mono; assumption.
  - apply ltb_true_R in E1. apply ltb_false_R in E2. lra.
  - apply ltb_false_R in E1. intros H1 H2. inversion H1; subst.
    apply rd_restrict_range in H2; try assumption; lra.
  - intros H1 H2; inversion H1; inversion H2; subst; lra.
Qed.
(* ---- reductions of the day's expansion --------------------------------------------------------------- *)
Lemma rd_stomatal_range c trr d :
  0 <= trr <= 1 -> 0 <= d -> 0 <= rd_stomatal c trr d <= d.
Proof.
  intros Ht Hd. unfold rd_stomatal. rnum.
  destruct (Rltb_spec trr (9999 / 10000)); [|lra].
  destruct (Rleb_spec 0 (rc_fshape_ex c)).
  - split; nra.
  - assert (Hf : rc_fshape_ex c <> 0) by lra.
    pose proof (shape_range (rc_fshape_ex c) trr Hf Ht) as Hs. unfold shape in Hs.
    set (k := (exp (trr * rc_fshape_ex c) - 1) / (exp (rc_fshape_ex c) - 1)) in *. split; nra.
Qed.

Lemma rd_find_in zi : forall p th cm t, rd_find zi p th = Some (cm, t) -> In cm p.
Proof.
  induction p as [|c p IH]; intros th cm t H; cbn [rd_find] in H; [discriminate|].
  destruct th as [|t0 th]; destruct (nleb _ _ _); try discriminate.
  - right; eapply IH; eassumption.
  - inversion H; subst; left; reflexivity.
  - right; eapply IH; eassumption.
Qed.

Lemma rd_dry_range c p th zinit d d' :
  rc_ok c -> wf_prof p -> 0 <= d -> rd_dry c p th zinit d = Some d' -> 0 <= d' <= d.
Proof.
  intros Hc Hp Hd. unfold rd_dry.
  destruct (nltb num_ops _ d); [|intros H; inversion H; subst; lra].
  destruct (rd_find _ p th) as [[cm t]|] eqn:E; [|discriminate].
  apply rd_find_in in E. pose proof (proj1 (Forall_forall _ _) Hp cm E) as Hcm.
  pose proof (wf_wp_fc cm Hcm) as Hw. destruct (ok_pup c Hc) as [Hp0 Hp1]. pose proof (ok_fw c Hc) as Hfw.
  rnum.
  set (pz := rc_pup1 c + (1 - rc_pup1 c) / 2). assert (Hpz : 0 <= pz < 1) by (unfold pz; lra).
  set (taw := c_th_fc cm - c_th_wp cm). assert (Htaw : 0 < taw) by (unfold taw; lra).
  destruct (Rltb_spec t (c_th_fc cm - pz * taw)) as [Hlt|]; [|intros H; inversion H; subst; lra].
  destruct (Rleb_spec t (c_th_wp cm)) as [|Hgt]; intros H; inversion H; subst; clear H; [lra|].
  set (wrel := (c_th_fc cm - t) / taw).
  assert (Hw1 : pz < wrel < 1).
  { unfold wrel. split.
    - apply (proj2 (div_gt_iff (c_th_fc cm - t) taw pz Htaw)). lra.
    - apply (proj2 (div_lt_iff (c_th_fc cm - t) taw 1 Htaw)). unfold taw. lra. }
  set (drel := 1 - (1 - wrel) / (1 - pz)).
  assert (Hd1 : 0 <= drel <= 1).
  { unfold drel. assert (0 <= (1 - wrel) / (1 - pz) <= 1) by (apply frac_range; lra). lra. }
  pose proof (shape_range (rc_fshape_w1 c) drel Hfw Hd1) as Hs. unfold shape in Hs.
  set (k := (exp (drel * rc_fshape_w1 c) - 1) / (exp (rc_fshape_w1 c) - 1)) in *. split; nra.
Qed.

(* the day's expansion lies between 0 and the growth of the RESTRICTED potential depth *)
Lemma rd_dzr_range c p th zinit zrold zr trr cc ccns germ d :
  rc_ok c -> wf_prof p -> pen_ok p -> zmin_cm (rc_Zmin c) -> 0 <= trr <= 1 -> rc_Zmin c <= zrold -> zrold <= zr ->
  rd_dzr c p th zinit zrold zr trr cc ccns germ = Some d ->
  exists zo zn, rd_restricted p (rc_Zmin c) zrold = Some zo /\ rd_restricted p (rc_Zmin c) zr = Some zn /\ 0 <= d <= zn - zo.
Proof.
  intros Hc Hp Hpen Hcm Ht Hlo Hz. unfold rd_dzr.
  assert (H0 : forall d0, (if nltb num_ops (rc_Zmin c) zr
                           then match rd_restrict p (rc_Zmin c) zr with
                                | Some zr1 => match rd_restricted p (rc_Zmin c) zrold with
                                              | Some zo1 => Some (nsub num_ops zr1 zo1) | None => None end
                                | None => None end
                           else Some (nsub num_ops zr zrold)) = Some d0 ->
            exists zo zn, rd_restricted p (rc_Zmin c) zrold = Some zo /\ rd_restricted p (rc_Zmin c) zr = Some zn /\
                          d0 = zn - zo /\ zo <= zn).
  { intros d0. unfold rd_restricted at 3. destruct (nltb num_ops (rc_Zmin c) zr) eqn:E.
    - destruct (rd_restrict p (rc_Zmin c) zr) as [zr1|] eqn:E1; [|discriminate].
      destruct (rd_restricted p (rc_Zmin c) zrold) as [zo1|] eqn:E2; [|discriminate].
      intros H; inversion H; subst. exists zo1, zr1. repeat split; try reflexivity.
      eapply (rd_restricted_mono p (rc_Zmin c) zrold zr); try eassumption.
      unfold rd_restricted. rewrite E. exact E1.
    - intros H; inversion H; subst. apply ltb_false_R in E.
      assert (K : nltb num_ops (rc_Zmin c) zrold = false) by (rnum; apply Rltb_false; lra).
      unfold rd_restricted. rewrite K.
      exists zrold, zr. repeat split; try reflexivity. exact Hz. }
  destruct (if nltb num_ops (rc_Zmin c) zr then _ else _) as [d0|]; [|discriminate].
  destruct (H0 d0 eq_refl) as (zo & zn & Eo & En & -> & Hle). clear H0.
  pose proof (rd_stomatal_range c trr (zn - zo) Ht ltac:(lra)) as Hs.
  destruct (rd_dry c p th zinit _) as [d1|] eqn:E; [|discriminate].
  apply rd_dry_range in E; [| assumption | assumption | lra].
  intros H; inversion H; subst; clear H. exists zo, zn. split; [exact Eo | split; [exact En|]]. rnum.
  destruct (_ && _); destruct germ; lra.
Qed.

(* ---- water table -------------------------------------------------------------------------------------- *)
Lemma rd_table_range zmin z zgw wt : zmin <= z -> zmin <= rd_table zmin z zgw wt <= z.
Proof. intros H. unfold rd_table. rnum. destruct (_ =? _)%Z; cbn [andb]; rcases; lra. Qed.

Lemma rd_table_cases zmin z zgw wt :
  rd_table zmin z zgw wt = z \/ (wt = 1%Z /\ 0 < zgw /\ zgw < z /\ rd_table zmin z zgw wt = Rmax zgw zmin).
Proof.
  unfold rd_table. rnum. destruct (Z.eqb_spec wt 1); cbn [andb]; [|left; reflexivity].
  destruct (Rltb_spec 0 zgw); [|left; reflexivity].
  destruct (Rltb_spec zgw z); [|left; reflexivity].
  right. repeat split; try assumption.
  destruct (Rltb_spec zgw zmin); [rewrite Rmax_right by lra | rewrite Rmax_left by lra]; reflexivity.
Qed.

Lemma rd_table_above zmin z zgw : 0 < zgw -> rd_table zmin z zgw 1 <= Rmax zgw zmin.
Proof.
  intros H. unfold rd_table. rnum. cbn [Z.eqb Pos.eqb andb]. rewrite Rltb_true by exact H.
  pose proof (Rmax_l zgw zmin). pose proof (Rmax_r zgw zmin). rcases; lra.
Qed.

(* ---- inversion of the top-level function --------------------------------------------------------------- *)
Lemma root_development_inv c p dap zroot dcd gddcum dgdd trr th cc ccns germ rcor tpot zgw gdd wt z' r' :
  rc_fshape_r c <> 0 ->
  root_development c p dap zroot dcd gddcum dgdd trr th cc ccns germ rcor tpot zgw gdd true wt = Some (z', r') ->
  exists tadj told d,
    rd_times c dap dcd gddcum dgdd gdd = Some (tadj, told) /\
    rd_dzr c p th (if (dap =? 1)%Z then rc_Zmin c else zroot) (pot c told) (pot c tadj) trr cc ccns germ = Some d /\
    z' = rd_table (rc_Zmin c) ((if (dap =? 1)%Z then rc_Zmin c else zroot) + d) zgw wt.
Proof.
  intros Hf. unfold root_development.
  destruct (rd_times c dap dcd gddcum dgdd gdd) as [[tadj told]|]; [|discriminate].
  destruct (rd_potential c told) as [[zrold b1]|] eqn:E1; [|discriminate].
  destruct (rd_potential c tadj) as [[zr b2]|] eqn:E2; [|discriminate].
  apply rd_potential_eq in E1; [|exact Hf]. apply rd_potential_eq in E2; [|exact Hf]. subst zrold zr.
  destruct (rd_dzr _ _ _ _ _ _ _ _ _ _) as [d|] eqn:E3; [|discriminate].
  destruct (rd_rcor _ _ _ _ _ _) as [r1|]; [|discriminate].
  intros H; inversion H; subst. exists tadj, told, d. repeat split; try reflexivity. exact E3.
Qed.


(* ---- C05: rooting depth ---------------------------------------------------------------------------------
   Hypotheses common to the theorems: valid crop (rc_ok) with Zmin in whole centimetres (zmin_cm), valid soil (wf_prof:
   positive thicknesses ...) whose penetrabilities are percentages (pen_ok: 0 <= Penetrability <= 100; NO assumption on
   the layer numbering — a broken numbering makes the code raise, i.e. the model returns None), transpiration ratio in
   [0,1], non-negative degree days.  [rd_restricted p Zmin Z] is `_restricted_depth(Z)` (identity for Z <= Zmin). *)

(* 1. range.  The invariant is  Zmin <= z_root <= restricted potential depth at yesterday's time — stronger than
      z_root <= Zmax, which alone is not inductive (root_range_weak_refuted) — and it is re-established with today's time;
      on the first day after planting nothing is assumed about z_root. *)
Theorem root_range c p dap zroot dcd gddcum dgdd trr th cc ccns germ rcor tpot zgw gdd wt tadj told z' r' :
  rc_ok c -> zmin_cm (rc_Zmin c) -> wf_prof p -> pen_ok p -> 0 <= trr <= 1 -> 0 <= gdd ->
  rd_times c dap dcd gddcum dgdd gdd = Some (tadj, told) ->
  root_development c p dap zroot dcd gddcum dgdd trr th cc ccns germ rcor tpot zgw gdd true wt = Some (z', r') ->
  dap = 1%Z \/ (rc_Zmin c <= zroot /\ forall zo, rd_restricted p (rc_Zmin c) (pot c told) = Some zo -> zroot <= zo) ->
  exists zn, rd_restricted p (rc_Zmin c) (pot c tadj) = Some zn /\
             rc_Zmin c <= z' <= zn /\ zn <= pot c tadj <= rc_Zmax c.
Proof.
  intros Hc Hcm Hp Hpen Ht Hg Htimes H Hinv.
  assert (Hf : rc_fshape_r c <> 0) by (pose proof (ok_fr c Hc); lra).
  apply root_development_inv in H; [|exact Hf].
  destruct H as (tadj' & told' & d & Et & Ed & ->). rewrite Htimes in Et. inversion Et; subst tadj' told'; clear Et.
  pose proof (rd_times_le _ _ _ _ _ _ _ _ Hg Htimes) as Hle.
  pose proof (pot_mono c told tadj Hc Hle) as Hm.
  pose proof (pot_range c told Hc) as Hr1. pose proof (pot_range c tadj Hc) as Hr2.
  apply rd_dzr_range in Ed; try assumption; [|lra].
  destruct Ed as (zo & zn & Eo & En & Hd).
  pose proof (rd_restricted_range _ _ _ _ Hp Hpen Hcm (proj1 Hr1) Eo) as Ho.
  pose proof (rd_restricted_range _ _ _ _ Hp Hpen Hcm (proj1 Hr2) En) as Hn.
  exists zn. split; [exact En|].
  set (zinit := if (dap =? 1)%Z then rc_Zmin c else zroot) in *.
  assert (Hz : rc_Zmin c <= zinit <= zo).
  { unfold zinit. destruct (Z.eqb_spec dap 1); [lra|]. destruct Hinv as [|[A B]]; [contradiction|]. specialize (B zo Eo). lra. }
  pose proof (rd_table_range (rc_Zmin c) (zinit + d) zgw wt ltac:(lra)). rnum. lra.
Qed.

(* 2. monotone: the roots never shrink, except when a water table inside the root zone forces them up *)
Theorem root_monotone c p dap zroot dcd gddcum dgdd trr th cc ccns germ rcor tpot zgw gdd wt z' r' :
  rc_ok c -> zmin_cm (rc_Zmin c) -> wf_prof p -> pen_ok p -> 0 <= trr <= 1 -> 0 <= gdd ->
  (dap <> 1)%Z ->
  root_development c p dap zroot dcd gddcum dgdd trr th cc ccns germ rcor tpot zgw gdd true wt = Some (z', r') ->
  zroot <= z' \/ (wt = 1%Z /\ 0 < zgw /\ z' = Rmax zgw (rc_Zmin c)).
Proof.
  intros Hc Hcm Hp Hpen Ht Hg Hdap H.
  assert (Hf : rc_fshape_r c <> 0) by (pose proof (ok_fr c Hc); lra).
  apply root_development_inv in H; [|exact Hf].
  destruct H as (tadj & told & d & Et & Ed & ->).
  pose proof (rd_times_le _ _ _ _ _ _ _ _ Hg Et) as Hle.
  pose proof (pot_mono c told tadj Hc Hle) as Hm. pose proof (pot_range c told Hc) as Hr1.
  apply rd_dzr_range in Ed; try assumption; [|lra]. destruct Ed as (zo & zn & _ & _ & Hd).
  apply Z.eqb_neq in Hdap. rewrite Hdap in *. cbv iota in *.
  match goal with |- context [rd_table ?a ?b ?c ?d] =>
    destruct (rd_table_cases a b c d) as [E|(E1 & E2 & E3 & E)]; rewrite E end.
  - left. rnum. lra.
  - right. repeat split; assumption.
Qed.

(* on the first day after planting the roots start from Zmin whatever z_root was *)
Theorem root_first_day c p zroot dcd gddcum dgdd trr th cc ccns germ rcor tpot zgw gdd wt z' r' :
  rc_ok c -> zmin_cm (rc_Zmin c) -> wf_prof p -> pen_ok p -> 0 <= trr <= 1 -> 0 <= gdd ->
  root_development c p 1 zroot dcd gddcum dgdd trr th cc ccns germ rcor tpot zgw gdd true wt = Some (z', r') ->
  rc_Zmin c <= z' <= rc_Zmax c.
Proof.
  intros Hc Hcm Hp Hpen Ht Hg H.
  destruct (rd_times c 1 dcd gddcum dgdd gdd) as [[tadj told]|] eqn:E.
  - eapply root_range in H; try eassumption; [|left; reflexivity]. destruct H as (zn & _ & A & B). lra.
  - unfold root_development in H. rewrite E in H. discriminate.
Qed.

(* 3. roots do not reach below a water table that lies below the soil surface (z_gw > 0), unless it is shallower than Zmin *)
Theorem root_above_table c p dap zroot dcd gddcum dgdd trr th cc ccns germ rcor tpot zgw gdd z' r' :
  0 < zgw ->
  root_development c p dap zroot dcd gddcum dgdd trr th cc ccns germ rcor tpot zgw gdd true 1 = Some (z', r') ->
  z' <= Rmax zgw (rc_Zmin c).
Proof.
  intros Hz. unfold root_development.
  destruct (rd_times _ _ _ _ _ _) as [[tadj told]|]; [|discriminate].
  destruct (rd_potential c told) as [[zrold b1]|]; [|discriminate].
  destruct (rd_potential c tadj) as [[zr b2]|]; [|discriminate].
  destruct (rd_dzr _ _ _ _ _ _ _ _ _ _) as [d|]; [|discriminate].
  destruct (rd_rcor _ _ _ _ _ _) as [r1|]; [|discriminate].
  intros H; inversion H; subst. apply rd_table_above. exact Hz.
Qed.

(* 4. no root system outside the growing season; the root-density correction is left alone *)
Theorem root_off_season c p dap zroot dcd gddcum dgdd trr th cc ccns germ rcor tpot zgw gdd wt :
  root_development c p dap zroot dcd gddcum dgdd trr th cc ccns germ rcor tpot zgw gdd false wt = Some (0, rcor).
Proof. reflexivity. Qed.

(* ---- witnesses ------------------------------------------------------------------------------------------ *)
(* Wheat (catalogue values) *)
Definition ex_crop : RootCrop R :=
  {| rc_Zmin := 3/10; rc_Zmax := 15/10; rc_PctZmin := 70; rc_Emergence := 13; rc_MaxRooting := 93; rc_fshape_r := 15/10;
     rc_fshape_ex := -6; rc_cal := 1; rc_SxTop := 54/1000; rc_SxBot := 6/1000; rc_pup1 := 65/100; rc_fshape_w1 := 25/10 |}.

Lemma ex_crop_ok : rc_ok ex_crop.
Proof. constructor; unfold rd_zini; cbn; rnum; lra. Qed.
Lemma ex_crop_cm : zmin_cm (rc_Zmin ex_crop).
Proof. exists 30%Z. cbn. lra. Qed.

(* a one-layer soil, 4 m deep, whose penetrability is [pen] % *)
Definition pen_comp (pen : R) : Comp R :=
  {| c_dz := 4; c_dzsum := 4; c_zmid := 2; c_layer := 1; c_th_dry := 5/100; c_th_wp := 10/100;
     c_th_fc := 22/100; c_th_s := 41/100; c_ksat := 1200; c_tau := 1; c_pen := pen; c_acr := 0; c_bcr := 0 |}.

Lemma pen_prof_wf pen : wf_prof [pen_comp pen].
Proof. repeat constructor; cbn; lra. Qed.
Lemma pen_prof_ok pen : 0 <= pen <= 100 -> pen_ok [pen_comp pen].
Proof. intros H. unfold pen_ok. constructor; [cbn; lra | constructor]. Qed.

(* evaluation lemmas for the witness runs *)
Lemma ex_pot_max t : 93 <= t -> rd_potential ex_crop t = Some (15/10, false).
Proof.
  intros H. unfold rd_potential, rd_pot. cbn [ex_crop rc_MaxRooting rc_Zmax rc_Zmin]. rnum.
  rewrite (Rleb_true 93 t) by exact H. cbn [fst]. rewrite (Rltb_false (15/10) (3/10)) by lra. reflexivity.
Qed.

Lemma ex_restrict pen zr : rd_restrict [pen_comp pen] (3/10) zr = Some (3/10 + (zr - 3/10) * (pen / 100)).
Proof. unfold rd_restrict. cbn. reflexivity. Qed.

Lemma ex_restricted pen zr : 3/10 < zr -> rd_restricted [pen_comp pen] (3/10) zr = Some (3/10 + (zr - 3/10) * (pen / 100)).
Proof. intros H. unfold rd_restricted. rnum. rewrite Rltb_true by exact H. apply ex_restrict. Qed.

(* potential depth at Zmax yesterday and today, no stress, canopy alive, germinated: no expansion *)
Lemma ex_dzr pen th zinit :
  rd_dzr ex_crop [pen_comp pen] th zinit (15/10) (15/10) 1 (8/10) (8/10) true
  = Some (3/10 + (15/10 - 3/10) * (pen / 100) - (3/10 + (15/10 - 3/10) * (pen / 100))).
Proof.
  unfold rd_dzr. cbn [ex_crop rc_Zmin]. rnum. rewrite (Rltb_true (3/10) (15/10)) by lra.
  rewrite ex_restrict, ex_restricted by lra. unfold rd_stomatal, rd_dry. rnum. rewrite (Rltb_false 1 (9999/10000)) by lra.
  rewrite Rltb_false by lra. rewrite (Rleb_false (8/10) 0) by lra. reflexivity.
Qed.

Lemma ex_rcor z zr b tpot trr : z <> 0 -> rd_rcor ex_crop z zr b tpot trr <> None.
Proof.
  intros Hz. unfold rd_rcor. cbn [ex_crop rc_SxBot rc_SxTop]. rnum.
  destruct (Rltb z zr); [|discriminate].
  destruct (Reqb_spec z 0); [contradiction|]. destruct (Reqb_spec (6/1000) 0); [exfalso; lra|].
  rewrite andb_false_r. destruct (Rltb 0 tpot); discriminate.
Qed.

(* day 100 after planting (the potential depth reached Zmax on day 93), roots at [zroot], no stress: the roots stay *)
Lemma ex_run pen zroot zgw wt :
  zroot <> 0 ->
  exists z r', root_development ex_crop [pen_comp pen] 100 zroot 0 0 0 1 [22/100] (8/10) (8/10) true 1 3 zgw 0 true wt
               = Some (rd_table (3/10) z zgw wt, r') /\ z = zroot.
Proof.
  intros Hz. unfold root_development.
  replace (rd_times ex_crop 100 0 0 0 0) with (Some (100, 99)) by (unfold rd_times; cbn; reflexivity).
  rewrite (ex_pot_max 99), (ex_pot_max 100) by lra. cbn [Z.eqb Pos.eqb].
  rewrite ex_dzr.
  set (d := 3/10 + (15/10 - 3/10) * (pen / 100) - (3/10 + (15/10 - 3/10) * (pen / 100))).
  assert (Hd : d = 0) by (unfold d; lra).
  pose proof (ex_rcor (zroot + d) (15/10) false 3 1 ltac:(lra)) as Hr.
  destruct (rd_rcor _ _ _ _ _ _) as [r|]; [|contradiction]. eexists; eexists; split; [reflexivity|]. rnum. lra.
Qed.

Lemma ex_pot t : 93 <= t -> pot ex_crop t = 15/10.
Proof. intros H. symmetry. eapply rd_potential_eq; [cbn; lra | apply ex_pot_max; exact H]. Qed.

Lemma ex_times : rd_times ex_crop 100 0 0 0 0 = Some (100, 99).
Proof. unfold rd_times; cbn; reflexivity. Qed.

(* the hypotheses of theorems 1–3 are satisfiable: Wheat on a fully penetrable soil, day 100, roots at 1 m, a water table
   at 0.8 m: the roots are lifted to 0.8 m *)
Example root_theorems_example :
  exists z' r',
    rc_ok ex_crop /\ zmin_cm (rc_Zmin ex_crop) /\ wf_prof [pen_comp 100] /\ pen_ok [pen_comp 100] /\ 0 <= 1 <= 1 /\ 0 <= 0 /\
    (100 <> 1)%Z /\ rd_times ex_crop 100 0 0 0 0 = Some (100, 99) /\
    root_development ex_crop [pen_comp 100] 100 1 0 0 0 1 [22/100] (8/10) (8/10) true 1 3 (8/10) 0 true 1 = Some (z', r') /\
    (rc_Zmin ex_crop <= 1 /\ forall zo, rd_restricted [pen_comp 100] (rc_Zmin ex_crop) (pot ex_crop 99) = Some zo -> 1 <= zo) /\
    0 < 8/10 /\ z' = 8/10.
Proof.
  destruct (ex_run 100 1 (8/10) 1 ltac:(lra)) as (z & r' & E & ->).
  eexists; exists r'.
  split; [exact ex_crop_ok | split; [exact ex_crop_cm | split; [apply pen_prof_wf | split; [apply pen_prof_ok; lra |
  split; [lra | split; [lra | split; [lia | split; [exact ex_times | split; [exact E | split; [split|split; [lra|]]]]]]]]]]].
  - cbn. lra.
  - intros zo. rewrite ex_pot by lra. cbn [ex_crop rc_Zmin]. rewrite ex_restricted by lra. intros H; inversion H; subst. lra.
  - unfold rd_table. rnum. cbn [Z.eqb Pos.eqb andb]. rdecide. reflexivity.
Qed.

(* ... and with a restrictive horizon: the same day on a soil of 50 % penetrability, roots at the restricted potential depth
   0.3 + (1.5 − 0.3)·0.5 = 0.9 m: they stay there (before the repair of the package they shrank by 0.6 m a day) *)
Example root_restrictive_example :
  exists z' r',
    pen_ok [pen_comp 50] /\
    root_development ex_crop [pen_comp 50] 100 (9/10) 0 0 0 1 [22/100] (8/10) (8/10) true 1 3 (-999) 0 true 0 = Some (z', r') /\
    (rc_Zmin ex_crop <= 9/10 /\ forall zo, rd_restricted [pen_comp 50] (rc_Zmin ex_crop) (pot ex_crop 99) = Some zo -> 9/10 <= zo) /\
    z' = 9/10.
Proof.
  destruct (ex_run 50 (9/10) (-999) 0 ltac:(lra)) as (z & r' & E & ->).
  eexists; exists r'. split; [apply pen_prof_ok; lra | split; [exact E | split; [split|]]].
  - cbn. lra.
  - intros zo. rewrite ex_pot by lra. cbn [ex_crop rc_Zmin]. rewrite ex_restricted by lra. intros H; inversion H; subst. lra.
  - unfold rd_table. cbn [Z.eqb andb]. reflexivity.
Qed.

(* FINDING (minor).  A water table exactly at the soil surface (z_gw = 0, e.g. a flooded field described through the
   groundwater input) is ignored by the guard `NewCond_zGW > 0`: the roots stay where they are, below the table, although
   max(z_gw, Zmin) = Zmin. *)
Theorem root_above_table_surface_refuted :
  exists c p dap zroot dcd gddcum dgdd trr th cc ccns germ rcor tpot gdd z' r',
    rc_ok c /\ zmin_cm (rc_Zmin c) /\ wf_prof p /\ pen_ok p /\
    root_development c p dap zroot dcd gddcum dgdd trr th cc ccns germ rcor tpot 0 gdd true 1 = Some (z', r') /\
    Rmax 0 (rc_Zmin c) < z'.
Proof.
  destruct (ex_run 100 1 0 1 ltac:(lra)) as (z & r' & E & ->).
  exists ex_crop, [pen_comp 100], 100%Z, 1, 0%Z, 0, 0, 1, [22/100], (8/10), (8/10), true, 1, 3, 0.
  eexists; exists r'. split; [exact ex_crop_ok | split; [exact ex_crop_cm | split; [apply pen_prof_wf | split; [apply pen_prof_ok; lra | split; [exact E|]]]]].
  unfold rd_table. rnum. cbn [Z.eqb Pos.eqb andb]. rewrite (Rltb_false 0 0) by lra. cbn [ex_crop rc_Zmin].
  rewrite Rmax_right by lra. lra.
Qed.

(* ---- why the invariant of theorem 1 is  z_root <= (restricted) potential depth  and not just  z_root <= Zmax ---- *)
Lemma ex_t0_le : IZR (rd_t0 ex_crop) <= 7.
Proof.
  unfold rd_t0. cbn [ex_crop rc_Emergence]. rnum.
  pose proof (Znearest_half (fun z => negb (Z.even z)) (13 / 2)) as H.
  apply Rabs_le_inv in H. lra.
Qed.

Lemma ex_pot_92 : 3/10 <= pot ex_crop 92 < 15/10.
Proof.
  split; [apply (pot_range ex_crop 92 ex_crop_ok)|].
  unfold pot, potR. cbn [ex_crop rc_Zmin rc_Zmax rc_MaxRooting rc_fshape_r].
  pose proof ex_t0_le as HT. set (T0 := IZR (rd_t0 ex_crop)) in *.
  assert (Hzi : rd_zini ex_crop = 21/100) by (unfold rd_zini; cbn; rnum; lra). rewrite Hzi.
  rewrite (Rleb_false 93 92) by lra. rewrite (Rleb_false 92 T0) by lra. cbv zeta.
  assert (curve (21/100) (15/10) T0 93 (15/10) 92 < 15/10).
  { unfold curve. pose proof (X_range T0 93 92 ltac:(lra) ltac:(lra)) as HX. rewrite Rpow_pos by lra.
    assert (Hy : 0 < 1 / (15/10)) by lra. pose proof (Rpower_unit _ _ HX Hy). nra. }
  destruct (Rltb _ (3/10)); lra.
Qed.

Lemma ex_dry zinit d : zinit + d <= 4 -> rd_dry ex_crop [pen_comp 100] [22/100] zinit d = Some d.
Proof.
  intros H. unfold rd_dry. rnum. destruct (Rltb (1/1000) d); [|reflexivity].
  cbn [rd_find pen_comp c_dzsum]. rnum. rewrite (Rleb_true (zinit + d) 4) by exact H.
  cbn [c_th_fc c_th_wp pen_comp ex_crop rc_pup1]. rewrite Rltb_false by lra. reflexivity.
Qed.

Lemma ex_dzr_grow zold zinit :
  3/10 <= zold <= 15/10 -> 3/10 <= zinit <= 15/10 ->
  exists d, rd_dzr ex_crop [pen_comp 100] [22/100] zinit zold (15/10) 1 (8/10) (8/10) true = Some d /\ d = 15/10 - zold.
Proof.
  intros Ho Hi. unfold rd_dzr. cbn [ex_crop rc_Zmin]. rnum. rewrite (Rltb_true (3/10) (15/10)) by lra.
  rewrite ex_restrict. unfold rd_restricted. rnum.
  destruct (Rltb_spec (3/10) zold); [rewrite ex_restrict|];
    unfold rd_stomatal; rnum; rewrite (Rltb_false 1 (9999/10000)) by lra;
    rewrite ex_dry by lra; rewrite (Rleb_false (8/10) 0) by lra; cbn [andb]; eexists; (split; [reflexivity|lra]).
Qed.

(* z_root = Zmax on the day the potential depth reaches Zmax (which cannot happen along a run, theorem 1): the roots
   grow past Zmax *)
Theorem root_range_weak_refuted :
  exists c p dap zroot dcd gddcum dgdd trr th cc ccns germ rcor tpot zgw gdd wt z' r',
    rc_ok c /\ zmin_cm (rc_Zmin c) /\ wf_prof p /\ pen_ok p /\ 0 <= trr <= 1 /\ 0 <= gdd /\
    root_development c p dap zroot dcd gddcum dgdd trr th cc ccns germ rcor tpot zgw gdd true wt = Some (z', r') /\
    rc_Zmin c <= zroot <= rc_Zmax c /\
    rc_Zmax c < z'.
Proof.
  pose proof ex_pot_92 as [Hlo Hhi].
  destruct (rd_potential_val ex_crop 92 ltac:(cbn; lra)) as [b E92].
  destruct (ex_dzr_grow (pot ex_crop 92) (15/10) ltac:(lra) ltac:(lra)) as (d & Ed & Hd).
  set (z := 15/10 + d).
  pose proof (ex_rcor z (15/10) false 3 1 ltac:(unfold z; lra)) as Hr.
  destruct (rd_rcor ex_crop z (15/10) false 3 1) as [r|] eqn:Er; [|contradiction].
  exists ex_crop, [pen_comp 100], 93%Z, (15/10), 0%Z, 0, 0, 1, [22/100], (8/10), (8/10), true, 1, 3, (-999), 0, 0%Z, z, r.
  split; [exact ex_crop_ok | split; [exact ex_crop_cm | split; [apply pen_prof_wf | split; [apply pen_prof_ok; lra | split; [lra | split; [lra | split; [|split]]]]]]].
  - unfold root_development.
    replace (rd_times ex_crop 93 0 0 0 0) with (Some (93, 92)) by (unfold rd_times; cbn; reflexivity).
    rewrite E92, (ex_pot_max 93) by lra. cbn [Z.eqb Pos.eqb].
    rewrite Ed. rnum. fold z. rewrite Er.
    unfold rd_table. cbn [Z.eqb andb]. reflexivity.
  - cbn. lra.
  - cbn [ex_crop rc_Zmax]. unfold z. lra.
Qed.
