(* RunCompletesCfg.v — C16 at configuration level: AquaCropModel(<the user's objects>).run_model(till_termination=True) COMPLETES
   (calendar-day crops, no water table), with the premises of RunCompletesP.run_config_completes_partial discharged from
   [initialise cfg = IOk i] and conditions on the configuration as far as they go; what stays on the derived record is [DefDerivedOK].

   Part A  facts about initialise itself: the weather list covers the window, nComp = number of compartments, the soil scalars,
           initialisation of the clock succeeds.
   Part B  the crop records of every season counter.
   Part C  [DefCfgOK] (configuration), [DefDerivedOK] (derived record), [cfg_defok]: DefOK for every row of the weather list.
   Part D  [run_config_completes]. *)
From Coq Require Import Reals List Bool ZArith Lra Lia.
From AC Require Import Num RInst Params Kernels Clock Day DayConcrete RunConcrete.
From AC.Water Require RootZone RainIrr Transpiration Evaporation.
From AC.Crop Require Canopy Roots Yield.
From AC.Init Require Calendar Inputs SoilBuild CropInit InitState.
From AC.Init Require Import Initialise.
From AC.proofs Require Import ProfR DayP DayConcreteP ClockP RunP RunConcreteP DaySideU DaySideP DaySideRun DaySideRun2 DayRowsP DaySideRows.
From AC.proofs Require Import CalendarP InputsP InitStateP DayCropRowsP DayDefinedP RunCompletesP.
From AC.proofs Require Import InitialiseP InitialiseP2 InitialiseP4.
From AC.proofs Require DayCropRowsInit KernelsR EvaporationR RainIrrR YieldR.
Import ListNotations.
Local Open Scope R_scope.

#[local] Existing Instance YieldR.RTrig.

(* ============================================================================================================ *)
(*  Part A  facts about initialise                                                                                *)
(* ============================================================================================================ *)
(* one weather record per day of the window, in date order: the list handed to the clock covers every step *)
Theorem cfg_weather_covers (cfg : Config R) i : initialise cfg = IOk i ->
  window_dates (Initialise.day_of (cf_start cfg)) (Initialise.day_of (cf_end cfg)) (cf_weather cfg)
    = map Some (Inputs.span (Initialise.day_of (cf_start cfg)) (Initialise.day_of (cf_end cfg))) ->
  weather_covers (Day.W R) (i_clock i) (i_weather i) /\ Z.of_nat (length (i_weather i)) = n_steps (i_clock i).
Proof.
  intros Hi Hd. destruct (initialise_nsteps cfg i Hi) as (_ & _ & _ & _ & H). specialize (H Hd). split; [|exact H].
  intros t Ht. unfold nthW. destruct (Z.ltb_spec t 0); [lia|]. intros E. apply nth_error_None in E. lia.
Qed.

(* the soil record: nComp is the number of compartments of the profile, the evaporation depths and z_germ are the user's *)
Theorem cfg_soil_fields (cfg : Config R) i : initialise cfg = IOk i ->
  so_nComp (p_soil (i_par i)) = Z.of_nat (length (so_prof (p_soil (i_par i)))) /\
  so_evap_z_max (p_soil (i_par i)) = so_u_evap_z_max (cf_soil cfg) /\
  so_evap_z_min (p_soil (i_par i)) = so_u_evap_z_min (cf_soil cfg) /\
  so_z_germ (p_soil (i_par i)) = so_u_z_germ (cf_soil cfg) /\
  p_evap_steps (i_par i) = 20%Z.
Proof.
  intros Hi. destruct (initialise_inv _ _ Hi) as [x X]. rewrite (ii_eq _ _ _ X). cbn [i_par]. unfold x_par, par_of. cbn [p_soil p_evap_steps].
  pose proof (ii_soil _ _ _ X) as S. unfold soil_of in S. destruct (x_prof x) as [|c0 r] eqn:Ep; [discriminate|].
  apply ibind_ok in S as (cn & _ & S). injection S as <-. cbn. repeat split; reflexivity.
Qed.

(* the clock of an initialised model starts (the season list is not empty) *)
Theorem cfg_init_c (cfg : Config R) i : initialise cfg = IOk i -> exists m0, init_c (i_clock i) (i_state i) = Ok m0.
Proof.
  intros Hi. destruct (initialise_seasons_spec cfg i Hi) as (mat & wsel & _ & H). cbv zeta in H.
  destruct H as (_ & _ & _ & Hy & Hl & _).
  unfold init_c, init_model. destruct (plant (i_clock i)) as [|p r]; [cbn in Hl; lia|]. eauto.
Qed.

(* ============================================================================================================ *)
(*  Part B  the crop records of every season counter                                                              *)
(* ============================================================================================================ *)
(* the daily crop record of season counter k is dcrop_of / the filler of dcrop_of, and the full record it selects is cropfull_of the
   user's crop and a CropOut that shares CC0, SxTop, SxBot with the one of initialisation *)
Lemma sel_crop_cfg (cfg : Config R) (x : Parts) k :
  exists o, same_core (x_o0 x) o /\
    x_crops cfg x (c_id (sel_crop (x_par cfg x) k)) = cropfull_of (cf_crop cfg) o /\
    c_GDDmethod (sel_crop (x_par cfg x) k) = u_GDDmethod (cf_crop cfg) /\
    c_CalendarType (sel_crop (x_par cfg x) k) = u_CalendarType (cf_crop cfg).
Proof.
  unfold sel_crop. destruct (0 <=? k)%Z eqn:Ek.
  - exists (snd (fst (look3 (x_seasons cfg x) (conc0_of cfg) (x_o0 x) k))). split; [apply look3_core|].
    unfold x_par, par_of. cbn [p_crop dcrop_of c_id c_GDDmethod c_CalendarType]. repeat split; reflexivity.
  - exists (x_o0 x). split; [repeat split|].
    unfold x_par, par_of. cbn [p_fallow_crop fallow_crop dcrop_of c_id c_GDDmethod c_CalendarType]. unfold x_crops, crops_of, look3.
    change (-1 <? 0)%Z with true. repeat split; reflexivity.
Qed.

(* ============================================================================================================ *)
(*  Part B.2  the season resets of a calendar-day crop do not raise                                                *)
(* ============================================================================================================ *)
(* For a calendar-day crop reset_initial_conditions can raise only in `co2_data_processed.loc[year]` (KeyError), with the calendar year
   of the season's planting date; that year lies between the years of the start and the end date, for which compute_variables built
   the processed series. *)
Lemma find_all_false {A} (f : A -> bool) (l : list A) : (forall a, In a l -> f a = false) -> find f l = None.
Proof. induction l as [|a l IH]; intros H; cbn [find]; [reflexivity|]. rewrite (H a (or_introl eq_refl)). apply IH. intros b Hb. apply H. right. exact Hb. Qed.

Lemma mapr_find (f : Z -> Inputs.res (Z * R)) l bs y : (forall a b, f a = Inputs.Ok b -> fst b = a) ->
  Inputs.mapr f l = Inputs.Ok bs -> In y l -> find (fun p : Z * R => Z.eqb (fst p) y) bs <> None.
Proof.
  intros Hf. revert bs. induction l as [|a l IH]; cbn [Inputs.mapr]; intros bs H Hy; [contradiction|].
  apply bindr_ok in H as (b0 & E0 & H). apply bindr_ok in H as (bs0 & E1 & H). injection H as <-. cbn [find].
  destruct (Z.eqb_spec (fst b0) y) as [_|Hne]; [discriminate|]. apply (IH _ E1).
  destruct Hy as [->|Hy]; [rewrite (Hf _ _ E0) in Hne; contradiction|exact Hy].
Qed.

Lemma md_valid_year pl y : md_valid pl = true -> Calendar.valid_date y (fst pl) (snd pl) = true.
Proof.
  unfold md_valid, Calendar.valid_date. rewrite !andb_true_iff, !Z.leb_le. pose proof (dim_1990_le y (fst pl)). intros (((A & B) & C) & D).
  repeat split; lia.
Qed.

Lemma year_of_valid y m d : Calendar.valid_date y m d = true -> year_of_day (Calendar.days_from_civil y m d) = y.
Proof. intros V. unfold year_of_day. rewrite (civil_roundtrip_valid _ _ _ V). reflexivity. Qed.

(* the planting date of every season falls in a calendar year between the start year and the end year *)
Lemma season_year (cfg : Config R) i : initialise cfg = IOk i -> forall p, In p (plant (i_clock i)) ->
  (year_of_day (Initialise.day_of (cf_start cfg)) <= year_of_day (Initialise.day_of (cf_start cfg) + p)
   <= year_of_day (Initialise.day_of (cf_end cfg)))%Z.
Proof.
  intros Hi p Hp. destruct (initialise_inv2 cfg i Hi) as (n & _ & _ & _ & _ & _ & Ecl & _). cbv zeta in Ecl.
  destruct (n_steps_pos _ _ _ Ecl) as (_ & _ & S1 & S2 & _).
  pose proof (sim_date_ok_valid _ S1) as Vs. pose proof (sim_date_ok_valid _ S2) as Ve.
  destruct (initialise_seasons_spec cfg i Hi) as (mat & wsel & _ & H). cbv zeta in H.
  destruct H as (Hwf & Vp & _ & Hy & Hl & Hk & _).
  apply In_nth_error in Hp as [j Hj].
  assert (Hjl : (j < length (plant (i_clock i)))%nat) by (apply nth_error_Some; congruence).
  assert (E1 : nthZ (plant (i_clock i)) (Z.of_nat j) = Some p).
  { unfold nthZ. destruct (Z.ltb_spec (Z.of_nat j) 0); [lia|]. rewrite Nat2Z.id. exact Hj. }
  destruct (nthZ_some_iff (harv (i_clock i)) (Z.of_nat j)) as [h E2]; [rewrite (wf_len _ Hwf); lia|].
  destruct (Hk _ _ _ E1 E2) as [Ep _].
  destruct (cf_start cfg) as [[sy sm] sd] eqn:Est. destruct (cf_end cfg) as [[ey em] ed] eqn:Een.
  cbn [Initialise.day_of CalendarP.day_of] in *. cbn [date_valid] in Vs, Ve.
  replace (Calendar.days_from_civil sy sm sd + p)%Z with (Calendar.days_from_civil (first_year (sy, sm, sd) (u_planting (cf_crop cfg)) + Z.of_nat j)
             (fst (u_planting (cf_crop cfg))) (snd (u_planting (cf_crop cfg)))) by lia.
  rewrite (year_of_valid _ _ _ (md_valid_year _ _ Vp)), (year_of_valid _ _ _ Vs), (year_of_valid _ _ _ Ve).
  rewrite Hl in Hjl. revert Hy Hjl. unfold first_year, last_year.
  repeat match goal with |- context [if ?b then _ else _] => destruct b end; lia.
Qed.

Lemma co2_season_ok sy ey (c c1 : Inputs.CO2 R) y : Inputs.co2_init sy ey c = Inputs.Ok c1 -> (sy <= y <= ey)%Z ->
  exists v, Inputs.co2_season c1 y = Inputs.Ok v.
Proof.
  intros H Hy. destruct (co2_init_fields _ _ _ _ H) as (_ & Ek & _ & Hp & c0 & H0 & _).
  unfold Inputs.co2_season. destruct (Inputs.co2_constant c1).
  - destruct (_ <? _)%num; eauto.
  - destruct (find _ _) as [p|] eqn:Ef; [eauto|]. exfalso. revert Ef. unfold Inputs.co2_process in Hp.
    refine (mapr_find _ _ _ y _ Hp _); [|unfold Inputs.years; apply In_span; exact Hy].
    intros a b. cbn beta. destruct (Inputs.np_interp _ _); [|discriminate]. intros E. injection E as <-. reflexivity.
Qed.

(* every season reset of a calendar-day crop succeeds *)
Theorem cfg_reset_ok (cfg : Config R) i : initialise cfg = IOk i -> u_CalendarType (cf_crop cfg) = 1%Z -> first_bad_season i = None.
Proof.
  intros Hi Hc. pose proof (season_year cfg i Hi) as SY. destruct (initialise_inv _ _ Hi) as [x X].
  rewrite (ii_eq _ _ _ X) in SY |- *. unfold first_bad_season. cbn [i_reset_ok i_clock x_clock plant] in SY |- *.
  apply find_all_false. intros k _. apply negb_false_iff. unfold look3. destruct (k <? 0)%Z; [reflexivity|].
  unfold x_seasons, seasons_of.
  set (f := fun kp : Z * Z => season_of _ _ _ _ _ _ _ (fst kp) (snd kp)).
  destruct (nth_in_or_default (Z.to_nat k) (map f (combine (Calendar.zrange 0 (Z.of_nat (length (x_l x)))) (map fst (x_l x)))) (conc0_of cfg, x_o0 x, true))
    as [Hin | ->]; [|reflexivity].
  apply in_map_iff in Hin as ([k1 p1] & <- & Hin). apply in_combine_r in Hin. specialize (SY _ Hin). cbn [fst snd].
  unfold f, season_of. cbn [fst snd]. destruct ((k1 =? 0)%Z && (x_k0 x =? 0)%Z); [reflexivity|].
  destruct (co2_season_ok _ _ _ _ _ (ii_co2 _ _ _ X) SY) as [v ->]. rewrite Hc. reflexivity.
Qed.

(* ============================================================================================================ *)
(*  Part C  DefOK from the configuration                                                                          *)
(* ============================================================================================================ *)
(* ReferenceET > 0 in every row of the user's weather table (prepare_weather clips at 0.1; the model reads the table as given) *)
Definition weather_et0_pos (t : Inputs.Table R) : Prop :=
  forall r x, In r (Inputs.t_rows t) -> named Inputs.CRefET t r = Inputs.Ok x -> 0 < x.

Lemma weather_rows_pos s e (t tab : Inputs.Table R) wsel :
  weather_et0_pos t -> Inputs.clip_table s e t = Inputs.Ok tab -> Inputs.select_weather tab = Inputs.Ok wsel ->
  Forall (fun r => 0 < Inputs.w_et0 r) wsel.
Proof.
  intros Hn E1 E2.
  assert (Hb : Inputs.bind_weather s e t = Inputs.Ok wsel) by (unfold Inputs.bind_weather; rewrite E1; exact E2).
  destruct (bind_ok_spec _ _ _ _ Hb) as [Hm _].
  apply Forall_forall. intros b Ib. destruct (mapr_In _ _ _ Hm b Ib) as (r & Ir & Er).
  unfold window_rows in Ir. apply filter_In in Ir as [Ir _].
  destruct (wrow_of_named _ _ _ Er) as (_ & _ & _ & He). exact (Hn r _ Ir He).
Qed.

Lemma weather_of_pos wt (wsel : list (Inputs.WRow R)) : forall zgw,
  Forall (fun r => 0 < Inputs.w_et0 r) wsel -> Forall (fun w => 0 < Day.w_et0 w) (weather_of wt wsel zgw).
Proof.
  induction wsel as [|r rest IH]; intros zgw H; cbn [weather_of]; [constructor|].
  inversion H; subst. constructor; [cbn [Day.w_et0]; assumption|apply IH; assumption].
Qed.

(* the premises ON THE CONFIGURATION: code ranges of the crop, the irrigation management, the weather cells, the soil scalars *)
Record DefCfgOK (cfg : Config R) : Prop := {
  dc_cal : u_CalendarType (cf_crop cfg) = 1%Z;                                   (* calendar-day crop *)
  dc_gdd : KernelsR.gdd_ok (u_GDDmethod (cf_crop cfg));
  dc_tr : (u_TrColdStress (cf_crop cfg) = 0 \/ u_TrColdStress (cf_crop cfg) = 1)%Z /\ u_ETadj (cf_crop cfg) = 1%Z;
  dc_pol : (u_PolHeatStress (cf_crop cfg) = 0 \/ u_PolHeatStress (cf_crop cfg) = 1)%Z /\
           (u_PolColdStress (cf_crop cfg) = 0 \/ u_PolColdStress (cf_crop cfg) = 1)%Z;
  dc_type : (u_CropType (cf_crop cfg) = 1 \/ u_CropType (cf_crop cfg) = 2 \/ u_CropType (cf_crop cfg) = 3)%Z;
  (* SxBot as compute_variables derives it from the two quantities is not 0 (it IS 0 when the smaller one is below 1/7 of the larger) *)
  dc_sxbot : snd (CropInit.sx_terms (u_SxTopQ (cf_crop cfg)) (u_SxBotQ (cf_crop cfg))) <> 0;
  dc_method : (0 <= ir_method (cf_irr cfg) <= 5)%Z;
  dc_smt : ir_method (cf_irr cfg) = 1%Z -> length (ir_SMT (cf_irr cfg)) = 4%nat;
  dc_interval : ir_method (cf_irr cfg) = 2%Z -> ir_IrrInterval (cf_irr cfg) <> 0%Z;
  dc_eff : 0 <= ir_AppEff (cf_irr cfg);
  dc_et0 : weather_et0_pos (cf_weather cfg);
  (* one weather record per day of the simulation window, in date order *)
  dc_dates : window_dates (Initialise.day_of (cf_start cfg)) (Initialise.day_of (cf_end cfg)) (cf_weather cfg)
             = map Some (Inputs.span (Initialise.day_of (cf_start cfg)) (Initialise.day_of (cf_end cfg)));
  dc_evapz : 0 <= so_u_evap_z_max (cf_soil cfg) /\ so_u_evap_z_min (cf_soil cfg) <= so_u_evap_z_max (cf_soil cfg) }.

(* what remains a premise on the DERIVED record: the geometry of the deepened profile against Zmax / z_top / z_germ / evap_z_max, the
   curve-number branch of rainfall_partition, the re-indexed irrigation schedule (strategy 3) and YldFormCD of an indeterminate crop *)
Record DefDerivedOK (i : Init R) : Prop := {
  dd_restrict : forall k z, Roots.rd_restrict (so_prof (p_soil (i_par i))) (c_Zmin (sel_crop (i_par i) k)) z <> None;
  dd_deep : forall k, Exists (fun c => Roots.rc_Zmax (cf_root (i_crops i (c_id (sel_crop (i_par i) k)))) <= c_dzsum c /\
                                      Rround 2 (Roots.rc_Zmax (cf_root (i_crops i (c_id (sel_crop (i_par i) k))))) <= c_dzsum c)
                           (so_prof (p_soil (i_par i)));
  dd_top : exists c1 rest, so_prof (p_soil (i_par i)) = c1 :: rest /\ c_dzsum c1 <= Rround 2 (so_z_top (p_soil (i_par i)));
  dd_germ : Exists (fun c => so_z_germ (p_soil (i_par i)) <= c_dzsum c) (so_prof (p_soil (i_par i)));
  dd_evap : EvaporationR.deep_enough (so_prof (p_soil (i_par i))) (so_evap_z_max (p_soil (i_par i)) + 1 / 1000);
  dd_rp : forall k gs P th ds, 0 <= P -> length th = length (so_prof (p_soil (i_par i))) ->
    let f := sel_field (i_par i) k gs in
    RainIrr.rainfall_partition P th ds (f_sr_inhb f) (f_bunds f) (f_z_bund f) (if f_cn_adj f then f_cn_adj_pct f else 0)
      (so_cn (p_soil (i_par i))) (so_adj_cn (p_soil (i_par i))) (so_z_cn (p_soil (i_par i))) (so_nComp (p_soil (i_par i)))
      (so_prof (p_soil (i_par i))) <> None;
  dd_sched : i_method (p_irr (i_par i)) = 3%Z -> forall t, (0 <= t < n_steps (i_clock i))%Z ->
    exists v, RainIrr.py_index (i_Schedule (p_irr (i_par i))) t = Some v /\ 0 <= v;
  dd_yld : forall k, Yield.y_Determinant (cf_y (i_crops i (c_id (sel_crop (i_par i) k)))) = 1 \/
                     Yield.y_YldFormCD (cf_y (i_crops i (c_id (sel_crop (i_par i) k)))) <> 0 }.

Section DefFromCfg.
  Variables (cfg : Config R) (x : Parts) (i : Init R).
  Hypothesis CK : CfgOK cfg.
  Hypothesis DC : DefCfgOK cfg.
  Hypothesis X : IsInit cfg x i.
  Hypothesis Hi : initialise cfg = IOk i.
  Hypothesis DD : DefDerivedOK i.

  Lemma cfg_weather_pos : forall t w, nthW (Day.W R) (i_weather i) t = Some w -> 0 < Day.w_et0 w.
  Proof.
    intros t w. rewrite (ii_eq _ _ _ X). cbn [i_weather]. unfold nthW. destruct (t <? 0)%Z; [discriminate|]. intros E.
    apply nth_error_In in E.
    pose proof (weather_of_pos (gw_present (cf_gw cfg)) (x_wsel x) (x_zgw x)
                  (weather_rows_pos _ _ _ _ _ (dc_et0 _ DC) (ii_tab _ _ _ X) (ii_wsel _ _ _ X))) as H.
    rewrite Forall_forall in H. exact (H _ E).
  Qed.

  Theorem cfg_defok k gs t w : nthW (Day.W R) (i_weather i) t = Some w -> DefOK (i_par i) (i_crops i) k gs t w.
  Proof.
    intros Ew.
    assert (Ht : (0 <= t < n_steps (i_clock i))%Z).
    { destruct (cfg_weather_covers cfg i Hi (dc_dates _ DC)) as [_ Hl]. revert Ew. unfold nthW. destruct (Z.ltb_spec t 0); [discriminate|].
      intros E. assert (nth_error (i_weather i) (Z.to_nat t) <> None) by congruence. apply nth_error_Some in H0. lia. }
    destruct (cfg_soil_fields cfg i Hi) as (_ & Ezx & Ezn & _ & Est).
    pose proof (initialise_irr_spec cfg i Hi) as IS. cbv zeta in IS.
    destruct IS as (Im & Ismt & Ieff & _ & Iint & _ & _ & _ & _ & _ & _ & _ & Ifal).
    pose proof (cfg_weather_ok cfg x i CK X t w Ew) as W2.
    pose proof (dd_restrict _ DD k) as R1. pose proof (dd_deep _ DD k) as R2. pose proof (dd_yld _ DD k) as R3.
    pose proof (dd_rp _ DD k gs) as R4. pose proof (dd_sched _ DD) as R5. pose proof (dd_top _ DD) as R6. pose proof (dd_germ _ DD) as R7.
    pose proof (dd_evap _ DD) as R8.
    pose proof (cfg_no_table cfg x i CK X) as Hwt.
    assert (Hirr : irr_method_ok (sel_irr (i_par i) k) t /\ 0 <= i_AppEff (sel_irr (i_par i) k)).
    { unfold sel_irr. destruct (0 <=? k)%Z.
      - split; [|rewrite Ieff; exact (dc_eff _ DC)]. unfold irr_method_ok. rewrite Im, Ismt, Iint.
        split; [exact (dc_method _ DC)|]. split; [exact (dc_smt _ DC)|]. split; [exact (dc_interval _ DC)|].
        intros E3. apply R5; [rewrite Im; exact E3|exact Ht].
      - rewrite Ifal. unfold fallow_irr, irr_method_ok. cbn [i_method i_AppEff]. split; [|rnum; lra].
        split; [lia|]. repeat split; intros; discriminate. }
    clear DD. revert R1 R2 R3 R4 R6 R7 R8 Hirr Ezx Ezn Est Hwt. rewrite (ii_eq _ _ _ X). cbn [i_par i_crops].
    intros R1 R2 R3 R4 R6 R7 R8 Hirr Ezx Ezn Est Hwt.
    destruct (sel_crop_cfg cfg x k) as (o & (_ & _ & Esx) & Ecf & Eg & Ec).
    destruct (crop_init_core _ _ _ _ _ (ii_o0 _ _ _ X)) as (_ & _ & Esx0).
    cbn [crop_in CropInit.i_SxTopQ CropInit.i_SxBotQ] in Esx0.
    constructor.
    - exact Hwt.
    - rewrite Eg. exact (dc_gdd _ DC).
    - rewrite Ec. left. exact (dc_cal _ DC).
    - rewrite Ecf. cbn [cropfull_of cf_root Roots.rc_cal]. left. exact (dc_cal _ DC).
    - rewrite Ecf. cbn [cropfull_of cf_can Canopy.k_cal]. left. exact (dc_cal _ DC).
    - rewrite Ecf. cbn [cropfull_of cf_root Roots.rc_SxBot]. rewrite Esx, Esx0. exact (dc_sxbot _ DC).
    - exact R1.
    - exact R2.
    - exact R6.
    - exact R7.
    - split; [rewrite Est; lia|]. split; [rewrite Ezx, Ezn; exact (proj2 (dc_evapz _ DC))|exact R8].
    - exact (proj1 Hirr).
    - exact (proj2 Hirr).
    - exact (w2_rain _ W2).
    - exact R4.
    - rewrite Ecf. cbn [cropfull_of cf_tr Transpiration.k_TrColdStress Transpiration.k_ETadj]. exact (dc_tr _ DC).
    - rewrite Ecf. cbn [cropfull_of cf_s Yield.s_PolHeat Yield.s_PolCold]. exact (dc_pol _ DC).
    - rewrite Ecf. cbn [cropfull_of cf_y Yield.y_CropType]. exact (dc_type _ DC).
    - exact R3.
    - intros _. exact (cfg_weather_pos t w Ew).
  Qed.
End DefFromCfg.

(* ============================================================================================================ *)
(*  Part D  the run from the configuration completes                                                             *)
(* ============================================================================================================ *)
(* explicit fuel (the number of days of the window), and the per-row theorems for every day of the completed run *)
Theorem run_config_completes_rows (cfg : Config R) i :
  CfgOK cfg -> DefCfgOK cfg -> initialise cfg = IOk i ->
  DerivedOK i -> ParHIOK (i_par i) (i_crops i) -> DefDerivedOK i ->
  exists m0, init_c (i_clock i) (i_state i) = Ok m0 /\
  forall fuel, (Z.to_nat (Initialise.day_of (cf_end cfg) - Initialise.day_of (cf_start cfg) + 1) <= fuel)%nat ->
  exists m' (evs : list (Ev (DState R) (Day.W R) (DRow R))),
    run_config cfg fuel = RRun (Some (GOk m')) /\ fin (st m') = true /\
    Reach (DState R) (Day.W R) (DRow R) (DOut R) (proc_c (i_par i) (i_crops i)) dead (matured (i_par i)) (summary_of (i_par i))
          (reset (i_par i)) (defined_c (i_par i) (i_crops i)) (i_clock i) (i_weather i) m0 evs m' /\
    Forall (fun e => strong_ev (i_par i) (i_crops i) e /\ rows_day (i_par i) (i_crops i) e /\ crop_rows_day (i_par i) (i_crops i) e) evs /\
    rows (tabs m') = map (fun e => (e_tsc _ _ _ e, e_row _ _ _ e)) evs ++ rows (tabs m0).
Proof.
  intros CK DC Hi D PH DD. destruct (cfg_init_c cfg i Hi) as [m0 Hc]. exists m0. split; [exact Hc|]. intros fuel Hle.
  destruct (initialise_inv _ _ Hi) as [x X].
  destruct (cfg_weather_covers cfg i Hi (dc_dates _ DC)) as [Hcov _].
  destruct (cfg_soil_fields cfg i Hi) as (Hn & Ezx & _).
  destruct (initialise_nsteps cfg i Hi) as (En & _). cbv zeta in En.
  apply (run_config_completes_partial cfg i m0 CK Hi Hc D PH Hcov Hn).
  - rewrite Ezx. exact (proj1 (dc_evapz _ DC)).
  - intros k gs t w. exact (cfg_defok cfg x i CK DC X Hi DD k gs t w).
  - exact (cfg_reset_ok cfg i Hi (dc_cal _ DC)).
  - rewrite En. exact Hle.
Qed.

(* THE CLOSED STATEMENT: calendar-day crop, no water table.  Premises on the configuration: [CfgOK], [DefCfgOK]; that _initialize
   returns (it can raise); premises on the derived record: [DerivedOK], [ParHIOK] (as in DayCropRowsInit.run_config_crop_rows) and
   [DefDerivedOK]. *)
Theorem run_config_completes (cfg : Config R) :
  CfgOK cfg -> DefCfgOK cfg ->
  (exists i, initialise cfg = IOk i) ->
  (forall i, initialise cfg = IOk i -> DerivedOK i /\ ParHIOK (i_par i) (i_crops i) /\ DefDerivedOK i) ->
  exists fuel0, forall fuel, (fuel0 <= fuel)%nat ->
    exists m', run_config cfg fuel = RRun (Some (GOk m')) /\ fin (st m') = true.
Proof.
  intros CK DC [i Hi] H. destruct (H i Hi) as (D & PH & DD).
  destruct (run_config_completes_rows cfg i CK DC Hi D PH DD) as (m0 & _ & Hrun).
  exists (Z.to_nat (Initialise.day_of (cf_end cfg) - Initialise.day_of (cf_start cfg) + 1)). intros fuel Hle.
  destruct (Hrun fuel Hle) as (m' & evs & A & B & _). exists m'. split; assumption.
Qed.

(* ============================================================================================================ *)
(*  Part E  sufficient conditions for two premises of DefDerivedOK; the configuration premises are satisfiable    *)
(* ============================================================================================================ *)
From Flocq Require Raux.

(* [dd_deep] from a margin of one centimetre: a compartment whose lower boundary lies at least 0.01 m below Zmax (the deepening loop
   of read_model_parameters stops at zSoil >= Zmax + 0.1, InitialiseP2.initialise_profile_iwc; that zSoil is the last dzsum is
   SoilBuildR.deepen_sums / last_sums on the rows, not carried to the compartments here) *)
Lemma deep_of_margin (p : list (Comp R)) zmax :
  Exists (fun c => zmax + 1 / 100 <= c_dzsum c) p -> Exists (fun c => zmax <= c_dzsum c /\ Rround 2 zmax <= c_dzsum c) p.
Proof.
  intros H. eapply Exists_impl; [|exact H]. cbn beta. intros c Hc.
  pose proof (Rround_err 2 zmax) as E. replace (/ 2 / pow10 2) with (5/1000) in E by (unfold pow10; simpl; lra).
  apply Raux.Rabs_le_inv in E. split; lra.
Qed.

(* [dd_yld] holds for every determinate crop, whatever YldFormCD *)
Lemma yld_of_determinate (cfg : Config R) i : initialise cfg = IOk i -> u_Determinant (cf_crop cfg) = 1 ->
  forall k, Yield.y_Determinant (cf_y (i_crops i (c_id (sel_crop (i_par i) k)))) = 1 \/
            Yield.y_YldFormCD (cf_y (i_crops i (c_id (sel_crop (i_par i) k)))) <> 0.
Proof.
  intros Hi Hd k. destruct (initialise_inv _ _ Hi) as [x X]. rewrite (ii_eq _ _ _ X). cbn [i_par i_crops].
  destruct (sel_crop_cfg cfg x k) as (o & _ & -> & _). left. cbn [cropfull_of cf_y Yield.y_Determinant]. exact Hd.
Qed.

(* [dd_sched] is vacuous unless the user chose a predefined schedule *)
Lemma sched_of_method (cfg : Config R) i : initialise cfg = IOk i -> ir_method (cf_irr cfg) <> 3%Z ->
  i_method (p_irr (i_par i)) = 3%Z -> forall t, (0 <= t < n_steps (i_clock i))%Z ->
  exists v, RainIrr.py_index (i_Schedule (p_irr (i_par i))) t = Some v /\ 0 <= v.
Proof.
  intros Hi Hm E3. pose proof (initialise_irr_spec cfg i Hi) as IS. cbv zeta in IS. destruct IS as (Im & _). rewrite Im in E3. contradiction.
Qed.

Print Assumptions cfg_reset_ok.
Print Assumptions cfg_defok.
Print Assumptions run_config_completes_rows.
Print Assumptions run_config_completes.

(* the premises on the configuration are satisfiable: the configuration of InitialiseP.ex_cfg (three days, one record per day) *)
Example def_cfg_ok_example : DefCfgOK (ex_cfg (2000, 5, 3)%Z).
Proof.
  constructor; cbn [ex_cfg cf_crop ex_crop u_CalendarType u_GDDmethod u_TrColdStress u_ETadj u_PolHeatStress u_PolColdStress u_CropType
                    u_SxTopQ u_SxBotQ cf_irr ir_method ir_SMT ir_IrrInterval ir_AppEff cf_weather cf_soil ex_soil so_u_evap_z_max
                    so_u_evap_z_min cf_start cf_end].
  - reflexivity.
  - right; right; reflexivity.
  - split; [right|]; reflexivity.
  - split; right; reflexivity.
  - right; right; reflexivity.
  - unfold CropInit.sx_terms. rnum. destruct (Reqb_spec 1 1) as [_|Hne]; [cbn; lra|contradiction Hne; reflexivity].
  - lia.
  - discriminate.
  - discriminate.
  - lra.
  - intros r x Hr. cbn [ex_weather Inputs.t_rows] in Hr.
    destruct Hr as [<-|[<-|[<-|[]]]]; intros E; vm_compute in E; injection E as <-; lra.
  - vm_compute. reflexivity.
  - lra.
Qed.
