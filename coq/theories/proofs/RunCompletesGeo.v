(* RunCompletesGeo.v — the geometric premises of RunCompletesCfg.DefDerivedOK from the configuration.

   Part A  the bottom of the profile of the run: the lower boundary (dzsum) of its last compartment is zSoil of the deepening loop,
           at least Zmax + 0.1 m and at least the depth of the user's compartments ([cfg_profile_bottom]).
   Part B  [dd_deep], [dd_germ] from it; [dd_restrict] from layer contiguity; [dd_top].
   Part D  [dd_evap] from the thicknesses of the user's compartments (deepening never thins a compartment).
   Part C  [DefDerivedOK'] (what is left) and [run_config_completes']. *)
From Coq Require Import Reals List Bool ZArith Lra Lia.
From AC Require Import Num RInst Params Kernels Clock Day DayConcrete RunConcrete.
From AC.Water Require RootZone RainIrr Transpiration Evaporation.
From AC.Crop Require Canopy Roots Yield.
From AC.Init Require Calendar Inputs SoilBuild CropInit InitState.
From AC.Init Require Import Initialise.
From AC.proofs Require Import ProfR DayP DayConcreteP ClockP RunP RunConcreteP DaySideU DaySideP DaySideRun DaySideRun2 DayRowsP DaySideRows.
From AC.proofs Require Import CalendarP InputsP SoilBuildR InitStateP DayCropRowsP DayDefinedP RunCompletesP.
From AC.proofs Require Import InitialiseP InitialiseP2 InitialiseP4 RunCompletesCfg.
From AC.proofs Require DayCropRowsInit KernelsR EvaporationR RainIrrR YieldR TranspirationR RootsR.
Import ListNotations.
Local Open Scope R_scope.

#[local] Existing Instance YieldR.RTrig.

(* ============================================================================================================ *)
(*  Part A  the bottom of the profile                                                                            *)
(* ============================================================================================================ *)
Lemma geom_last (p : list (Comp R)) : forall top d, TranspirationR.geom top p -> p <> [] ->
  c_dzsum (last p d) = top + Rsum (map c_dz p).
Proof.
  induction p as [|c p IH]; intros top d H HN; [contradiction|]. destruct H as [A G].
  destruct p as [|c' p]; [cbn; lra|].
  change (last (c :: c' :: p) d) with (last (c' :: p) d). rewrite (IH _ d G ltac:(discriminate)). cbn [map Rsum]. lra.
Qed.

Lemma last_In {A} (l : list A) d : l <> [] -> In (last l d) l.
Proof.
  induction l as [|a l IH]; [contradiction|]. intros _. destruct l as [|b l]; [left; reflexivity|].
  right. apply IH. discriminate.
Qed.

(* the profile of an initialised model (no water table, valid soil): not empty, and some compartment — the last — has its lower boundary
   at zSoil, which is at least Zmax + 0.1 m (the deepening loop) and at least the total thickness of the user's compartments *)
Theorem cfg_profile_bottom (cfg : Config R) i :
  initialise cfg = IOk i -> gw_present (cf_gw cfg) = false -> soil_u_ok (cf_soil cfg) ->
  exists zsoil, u_Zmax (cf_crop cfg) + 1 / 10 <= zsoil /\ Rsum (so_dz (cf_soil cfg)) <= zsoil /\
    so_prof (p_soil (i_par i)) <> [] /\
    Exists (fun c => c_dzsum c = zsoil) (so_prof (p_soil (i_par i))) /\
    Forall cm (map c_dz (so_prof (p_soil (i_par i)))).
Proof.
  intros Hi Hgw SU. destruct (derived_soil cfg i Hi Hgw SU) as (_ & Hgeom & _). destruct SU as [Hcm Hls].
  destruct (initialise_inv _ _ Hi) as [x X]. revert Hgeom. rewrite (ii_eq _ _ _ X). cbn [i_par]. unfold x_par, par_of. cbn [p_soil].
  destruct (soil_of_fields _ _ _ (ii_soil _ _ _ X)) as (-> & _). intros Hgeom.
  pose proof (ii_prof _ _ _ X) as Hp. rewrite Hgw in Hp. unfold profile_of in Hp.
  destruct (SoilBuild.to_comps (x_rows x)) as [cs|] eqn:Ec; [|discriminate]. cbn [of_opt ibind] in Hp. injection Hp as Hp. rewrite <- Hp in *.
  pose proof (ii_rows _ _ _ X) as Hd. unfold SoilBuild.build_deepened in Hd.
  destruct (SoilBuild.build_rows (so_dz (cf_soil cfg)) (x_Ls x)) as [[rows0 zs0]|] eqn:Eb; [|discriminate].
  destruct (build_wf_geometry _ _ _ _ Hcm Eb) as (M & G & Z).
  assert (A0 : Forall assigned rows0).
  { unfold SoilBuild.build_rows in Eb. destruct (SoilBuild.add_layers _ _); [|discriminate]. exact (fill_nan_assigned _ _ _ Eb). }
  assert (N1 : cs <> []).
  { intros ->. pose proof (ii_soil _ _ _ X) as Hs. rewrite <- Hp in Hs. discriminate Hs. }
  pose proof (deepen_preserves _ _ _ _ _ _ A0 Hd) as Sm.
  assert (N0 : rows0 <> []).
  { intros ->. inversion Sm as [E1 E2|]. rewrite <- E2 in Ec. cbn in Ec. injection Ec as E. symmetry in E. contradiction. }
  assert (C0 : Forall cm (map SoilBuild.r_dz rows0)) by (rewrite M; exact Hcm).
  destruct (deepen_sums _ _ _ _ _ _ N0 A0 C0 (geom_sums _ _ G) ltac:(rewrite M; exact Z) Hd) as (C1 & _ & Z1 & L1).
  pose proof (deepen_reaches _ _ _ _ _ _ Hd) as Hreach.
  exists (x_zsoil x). split; [exact Hreach|]. split; [rewrite <- M; exact L1|]. split; [exact N1|].
  destruct cs as [|c0 cs'] eqn:Ecs; [contradiction|]. rewrite <- Ecs in *.
  split; [|rewrite (to_comps_dz _ _ Ec); exact C1].
  apply Exists_exists. exists (last cs c0). split; [apply last_In; exact N1|].
  rewrite (geom_last cs 0 c0 Hgeom N1), (to_comps_dz _ _ Ec), Z1. lra.
Qed.

(* ============================================================================================================ *)
(*  Part B.1  the soil layers of the profile are numbered 1..n without a gap: the restrictive-horizon walk is defined *)
(* ============================================================================================================ *)
Fixpoint zsteps (pl : Z) (l : list Z) : Prop :=
  match l with [] => True | x :: r => (x = pl \/ x = (pl + 1)%Z) /\ zsteps x r end.

Lemma contiguous_zsteps rows : forall p b, SoilBuild.to_comps rows = Some p -> contiguous (Some b) rows ->
  zsteps (SoilBuild.a_layer b) (map c_layer p).
Proof.
  induction rows as [|r rows IH]; intros p b; cbn [SoilBuild.to_comps].
  - intros E _. injection E as <-. exact I.
  - destruct (SoilBuild.to_comp r) as [c|] eqn:Ec; [|discriminate]. destruct (SoilBuild.to_comps rows) as [cs|] eqn:Ecs; [|discriminate].
    intros E (a & Ea & Hp & Hr). injection E as <-. unfold SoilBuild.to_comp in Ec. rewrite Ea in Ec. injection Ec as <-.
    cbn [map zsteps c_layer]. split; [destruct Hp as [->|Hp]; [left; reflexivity|right; exact Hp]|]. apply IH; [reflexivity|exact Hr].
Qed.

Lemma last_nonempty_default {A} (l : list A) : forall a d d', last (a :: l) d = last (a :: l) d'.
Proof. induction l as [|b l IH]; intros a d d'; [reflexivity|]. change (last (a :: b :: l) d) with (last (b :: l) d). change (last (a :: b :: l) d') with (last (b :: l) d'). apply IH. Qed.

Lemma zsteps_facts : forall r x, zsteps x r ->
  (forall y, In y (x :: r) -> x <= y <= last (x :: r) x)%Z /\
  Z.of_nat (Roots.nunique (x :: r)) = (last (x :: r) x - x + 1)%Z /\
  (forall k, (x <= k <= last (x :: r) x)%Z -> In k (x :: r)).
Proof.
  induction r as [|y r IH]; intros x H.
  - cbn [last Roots.nunique existsb]. split; [|split].
    + intros y [<-|[]]. lia.
    + cbn. lia.
    + intros k Hk. left. lia.
  - destruct H as [Hy Hr]. destruct (IH y Hr) as (A & B & C).
    assert (EL : last (x :: y :: r) x = last (y :: r) y).
    { change (last (x :: y :: r) x) with (last (y :: r) x). apply last_nonempty_default. }
    rewrite EL. pose proof (A y (or_introl eq_refl)) as Ay.
    split; [|split].
    + intros z [<-|Hz]; [destruct Hy; lia|]. specialize (A z Hz). destruct Hy; lia.
    + change (Roots.nunique (x :: y :: r)) with (if existsb (Z.eqb x) (y :: r) then Roots.nunique (y :: r) else S (Roots.nunique (y :: r))).
      destruct Hy as [->| ->].
      * cbn [existsb]. rewrite Z.eqb_refl. cbn [orb]. exact B.
      * assert (E : existsb (Z.eqb x) ((x + 1)%Z :: r) = false).
        { apply not_true_is_false. intros E. apply existsb_exists in E as (z & Hz & Ez). apply Z.eqb_eq in Ez. subst z. specialize (A x Hz). lia. }
        rewrite E. rewrite Nat2Z.inj_succ, B. lia.
    + intros k Hk. destruct (Z.eq_dec k x) as [->|Hne]; [left; reflexivity|]. right. apply C. destruct Hy; lia.
Qed.

Lemma layer_tab_some (p : list (Comp R)) : forall n k, (forall j, (k <= j < k + Z.of_nat n)%Z -> In j (map c_layer p)) ->
  Forall (fun e : R * option R => snd e <> None) (Roots.layer_tab p k n).
Proof.
  induction n as [|n IH]; intros k H; cbn [Roots.layer_tab]; constructor.
  - unfold Roots.layer_info. cbn [snd]. destruct (filter _ p) as [|c l] eqn:Ef; [|discriminate]. exfalso.
    assert (Hk : In k (map c_layer p)) by (apply H; lia). apply in_map_iff in Hk as (c & Ec & Hc).
    assert (Hin : In c (filter (fun c0 : Comp R => (c_layer c0 =? k)%Z) p)) by (apply filter_In; split; [exact Hc|apply Z.eqb_eq; exact Ec]).
    rewrite Ef in Hin. contradiction.
  - apply IH. intros j Hj. apply H. lia.
Qed.

(* [dd_restrict]: for every Zmin and every potential depth *)
Theorem cfg_restrict (cfg : Config R) i :
  initialise cfg = IOk i -> gw_present (cf_gw cfg) = false -> soil_u_ok (cf_soil cfg) ->
  forall zmin z, Roots.rd_restrict (so_prof (p_soil (i_par i))) zmin z <> None.
Proof.
  intros Hi Hgw [Hcm Hls] zmin z. destruct (initialise_inv _ _ Hi) as [x X]. rewrite (ii_eq _ _ _ X). cbn [i_par]. unfold x_par, par_of. cbn [p_soil].
  destruct (soil_of_fields _ _ _ (ii_soil _ _ _ X)) as (-> & _).
  pose proof (ii_prof _ _ _ X) as Hp. rewrite Hgw in Hp. unfold profile_of in Hp.
  destruct (SoilBuild.to_comps (x_rows x)) as [cs|] eqn:Ec; [|discriminate]. cbn [of_opt ibind] in Hp. injection Hp as Hp. rewrite <- Hp in *.
  pose proof (ii_rows _ _ _ X) as Hd. unfold SoilBuild.build_deepened in Hd.
  destruct (SoilBuild.build_rows (so_dz (cf_soil cfg)) (x_Ls x)) as [[rows0 zs0]|] eqn:Eb; [|discriminate].
  assert (A0 : Forall assigned rows0).
  { unfold SoilBuild.build_rows in Eb. destruct (SoilBuild.add_layers _ _); [|discriminate]. exact (fill_nan_assigned _ _ _ Eb). }
  pose proof (deepen_preserves _ _ _ _ _ _ A0 Hd) as Sm.
  assert (Hpos : Forall (fun d => 0 <= d) (so_dz (cf_soil cfg))).
  { eapply Forall_impl; [|exact Hcm]. intros d Hdc. pose proof (cm_pos _ Hdc). lra. }
  destruct (build_layers_contiguous _ _ _ _ Hpos Eb) as (n & _ & Hcont).
  pose proof (contiguous_same _ _ Sm _ Hcont) as Hc1.
  assert (N1 : cs <> []).
  { intros ->. pose proof (ii_soil _ _ _ X) as Hs. rewrite <- Hp in Hs. discriminate Hs. }
  apply rd_restrict_defined; [exact N1|].
  destruct (x_rows x) as [|r rows]; [cbn in Ec; injection Ec as <-; contradiction|].
  cbn [SoilBuild.to_comps] in Ec. destruct (SoilBuild.to_comp r) as [c|] eqn:Er; [|discriminate].
  destruct (SoilBuild.to_comps rows) as [cs'|] eqn:Ecs; [|discriminate]. injection Ec as <-.
  destruct Hc1 as (a & Ea & H1 & Hr). unfold SoilBuild.to_comp in Er. rewrite Ea in Er. injection Er as <-.
  pose proof (contiguous_zsteps _ _ _ Ecs Hr) as Hz. cbn [map c_layer]. rewrite H1 in *.
  destruct (zsteps_facts _ _ Hz) as (_ & B & C).
  apply layer_tab_some. intros j Hj. cbn [map c_layer]. apply C. lia.
Qed.

(* ============================================================================================================ *)
(*  Part B.2  [dd_deep], [dd_germ], [dd_top]                                                                      *)
(* ============================================================================================================ *)
Theorem cfg_deep (cfg : Config R) i :
  initialise cfg = IOk i -> gw_present (cf_gw cfg) = false -> soil_u_ok (cf_soil cfg) ->
  forall k, Exists (fun c => Roots.rc_Zmax (cf_root (i_crops i (c_id (sel_crop (i_par i) k)))) <= c_dzsum c /\
                             Rround 2 (Roots.rc_Zmax (cf_root (i_crops i (c_id (sel_crop (i_par i) k))))) <= c_dzsum c)
                  (so_prof (p_soil (i_par i))).
Proof.
  intros Hi Hgw SU k. destruct (cfg_profile_bottom cfg i Hi Hgw SU) as (zs & Hz & _ & _ & Hex & _).
  destruct (initialise_inv _ _ Hi) as [x X]. revert Hex. rewrite (ii_eq _ _ _ X). cbn [i_par i_crops]. intros Hex.
  destruct (sel_crop_cfg cfg x k) as (o & _ & -> & _). cbn [cropfull_of cf_root Roots.rc_Zmax].
  apply deep_of_margin. eapply Exists_impl; [|exact Hex]. cbn beta. intros c ->. lra.
Qed.

(* the germination depth lies within the user's compartments, or within Zmax + 0.1 m *)
Theorem cfg_germ (cfg : Config R) i :
  initialise cfg = IOk i -> gw_present (cf_gw cfg) = false -> soil_u_ok (cf_soil cfg) ->
  (so_u_z_germ (cf_soil cfg) <= Rsum (so_dz (cf_soil cfg)) \/ so_u_z_germ (cf_soil cfg) <= u_Zmax (cf_crop cfg) + 1 / 10) ->
  Exists (fun c => so_z_germ (p_soil (i_par i)) <= c_dzsum c) (so_prof (p_soil (i_par i))).
Proof.
  intros Hi Hgw SU Hg. destruct (cfg_profile_bottom cfg i Hi Hgw SU) as (zs & Hz & Hs & _ & Hex & _).
  destruct (cfg_soil_fields cfg i Hi) as (_ & _ & _ & -> & _).
  eapply Exists_impl; [|exact Hex]. cbn beta. intros c ->. destruct Hg; lra.
Qed.

(* the top soil: z_top of the run is max(z_top, dz[0]), and dz[0] is a whole number of centimetres *)
Theorem cfg_top (cfg : Config R) i :
  initialise cfg = IOk i -> gw_present (cf_gw cfg) = false -> soil_u_ok (cf_soil cfg) ->
  exists c1 rest, so_prof (p_soil (i_par i)) = c1 :: rest /\ c_dzsum c1 <= Rround 2 (so_z_top (p_soil (i_par i))).
Proof.
  intros Hi Hgw SU. destruct (cfg_profile_bottom cfg i Hi Hgw SU) as (zs & _ & _ & _ & _ & Hcm).
  destruct (derived_soil cfg i Hi Hgw SU) as (_ & Hgeom & _).
  destruct (initialise_inv _ _ Hi) as [x X]. revert Hcm Hgeom. rewrite (ii_eq _ _ _ X). cbn [i_par]. unfold x_par, par_of. cbn [p_soil].
  pose proof (ii_soil _ _ _ X) as S. unfold soil_of in S. destruct (x_prof x) as [|c0 r] eqn:Ep; [discriminate|].
  apply ibind_ok in S as (cn & _ & S). injection S as <-. cbn [so_prof so_z_top]. intros Hcm [G0 _].
  exists c0, r. split; [reflexivity|]. inversion Hcm as [|? ? Hc0 _]; subst. rewrite G0, Rplus_0_l.
  rewrite <- (cm_round _ Hc0) at 1. apply Rround_mono. unfold pmax. rnum. destruct (Rltb_spec (so_u_z_top (cf_soil cfg)) (c_dz c0)); lra.
Qed.

(* ============================================================================================================ *)
(*  Part D  [dd_evap] from the user's compartment thicknesses                                                     *)
(* ============================================================================================================ *)
(* deepening never thins a compartment *)
Lemma Forall2_Rle_refl l : Forall2 Rle l l.
Proof. induction l; constructor; [lra|assumption]. Qed.
Lemma Forall2_Rle_trans a b c : Forall2 Rle a b -> Forall2 Rle b c -> Forall2 Rle a c.
Proof. intros H; revert c; induction H; intros c Hc; inversion Hc; subst; constructor; [lra|auto]. Qed.

Lemma Forall2_len {A B} (P : A -> B -> Prop) l l' : Forall2 P l l' -> length l = length l'.
Proof. induction 1; cbn; [reflexivity|f_equal; assumption]. Qed.

Lemma deepen_step_mono rows r1 r2 z : rows <> [] -> Forall assigned rows -> Forall cm (map SoilBuild.r_dz rows) ->
  SoilBuild.grow_step rows = Some r1 -> SoilBuild.fill_nan r1 = Some (r2, z) ->
  Forall2 Rle (map SoilBuild.r_dz rows) (map SoilBuild.r_dz r2).
Proof.
  intros HN HA Hc Eg Ef. destruct (grow_step_spec rows HN) as (l1 & r & l2 & -> & Eg' & _). rewrite Eg' in Eg. injection Eg as <-.
  set (r1 := l1 ++ SoilBuild.set_dz r (SoilBuild.r_dz r + 1 / 10) :: l2) in *.
  assert (HA1 : Forall assigned r1) by (eapply same_assigned; [apply same_but_dz_mid|exact HA]).
  assert (Hdz1 : map SoilBuild.r_dz r1 = map SoilBuild.r_dz l1 ++ (SoilBuild.r_dz r + 1 / 10) :: map SoilBuild.r_dz l2) by (unfold r1; rewrite map_app; reflexivity).
  rewrite map_app in Hc. cbn [map] in Hc. apply Forall_app in Hc. destruct Hc as [C1 C2]. inversion C2; subst.
  assert (Hc1 : Forall cm (map SoilBuild.r_dz r1)).
  { rewrite Hdz1. apply Forall_app; split; [exact C1|]. constructor; [apply cm_grow; assumption|assumption]. }
  destruct (fill_nan_cm r1 HA1 Hc1) as (r2' & Ef' & Hdz2 & _). rewrite Ef' in Ef. injection Ef as <- _.
  rewrite Hdz2, Hdz1, map_app. cbn [map]. apply Forall2_app; [apply Forall2_Rle_refl|]. constructor; [lra|apply Forall2_Rle_refl].
Qed.

Lemma deepen_dz_mono fuel : forall zmax rows zs rows' zs',
  rows <> [] -> Forall assigned rows -> Forall cm (map SoilBuild.r_dz rows) ->
  SoilBuild.deepen fuel zmax rows zs = Some (rows', zs') -> Forall2 Rle (map SoilBuild.r_dz rows) (map SoilBuild.r_dz rows').
Proof.
  induction fuel as [|f IH]; intros zmax rows zs rows' zs' HN HA Hc; cbn [SoilBuild.deepen]; [discriminate|].
  match goal with |- context [if ?b then _ else _] => destruct b end.
  - destruct (deepen_step_cm rows HN HA Hc) as (r1 & r2 & Eg & Ef & HN2 & HA2 & Hc2 & _). rewrite Eg, Ef. intros E.
    eapply Forall2_Rle_trans; [exact (deepen_step_mono _ _ _ _ HN HA Hc Eg Ef)|exact (IH _ _ _ _ _ HN2 HA2 Hc2 E)].
  - intros E. injection E as <- _. apply Forall2_Rle_refl.
Qed.

(* the number of lower boundaries above depth z, from the thicknesses *)
Fixpoint count_below (top z : R) (dz : list R) : Z :=
  match dz with [] => 0%Z | d :: r => ((if Rltb (top + d) z then 1 else 0) + count_below (top + d) z r)%Z end.

Lemma count_below_geom z (p : list (Comp R)) : forall top, TranspirationR.geom top p ->
  Evaporation.ev_count p z = count_below top z (map c_dz p).
Proof.
  unfold Evaporation.ev_count. induction p as [|c p IH]; intros top G; [reflexivity|]. destruct G as [E G].
  cbn [count_if map count_below]. rewrite <- E, <- (IH _ G). rnum. reflexivity.
Qed.

Lemma count_below_mono z : forall dz dz' top top', Forall2 Rle dz dz' -> top <= top' ->
  (count_below top' z dz' <= count_below top z dz)%Z.
Proof.
  intros dz dz' top top' H. revert top top'. induction H as [|d d' r r' Hd _ IH]; intros top top' Ht; cbn [count_below]; [lia|].
  specialize (IH (top + d) (top' + d') ltac:(lra)).
  destruct (Rltb_spec (top' + d') z); destruct (Rltb_spec (top + d) z); try lia. lra.
Qed.

(* [dd_evap]: of the user's compartments, at least two have their lower boundary at or below evap_z_max + 0.001 m ... counted from
   the bottom: the number of boundaries above that depth plus 2 is at most the number of compartments *)
Definition evap_cfg_ok (cfg : Config R) : Prop :=
  (count_below 0 (so_u_evap_z_max (cf_soil cfg) + 1 / 1000) (so_dz (cf_soil cfg)) + 2 <= Z.of_nat (length (so_dz (cf_soil cfg))))%Z.

Theorem cfg_evap (cfg : Config R) i :
  initialise cfg = IOk i -> gw_present (cf_gw cfg) = false -> soil_u_ok (cf_soil cfg) -> evap_cfg_ok cfg ->
  EvaporationR.deep_enough (so_prof (p_soil (i_par i))) (so_evap_z_max (p_soil (i_par i)) + 1 / 1000).
Proof.
  intros Hi Hgw SU He. destruct (derived_soil cfg i Hi Hgw SU) as (_ & Hgeom & _). destruct SU as [Hcm Hls].
  destruct (cfg_soil_fields cfg i Hi) as (_ & -> & _).
  destruct (initialise_inv _ _ Hi) as [x X]. revert Hgeom. rewrite (ii_eq _ _ _ X). cbn [i_par]. unfold x_par, par_of. cbn [p_soil].
  destruct (soil_of_fields _ _ _ (ii_soil _ _ _ X)) as (-> & _). intros Hgeom.
  pose proof (ii_prof _ _ _ X) as Hp. rewrite Hgw in Hp. unfold profile_of in Hp.
  destruct (SoilBuild.to_comps (x_rows x)) as [cs|] eqn:Ec; [|discriminate]. cbn [of_opt ibind] in Hp. injection Hp as Hp. rewrite <- Hp in *.
  pose proof (ii_rows _ _ _ X) as Hd. unfold SoilBuild.build_deepened in Hd.
  destruct (SoilBuild.build_rows (so_dz (cf_soil cfg)) (x_Ls x)) as [[rows0 zs0]|] eqn:Eb; [|discriminate].
  destruct (build_wf_geometry _ _ _ _ Hcm Eb) as (M & G & Z).
  assert (A0 : Forall assigned rows0).
  { unfold SoilBuild.build_rows in Eb. destruct (SoilBuild.add_layers _ _); [|discriminate]. exact (fill_nan_assigned _ _ _ Eb). }
  pose proof (deepen_preserves _ _ _ _ _ _ A0 Hd) as Sm.
  assert (N0 : rows0 <> []).
  { intros ->. inversion Sm as [E1 E2|]. rewrite <- E2 in Ec. cbn in Ec. injection Ec as <-.
    pose proof (ii_soil _ _ _ X) as Hs. rewrite <- Hp in Hs. discriminate Hs. }
  assert (C0 : Forall cm (map SoilBuild.r_dz rows0)) by (rewrite M; exact Hcm).
  pose proof (deepen_dz_mono _ _ _ _ _ _ N0 A0 C0 Hd) as Hmono. rewrite M, <- (to_comps_dz _ _ Ec) in Hmono.
  unfold EvaporationR.deep_enough. rewrite (count_below_geom _ cs 0 Hgeom).
  pose proof (count_below_mono (so_u_evap_z_max (cf_soil cfg) + 1 / 1000) _ _ 0 0 Hmono ltac:(lra)) as Hc.
  pose proof (Forall2_len _ _ _ Hmono) as Hl. rewrite !map_length in Hl. unfold evap_cfg_ok in He. lia.
Qed.

(* ============================================================================================================ *)
(*  Part C  what is left on the derived record; the run from the configuration completes                         *)
(* ============================================================================================================ *)
(* RunCompletesCfg.DefDerivedOK without dd_restrict, dd_deep, dd_top, dd_germ, dd_evap *)
Record DefDerivedOK' (i : Init R) : Prop := {
  dd_rp' : forall k gs P th ds, 0 <= P -> length th = length (so_prof (p_soil (i_par i))) ->
    let f := sel_field (i_par i) k gs in
    RainIrr.rainfall_partition P th ds (f_sr_inhb f) (f_bunds f) (f_z_bund f) (if f_cn_adj f then f_cn_adj_pct f else 0)
      (so_cn (p_soil (i_par i))) (so_adj_cn (p_soil (i_par i))) (so_z_cn (p_soil (i_par i))) (so_nComp (p_soil (i_par i)))
      (so_prof (p_soil (i_par i))) <> None;
  dd_sched' : i_method (p_irr (i_par i)) = 3%Z -> forall t, (0 <= t < n_steps (i_clock i))%Z ->
    exists v, RainIrr.py_index (i_Schedule (p_irr (i_par i))) t = Some v /\ 0 <= v;
  dd_yld' : forall k, Yield.y_Determinant (cf_y (i_crops i (c_id (sel_crop (i_par i) k)))) = 1 \/
                      Yield.y_YldFormCD (cf_y (i_crops i (c_id (sel_crop (i_par i) k)))) <> 0 }.

(* the additional premise on the configuration: the germination depth is inside the profile *)
Definition germ_cfg_ok (cfg : Config R) : Prop :=
  so_u_z_germ (cf_soil cfg) <= Rsum (so_dz (cf_soil cfg)) \/ so_u_z_germ (cf_soil cfg) <= u_Zmax (cf_crop cfg) + 1 / 10.

Theorem def_derived_of_geo (cfg : Config R) i :
  initialise cfg = IOk i -> gw_present (cf_gw cfg) = false -> soil_u_ok (cf_soil cfg) -> germ_cfg_ok cfg -> evap_cfg_ok cfg ->
  DefDerivedOK' i -> DefDerivedOK i.
Proof.
  intros Hi Hgw SU Hg He [B C D]. constructor.
  - intros k z. exact (cfg_restrict cfg i Hi Hgw SU _ z).
  - exact (cfg_deep cfg i Hi Hgw SU).
  - exact (cfg_top cfg i Hi Hgw SU).
  - exact (cfg_germ cfg i Hi Hgw SU Hg).
  - exact (cfg_evap cfg i Hi Hgw SU He).
  - exact B.
  - exact C.
  - exact D.
Qed.

Theorem run_config_completes_rows' (cfg : Config R) i :
  CfgOK cfg -> DefCfgOK cfg -> soil_u_ok (cf_soil cfg) -> germ_cfg_ok cfg -> evap_cfg_ok cfg -> initialise cfg = IOk i ->
  DerivedOK i -> ParHIOK (i_par i) (i_crops i) -> DefDerivedOK' i ->
  exists m0, init_c (i_clock i) (i_state i) = Ok m0 /\
  forall fuel, (Z.to_nat (Initialise.day_of (cf_end cfg) - Initialise.day_of (cf_start cfg) + 1) <= fuel)%nat ->
  exists m' (evs : list (Ev (DState R) (Day.W R) (DRow R))),
    run_config cfg fuel = RRun (Some (GOk m')) /\ fin (st m') = true /\
    Reach (DState R) (Day.W R) (DRow R) (DOut R) (proc_c (i_par i) (i_crops i)) dead (matured (i_par i)) (summary_of (i_par i))
          (reset (i_par i)) (defined_c (i_par i) (i_crops i)) (i_clock i) (i_weather i) m0 evs m' /\
    Forall (fun e => strong_ev (i_par i) (i_crops i) e /\ rows_day (i_par i) (i_crops i) e /\ crop_rows_day (i_par i) (i_crops i) e) evs /\
    rows (tabs m') = map (fun e => (e_tsc _ _ _ e, e_row _ _ _ e)) evs ++ rows (tabs m0).
Proof.
  intros CK DC SU Hg He Hi D PH DD.
  exact (run_config_completes_rows cfg i CK DC Hi D PH (def_derived_of_geo cfg i Hi (ck_no_table _ CK) SU Hg He DD)).
Qed.

(* THE CLOSED STATEMENT with the geometry discharged.  On the configuration: [CfgOK], [DefCfgOK], [soil_u_ok], [germ_cfg_ok], [evap_cfg_ok]; that
   _initialize returns; on the derived record: [DerivedOK], [ParHIOK], [DefDerivedOK'] (the curve-number branch of rainfall_partition; the re-indexed schedule of strategy 3; YldFormCD <> 0 for an
   indeterminate crop) *)
Theorem run_config_completes' (cfg : Config R) :
  CfgOK cfg -> DefCfgOK cfg -> soil_u_ok (cf_soil cfg) -> germ_cfg_ok cfg -> evap_cfg_ok cfg ->
  (exists i, initialise cfg = IOk i) ->
  (forall i, initialise cfg = IOk i -> DerivedOK i /\ ParHIOK (i_par i) (i_crops i) /\ DefDerivedOK' i) ->
  exists fuel0, forall fuel, (fuel0 <= fuel)%nat ->
    exists m', run_config cfg fuel = RRun (Some (GOk m')) /\ fin (st m') = true.
Proof.
  intros CK DC SU Hg He [i Hi] H. destruct (H i Hi) as (D & PH & DD).
  destruct (run_config_completes_rows' cfg i CK DC SU Hg He Hi D PH DD) as (m0 & _ & Hrun).
  exists (Z.to_nat (Initialise.day_of (cf_end cfg) - Initialise.day_of (cf_start cfg) + 1)). intros fuel Hle.
  destruct (Hrun fuel Hle) as (m' & evs & A & B & _). exists m'. split; assumption.
Qed.

(* the new premise is satisfiable on the configuration of InitialiseP.ex_cfg (soil_u_ok: InitialiseP.cfg_ok_example) *)
Example germ_cfg_ok_example : germ_cfg_ok (ex_cfg (2000, 5, 3)%Z).
Proof. right. cbn. lra. Qed.

Print Assumptions cfg_profile_bottom.
Print Assumptions cfg_restrict.
Print Assumptions cfg_evap.
Print Assumptions def_derived_of_geo.
Print Assumptions run_config_completes'.
