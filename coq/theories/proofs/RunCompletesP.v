(* RunCompletesP.v — property C16 on the concrete whole run: the run terminates WITHOUT RAISING.

   Part A  [soil_evaporation_defined']: soil_evaporation is defined when the stored depth of the evaporation layer is at most
           evap_z_max + 0.001 m, and then the depth it returns is again at most evap_z_max + 0.001 m (EvaporationR.soil_evaporation_defined
           asks for <= evap_z_max, which its own loop lemmas do not re-establish); length of the aeration-day array through transpiration.
   Part B  [DefSt'] (the inductive form of DayDefinedP.DefSt) and [day_defined_strong']: DayDefinedP.day_defined_strong re-run with it.
   Part C  [DefSt'] is preserved by a defined day and by the season reset, and holds in the initial state.
   Part D  [run_till_c_completes], [run_from_init_completes].
   Part E  a concrete instance on which every premise holds; Print Assumptions. *)
From Coq Require Import Reals List Bool ZArith Lra Lia.
From AC Require Import Num RInst Params Kernels Clock Day DayConcrete RunConcrete.
From AC.Water Require RootZone RainIrr Infiltration Drainage Groundwater Evaporation Transpiration.
From AC.Crop Require Canopy Roots Yield.
From AC.proofs Require Import ProfR DayP DayConcreteP ClockP RunP RunConcreteP DaySideU DaySideP DaySideRun DaySideRun2 DayRowsP DaySideRows DayCropRowsP DayDefinedP.
From AC.proofs Require KernelsR CanopyR RootsR YieldR TranspirationR GroundwaterR EvaporationR InfiltrationR DrainageR RainIrrR.
Import ListNotations.
Local Open Scope R_scope.

#[local] Existing Instance YieldR.RTrig.

(* ============================================================================================================ *)
(*  Part A.1  soil evaporation with the inductive bound on EvapZ                                                  *)
(* ============================================================================================================ *)
Import Evaporation EvaporationR.

Lemma ev_loop_defined' p ws rew fw fe zmin zmax edt : deep_enough p (zmax + 1/1000) -> forall k th z es te,
  length th = length p -> z <= zmax + 1/1000 ->
  exists th' z' es' te', ev_stage2_loop k p ws rew fw fe zmin zmax edt (th, z, es, te) = Some (th', z', es', te') /\ z' <= zmax + 1/1000.
Proof.
  intros Hd. induction k as [|k IH]; intros th z es te Hl Hz; cbn [ev_stage2_loop]; [do 4 eexists; split; [reflexivity|exact Hz]|].
  destruct (ev_step_defined p ws rew fw fe zmin zmax edt Hd th z es te Hl Hz) as (th' & z' & es' & te' & -> & Hl' & Hz'). apply IH; auto.
Qed.

Theorem soil_evaporation_defined' par p st th et0 infl rain irr gs :
  (0 < ep_steps par)%Z ->
  (gs = false \/ ep_caltype par = 1 \/ ep_caltype par = 2)%Z ->
  ep_zmin par <= ep_zmax par -> es_evapz st <= ep_zmax par + 1/1000 ->
  deep_enough p (ep_zmax par + 1/1000) -> length th = length p ->
  exists o, soil_evaporation par p st th et0 infl rain irr gs = Some o /\ eo_evapz o <= ep_zmax par + 1/1000.
Proof.
  intros Hs Hc Hz Hez Hd Hl. unfold soil_evaporation.
  assert ((ep_steps par <=? 0)%Z = false) as -> by (apply Z.leb_gt; auto).
  set (zlim := ep_zmax par + 1/1000) in *.
  assert (Hzmin : ep_zmin par <= zlim) by (unfold zlim; lra).
  assert (Hm : exists m, ev_stage1 par p st th et0 infl rain irr gs = Some m /\ length (em_th m) = length p /\ em_evapz m <= zlim).
  { unfold ev_stage1. cbv zeta.
    assert (Hi : exists w z s2 w2,
       (if ((es_tsc st =? 0)%Z || (es_dap st =? 1)%Z && negb (ep_simoff par))%bool
        then match evap_layer_water_content th (ep_zmin par) p with
             | Some e => Some (#0, ep_zmin par, true, ev_wstage2 e (ep_rew par))
             | None => None end
        else Some (es_wsurf st, es_evapz st, es_stage2 st, es_wstage2 st))%num = Some (w, z, s2, w2) /\ z <= zlim).
    { destruct (_ || _)%bool.
      - destruct (elwc_defined th (ep_zmin par) p zlim Hzmin Hd Hl) as [e ->]. do 4 eexists; split; [reflexivity|auto].
      - do 4 eexists; split; [reflexivity|exact Hez]. }
    destruct Hi as (w & z & s2 & w2 & -> & Hz0).
    assert (Hb : exists b, ev_espot_base par st et0 gs = Some b).
    { unfold ev_espot_base. destruct gs; [|eauto]. destruct Hc as [Hc|[-> | ->]]; [discriminate| |]; cbn; eauto. }
    destruct Hb as [b ->].
    match goal with |- context [ev_extract ?n ?z p th ?a ?b ?c] =>
      pose proof (ev_count_mono p z zlim Hzmin); pose proof (ev_count_nonneg p z); unfold deep_enough in Hd;
      destruct (ev_extract_defined n z p th a b c) as (th' & ex' & es' & te' & E & Hl'); [lia|lia|] end.
    assert (Hzz : forall b1 b2 : bool, (if b1 then ep_zmin par else if b2 then ep_zmin par else z) <= zlim)
      by (intros [|] [|]; auto).
    match goal with |- exists m, (if ?c then _ else _) = _ /\ _ => destruct c end.
    - rewrite E. match goal with |- exists m, (if ?c then _ else _) = _ /\ _ => destruct c end.
      + match goal with |- context [evap_layer_water_content th' ?zz p] =>
          destruct (elwc_defined th' zz p zlim) as [e ->]; [apply Hzz|auto|congruence|] end.
        eexists; split; [reflexivity|]. cbn. split; [congruence|apply Hzz].
      + eexists; split; [reflexivity|]. cbn. split; [congruence|apply Hzz].
    - eexists; split; [reflexivity|]. cbn. split; [auto|apply Hzz]. }
  destruct Hm as (m & -> & Hlm & Hzm).
  destruct (_ >? _)%num; [|eexists; split; [reflexivity|exact Hzm]].
  match goal with |- context [ev_stage2_loop ?k p ?a ?b ?c ?d ?e ?f ?g (?t, ?z, ?es, ?te)] =>
    destruct (ev_loop_defined' p a b c d e f g Hd k t z es te Hlm Hzm) as (th2 & z2 & es2 & te2 & -> & Hz2) end.
  eexists; split; [reflexivity|exact Hz2].
Qed.

(* ============================================================================================================ *)
(*  Part A.2  transpiration keeps the length of the aeration-day array                                             *)
(* ============================================================================================================ *)
Lemma tr_sub_aer_length lag (p : list (Comp R)) : forall aer r, Transpiration.tr_sub_aer lag p aer = Some r -> length r = length aer.
Proof.
  induction p as [|c p IH]; intros aer r; cbn [Transpiration.tr_sub_aer]; [intros [= <-]; reflexivity|].
  destruct aer as [|a aer]; [discriminate|]. destruct (Transpiration.tr_sub_aer lag p aer) as [r0|] eqn:E; [|discriminate].
  intros [= <-]. cbn [length]. f_equal. exact (IH _ _ E).
Qed.

Lemma tr_loop_aer_length k m pus ds plan : forall th aer te tr th' aer' tr',
  Transpiration.tr_loop (F:=R) k m pus ds plan th aer te tr = Some (th', aer', tr') -> length aer' = length aer.
Proof.
  induction plan as [|x plan IH]; intros th aer te tr th' aer' tr'; cbn [Transpiration.tr_loop]; [intros [= _ <- _]; reflexivity|].
  destruct (_ >? _)%num; [|intros [= _ <- _]; reflexivity].
  destruct pus as [pu|]; [|discriminate]. destruct th as [|t th]; [discriminate|]. destruct aer as [|a aer]; [discriminate|].
  match goal with |- match ?e with _ => _ end = _ -> _ => destruct e as [[[ths aers] tr1]|] eqn:E; [|discriminate] end.
  intros [= _ <- _]. cbn [length]. f_equal. exact (IH _ _ _ _ _ _ _ E).
Qed.

Lemma transpiration_aer_length p ztop k m smt s et0 co2c co2r gs gdd o :
  Transpiration.transpiration p ztop k m smt s et0 co2c co2r gs gdd = Some o ->
  length (Transpiration.s_aer_comp (Transpiration.o_state o)) = length (Transpiration.s_aer_comp s).
Proof.
  destruct gs; [|unfold Transpiration.transpiration; intros [= <-]; reflexivity].
  TranspirationR.tr_inv. cbn [Transpiration.s_aer_comp Transpiration.o_state].
  rewrite (tr_loop_aer_length _ _ _ _ _ _ _ _ _ _ _ _ El).
  revert Eu. unfold Transpiration.tr_surface. destruct (_ && _); [|intros [= <-]; reflexivity].
  destruct (Transpiration.tr_sub_aer _ _ _) as [r0|] eqn:E; [|discriminate]. intros [= <-]. cbn. exact (tr_sub_aer_length _ _ _ _ E).
Qed.

(* ============================================================================================================ *)
(*  Part B  the state conditions in inductive form, and the day's definedness under them                           *)
(* ============================================================================================================ *)
Lemma c_ev_defined' p (a : A_ev R) :
  (0 < evA_steps a)%Z -> (evA_gs a = false \/ evA_caltype a = 1 \/ evA_caltype a = 2)%Z -> evA_zmin a <= evA_zmax a ->
  evA_evapz a <= evA_zmax a + 1 / 1000 -> EvaporationR.deep_enough p (evA_zmax a + 1 / 1000) -> length (evA_th a) = length p ->
  exists r, c_ev p a = Some r.
Proof.
  intros H1 H2 H3 H4 H5 H6. unfold c_ev.
  destruct (soil_evaporation_defined' (ev_par a) p (ev_state a) (evA_th a) (evA_et0 a) (evA_infl a) (evA_rain a) (evA_irr a) (evA_gs a)
              H1 H2 H3 H4 H5 H6) as (o & -> & _). eauto.
Qed.

Lemma c_ev_evapz p (a : A_ev R) r :
  (0 < evA_steps a)%Z -> (evA_gs a = false \/ evA_caltype a = 1 \/ evA_caltype a = 2)%Z -> evA_zmin a <= evA_zmax a ->
  evA_evapz a <= evA_zmax a + 1 / 1000 -> EvaporationR.deep_enough p (evA_zmax a + 1 / 1000) -> length (evA_th a) = length p ->
  c_ev p a = Some r -> evR_evapz r <= evA_zmax a + 1 / 1000.
Proof.
  intros H1 H2 H3 H4 H5 H6. unfold c_ev.
  destruct (soil_evaporation_defined' (ev_par a) p (ev_state a) (evA_th a) (evA_et0 a) (evA_infl a) (evA_rain a) (evA_irr a) (evA_gs a)
              H1 H2 H3 H4 H5 H6) as (o & -> & Ho). intros [= <-]. exact Ho.
Qed.

(* DayDefinedP.DefSt with the bound on EvapZ that the evaporation loop re-establishes (EvapZ <= evap_z_max + 0.001 m) *)
Record DefSt' (par : DPar R) (s : DState R) : Prop := {
  ds_aer' : length (d_aer_days_comp s) = length (so_prof (p_soil par));
  ds_evapz' : d_evap_z s <= so_evap_z_max (p_soil par) + 1 / 1000;
  ds_stage' : (0 <= d_growth_stage s <= 4)%Z }.

Lemma DefSt_DefSt' par s : DefSt par s -> DefSt' par s.
Proof. intros [A B C]. constructor; [exact A | lra | exact C]. Qed.

(* DayDefinedP.day_defined_strong with DefSt' in place of DefSt: the same proof, the evaporation step through [c_ev_defined'] *)
Theorem day_defined_strong' par crops season gs dap0 tsc w s :
  ParOK par crops -> StrongInv par crops season dap0 s -> RootInv par crops season dap0 s ->
  DefOK par crops season gs tsc w -> DefSt' par s ->
  exists s' row, day_proc_opt par (procs_concrete crops) season gs (dap_of gs dap0) tsc w s = Some (s', row).
Proof.
  intros P SI RI DO DS.
  set (dap := dap_of gs dap0). set (x := mk_ctx par season gs dap tsc w s).
  enough (HR : exists Rs, results_opt x (procs_concrete crops) = Some Rs).
  { destruct HR as [Rs HR]. unfold day_proc_opt, day_core_opt. fold x. rewrite HR. eauto. }
  set (prof := so_prof (p_soil par)). set (dc := sel_crop par season). set (cf := crops (c_id dc)). set (rc := root_crop cf dc).
  pose proof (po_crop _ _ P season) as CK. fold dc cf in CK.
  pose proof (si_day _ _ _ _ _ SI) as DI.
  pose proof (po_wf _ _ P) as W. fold prof in W.
  pose proof (inv_th _ _ DI) as B0. pose proof (inv_fc _ _ DI) as F0. fold prof in B0, F0.
  pose proof (co_root _ _ _ _ CK) as Hrok. fold rc in Hrok.
  pose proof (co_zmin_cm _ _ _ _ CK) as Hcm.
  pose proof (RootsR.ok_zmin rc Hrok) as Hzmin0. pose proof (RootsR.ok_zmax rc Hrok) as Hzmax0. cbn [rc root_crop Roots.rc_Zmin Roots.rc_Zmax] in Hzmin0, Hzmax0.
  destruct DO as [Dwt Dgdd Dcal Dcalr Dcalc Dsx Dres Ddeep Dtop Dgerm (Dst & Dzz & Ddp) Dirr Deff Drain Drp (Dtr1 & Dtr2) (Dp1 & Dp2) Dty Dyld Det0].
  fold prof dc cf in Dgdd, Dcal, Dcalr, Dcalc, Dsx, Dres, Ddeep, Dtop, Dgerm, Ddp, Drp, Dtr1, Dtr2, Dp1, Dp2, Dty, Dyld.
  destruct DS as [Saer Sevz Sstg]. fold prof in Saer.
  set (zmax := Roots.rc_Zmax (cf_root cf)) in *.
  assert (Ddeep2 : Exists (fun c => Rround 2 zmax <= c_dzsum c) prof) by (eapply Exists_impl; [|exact Ddeep]; cbn; intros c [_ H]; exact H).
  assert (Ddeep1 : Exists (fun c => zmax <= c_dzsum c) prof) by (eapply Exists_impl; [|exact Ddeep]; cbn; intros c [H _]; exact H).
  assert (Hne : prof <> []) by (destruct Dtop as (c1 & rest & -> & _); discriminate).
  unfold results_opt. cbv zeta. unfold obind. cbn [procs_concrete po_gd po_gw po_rd po_pi po_dr po_rp po_ir po_inf po_cr po_ge po_gst po_cc po_ev po_tr po_gi po_hr po_bm po_hi po_rz].
  change (x_prof x) with prof. change (x_gs x) with gs.
  (* 0. growing degree days *)
  assert (S0 : exists g, (if gs then match c_gd (arg_gd x) with Some g0 => Some (gdR_gdd g0) | None => None end else Some 3#/10)%num = Some g /\ 0 <= g).
  { destruct gs.
    - destruct (c_gd_defined (arg_gd x) Dgdd) as [r E]. rewrite E. exists (gdR_gdd r). split; [reflexivity|].
      pose proof (cgd_call _ _ E) as G. exact (proj1 (KernelsR.gdd_range _ _ _ _ _ _ (co_temp _ _ _ _ CK) G)).
    - eexists. split; [reflexivity|]. rnum. lra. }
  destruct S0 as (gdd & -> & Hgdd).
  (* 1. groundwater table: none *)
  rewrite (c_gw_defined_notable prof (arg_gw x) Dwt).
  set (r_gw := {| gwR_fcadj := gwA_fcadj (arg_gw x); gwR_wtsoil := None; gwR_zgw := None |}).
  (* 2. root development *)
  assert (S2 : exists r, c_rd crops prof (arg_rd x gdd r_gw) = Some r).
  { unfold c_rd, obind, zgw_of. cbn [arg_rd rdA_wt rdA_zgw r_gw gwR_zgw]. unfold x_wt. cbn [x_par x mk_ctx]. rewrite Dwt. cbn [Z.eqb].
    cbn [arg_rd rdA_crop rdA_dap rdA_zroot rdA_dcd rdA_gddcum rdA_dgdd rdA_trratio rdA_th rdA_cc rdA_ccns rdA_germ rdA_rcor rdA_tpot rdA_gdd rdA_gs].
    change (x_crop x) with dc. fold cf rc. cbn [x_dap x_s x_gs x mk_ctx].
    destruct (root_development_defined rc prof dap (d_z_root s) (d_delayed_cds s) (gdd_cum_of x gdd) (d_delayed_gdds s) (d_tr_ratio s)
                (d_th s) (d_canopy_cover s) (d_canopy_cover_ns s) (d_germination s) (d_r_cor s) (d_t_pot s) #0%num gdd gs 0%Z
                Hrok Hcm W (po_pen _ _ P) (si_trratio _ _ _ _ _ SI) Hgdd Dcalr Dsx Dres) as [[z r] E].
    - intros zi Hzi. assert (Hzi' : zi <= zmax) by exact Hzi. clear - Ddeep1 B0 Hzi'. pose proof (in_bounds_length _ _ B0) as Hl. clear B0. revert Hl. generalize (d_th s).
      induction Ddeep1 as [c p Hc|c p Hex IH]; intros th Hl; (destruct th as [|t th]; [discriminate|]); cbn [Roots.rd_find]; rnum.
      + rewrite (Rleb_true zi (c_dzsum c)) by lra. discriminate.
      + destruct (Rleb zi (c_dzsum c)); [discriminate|]. apply IH. cbn in Hl. lia.
    - intros G. destruct (Z.eq_dec dap0 0) as [D0|D0]; [left; unfold dap, dap_of; rewrite G, D0; reflexivity|]. right.
      split; [exact (si_zroot _ _ _ _ _ SI D0)|]. intros tadj told zo Et Hzo. apply (RI D0 zo). fold dc cf rc.
      replace (troot rc dap0 s) with told; [exact Hzo|].
      revert Et. unfold Roots.rd_times, troot, gdd_cum_of. cbn [x_gs x_s x mk_ctx]. unfold dap, dap_of. rewrite G. rnum.
      destruct (Roots.rc_cal rc =? 1)%Z; [intros [= _ <-]; f_equal; lia|].
      destruct (Roots.rc_cal rc =? 2)%Z; [|discriminate]. intros [= _ <-]. lra.
    - rewrite E. eauto. }
  destruct S2 as [r_rd E2]. rewrite E2.
  assert (Hrd : 0 <= rdR_rcor r_rd /\ rdR_zroot r_rd <= zmax).
  { destruct (crd_call _ _ _ _ E2) as (zgw & _ & E).
    cbn [arg_rd rdA_crop rdA_dap rdA_zroot rdA_dcd rdA_gddcum rdA_dgdd rdA_trratio rdA_th rdA_cc rdA_ccns rdA_germ rdA_rcor rdA_tpot rdA_gdd rdA_gs rdA_wt] in E.
    change (x_crop x) with dc in E. fold cf rc in E. cbn [x_dap x_s x_gs x mk_ctx] in E.
    assert (Hside : 0 <= rdR_rcor r_rd /\ (gs = true -> Roots.rc_Zmin rc <= rdR_zroot r_rd)).
    { refine (root_development_side _ _ _ _ _ _ _ _ _ _ _ _ _ _ _ _ _ _ _ _ Hrok Hcm W (po_pen _ _ P) (co_rsxtop _ _ _ _ CK) (co_rsxbot _ _ _ _ CK)
                (si_trratio _ _ _ _ _ SI) Hgdd (si_rcor _ _ _ _ _ SI) _ E).
      intros G Hd1. cbn [rc root_crop Roots.rc_Zmin]. apply (si_zroot _ _ _ _ _ SI). unfold dap, dap_of in Hd1. rewrite G in Hd1. lia. }
    split; [exact (proj1 Hside)|].
    destruct gs eqn:G.
    - assert (Hf : Roots.rc_fshape_r rc <> 0) by (pose proof (RootsR.ok_fr rc Hrok); lra).
      destruct (root_development_inv2 _ _ _ _ _ _ _ _ _ _ _ _ _ _ _ _ _ _ _ Hf E) as (tadj & told & d & b & Et & _).
      assert (Hpre : dap = 1%Z \/ (Roots.rc_Zmin rc <= d_z_root s /\
                        forall zo, Roots.rd_restricted prof (Roots.rc_Zmin rc) (RootsR.pot rc told) = Some zo -> d_z_root s <= zo)).
      { destruct (Z.eq_dec dap0 0) as [D0|D0]; [left; unfold dap, dap_of; rewrite D0; reflexivity|]. right.
        split; [exact (si_zroot _ _ _ _ _ SI D0)|]. intros zo Hzo. apply (RI D0 zo). fold dc cf rc.
        replace (troot rc dap0 s) with told; [exact Hzo|].
        revert Et. unfold Roots.rd_times, troot, gdd_cum_of. cbn [x_gs x_s x mk_ctx]. unfold dap, dap_of. rnum.
        destruct (Roots.rc_cal rc =? 1)%Z; [intros [= _ <-]; f_equal; lia|].
        destruct (Roots.rc_cal rc =? 2)%Z; [|discriminate]. intros [= _ <-]. lra. }
      destruct (RootsR.root_range _ _ _ _ _ _ _ _ _ _ _ _ _ _ _ _ _ _ _ _ _ Hrok Hcm W (po_pen _ _ P) (si_trratio _ _ _ _ _ SI) Hgdd Et E Hpre)
        as (zn & _ & Hz & Hn). cbn [rc root_crop Roots.rc_Zmax] in Hn. fold zmax in Hn. lra.
    - unfold Roots.root_development in E. injection E as <- _. rnum. lra. }
  destruct Hrd as [Hrcor Hzr].
  assert (RZ : forall th, (length prof <= length th)%nat ->
                 RootZone.root_zone_water prof (rdR_zroot r_rd) th (so_z_top (p_soil par)) (c_Zmin dc) (c_Aer dc) <> None).
  { intros th Hl. apply (rz_defined_deep prof _ th _ _ _ zmax Hl Hzr Hzmax0 Ddeep2 Dtop). }
  (* 3. pre-irrigation *)
  assert (S3 : exists r, c_pi prof (arg_pi x r_rd) = Some r).
  { apply c_pi_defined; cbn [arg_pi piA_zroot piA_crop piA_th]; change (x_crop x) with dc; [|cbn [x_s x mk_ctx]; rewrite (in_bounds_length _ _ B0); lia].
    eapply Exists_impl; [|exact Ddeep2]. cbn. intros c Hc. eapply Rle_trans; [|exact Hc]. apply Rround_mono. unfold pmax. rnum.
    destruct (Rltb_spec (rdR_zroot r_rd) (c_Zmin dc)); lra. }
  destruct S3 as [r_pi E3]. rewrite E3.
  assert (B3 : in_bounds prof (piR_th r_pi)).
  { pose proof (c_pi_inv _ _ _ E3) as U. cbn [arg_pi piA_th x_s x mk_ctx] in U.
    exact (proj1 (RootsR.pre_irrigation_bounds _ _ _ _ _ _ _ _ _ _ W (irr_smt par season s DI) B0 U)). }
  (* 4. drainage *)
  assert (S4 : exists r, c_dr prof (arg_dr x r_gw r_pi) = Some r).
  { apply c_dr_defined; cbn [arg_dr drA_th drA_fcadj r_gw gwR_fcadj arg_gw gwA_fcadj x_s x mk_ctx]; [exact W | exact (in_bounds_length _ _ B3)|].
    rewrite <- (fcadj_ok_length _ _ F0). exact (in_bounds_length _ _ B3). }
  destruct S4 as [r_dr E4]. rewrite E4.
  pose proof (c_dr_inv _ _ _ E4) as U4. cbn [arg_dr drA_th drA_fcadj r_gw gwR_fcadj arg_gw gwA_fcadj x_s x mk_ctx] in U4.
  pose proof (DrainageR.drainage_bounds _ _ _ _ _ _ W B3 F0 U4) as B4.
  pose proof (DrainageR.drainage_length _ _ _ _ _ _ U4) as [L4a L4b].
  (* 5. rainfall partition *)
  assert (S5 : exists r, c_rp prof (arg_rp x r_dr) = Some r).
  { unfold c_rp. cbn [arg_rp rpA_rain rpA_th rpA_daysub rpA_srinhb rpA_bunds rpA_zbund rpA_pct rpA_cn rpA_adjcn rpA_zcn rpA_ncomp].
    change (x_field x) with (sel_field par season gs). change (x_soil x) with (p_soil par). cbn [x_w x_s x mk_ctx].
    destruct (RainIrr.rainfall_partition _ _ _ _ _ _ _ _ _ _ _ _) as [[[ro infl] ds]|] eqn:E; [eauto|].
    exfalso. revert E. apply (Drp (w_rain w) (drR_th r_dr) _ Drain). symmetry. exact (in_bounds_length _ _ B4). }
  destruct S5 as [r_rp E5]. rewrite E5.
  assert (Hds : nonneg_int (rpR_daysub r_rp)).
  { destruct (c_rp_daysub _ _ _ E5) as [-> | ->]; [apply nonneg_int_0|].
    cbn [arg_rp rpA_daysub x_s x mk_ctx]. rewrite (Ztrunc_nonneg_int _ (si_daysub _ _ _ _ _ SI)). exact (si_daysub _ _ _ _ _ SI). }
  (* 6. irrigation *)
  assert (S6 : exists r, c_ir prof (arg_ir x r_rd r_dr r_rp) = Some r).
  { unfold c_ir.
    match goal with |- exists r, match ?call with _ => _ end = Some r =>
      assert (Hc : exists v, call = Some v); [|destruct Hc as [[[[d t] c] i] ->]; eauto] end.
    cbn [arg_ir irA_method irA_smt irA_eff irA_maxirr irA_interval irA_sched irA_depth irA_maxseason irA_stage irA_irrcum irA_epot irA_tpot
         irA_zroot irA_th irA_dap irA_tsc irA_crop irA_ztop irA_gs irA_rain irA_runoff].
    apply (irrigation_defined (x_irr x)); [exact Dirr | exact Sstg |].
    change (x_crop x) with dc. change (x_soil x) with (p_soil par). apply RZ. rewrite (in_bounds_length _ _ B4). lia. }
  destruct S6 as [r_ir E6]. rewrite E6.
  assert (Hirr : 0 <= irR_irr r_ir) by exact (RainIrrR.irr_nonneg _ _ _ _ _ _ _ _ _ _ _ _ _ _ _ _ _ _ _ _ _ _ _ _ _ _ _ (cir_call _ _ _ E6)).
  (* 7. infiltration *)
  assert (S7 : exists r, c_inf prof (arg_inf x r_gw r_dr r_rp r_ir) = Some r).
  { apply c_inf_defined; cbn [arg_inf infA_th infA_fcadj infA_flux infA_irr infA_eff r_gw gwR_fcadj arg_gw gwA_fcadj x_s x mk_ctx]; try assumption;
      try (rewrite L4a, L4b; reflexivity); try exact Deff. }
  destruct S7 as [r_inf E7]. rewrite E7.
  assert (B7 : in_bounds prof (infR_th r_inf)).
  { pose proof (c_inf_inv _ _ _ E7) as U. cbn [arg_inf infA_surf infA_fcadj infA_th r_gw gwR_fcadj arg_gw gwA_fcadj x_s x mk_ctx] in U.
    exact (proj1 (InfiltrationR.infiltration_bounds _ _ _ _ _ _ _ _ _ _ _ _ _ _ _ _ _ _ _ W B4 F0 (inv_surf _ _ DI) U)). }
  (* 8. capillary rise: none *)
  rewrite (c_cr_notable prof (arg_cr x r_gw r_inf) Dwt). cbn [arg_cr crA_th].
  set (r_cr := {| crR_th := infR_th r_inf; crR_cr := 0 |}).
  (* 9. germination *)
  assert (S9 : exists r, c_ge prof (arg_ge x gdd r_cr) = Some r).
  { apply c_ge_defined; cbn [arg_ge geA_zgerm geA_th r_cr crR_th]; [exact Dgerm | rewrite (in_bounds_length _ _ B7); lia]. }
  destruct S9 as [r_ge E9]. rewrite E9.
  (* 10. growth stage *)
  destruct (c_gst_defined crops (arg_gst x gdd r_ge) Dcal) as [r_gst E10]. rewrite E10.
  (* 11. canopy cover *)
  assert (S11 : exists r, c_cc crops prof (arg_cc x gdd r_rd r_cr r_ge) = Some r).
  { apply c_cc_defined; cbn [arg_cc ccA_crop ccA_gs ccA_zroot ccA_th ccA_ztop r_cr crR_th]; change (x_crop x) with dc; fold cf; [exact Dcalc|].
    intros _. apply RZ. rewrite (in_bounds_length _ _ B7). lia. }
  destruct S11 as [r_cc E11]. rewrite E11.
  (* 12. soil evaporation *)
  assert (S12 : exists r, c_ev prof (arg_ev x gdd r_ir r_inf r_cr r_ge r_cc) = Some r).
  { apply c_ev_defined'; cbn [arg_ev evA_steps evA_gs evA_caltype evA_zmin evA_zmax evA_evapz evA_th r_cr crR_th]; change (x_crop x) with dc;
      change (x_soil x) with (p_soil par); cbn [x_par x_s x mk_ctx]; try assumption.
    - right. exact Dcal.
    - symmetry. exact (in_bounds_length _ _ B7). }
  destruct S12 as [r_ev E12]. rewrite E12.
  assert (B12 : in_bounds prof (evR_th r_ev)).
  { destruct (c_ev_inv _ _ _ E12) as (o & U & -> & _). cbn [arg_ev evA_th r_cr crR_th] in U.
    exact (proj1 (EvaporationR.evaporation_bounds _ _ _ _ _ _ _ _ _ _ W B7 U)). }
  (* 13. transpiration *)
  assert (S13 : exists r, c_tr crops prof (arg_tr x gdd r_rd r_rp r_ir r_ge r_cc r_ev) = Some r).
  { apply c_tr_defined; cbn [arg_tr trA_crop trA_th trA_aer_comp trA_zroot trA_ztop]; change (x_crop x) with dc; fold cf; cbn [x_s x mk_ctx]; try assumption.
    - symmetry. exact (in_bounds_length _ _ B12).
    - apply RZ. rewrite (in_bounds_length _ _ B12). lia. }
  destruct S13 as [r_tr E13]. rewrite E13.
  assert (B13 : in_bounds prof (trR_th r_tr)).
  { destruct (c_tr_inv _ _ _ _ E13) as (o & U & -> & _).
    cbn [arg_tr trA_crop trA_ztop trA_method trA_smt trA_et0 trA_co2c trA_co2r trA_gs trA_gdd] in U. change (x_crop x) with dc in U. fold cf in U.
    destruct (co_lag_int _ _ _ _ CK) as (L & HL).
    refine (proj1 (TranspirationR.transpiration_bounds _ _ _ _ _ _ _ _ _ _ _ _ _ _ _ U)).
    - constructor; cbn [tr_crop tr_state arg_tr Transpiration.k_SxTop Transpiration.k_SxBot Transpiration.s_r_cor Transpiration.k_Zmin
                        Transpiration.k_LagAer Transpiration.s_aer_comp Transpiration.s_day_sub trA_rcor trA_aer_comp trA_day_sub x_s x mk_ctx].
      + exact W.
      + exact (po_geom _ _ P).
      + exact (co_sxtop _ _ _ _ CK).
      + exact (co_sxbot _ _ _ _ CK).
      + exact Hrcor.
      + lra.
      + exact (co_lag _ _ _ _ CK).
      + exact (si_aer _ _ _ _ _ SI).
      + apply nonneg_int_ge0, Hds.
      + rewrite HL. apply nonneg_int_step, Hds.
    - intros M. change (x_irr x) with (sel_irr par season). split; [exact (irr_smt par season s DI) | exact (po_layers _ _ P)].
    - cbn [tr_state arg_tr Transpiration.s_th trA_th]. exact B12. }
  (* 14. groundwater inflow: none *)
  rewrite (c_gi_off prof (arg_gi x r_gw r_tr) eq_refl). cbn [arg_gi giA_th].
  set (r_gi := {| giR_th := trR_th r_tr; giR_gwin := 0 |}).
  (* 15. reference harvest index *)
  destruct (c_hr_defined crops (arg_hr x r_ge r_cc r_tr)) as [r_hr E15]. rewrite E15.
  (* 16. biomass *)
  assert (S16 : exists r, c_bm crops (arg_bm x r_ge r_tr r_hr) = Some r).
  { apply c_bm_defined2; cbn [arg_bm bmA_gs bmA_et0 bmA_crop]; change (x_crop x) with dc; fold cf; [|exact Dyld].
    cbn [x_gs x_w x mk_ctx]. intros G. pose proof (Det0 G). lra. }
  destruct S16 as [r_bm E16]. rewrite E16.
  (* 17. harvest index *)
  assert (S17 : exists r, c_hi crops prof (arg_hi x r_rd r_ge r_cc r_tr r_gi r_hr r_bm) = Some r).
  { apply c_hi_defined; cbn [arg_hi hiA_gs hiA_zroot hiA_th hiA_ztop hiA_crop r_gi giR_th]; change (x_crop x) with dc; fold cf; try assumption.
    intros _. apply RZ. rewrite (in_bounds_length _ _ B13). lia. }
  destruct S17 as [r_hi E17]. rewrite E17.
  (* 18. root zone water *)
  assert (S18 : exists r, c_rz prof (arg_rz x r_rd r_gi) = Some r).
  { apply c_rz_defined. cbn [arg_rz rzA_zroot rzA_th rzA_ztop rzA_zmin rzA_aer r_gi giR_th]. change (x_crop x) with dc.
    apply RZ. rewrite (in_bounds_length _ _ B13). lia. }
  destruct S18 as [r_rz E18]. rewrite E18. eauto.
Qed.

Corollary defined_c_strong' par crops season gs dap0 tsc w s :
  ParOK par crops -> StrongInv par crops season dap0 s -> RootInv par crops season dap0 s ->
  DefOK par crops season gs tsc w -> DefSt' par s ->
  defined_c par crops season gs (dap_of gs dap0) tsc w s = true.
Proof.
  intros P SI RI DO DS. destruct (day_defined_strong' par crops season gs dap0 tsc w s P SI RI DO DS) as (s' & row & E).
  unfold defined_c. rewrite E. reflexivity.
Qed.

Corollary day_defined_clock' par crops c w (st : St (DState R)) :
  ParOK par crops -> SInv par crops st -> RootInv par crops (season st) (dap st) (phys st) ->
  DefOK par crops (season st) (in_season (DState R) dead c st) (tsc st) w -> DefSt' par (phys st) ->
  day_defined (DState R) (Day.W R) dead (defined_c par crops) c w st = true.
Proof.
  intros P SI RI DO DS. unfold day_defined. exact (defined_c_strong' par crops _ _ (dap st) _ w _ P SI RI DO DS).
Qed.

(* ============================================================================================================ *)
(*  Part C  DefSt' is an invariant                                                                                *)
(* ============================================================================================================ *)
(* C.1 a defined day *)
Lemma defst_day par crops season gs dap tsc w s s' row :
  DayInv par s -> DefOK par crops season gs tsc w -> DefSt' par s ->
  day_proc_opt par (procs_concrete crops) season gs dap tsc w s = Some (s', row) -> DefSt' par s'.
Proof.
  intros DI DO DS H. destruct (day_proc_opt_total _ _ _ _ _ _ _ _ _ _ H) as (_ & Rs & HR & _ & -> & _).
  pose proof (results_opt_spec _ _ _ HR) as SO.
  constructor.
  - pose proof (so_tr _ _ _ SO) as E. cbn [procs_concrete po_tr] in E. destruct (c_tr_inv2 _ _ _ _ E) as (o & U & _ & Ea & _).
    cbn [state_of d_aer_days_comp]. rewrite Ea, (transpiration_aer_length _ _ _ _ _ _ _ _ _ _ _ _ U).
    cbn [tr_state Transpiration.s_aer_comp t_tr trace_of arg_tr trA_aer_comp x_s ctx]. apply DS.
  - cbn [state_of d_evap_z].
    pose proof (so_ev _ _ _ SO) as E. cbn [procs_concrete po_ev] in E.
    destruct (u_cr par crops season gs dap tsc w s Rs HR) as (zgw & Ecr). rewrite (do_wt _ _ _ _ _ _ DO) in Ecr.
    rewrite (proj1 (GroundwaterR.no_table_zero _ _ _ _ _ _ _)) in Ecr. injection Ecr as Ecr _.
    pose proof (proj1 (b_inf par crops season gs dap tsc w s Rs HR DI)) as B7.
    destruct (do_evap _ _ _ _ _ _ DO) as (Dst & Dzz & Ddp).
    change (so_evap_z_max (p_soil par)) with (evA_zmax (t_ev (trace_of (ctx par season gs dap tsc w s) Rs))).
    refine (c_ev_evapz _ _ _ _ _ _ _ _ _ E).
    all: cbn [t_ev trace_of arg_ev evA_steps evA_gs evA_caltype evA_zmin evA_zmax evA_evapz evA_th x_soil x_crop x_par x_s x_prof x_gs ctx];
      unfold x_soil, x_crop, x_prof; cbn [x_par x_season ctx].
    + exact Dst.
    + right. exact (do_cal _ _ _ _ _ _ DO).
    + exact Dzz.
    + apply DS.
    + exact Ddp.
    + rewrite <- Ecr. symmetry. exact (in_bounds_length _ _ B7).
  - cbn [state_of d_growth_stage].
    pose proof (so_gst _ _ _ SO) as E. cbn [procs_concrete po_gst] in E. unfold c_gst in E. cbv zeta in E.
    destruct (RainIrr.growth_stage _ _ _ _ _ _ _ _ _ _) as [z|] eqn:G; [|discriminate]. injection E as <-. cbn [gstR_stage].
    exact (RainIrrR.growth_stage_range _ _ _ _ _ _ _ _ _ _ _ G).
Qed.

(* C.2 the season reset (Day.reset rebuilds the aeration-day array from nComp) *)
Lemma defst_reset par k ws s : so_nComp (p_soil par) = Z.of_nat (length (so_prof (p_soil par))) -> DefSt' par s -> DefSt' par (reset par k ws s).
Proof.
  intros Hn DS. constructor; cbn [reset d_aer_days_comp d_evap_z d_growth_stage].
  - rewrite repeat_length, Hn. apply Nat2Z.id.
  - apply DS.
  - lia.
Qed.

From AC.Init Require Import SoilBuild InitState.
From AC.proofs Require Import InitStateP.
From AC.proofs Require DayCropRowsInit.

(* C.3 the state built by init_state *)
Lemma defst_init par k zgw0 fcr th0 s : 0 <= so_evap_z_max (p_soil par) ->
  init_state par k zgw0 fcr th0 = Some s -> DefSt' par s.
Proof.
  intros Hz E. destruct (init_state_inv _ _ _ _ _ _ E) as (z & b & fc & th & _ & ->).
  constructor; cbn [d_aer_days_comp d_evap_z d_growth_stage]; [apply map_length | lra | lia].
Qed.

(* ============================================================================================================ *)
(*  Part D  the whole run completes                                                                               *)
(* ============================================================================================================ *)
Section Completes.
  Variables (par : DPar R) (crops : Z -> CropFull R).

  Notation procc := (proc_c par crops).
  Notation defc := (defined_c par crops).
  Notation performc := (perform (DState R) (Day.W R) (DRow R) (DOut R) procc dead (matured par) (summary_of par) (reset par)).
  Notation performg := (perform_g (DState R) (Day.W R) (DRow R) (DOut R) procc dead (matured par) (summary_of par) (reset par) defc).
  Notation evof := (event_of (DState R) (Day.W R) (DRow R) procc dead).
  Notation minvc := (minv (DState R) (DRow R) (DOut R)).
  Notation CModelR := (Model (DState R) (DRow R) (DOut R)).

  Hypothesis Hcn : cn_ok par.
  Hypothesis Hmaxseason : 0 <= i_MaxIrrSeason (p_irr par).
  Hypothesis POK : ParOK par crops.
  Hypothesis HIOK : ParHIOK par crops.
  Variable c : ClockP.
  Variable ws : list (Day.W R).
  Hypothesis Hwf : wf_clock c.
  Hypothesis Hws : weather_ok (Day.W R) WOK2 ws.
  Hypothesis Hcov : weather_covers (Day.W R) c ws.
  Hypothesis HSeason : forall k p h, nthZ (plant c) k = Some p -> nthZ (harv c) k = Some h ->
    let kk := cf_tr (crops (c_id (sel_crop par k))) in
    (IZR (h - p) - Transpiration.k_MaxCanopyCD kk - 5) * (Transpiration.k_fage kk / 100) <= Transpiration.k_Kcb kk.
  Hypothesis Hwt : p_water_table par = 0%Z.
  Hypothesis HnComp : so_nComp (p_soil par) = Z.of_nat (length (so_prof (p_soil par))).
  (* the definedness conditions, for every season counter, both in and off season, and every row of the weather table *)
  Hypothesis HDef : forall k gs t w, nthW (Day.W R) ws t = Some w -> DefOK par crops k gs t w.


  Let HCap : forall season gs dap tsc w s Rs,
    results_opt (ctx par season gs dap tsc w s) (procs_concrete crops) = Some Rs -> CapOK par Rs.
  Proof. intros season gs dap tsc w s Rs _. apply CapOK_no_table. rewrite Hwt. discriminate. Qed.

  (* one step: the guarded step is the unguarded one (the guard is passed), and every invariant is kept *)
  Lemma completes_step (m : CModelR) :
    minvc c m -> SInv par crops (st m) -> DapInv (DState R) c (st m) -> RInv2 par (phys (st m)) -> CInvS par crops (st m) ->
    DefSt' par (phys (st m)) ->
    exists m1, performg c ws m = GOk m1 /\ performc c ws m = Ok m1 /\
      SInv par crops (st m1) /\ RInv2 par (phys (st m1)) /\ CInvS par crops (st m1) /\ DefSt' par (phys (st m1)) /\
      (fin (st m1) = false -> minvc c m1 /\ DapInv (DState R) c (st m1)).
  Proof.
    intros Hm HS HJ HR2 HC HD.
    destruct (perform_ok _ _ _ _ procc dead (matured par) (summary_of par) (reset par) c ws m Hwf Hm Hcov) as [m1 Hp].
    pose proof (ci_tsc _ _ _ (proj1 Hm)) as T0. pose proof (ci_end _ _ _ (proj1 Hm)) as T1.
    destruct (nthW (Day.W R) ws (tsc (st m))) as [w|] eqn:Ew; [|exfalso; apply (Hcov (tsc (st m))); [lia|exact Ew]].
    pose proof (HDef (season (st m)) (in_season (DState R) dead c (st m)) (tsc (st m)) w Ew) as DO.
    pose proof (day_defined_clock' par crops c w (st m) POK HS (c3_root _ _ _ _ _ HC) DO HD) as Ed.
    exists m1. split; [unfold perform_g; rewrite Ew, Ed, Hp; reflexivity|]. split; [exact Hp|].
    destruct (strong_perform_crop_rows par crops Hcn Hmaxseason POK HIOK c ws Hwf Hws HSeason HCap m m1 w Hm HS HJ HR2 HC Ew Ed Hp)
      as ((He & _ & _) & HS1 & H21 & H31 & Hnf).
    split; [exact HS1|]. split; [exact H21|]. split; [exact H31|]. split; [|exact Hnf].
    pose proof (is_day_opt par crops _ (proj1 He)) as Hopt.
    assert (HD1 : DefSt' par (e_post _ _ _ (evof c w (st m)))).
    { refine (defst_day par crops _ _ _ _ _ _ _ _ (si_day _ _ _ _ _ HS) DO HD Hopt). }
    pose proof (perform_cases _ _ _ _ procc dead (matured par) (summary_of par) (reset par) c ws m m1 w Ew Hp) as Hc.
    cbv zeta in Hc. destruct Hc as [(_ & _ & E3) | (_ & _ & E3)]; rewrite E3; [exact HD1|].
    apply defst_reset; [exact HnComp|exact HD1].
  Qed.

  Notation runtill := (run_till (DState R) (Day.W R) (DRow R) (DOut R) procc dead (matured par) (summary_of par) (reset par)).

  (* the guarded loop follows the unguarded one to the end *)
  Lemma run_till_completes_acc fuel : forall (m : CModelR),
    SInv par crops (st m) -> RInv2 par (phys (st m)) -> CInvS par crops (st m) -> DefSt' par (phys (st m)) ->
    (fin (st m) = false -> minvc c m /\ DapInv (DState R) c (st m)) ->
    (fin (st m) = false -> (Z.to_nat (n_steps c - 1 - tsc (st m)) <= fuel)%nat) ->
    exists m', run_till_c par crops c ws fuel m = Some (GOk m') /\ runtill c ws fuel m = Some (Ok m') /\ fin (st m') = true /\
               SInv par crops (st m') /\ RInv2 par (phys (st m')) /\ CInvS par crops (st m') /\ DefSt' par (phys (st m')).
  Proof.
    unfold run_till_c. induction fuel as [|fuel IH]; intros m HS H2 H3 HD Hnf Hle; cbn [Clock.run_till_g Clock.run_till];
      destruct (fin (st m)) eqn:Ef;
      try (exists m; split; [reflexivity|]; split; [reflexivity|]; split; [exact Ef|]; repeat (split; [assumption|]); assumption).
    - exfalso. destruct (Hnf eq_refl) as [Hm _]. pose proof (ci_end _ _ _ (proj1 Hm)). pose proof (Hle eq_refl). lia.
    - destruct (Hnf eq_refl) as [Hm Hd].
      destruct (completes_step m Hm HS Hd H2 H3 HD) as (m1 & Eg & Ep & HS1 & H21 & H31 & HD1 & Hnf1).
      rewrite Eg, Ep. apply IH; try assumption.
      intros Ef1. destruct (Hnf1 Ef1) as [Hm1 _].
      destruct (perform_inv _ _ _ _ procc dead (matured par) (summary_of par) (reset par) c ws m m1 Hwf Hm Ep)
        as (w & s1 & row & sr & _ & _ & _ & _ & _ & _ & Hx).
      destruct (Hx Ef1) as (_ & L & _). pose proof (ci_end _ _ _ (proj1 Hm1)). pose proof (Hle eq_refl). lia.
  Qed.

  (* run_model(till_termination = True) COMPLETES: it does not raise, it does not stop at an undefined day, and it ends with the clock's
     termination flag set; the result is the one of the unguarded clock loop (ClockP.run_till_terminates), so the run ends at the last
     season's harvest or on the day before the end date *)
  Theorem run_till_c_completes_cap (m0 : CModelR) :
    minvc c m0 -> SInv par crops (st m0) -> DapInv (DState R) c (st m0) -> RInv2 par (phys (st m0)) -> CInvS par crops (st m0) ->
    DefSt' par (phys (st m0)) ->
    forall fuel, (Z.to_nat (n_steps c - 1 - tsc (st m0)) <= fuel)%nat ->
    exists m', run_till_c par crops c ws fuel m0 = Some (GOk m') /\ fin (st m') = true /\
               ((hflag (st m') = true /\ season (st m') = n_seasons c - 1)%Z \/ (tsc (st m') + 1 = n_steps c - 1)%Z) /\
               SInv par crops (st m') /\ RInv2 par (phys (st m')) /\ CInvS par crops (st m') /\ DefSt' par (phys (st m')).
  Proof.
    intros Hm HS Hd H2 H3 HD fuel Hle.
    destruct (run_till_completes_acc fuel m0 HS H2 H3 HD (fun _ => conj Hm Hd) (fun _ => Hle)) as (m' & Eg & Er & Ef & Hrest).
    exists m'. split; [exact Eg|]. split; [exact Ef|]. split; [|exact Hrest].
    destruct (run_till_terminates _ _ _ _ procc dead (matured par) (summary_of par) (reset par) c ws Hwf Hcov fuel m0 Hm Hle)
      as (m2 & Er2 & _ & Hend).
    rewrite Er in Er2. injection Er2 as <-. exact Hend.
  Qed.
End Completes.

(* the closed form: no water table; any fuel of at least n_steps suffices (the loop needs n_steps - 1 - tsc steps at most) *)
Theorem run_till_c_completes par crops c ws (m0 : Model (DState R) (DRow R) (DOut R)) :
  cn_ok par -> 0 <= i_MaxIrrSeason (p_irr par) ->
  ParOK par crops -> ParHIOK par crops -> wf_clock c -> weather_ok (Day.W R) WOK2 ws -> weather_covers (Day.W R) c ws ->
  (forall k p h, nthZ (plant c) k = Some p -> nthZ (harv c) k = Some h ->
     let kk := cf_tr (crops (c_id (sel_crop par k))) in
     (IZR (h - p) - Transpiration.k_MaxCanopyCD kk - 5) * (Transpiration.k_fage kk / 100) <= Transpiration.k_Kcb kk) ->
  p_water_table par = 0%Z ->
  so_nComp (p_soil par) = Z.of_nat (length (so_prof (p_soil par))) ->
  (forall k gs t w, nthW (Day.W R) ws t = Some w -> DefOK par crops k gs t w) ->
  minv (DState R) (DRow R) (DOut R) c m0 -> SInv par crops (st m0) -> DapInv (DState R) c (st m0) -> RInv2 par (phys (st m0)) ->
  CInvS par crops (st m0) -> DefSt' par (phys (st m0)) ->
  forall fuel, (Z.to_nat (n_steps c) <= fuel)%nat ->
  exists m', run_till_c par crops c ws fuel m0 = Some (GOk m') /\ fin (st m') = true /\
             ((hflag (st m') = true /\ season (st m') = n_seasons c - 1)%Z \/ (tsc (st m') + 1 = n_steps c - 1)%Z).
Proof.
  intros Hcn Hmx P PH Hwf Hws Hcov HD Hwt Hn HDef Hm HS Hd H2 H3 HDS fuel Hle.
  assert (Hle' : (Z.to_nat (n_steps c - 1 - tsc (st m0)) <= fuel)%nat) by (pose proof (ci_tsc _ _ _ (proj1 Hm)); lia).
  destruct (run_till_c_completes_cap par crops Hcn Hmx P PH c ws Hwf Hws Hcov HD Hwt Hn HDef m0 Hm HS Hd H2 H3 HDS fuel Hle')
    as (m' & A & B & C & _).
  exists m'. split; [exact A|]. split; [exact B|exact C].
Qed.

(* ... and together with DayCropRowsP.run_till_crop_rows_strong_season_no_table: the run completes AND every day of it satisfies every
   per-row theorem *)
Corollary run_till_c_completes_rows par crops c ws (m0 : Model (DState R) (DRow R) (DOut R)) :
  cn_ok par -> 0 <= i_MaxIrrSeason (p_irr par) ->
  ParOK par crops -> ParHIOK par crops -> wf_clock c -> weather_ok (Day.W R) WOK2 ws -> weather_covers (Day.W R) c ws ->
  (forall k p h, nthZ (plant c) k = Some p -> nthZ (harv c) k = Some h ->
     let kk := cf_tr (crops (c_id (sel_crop par k))) in
     (IZR (h - p) - Transpiration.k_MaxCanopyCD kk - 5) * (Transpiration.k_fage kk / 100) <= Transpiration.k_Kcb kk) ->
  p_water_table par = 0%Z ->
  so_nComp (p_soil par) = Z.of_nat (length (so_prof (p_soil par))) ->
  (forall k gs t w, nthW (Day.W R) ws t = Some w -> DefOK par crops k gs t w) ->
  minv (DState R) (DRow R) (DOut R) c m0 -> SInv par crops (st m0) -> DapInv (DState R) c (st m0) -> RInv2 par (phys (st m0)) ->
  CInvS par crops (st m0) -> DefSt' par (phys (st m0)) ->
  forall fuel, (Z.to_nat (n_steps c) <= fuel)%nat ->
  exists m' (evs : list (Ev (DState R) (Day.W R) (DRow R))),
    run_till_c par crops c ws fuel m0 = Some (GOk m') /\ fin (st m') = true /\
    Reach (DState R) (Day.W R) (DRow R) (DOut R) (proc_c par crops) dead (matured par) (summary_of par) (reset par) (defined_c par crops)
          c ws m0 evs m' /\
    Forall (fun e => strong_ev par crops e /\ rows_day par crops e /\ crop_rows_day par crops e) evs /\
    rows (tabs m') = map (fun e => (e_tsc _ _ _ e, e_row _ _ _ e)) evs ++ rows (tabs m0).
Proof.
  intros Hcn Hmx P PH Hwf Hws Hcov HD Hwt Hn HDef Hm HS Hd H2 H3 HDS fuel Hle.
  destruct (run_till_c_completes par crops c ws m0 Hcn Hmx P PH Hwf Hws Hcov HD Hwt Hn HDef Hm HS Hd H2 H3 HDS fuel Hle) as (m' & A & B & _).
  assert (Hwt' : p_water_table par <> 1%Z) by (rewrite Hwt; discriminate).
  destruct (run_till_crop_rows_strong_season_no_table par crops c ws fuel m0 m' Hcn Hmx P PH Hwf Hws HD Hwt' Hm HS Hd H2 H3 A)
    as (evs & R1 & _ & _ & _ & R2 & _ & R3).
  exists m', evs. repeat (split; [assumption|]). assumption.
Qed.

(* run_model(till_termination = True) right after _initialize() *)
Theorem run_from_init_completes par crops c ws zgw0 fcr th0 s0 (m0 : Model (DState R) (DRow R) (DOut R)) :
  cn_ok par -> 0 <= i_MaxIrrSeason (p_irr par) -> ParOK par crops -> ParHIOK par crops -> MgmtOK par ->
  wf_clock c -> weather_ok (Day.W R) WOK2 ws -> weather_covers (Day.W R) c ws ->
  (forall k p h, nthZ (plant c) k = Some p -> nthZ (harv c) k = Some h ->
     let kk := cf_tr (crops (c_id (sel_crop par k))) in
     (IZR (h - p) - Transpiration.k_MaxCanopyCD kk - 5) * (Transpiration.k_fage kk / 100) <= Transpiration.k_Kcb kk) ->
  p_water_table par = 0%Z ->
  so_nComp (p_soil par) = Z.of_nat (length (so_prof (p_soil par))) ->
  0 <= so_evap_z_max (p_soil par) ->
  (forall k gs t w, nthW (Day.W R) ws t = Some w -> DefOK par crops k gs t w) ->
  in_bounds (so_prof (p_soil par)) th0 ->
  init_state par (init_season c) zgw0 fcr th0 = Some s0 ->
  init_c c s0 = Ok m0 ->
  forall fuel, (Z.to_nat (n_steps c) <= fuel)%nat ->
  exists m' (evs : list (Ev (DState R) (Day.W R) (DRow R))),
    run_till_c par crops c ws fuel m0 = Some (GOk m') /\ fin (st m') = true /\
    Reach (DState R) (Day.W R) (DRow R) (DOut R) (proc_c par crops) dead (matured par) (summary_of par) (reset par) (defined_c par crops)
          c ws m0 evs m' /\
    Forall (fun e => strong_ev par crops e /\ rows_day par crops e /\ crop_rows_day par crops e) evs /\
    rows (tabs m') = map (fun e => (e_tsc _ _ _ e, e_row _ _ _ e)) evs ++ rows (tabs m0).
Proof.
  intros Hcn Hmx P PH M Hwf Hws Hcov HD Hwt Hn Hz HDef Hth Hi Hc fuel Hle.
  assert (Htab : table_ok (so_prof (p_soil par)) (p_water_table par)) by exact (or_introl Hwt).
  destruct (DayCropRowsInit.from_init_crop_premises par crops c zgw0 fcr th0 s0 m0 Hmx P M Hwf Htab Hth Hi Hc PH) as (A & B & C & D & E).
  pose proof (init_state_strong par crops zgw0 fcr th0 P Hth Htab M _ (init_season_cases c) s0 Hi) as HS0.
  destruct (init_clock_strong par crops c s0 m0 Hwf Hc HS0) as (_ & _ & _ & Eph).
  assert (HDS : DefSt' par (phys (st m0))) by (rewrite Eph; exact (defst_init par _ zgw0 fcr th0 s0 Hz Hi)).
  exact (run_till_c_completes_rows par crops c ws m0 Hcn Hmx P PH Hwf Hws Hcov HD Hwt Hn HDef A B C D E HDS fuel Hle).
Qed.

(* ============================================================================================================ *)
(*  Part E  a concrete instance on which every premise holds                                                      *)
(* ============================================================================================================ *)
(* the restrictive-horizon walk is defined as soon as every soil layer 1..n has a compartment (l_idx[0] exists) *)
Lemma rd_walk_defined : forall (rest : list (R * option R)) zradj zrremain deltaz zsoil cur,
  snd cur <> None -> Forall (fun e => snd e <> None) rest -> Roots.rd_walk zradj zrremain deltaz zsoil cur rest <> None.
Proof.
  induction rest as [|e r IH]; intros zradj zrremain deltaz zsoil cur Hc Hr; cbn [Roots.rd_walk];
    (destruct (snd cur) as [pen|]; [|contradiction]); [discriminate|].
  destruct (_ || _); [discriminate|]. inversion Hr; subst. apply IH; assumption.
Qed.

Lemma rd_skip_some zmin : forall (rest : list (R * option R)) zsoil cur,
  snd cur <> None -> Forall (fun e => snd e <> None) rest ->
  snd (snd (fst (Roots.rd_skip zmin zsoil cur rest))) <> None /\ Forall (fun e => snd e <> None) (snd (Roots.rd_skip zmin zsoil cur rest)).
Proof.
  induction rest as [|e r IH]; intros zsoil cur Hc Hr; cbn [Roots.rd_skip]; [split; assumption|].
  destruct (_ <=? _)%num; [|split; assumption]. inversion Hr; subst. apply IH; assumption.
Qed.

Lemma nunique_pos (l : list Z) : l <> [] -> Roots.nunique l <> O.
Proof.
  induction l as [|x r IH]; [contradiction|]. intros _. cbn [Roots.nunique].
  destruct (existsb (Z.eqb x) r) eqn:E; [|discriminate]. apply IH. intros ->. discriminate.
Qed.

Lemma rd_restrict_defined (p : list (Comp R)) zmin :
  p <> [] -> Forall (fun e => snd e <> None) (Roots.layer_tab p 1 (Roots.nunique (map c_layer p))) ->
  forall z, Roots.rd_restrict p zmin z <> None.
Proof.
  intros Hne HF z. unfold Roots.rd_restrict.
  assert (Hn : Roots.nunique (map c_layer p) <> O) by (apply nunique_pos; destruct p; [contradiction|discriminate]).
  destruct (Roots.nunique (map c_layer p)) as [|n]; [contradiction|]. cbn [Roots.layer_tab] in *.
  inversion HF as [|e0 r0 H1 H2]; subst.
  destruct (rd_skip_some zmin _ (fst (Roots.layer_info p 1)) _ H1 H2) as [A B].
  destruct (Roots.rd_skip zmin _ _ _) as [[zs cur] rest]. cbn [fst snd] in A, B. apply rd_walk_defined; assumption.
Qed.

(* The instance: DaySideP.Ex (two layers / four compartments of 0.1 m, bunds, net irrigation, no water table) with two changes that
   definedness needs and the sign / range theorems did not:
   - the roots reach at most Zmax = 0.4 m, the depth of the profile (DaySideP.Ex pairs the 0.4 m profile with Zmax = 1.5 m, see
     DayDefinedP.def_ok_fails_on_ex);
   - evap_z_max = 0.15 m (DaySideP.Ex: 0.30 m): soil_evaporation needs two compartments below the one that holds evap_z_max + 0.001 m
     (EvaporationR.deep_enough), and the profile has four. *)
Module ExC.
  Definition rcrop : Roots.RootCrop R :=
    {| Roots.rc_Zmin := 3/10; Roots.rc_Zmax := 4/10; Roots.rc_PctZmin := 70; Roots.rc_Emergence := 13; Roots.rc_MaxRooting := 93;
       Roots.rc_fshape_r := 15/10; Roots.rc_fshape_ex := -6; Roots.rc_cal := 1; Roots.rc_SxTop := 54/1000; Roots.rc_SxBot := 6/1000;
       Roots.rc_pup1 := 65/100; Roots.rc_fshape_w1 := 25/10 |}.
  Definition cfull : CropFull R :=
    {| cf_root := rcrop; cf_can := CanopyR.kw; cf_y := YieldR.maize; cf_s := DaySideP.Ex.scrop; cf_tr := TranspirationR.ex_k;
       cf_c10 := 20; cf_maxcan := 60 |}.
  Definition crops : Z -> CropFull R := fun _ => cfull.
  Definition soil : DSoil R :=
    {| so_cn := 61; so_adj_cn := 1; so_z_cn := 3/10; so_nComp := 4; so_z_top := 1/10; so_nLayer := 2; so_fshape_cr := 16;
       so_z_germ := 3/10; so_evap_z_min := 15/100; so_evap_z_max := 15/100; so_rew := 9; so_kex := 11/10; so_fwcc := 50;
       so_f_wrel_exp := 4/10; so_f_evap := 4; so_prof := TranspirationR.ex_p |}.
  Definition par : DPar R :=
    {| p_soil := soil; p_irr := DaySideP.Ex.irr; p_fallow_irr := DaySideP.Ex.irr; p_field := DaySideP.Ex.field;
       p_fallow_field := DaySideP.Ex.field; p_crop := fun _ => DaySideP.Ex.dcrop; p_fallow_crop := DaySideP.Ex.dcrop; p_water_table := 0;
       p_co2c := fun _ => 400; p_co2r := 36941/100; p_evap_steps := 20; p_sim_off := false |}.

  Lemma rcrop_ok : RootsR.rc_ok rcrop.
  Proof. constructor; unfold Roots.rd_zini; cbn; rnum; lra. Qed.

  Lemma crop_ok_all k : CropOK (sel_crop par k) (crops (c_id (sel_crop par k))) (p_co2c par k) (p_co2r par).
  Proof.
    pose proof (DaySideP.Ex.crop_ok_all k) as H.
    assert (Hz : c_Zmin (sel_crop par k) = 3/10) by (unfold sel_crop; destruct (0 <=? k)%Z; cbn; rnum; reflexivity).
    constructor.
    - exact (co_can _ _ _ _ H).
    - exact (co_step _ _ _ _ H).
    - exact (co_temp _ _ _ _ H).
    - unfold root_crop. rewrite Hz. exact rcrop_ok.
    - exact (co_zmin_cm _ _ _ _ H).
    - cbn; lra.
    - cbn; lra.
    - exact (co_sxtop _ _ _ _ H).
    - exact (co_sxbot _ _ _ _ H).
    - exact (co_lag _ _ _ _ H).
    - exact (co_lag_int _ _ _ _ H).
    - exact (co_kcb _ _ _ _ H).
    - exact (co_fage _ _ _ _ H).
    - exact (co_co2 _ _ _ _ H).
  Qed.

  Lemma par_ok : ParOK par crops.
  Proof.
    pose proof DaySideP.Ex.par_ok as H.
    constructor.
    - exact (po_wf _ _ H).
    - exact (po_geom _ _ H).
    - exact (po_layers _ _ H).
    - exact (po_pen _ _ H).
    - exact (po_kex _ _ H).
    - exact (po_fwcc _ _ H).
    - exact (po_mulch _ _ H).
    - exact (po_mulch_f _ _ H).
    - exact (po_wet _ _ H).
    - exact (po_wet_f _ _ H).
    - exact (po_co2r _ _ H).
    - exact crop_ok_all.
    - exact (po_cc0 _ _ H).
  Qed.

  Lemma par_hi_ok : ParHIOK par crops.
  Proof.
    intros k. pose proof (crop_hi_ok_all k) as H. constructor.
    - exact (ho_hiref _ _ _ H).
    - exact (ho_hi _ _ _ H).
    - exact (ho_fs0 _ _ _ H).
    - exact (ho_fs1 _ _ _ H).
    - exact (ho_fs2 _ _ _ H).
    - exact (ho_taw _ _ _ H).
    - exact (ho_HI0 _ _ _ H).
    - exact (ho_WP _ _ _ H).
    - exact (ho_fCO2 _ _ _ H).
    - exact (ho_WPy _ _ _ H).
  Qed.

  Lemma mgmt : MgmtOK par.
  Proof. constructor; cbn; lra. Qed.

  Lemma cn : cn_ok par /\ 0 <= i_MaxIrrSeason (p_irr par).
  Proof. destruct rows_strong_hypotheses_satisfiable as (A & B & _). split; [exact A|exact B]. Qed.

  Lemma th0_bounds : in_bounds (so_prof (p_soil par)) ex_th0.
  Proof. exact ex_th0_bounds. Qed.
End ExC.

(* the definedness conditions hold on the instance for every season counter, in and off season, at every step, for the weather
   record of DayP.Ex (rain 5 mm, ET0 4 mm) *)
Example def_ok_example k gs t : DefOK ExC.par ExC.crops k gs t DayP.Ex.w0.
Proof.
  assert (Hc : sel_crop ExC.par k = DaySideP.Ex.dcrop \/ sel_crop ExC.par k = fallow_crop DaySideP.Ex.dcrop)
    by (unfold sel_crop; destruct (0 <=? k)%Z; [left|right]; reflexivity).
  assert (Hi : sel_irr ExC.par k = DaySideP.Ex.irr) by (unfold sel_irr; destruct (0 <=? k)%Z; reflexivity).
  assert (Hf : sel_field ExC.par k gs = DaySideP.Ex.field) by (unfold sel_field; destruct (0 <=? k)%Z; [destruct gs|]; reflexivity).
  constructor.
  - reflexivity.
  - destruct Hc as [-> | ->]; right; right; reflexivity.
  - destruct Hc as [-> | ->]; left; reflexivity.
  - left. reflexivity.
  - left. reflexivity.
  - cbn. lra.
  - intros z. apply rd_restrict_defined; [discriminate|].
    cbn [ExC.par p_soil ExC.soil so_prof]. unfold TranspirationR.ex_p. cbn [map TranspirationR.ex_comp c_layer Roots.nunique existsb Z.eqb Pos.eqb orb Roots.layer_tab].
    repeat constructor; unfold Roots.layer_info; cbn [snd]; cbn [filter TranspirationR.ex_comp c_layer Z.eqb Pos.eqb Z.add Pos.add]; discriminate.
  - cbn [ExC.par p_soil ExC.soil so_prof ExC.crops ExC.cfull cf_root ExC.rcrop Roots.rc_Zmax]. unfold TranspirationR.ex_p.
    apply Exists_cons_tl, Exists_cons_tl, Exists_cons_tl, Exists_cons_hd. cbn [TranspirationR.ex_comp c_dzsum].
    replace (4 / 10) with (IZR 40 / 100) by lra. rewrite RootsR.Rround2_cent. lra.
  - eexists _, _. split; [reflexivity|]. cbn [TranspirationR.ex_comp c_dzsum ExC.par p_soil ExC.soil so_z_top].
    replace (1 / 10) with (IZR 10 / 100) by lra. rewrite RootsR.Rround2_cent. lra.
  - cbn [ExC.par p_soil ExC.soil so_prof so_z_germ]. unfold TranspirationR.ex_p.
    apply Exists_cons_tl, Exists_cons_tl, Exists_cons_hd. cbn. lra.
  - split; [reflexivity|]. split; [cbn; lra|].
    unfold EvaporationR.deep_enough, Evaporation.ev_count. cbn [ExC.par p_soil ExC.soil so_prof so_evap_z_max]. unfold TranspirationR.ex_p.
    cbn [count_if TranspirationR.ex_comp c_dzsum length]. rnum.
    rewrite (Rltb_true (10 / 100)) by lra. rewrite !Rltb_false by lra. cbn. lia.
  - rewrite Hi. repeat split; cbn; try lia; intros; discriminate.
  - rewrite Hi. cbn. lra.
  - cbn. lra.
  - intros P th ds _ _. cbv zeta. rewrite Hf. unfold RainIrr.rainfall_partition. cbn [DaySideP.Ex.field f_sr_inhb f_bunds f_z_bund negb andb orb].
    rnum. rewrite Rltb_false by lra. discriminate.
  - split; [right|]; reflexivity.
  - split; right; reflexivity.
  - right; right; reflexivity.
  - left. reflexivity.
  - intros _. cbn. lra.
Qed.

Lemma ex_ws_covers : weather_covers (Day.W R) ex_clock ex_ws.
Proof.
  intros t Ht. cbn [ex_clock n_steps] in Ht. unfold nthW. destruct (Z.ltb_spec t 0); [lia|].
  intros E. apply nth_error_None in E. unfold ex_ws in E. rewrite repeat_length in E. lia.
Qed.

Lemma ex_ws_def k gs t w : nthW (Day.W R) ex_ws t = Some w -> DefOK ExC.par ExC.crops k gs t w.
Proof.
  unfold nthW. destruct (t <? 0)%Z; [discriminate|]. intros E. apply nth_error_In in E.
  apply repeat_spec in E. subst w. apply def_ok_example.
Qed.

(* EVERY premise of [run_from_init_completes] holds on the instance (120-step window, one season planted at step 0 and harvested at
   step 100, the weather record of DayP.Ex every day, initial water contents at field capacity): the run from the initial state
   completes, for every fuel of at least 120 steps, and every day of it satisfies the per-row theorems *)
Example run_from_init_completes_example :
  exists s0 m0, init_state ExC.par (init_season ex_clock) None false ex_th0 = Some s0 /\ init_c ex_clock s0 = Ok m0 /\
    forall fuel, (120 <= fuel)%nat ->
    exists m' (evs : list (Ev (DState R) (Day.W R) (DRow R))),
      run_till_c ExC.par ExC.crops ex_clock ex_ws fuel m0 = Some (GOk m') /\ fin (st m') = true /\
      Reach (DState R) (Day.W R) (DRow R) (DOut R) (proc_c ExC.par ExC.crops) dead (matured ExC.par) (summary_of ExC.par) (reset ExC.par)
            (defined_c ExC.par ExC.crops) ex_clock ex_ws m0 evs m' /\
      Forall (fun e => strong_ev ExC.par ExC.crops e /\ rows_day ExC.par ExC.crops e /\ crop_rows_day ExC.par ExC.crops e) evs /\
      rows (tabs m') = map (fun e => (e_tsc _ _ _ e, e_row _ _ _ e)) evs ++ rows (tabs m0).
Proof.
  destruct (init_state_defined_no_table ExC.par (init_season ex_clock) None false ex_th0 eq_refl) as (s0 & E & _).
  exists s0. eexists. split; [exact E|]. split; [reflexivity|]. intros fuel Hfuel.
  destruct ExC.cn as [Hcn Hmax].
  apply (run_from_init_completes ExC.par ExC.crops ex_clock ex_ws None false ex_th0 s0 _ Hcn Hmax ExC.par_ok ExC.par_hi_ok ExC.mgmt
           ex_clock_wf ex_ws_ok ex_ws_covers).
  - intros k p h Hp Hh. cbn [ex_clock plant harv] in Hp, Hh.
    destruct (nthZ_single _ _ _ Hp) as [_ ->]. destruct (nthZ_single _ _ _ Hh) as [_ ->]. cbn. lra.
  - reflexivity.
  - reflexivity.
  - cbn. lra.
  - exact ex_ws_def.
  - exact ExC.th0_bounds.
  - exact E.
  - reflexivity.
  - cbn [ex_clock n_steps]. lia.
Qed.

(* the state conditions at the start of that run *)
Example def_st_init_example s0 : init_state ExC.par (init_season ex_clock) None false ex_th0 = Some s0 -> DefSt' ExC.par s0.
Proof. apply defst_init. cbn. lra. Qed.

Print Assumptions soil_evaporation_defined'.
Print Assumptions day_defined_strong'.
Print Assumptions defst_day.
Print Assumptions run_till_c_completes.
Print Assumptions run_till_c_completes_rows.
Print Assumptions run_from_init_completes.
Print Assumptions run_from_init_completes_example.

(* ============================================================================================================ *)
(*  Part F  from the configuration (partial)                                                                      *)
(* ============================================================================================================ *)
From AC.Init Require Import Initialise.
From AC.proofs Require Import InitialiseP.

(* AquaCropModel(<the user's objects>).run_model(till_termination=True) COMPLETES, no water table.  PARTIAL: the premises of
   InitialiseP.run_config_theorem ([CfgOK] on the configuration, [DerivedOK] on the derived parameters) and [ParHIOK] as in
   DayCropRowsInit.run_config_crop_rows; what is NOT discharged from the configuration and stays a premise on the DERIVED record i:
   [DefOK] for every row of the derived weather table, the weather table covering the window ([weather_covers]), nComp = the number of
   compartments (InitialiseP3.single_season_config proves it for the configurations it covers), 0 <= evap_z_max, and that no season
   reset raises ([first_bad_season i = None]); that initialisation itself succeeds is a premise too (it can raise). *)
Theorem run_config_completes_partial (cfg : Config R) i m0 :
  CfgOK cfg -> initialise cfg = IOk i -> init_c (i_clock i) (i_state i) = Ok m0 ->
  DerivedOK i -> ParHIOK (i_par i) (i_crops i) ->
  weather_covers (Day.W R) (i_clock i) (i_weather i) ->
  so_nComp (p_soil (i_par i)) = Z.of_nat (length (so_prof (p_soil (i_par i)))) ->
  0 <= so_evap_z_max (p_soil (i_par i)) ->
  (forall k gs t w, nthW (Day.W R) (i_weather i) t = Some w -> DefOK (i_par i) (i_crops i) k gs t w) ->
  first_bad_season i = None ->
  forall fuel, (Z.to_nat (n_steps (i_clock i)) <= fuel)%nat ->
  exists m' (evs : list (Ev (DState R) (Day.W R) (DRow R))),
    run_config cfg fuel = RRun (Some (GOk m')) /\ fin (st m') = true /\
    Reach (DState R) (Day.W R) (DRow R) (DOut R) (proc_c (i_par i) (i_crops i)) dead (matured (i_par i)) (summary_of (i_par i))
          (reset (i_par i)) (defined_c (i_par i) (i_crops i)) (i_clock i) (i_weather i) m0 evs m' /\
    Forall (fun e => strong_ev (i_par i) (i_crops i) e /\ rows_day (i_par i) (i_crops i) e /\ crop_rows_day (i_par i) (i_crops i) e) evs /\
    rows (tabs m') = map (fun e => (e_tsc _ _ _ e, e_row _ _ _ e)) evs ++ rows (tabs m0).
Proof.
  intros CK Hi Hc D PH Hcov Hn Hz HDef Hbad fuel Hle.
  destruct (initialise_inv _ _ Hi) as [x X].
  destruct (initialise_state _ _ Hi) as (zgw0 & th0 & rows & zs & _ & _ & E3).
  pose proof (cfg_no_table _ _ _ CK X) as Hwt.
  assert (Hth : in_bounds (so_prof (p_soil (i_par i))) th0).
  { destruct (init_state_defined_no_table (i_par i) (init_season (i_clock i)) zgw0 (fc_reset_of (cf_iwc cfg)) th0 Hwt) as (s & Es & Et & _).
    rewrite E3 in Es. injection Es as <-. rewrite <- Et. exact (dk_th0 _ D). }
  destruct (run_from_init_completes (i_par i) (i_crops i) (i_clock i) (i_weather i) zgw0 (fc_reset_of (cf_iwc cfg)) th0 (i_state i) m0
              (cfg_cn _ _ _ CK X) (cfg_maxirr _ _ _ CK X) (cfg_parok _ _ _ CK X D) PH (cfg_mgmt _ _ _ CK X)
              (initialise_clock_wf _ _ Hi) (cfg_weather_ok _ _ _ CK X) Hcov (dk_season _ D) Hwt Hn Hz HDef Hth E3 Hc fuel Hle)
    as (m' & evs & Erun & Hrest).
  exists m', evs. split; [|exact Hrest].
  unfold run_config. rewrite Hi, Hc, Hbad. cbv zeta. rewrite Erun. reflexivity.
Qed.

Print Assumptions run_config_completes_partial.
