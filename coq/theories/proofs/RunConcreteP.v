(* RunConcreteP.v — theorems about the CONCRETE WHOLE RUN (RunConcrete.v), for runs of ANY length, by the induction scheme
   of RunP.v over the days of a run.

   Part A (no hypothesis on the state): every row of the daily tables of a run — by step counts or to termination — was
           written by a defined concrete day on the state the run was in; on days outside a growing season the row has
           Tr = TrPot = IrrDay = 0, no canopy, biomass, roots, harvest index, yields ([run_off_season_rows]).
   Part B (induction with an invariant): let [Inv] be ANY predicate on the state that implies the day-level invariant
           [DayInv], is preserved by a defined concrete day and by the season reset, and yields the side conditions
           [DaySide] of the day (section hypotheses, discharged in proofs/DaySideP.v).  Then from an initial state with
           [Inv], for every day of every run: the water balance of the day closes on the row the day wrote
           (C01), the state the next day starts from is the state this day ended in or its season reset (C01 carry-over),
           water contents stay within [th_dry, th_s] and ponding within [0, bund height in force] after the day and in
           the storage row (C03) — [run_water_theorem]. *)
From Coq Require Import Reals List Bool ZArith Lra.
From AC Require Import Num RInst Params Kernels Clock Day DayConcrete RunConcrete.
From AC.proofs Require Import ProfR DayP DayConcreteP ClockP RunP.
Import ListNotations.
Local Open Scope R_scope.

#[local] Existing Instance YieldR.RTrig.

Section RunC.
  Variables (par : DPar R) (crops : Z -> CropFull R).

  Notation PO := (procs_concrete crops).
  Notation procc := (proc_c par crops).
  Notation defc := (defined_c par crops).
  Notation EvC := (Ev (DState R) (Day.W R) (DRow R)).
  Notation is_day_c := (is_day (DState R) (Day.W R) (DRow R) procc defc).
  Notation ReachC := (Reach (DState R) (Day.W R) (DRow R) (DOut R) procc dead (matured par) (summary_of par) (reset par) defc).

  (* an event of the concrete run is a defined concrete day *)
  Lemma is_day_opt (e : EvC) : is_day_c e ->
    day_proc_opt par PO (e_season _ _ _ e) (e_gs _ _ _ e) (e_dap _ _ _ e) (e_tsc _ _ _ e) (e_w _ _ _ e) (e_pre _ _ _ e) = Some (e_post _ _ _ e, e_row _ _ _ e).
  Proof.
    intros [Hd Hp]. unfold defined_c in Hd. unfold proc_c in Hp.
    destruct (day_proc_opt par PO _ _ _ _ _ _) as [[s' row]|] eqn:E; [|discriminate].
    destruct (day_proc_opt_total _ _ _ _ _ _ _ _ _ _ E) as [Ht _]. rewrite Ht in Hp. rewrite Hp. reflexivity.
  Qed.

  (* ---- Part A: off-season rows of whole runs ------------------------------------------------------------------ *)
  Definition off_row (row : DRow R) : Prop :=
    let f := r_flux row in let g := r_growth row in
    fl_Tr f = 0 /\ fl_TrPot f = 0 /\ fl_IrrDay f = 0 /\ gr_cc g = 0 /\ gr_cc_ns g = 0 /\ gr_B g = 0 /\ gr_B_ns g = 0 /\ gr_z_root g = 0 /\
    gr_HI g = 0 /\ gr_HIadj g = 0 /\ gr_Dry g = 0 /\ gr_Fresh g = 0 /\ gr_Pot g = 0 /\ gr_gdd_cum g = 0.

  Lemma off_event (e : EvC) : is_day_c e -> e_gs _ _ _ e = false -> off_row (e_row _ _ _ e).
  Proof.
    intros Hd Hg. pose proof (is_day_opt e Hd) as H. rewrite Hg in H.
    pose proof (off_season_concrete _ _ _ _ _ _ _ _ _ H) as X. cbv zeta in X. unfold off_row. cbv zeta. intuition.
  Qed.

  Theorem run_off_season_rows c ws m0 evs m : ReachC c ws m0 evs m ->
    Forall (fun e : EvC => e_gs _ _ _ e = false -> off_row (e_row _ _ _ e)) evs.
  Proof.
    intros HR. pose proof (reach_days _ _ _ _ _ _ _ _ _ _ _ _ _ _ _ HR) as D.
    rewrite Forall_forall in *. intros e He Hg. apply off_event; auto.
  Qed.

  (* ---- Part B: induction with an invariant ------------------------------------------------------------------- *)
  Section WithInv.
    Variable Inv : DState R -> Prop.
    Variable WP : Day.W R -> Prop.
    Hypothesis Inv_dayinv : forall s, Inv s -> DayInv par s.
    Hypothesis Inv_side : forall season gs dap tsc w s Rs, Inv s -> WP w ->
      results_opt (ctx par season gs dap tsc w s) PO = Some Rs -> DaySide par crops season gs dap tsc w s Rs.
    Hypothesis Inv_step : forall season gs dap tsc w s s' row, Inv s -> WP w ->
      day_proc_opt par PO season gs dap tsc w s = Some (s', row) -> Inv s'.
    Hypothesis Inv_reset : forall k ws s, Inv s -> Inv (reset par k ws s).

    (* what one day of a run establishes *)
    Definition water_day (e : EvC) : Prop :=
      let prof := so_prof (p_soil par) in
      let f := r_flux (e_row _ _ _ e) in
      let s := e_pre _ _ _ e in let s' := e_post _ _ _ e in
      (* C01: the balance closes on the row of the day *)
      (exists CRact,
         storage prof (d_th s') + d_surface_storage s' - (storage prof (d_th s) + d_surface_storage s) =
         fl_Infl f + (if (i_method (sel_irr par (e_season _ _ _ e)) =? 4)%Z then fl_IrrDay f else 0) + CRact + fl_GwIn f - fl_DeepPerc f - fl_Es f - fl_Tr f
         /\ Rabs (fl_CR f - CRact) <= cr_allowance prof) /\
      (* C03: bounds after the day and in the rows *)
      in_bounds prof (d_th s') /\ 0 <= d_surface_storage s' <= zb_of (sel_field par (e_season _ _ _ e) (e_gs _ _ _ e)) /\
      in_bounds prof (st_th (r_sto (e_row _ _ _ e))) /\ fl_surf f = d_surface_storage s'.

    Lemma inv_day (e : EvC) : is_day_c e -> WP (e_w _ _ _ e) -> Inv (e_pre _ _ _ e) -> Inv (e_post _ _ _ e) /\ water_day e.
    Proof.
      intros Hd Hw Hi. pose proof (is_day_opt e Hd) as H.
      split; [eapply Inv_step; eauto|].
      unfold water_day. cbv zeta.
      pose proof (day_balance_concrete _ _ _ _ _ _ _ _ _ _ (Inv_dayinv _ Hi) H) as B. cbv zeta in B.
      pose proof (day_bounds_concrete _ _ _ _ _ _ _ _ _ _ (Inv_dayinv _ Hi) H
                    (fun Rs HRs => Inv_side _ _ _ _ _ _ Rs Hi Hw HRs)) as C. cbv zeta in C.
      destruct C as (C1 & C2 & C3 & C4 & _).
      split; [exact B|]. split; [exact C1|]. split; [exact C2|]. split; [exact C3|exact C4].
    Qed.

    (* the whole-run statement: for a run by step counts ... *)
    Theorem run_steps_water c ws k m0 m' :
      weather_ok _ WP ws -> Inv (phys (st m0)) -> run_steps_c par crops c ws k m0 = GOk m' ->
      exists evs : list EvC,
        ReachC c ws m0 evs m' /\ Inv (phys (st m')) /\
        Forall (fun e => is_day_c e /\ Inv (e_pre _ _ _ e) /\ Inv (e_post _ _ _ e) /\ water_day e) evs /\
        chained _ _ _ (reset par) ws (phys (st m')) evs /\
        rows (tabs m') = map (fun e => (e_tsc _ _ _ e, e_row _ _ _ e)) evs ++ rows (tabs m0).
    Proof.
      intros Hws H0 H. unfold run_steps_c in H.
      destruct (run_steps_g_inv _ _ _ _ procc dead (matured par) (summary_of par) (reset par) defc Inv WP water_day inv_day Inv_reset
                  c ws k m0 m' Hws H0 H) as (evs & HR & HI & HF & Hrows).
      exists evs. split; [exact HR|]. split; [exact HI|]. split; [exact HF|]. split; [|exact Hrows].
      exact (proj1 (reach_chained _ _ _ _ _ _ _ _ _ _ _ _ _ _ _ HR)).
    Qed.

    (* ... and for a run to termination *)
    Theorem run_till_water c ws fuel m0 m' :
      weather_ok _ WP ws -> Inv (phys (st m0)) -> run_till_c par crops c ws fuel m0 = Some (GOk m') ->
      exists evs : list EvC,
        ReachC c ws m0 evs m' /\ Inv (phys (st m')) /\
        Forall (fun e => is_day_c e /\ Inv (e_pre _ _ _ e) /\ Inv (e_post _ _ _ e) /\ water_day e) evs /\
        chained _ _ _ (reset par) ws (phys (st m')) evs /\
        rows (tabs m') = map (fun e => (e_tsc _ _ _ e, e_row _ _ _ e)) evs ++ rows (tabs m0).
    Proof.
      intros Hws H0 H. unfold run_till_c in H.
      destruct (run_till_g_inv _ _ _ _ procc dead (matured par) (summary_of par) (reset par) defc Inv WP water_day inv_day Inv_reset
                  c ws fuel m0 m' Hws H0 H) as (evs & HR & HI & HF & Hrows).
      exists evs. split; [exact HR|]. split; [exact HI|]. split; [exact HF|]. split; [|exact Hrows].
      exact (proj1 (reach_chained _ _ _ _ _ _ _ _ _ _ _ _ _ _ _ HR)).
    Qed.
  End WithInv.

  (* the concrete run refines the abstract run loop of Clock.v: every theorem of ClockP.v (calendar, termination,
     one summary row per harvested season, any partition into calls) applies to it *)
  Theorem run_till_c_refines c ws fuel m0 m' : run_till_c par crops c ws fuel m0 = Some (GOk m') ->
    run_till (DState R) (Day.W R) (DRow R) (DOut R) procc dead (matured par) (summary_of par) (reset par) c ws fuel m0 = Some (Ok m').
  Proof. apply run_till_g_ok. Qed.
  Theorem run_steps_c_refines c ws k m0 m' : run_steps_c par crops c ws k m0 = GOk m' ->
    run_steps (DState R) (Day.W R) (DRow R) (DOut R) procc dead (matured par) (summary_of par) (reset par) c ws k m0 = Ok m'.
  Proof. apply run_steps_g_ok. Qed.
  (* ---- C14 for the concrete physics: no look-ahead ---------------------------------------------------------------
     Day.reset does not read the weather list at all (the thermal calendar of a GDD crop lives in the crop records of [par],
     which initialisation / the season reset of the implementation compute from the weather: that dependence is the
     subject of Properties/C14_inputs.v), so for FIXED parameter records the rows and summary rows of every step before t are
     the same for any two weather tables that agree before t — for the concrete run by step counts. *)
  Lemma reset_weather_free_c : reset_weather_free (DState R) (Day.W R) (reset par).
  Proof. intros k ws ws' p. reflexivity. Qed.

  Theorem run_steps_c_prefix_causal c ws ws' t n m a b :
    wf_clock c -> agree_before (Day.W R) t ws ws' -> minv (DState R) (DRow R) (DOut R) c m ->
    run_steps_c par crops c ws n m = GOk a -> run_steps_c par crops c ws' n m = GOk b ->
    rows_before (DState R) (DRow R) (DOut R) t a = rows_before (DState R) (DRow R) (DOut R) t b /\
    sums_before (DState R) (DRow R) (DOut R) t a = sums_before (DState R) (DRow R) (DOut R) t b.
  Proof.
    intros Hwf Ha Hm H1 H2.
    apply run_steps_c_refines in H1. apply run_steps_c_refines in H2.
    exact (prefix_causal (DState R) (Day.W R) (DRow R) (DOut R) procc dead (matured par) (summary_of par) (reset par)
             c ws ws' t n Hwf Ha reset_weather_free_c m a b Hm H1 H2).
  Qed.
End RunC.
