(* RunP.v — the WHOLE RUN, for every physics: the guarded run loop of Clock.v ([perform_g], [run_steps_g], [run_till_g]:
   a day whose processes raise stops the run) refines the total one, and every row of the daily tables of a run was
   written by one day of the run ([Reach]): the list of events of a run (pre-state, weather, post-state, row) is
   chained — the state a day starts from is the state the previous day ended in, or its season reset — an invariant
   of the physical state that the day and the reset preserve holds before every day of every run, of any length, and a
   property the day establishes from the invariant holds for every row ever written.  Z / list / bool only; axiom-free. *)
From Coq Require Import ZArith List Bool Lia.
From AC Require Import Clock.
From AC.proofs Require Import ClockP.
Import ListNotations.
Local Open Scope Z_scope.

Section RunProofs.
  Variable Phys W Row Out : Type.
  Variable proc : Z -> bool -> Z -> Z -> W -> Phys -> Phys * Row.
  Variable dead : Phys -> bool.
  Variable matured : Z -> Z -> Phys -> bool.
  Variable summary_of : Z -> bool -> Phys -> Out.
  Variable reset : Z -> list W -> Phys -> Phys.
  Variable defined : Z -> bool -> Z -> Z -> W -> Phys -> bool.

  Notation St := (St Phys).
  Notation Model := (Model Phys Row Out).
  Notation day_step := (day_step Phys W Row Out proc dead matured summary_of).
  Notation update_time := (update_time Phys W reset).
  Notation perform := (perform Phys W Row Out proc dead matured summary_of reset).
  Notation run_steps := (run_steps Phys W Row Out proc dead matured summary_of reset).
  Notation run_till := (run_till Phys W Row Out proc dead matured summary_of reset).
  Notation perform_g := (perform_g Phys W Row Out proc dead matured summary_of reset defined).
  Notation run_steps_g := (run_steps_g Phys W Row Out proc dead matured summary_of reset defined).
  Notation run_till_g := (run_till_g Phys W Row Out proc dead matured summary_of reset defined).
  Notation day_defined := (day_defined Phys W dead defined).
  Notation in_season := (in_season Phys dead).

  (* ---- the guarded loop refines the total one ---------------------------------------------------------------- *)
  Lemma perform_g_ok c ws m m' : perform_g c ws m = GOk m' ->
    perform c ws m = Ok m' /\ exists w, nthW W ws (tsc (st m)) = Some w /\ day_defined c w (st m) = true.
  Proof.
    unfold Clock.perform_g. destruct (nthW W ws (tsc (st m))) as [w|] eqn:Ew; [|discriminate].
    destruct (day_defined c w (st m)) eqn:Ed; [|discriminate].
    destruct (perform c ws m) as [m1|e] eqn:Ep; [|discriminate]. intros [= <-]. split; [reflexivity|]. exists w. split; [reflexivity|exact Ed].
  Qed.

  Lemma run_steps_g_ok c ws k : forall m m', run_steps_g c ws k m = GOk m' -> run_steps c ws k m = Ok m'.
  Proof.
    induction k as [|k IH]; intros m m'; cbn [Clock.run_steps_g Clock.run_steps]; [intros [= <-]; reflexivity|].
    destruct (perform_g c ws m) as [m1|e|t] eqn:Ep; try discriminate.
    destruct (perform_g_ok _ _ _ _ Ep) as [-> _]. destruct (fin (st m1)); [intros [= <-]; reflexivity|apply IH].
  Qed.

  Lemma run_till_g_ok c ws fuel : forall m m', run_till_g c ws fuel m = Some (GOk m') -> run_till c ws fuel m = Some (Ok m').
  Proof.
    induction fuel as [|fuel IH]; intros m m'; cbn [Clock.run_till_g Clock.run_till]; destruct (fin (st m)) eqn:Ef; try discriminate;
      try (intros [= <-]; reflexivity).
    destruct (perform_g c ws m) as [m1|e|t] eqn:Ep; try discriminate.
    destruct (perform_g_ok _ _ _ _ Ep) as [-> _]. apply IH.
  Qed.

  (* a run that does not stop at an undefined day is the total run *)
  Lemma run_till_g_raise c ws fuel : forall m e, run_till_g c ws fuel m = Some (GRaise e) -> run_till c ws fuel m = Some (Raise e).
  Proof.
    induction fuel as [|fuel IH]; intros m e; cbn [Clock.run_till_g Clock.run_till]; destruct (fin (st m)) eqn:Ef; try discriminate.
    destruct (perform_g c ws m) as [m1|e1|t] eqn:Ep; try discriminate.
    - destruct (perform_g_ok _ _ _ _ Ep) as [-> _]. apply IH.
    - intros [= <-]. revert Ep. unfold Clock.perform_g.
      destruct (nthW W ws (tsc (st m))) as [w|] eqn:Ew.
      + destruct (day_defined c w (st m)); [|discriminate]. destruct (perform c ws m) as [m1|e2]; [discriminate|]. intros [= ->]. reflexivity.
      + intros [= <-]. unfold Clock.perform. rewrite Ew. reflexivity.
  Qed.

  (* ---- events ------------------------------------------------------------------------------------------------ *)
  Record Ev := { e_season : Z; e_gs : bool; e_dap : Z; e_tsc : Z; e_w : W; e_pre : Phys; e_post : Phys; e_row : Row }.

  Definition event_of (c : ClockP) (w : W) (s : St) : Ev :=
    let gs := in_season c s in
    let dap' := if gs then dap s + 1 else 0 in
    let r := proc (season s) gs dap' (tsc s) w (phys s) in
    {| e_season := season s; e_gs := gs; e_dap := dap'; e_tsc := tsc s; e_w := w; e_pre := phys s; e_post := fst r; e_row := snd r |}.

  (* one performed step: the row appended is the row of the day's event, the next state starts from the day's post-state
     or from its season reset *)
  Lemma perform_event c ws m m' w : nthW W ws (tsc (st m)) = Some w -> perform c ws m = Ok m' ->
    let ev := event_of c w (st m) in
    rows (tabs m') = (e_tsc ev, e_row ev) :: rows (tabs m) /\
    (phys (st m') = e_post ev \/ phys (st m') = reset (season (st m) + 1) ws (e_post ev)).
  Proof.
    intros Ew. unfold Clock.perform. rewrite Ew. unfold Clock.day_step, event_of. cbv zeta.
    destruct (proc (season (st m)) (in_season c (st m)) (if in_season c (st m) then dap (st m) + 1 else 0) (tsc (st m)) w (phys (st m)))
      as [ph row] eqn:Epr. cbn [fst snd e_tsc e_row e_post].
    match goal with |- match ?u with Ok _ => _ | Raise _ => _ end = _ -> _ => destruct u as [s3|e] eqn:Eu end; [|discriminate].
    intros [= <-]. cbn [st tabs rows]. split; [reflexivity|].
    revert Eu. unfold Clock.update_time. cbn [fin hflag season tsc phys dap mature].
    repeat match goal with
           | |- context [if ?b then _ else _] => destruct b
           | |- context [match nthZ ?l ?k with _ => _ end] => destruct (nthZ l k)
           end; try discriminate; intros [= <-]; cbn [phys Clock.start_season]; auto.
  Qed.

  (* [Reach c ws m0 evs m]: m is reached from m0 by performing the days whose events are evs (most recent first) *)
  Inductive Reach (c : ClockP) (ws : list W) (m0 : Model) : list Ev -> Model -> Prop :=
  | Reach_nil : Reach c ws m0 [] m0
  | Reach_step evs m m' w : Reach c ws m0 evs m -> nthW W ws (tsc (st m)) = Some w -> day_defined c w (st m) = true ->
                            perform c ws m = Ok m' -> Reach c ws m0 (event_of c w (st m) :: evs) m'.

  Lemma run_steps_g_reach c ws k : forall m0 evs m m', Reach c ws m0 evs m -> run_steps_g c ws k m = GOk m' ->
    exists evs', Reach c ws m0 (evs' ++ evs) m'.
  Proof.
    induction k as [|k IH]; intros m0 evs m m' HR; cbn [Clock.run_steps_g].
    - intros [= <-]. exists []. exact HR.
    - destruct (perform_g c ws m) as [m1|e|t] eqn:Ep; try discriminate.
      destruct (perform_g_ok _ _ _ _ Ep) as (Hp & w & Ew & Ed).
      pose proof (Reach_step c ws m0 evs m m1 w HR Ew Ed Hp) as HR1.
      destruct (fin (st m1)).
      + intros [= <-]. exists [event_of c w (st m)]. exact HR1.
      + intros H. destruct (IH m0 _ m1 m' HR1 H) as [evs' H']. exists (evs' ++ [event_of c w (st m)]). rewrite <- app_assoc. exact H'.
  Qed.

  Lemma run_till_g_reach c ws fuel : forall m0 evs m m', Reach c ws m0 evs m -> run_till_g c ws fuel m = Some (GOk m') ->
    exists evs', Reach c ws m0 (evs' ++ evs) m'.
  Proof.
    induction fuel as [|fuel IH]; intros m0 evs m m' HR; cbn [Clock.run_till_g]; destruct (fin (st m)); try discriminate;
      try (intros [= <-]; exists []; exact HR).
    destruct (perform_g c ws m) as [m1|e|t] eqn:Ep; try discriminate.
    destruct (perform_g_ok _ _ _ _ Ep) as (Hp & w & Ew & Ed).
    pose proof (Reach_step c ws m0 evs m m1 w HR Ew Ed Hp) as HR1.
    intros H. destruct (IH m0 _ m1 m' HR1 H) as [evs' H']. exists (evs' ++ [event_of c w (st m)]). rewrite <- app_assoc. exact H'.
  Qed.

  (* the tables of a reached model are the rows of its events on top of the rows it started with *)
  Lemma reach_rows c ws m0 evs m : Reach c ws m0 evs m ->
    rows (tabs m) = map (fun e => (e_tsc e, e_row e)) evs ++ rows (tabs m0).
  Proof.
    induction 1 as [|evs m m' w HR IH Ew Ed Hp]; [reflexivity|].
    destruct (perform_event c ws m m' w Ew Hp) as [Hr _]. cbv zeta in Hr. rewrite Hr, IH. reflexivity.
  Qed.

  (* every event is a day of the physics, on the state the clock was in *)
  Definition is_day (e : Ev) : Prop :=
    defined (e_season e) (e_gs e) (e_dap e) (e_tsc e) (e_w e) (e_pre e) = true /\
    proc (e_season e) (e_gs e) (e_dap e) (e_tsc e) (e_w e) (e_pre e) = (e_post e, e_row e).
  Lemma event_is_day c w s : day_defined c w s = true -> is_day (event_of c w s).
  Proof. intros H. split; [exact H|]. unfold event_of. cbv zeta. cbn. apply surjective_pairing. Qed.
  Lemma reach_days c ws m0 evs m : Reach c ws m0 evs m -> Forall is_day evs.
  Proof. induction 1; constructor; auto using event_is_day. Qed.

  (* the chain: consecutive events (later :: earlier :: _) — carried over unchanged, or reset for the later event's season *)
  Fixpoint chained (ws : list W) (last : Phys) (evs : list Ev) : Prop :=
    match evs with
    | [] => True
    | e :: rest => (last = e_post e \/ last = reset (e_season e + 1) ws (e_post e)) /\
                   match rest with
                   | [] => True
                   | e0 :: _ => chained ws (e_pre e) rest
                   end
    end.
  Lemma reach_chained c ws m0 evs m : Reach c ws m0 evs m -> chained ws (phys (st m)) evs /\ (evs = [] -> m = m0).
  Proof.
    induction 1 as [|evs m m' w HR [IH IH0] Ew Ed Hp]; [split; [exact I|reflexivity]|].
    split; [|discriminate].
    destruct (perform_event c ws m m' w Ew Hp) as [_ Hc]. cbv zeta in Hc. cbn [chained]. split; [exact Hc|].
    destruct evs as [|e0 rest]; [exact I|]. exact IH.
  Qed.
  (* ---- invariants over whole runs ------------------------------------------------------------------------------- *)
  Section Invariant.
    Variable I : Phys -> Prop.
    (* what is known about every record of the weather table *)
    Variable WP : W -> Prop.
    (* what one defined day establishes, given the invariant before it *)
    Variable Q : Ev -> Prop.
    Hypothesis I_day : forall e, is_day e -> WP (e_w e) -> I (e_pre e) -> I (e_post e) /\ Q e.
    Hypothesis I_reset : forall k ws p, I p -> I (reset k ws p).
    Definition weather_ok (ws : list W) : Prop := forall t w, nthW W ws t = Some w -> WP w.

    Lemma reach_inv c ws m0 evs m : weather_ok ws -> I (phys (st m0)) -> Reach c ws m0 evs m ->
      I (phys (st m)) /\ Forall (fun e => I (e_pre e) /\ I (e_post e) /\ Q e) evs.
    Proof.
      intros Hws H0. induction 1 as [|evs m m' w HR [IH1 IH2] Ew Ed Hp]; [split; [exact H0|constructor]|].
      destruct (perform_event c ws m m' w Ew Hp) as [_ Hc]. cbv zeta in Hc.
      pose proof (event_is_day c w (st m) Ed) as Hd.
      assert (Hpre : I (e_pre (event_of c w (st m)))) by exact IH1.
      assert (Hw : WP (e_w (event_of c w (st m)))) by (exact (Hws _ _ Ew)).
      destruct (I_day _ Hd Hw Hpre) as [Hpost HQ].
      split.
      - destruct Hc as [-> | ->]; [exact Hpost | apply I_reset; exact Hpost].
      - constructor; [split; [exact Hpre|split; [exact Hpost|exact HQ]] | exact IH2].
    Qed.

    (* the statement for the two entry points of the API: a run by step counts and a run to termination *)
    Theorem run_steps_g_inv c ws k m0 m' : weather_ok ws -> I (phys (st m0)) -> run_steps_g c ws k m0 = GOk m' ->
      exists evs, Reach c ws m0 evs m' /\ I (phys (st m')) /\ Forall (fun e => is_day e /\ I (e_pre e) /\ I (e_post e) /\ Q e) evs /\
                  rows (tabs m') = map (fun e => (e_tsc e, e_row e)) evs ++ rows (tabs m0).
    Proof.
      intros Hws H0 H. destruct (run_steps_g_reach c ws k m0 [] m0 m' (Reach_nil c ws m0) H) as [evs HR]. rewrite app_nil_r in HR.
      exists evs. destruct (reach_inv c ws m0 evs m' Hws H0 HR) as [A B]. split; [exact HR|]. split; [exact A|]. split.
      - pose proof (reach_days c ws m0 evs m' HR) as D. rewrite Forall_forall in *. intros e He. split; [apply D; exact He|apply B; exact He].
      - apply (reach_rows c ws m0 evs m' HR).
    Qed.

    Theorem run_till_g_inv c ws fuel m0 m' : weather_ok ws -> I (phys (st m0)) -> run_till_g c ws fuel m0 = Some (GOk m') ->
      exists evs, Reach c ws m0 evs m' /\ I (phys (st m')) /\ Forall (fun e => is_day e /\ I (e_pre e) /\ I (e_post e) /\ Q e) evs /\
                  rows (tabs m') = map (fun e => (e_tsc e, e_row e)) evs ++ rows (tabs m0).
    Proof.
      intros Hws H0 H. destruct (run_till_g_reach c ws fuel m0 [] m0 m' (Reach_nil c ws m0) H) as [evs HR]. rewrite app_nil_r in HR.
      exists evs. destruct (reach_inv c ws m0 evs m' Hws H0 HR) as [A B]. split; [exact HR|]. split; [exact A|]. split.
      - pose proof (reach_days c ws m0 evs m' HR) as D. rewrite Forall_forall in *. intros e He. split; [apply D; exact He|apply B; exact He].
      - apply (reach_rows c ws m0 evs m' HR).
    Qed.
  End Invariant.
End RunProofs.
