(* SeasonIndepDay.v — C08 for the CONCRETE day, part 1: the first day of a season does not read the carried-over fields.

   Part A  the four per-process hypotheses of DayP.Section Day1 for the concrete processes, first in the option monad
           ([c_gw_ignores_depth], [c_rd_first_day], [c_ev_first_day], [c_hr_first_day]) and then for
           [total (procs_concrete crops)] exactly as Section Day1 states them ([check_gw_ignores_depth_c],
           [root_first_day_c], [evaporation_first_day_c], [hiref_first_day_c]).
           Three of them hold for EVERY crop table.  The fourth (HIref_current_day) needs [hi_crops_ok crops]:
           HIstartCD >= 0 or a crop type in {1,2,3}; without it the incoming hi_ref is returned unchanged on the first
           day ([hiref_first_day_refuted]).  CropType is always 1, 2 or 3 in /repo, so this is a statement about the
           model's domain, not a finding about the package.
   Part B  [day1_dead_concrete]: [day1_dead] instantiated, the germination premise discharged from the model
           (DaySideP.c_ge_facts: a non-negative delay counter stays non-negative; the reset stores 0).
   Part C  the same in the option monad, for every [ProcsO] ([results_opt_day1_dead], [day_proc_opt_day1_dead]) and for
           the concrete processes ([day_proc_opt_day1_dead_concrete], [defined_c_day1_dead]): a first day that raises on
           [s] raises on [proj s] too, and the other way round — needed by the guarded run loop. *)
From Coq Require Import Reals String List Bool ZArith Lra Lia.
From AC Require Import Num RInst Params Kernels Clock Day DayConcrete RunConcrete.
From AC.Water Require Groundwater Evaporation.
From AC.Crop Require Roots Yield.
From AC.proofs Require Import ProfR DayP DayConcreteP DaySideP.
From AC.proofs Require YieldR.
Import ListNotations.
Local Open Scope R_scope.

#[local] Existing Instance YieldR.RTrig.

(* ============================================================================================================ *)
(*  Part A.1  the unit models on the first day                                                                   *)
(* ============================================================================================================ *)
(* HIref_current_day on the first day after planting: the incoming hi_ref and yield_form are not read *)
Definition hi_crop_ok (y : Yield.YCrop (F:=R)) : Prop :=
  0 <= Yield.y_HIstartCD y \/ Yield.is12 y = true \/ Yield.y_CropType y = 3%Z.

Lemma HIref_first_day (y : Yield.YCrop (F:=R)) h h' hf dcd yf yf' pct cc ccxw :
  hi_crop_ok y -> (0 <= dcd)%Z ->
  Yield.HIref_current_day y h' hf 1 dcd yf' pct cc ccxw true = Yield.HIref_current_day y h hf 1 dcd yf pct cc ccxw true.
Proof.
  intros Hok Hd. unfold Yield.HIref_current_day. rewrite YieldR.hit_R. rnum.
  destruct (Rleb_spec (IZR (1 - dcd) - Yield.y_HIstartCD y - 1) 0) as [Ht|Ht]; [reflexivity|].
  assert (Hi : IZR (1 - dcd) <= 1) by (apply IZR_le; lia).
  unfold Yield.hi_curve. destruct Hok as [H0 | [H12 | H3]].
  - exfalso. lra.
  - rewrite H12. reflexivity.
  - destruct (Yield.is12 y); [reflexivity|]. rewrite H3. cbn [Z.eqb Pos.eqb]. reflexivity.
Qed.

(* ============================================================================================================ *)
(*  Part A.2  the concrete processes in the option monad                                                          *)
(* ============================================================================================================ *)
Definition hi_crops_ok (crops : Z -> CropFull R) : Prop := forall id, hi_crop_ok (cf_y (crops id)).

Section ConcreteFirstDay.
  Variable crops : Z -> CropFull R.

  (* check_groundwater_table is not handed the previous depth at all *)
  Lemma c_gw_ignores_depth p a z : c_gw p (gw_with a z) = c_gw p a.
  Proof. reflexivity. Qed.

  (* root_development: `if dap == 1: z_root = Zmin` *)
  Lemma c_rd_first_day p a z : rdA_dap a = 1%Z -> rdA_gs a = true -> c_rd crops p (rd_with a z) = c_rd crops p a.
  Proof.
    intros Hd Hg. unfold c_rd.
    cbn [rd_with rdA_crop rdA_dap rdA_zroot rdA_dcd rdA_gddcum rdA_dgdd rdA_trratio rdA_th rdA_cc rdA_ccns rdA_germ rdA_rcor rdA_tpot
         rdA_zgw rdA_gdd rdA_gs rdA_wt].
    rewrite Hd, Hg. unfold Roots.root_development. cbn [Z.eqb Pos.eqb]. reflexivity.
  Qed.

  (* soil_evaporation: `if time_step_counter == 0 or (dap == 1 and not sim_off_season)` re-initialises the four fields *)
  Lemma c_ev_first_day p a ws ez s2 w2 : evA_dap a = 1%Z -> evA_simoff a = false -> c_ev p (ev_with a ws ez s2 w2) = c_ev p a.
  Proof.
    intros Hd Hs. unfold c_ev, Evaporation.soil_evaporation, Evaporation.ev_stage1, Evaporation.ev_espot_base, Evaporation.ev_espot_gs.
    unfold ev_par, ev_state.
    cbn [ev_with evA_steps evA_simoff evA_tsc evA_zmin evA_zmax evA_rew evA_kex evA_fwcc evA_fwrelexp evA_fevap evA_caltype evA_senescence
         evA_method evA_wetsurf evA_mulches evA_fmulch evA_mulchpct evA_dap evA_wsurf evA_evapz evA_stage2 evA_th evA_dcd evA_gddcum
         evA_dgdd evA_ccxw evA_ccadj evA_ccxact evA_cc evA_premat evA_surf evA_wstage2 evA_epot evA_et0 evA_infl evA_rain evA_irr evA_gs
         Evaporation.ep_steps Evaporation.ep_simoff Evaporation.ep_zmin Evaporation.ep_zmax Evaporation.ep_rew Evaporation.ep_kex
         Evaporation.ep_fwcc Evaporation.ep_fwrelexp Evaporation.ep_fevap Evaporation.ep_caltype Evaporation.ep_senescence
         Evaporation.ep_irrmethod Evaporation.ep_wetsurf Evaporation.ep_mulches Evaporation.ep_fmulch Evaporation.ep_mulchpct
         Evaporation.es_tsc Evaporation.es_dap Evaporation.es_wsurf Evaporation.es_evapz Evaporation.es_stage2 Evaporation.es_delayedcds
         Evaporation.es_gddcum Evaporation.es_delayedgdds Evaporation.es_ccxw Evaporation.es_ccadj Evaporation.es_ccxact Evaporation.es_cc
         Evaporation.es_prematsenes Evaporation.es_surf Evaporation.es_wstage2].
    rewrite Hd, Hs. cbn [Z.eqb Pos.eqb negb andb]. rewrite !orb_true_r. reflexivity.
  Qed.

  (* HIref_current_day: HIt = -delayed_cds - HIstartCD <= 0 on the first day *)
  Lemma c_hr_first_day a h y : hi_crops_ok crops -> hrA_dap a = 1%Z -> hrA_gs a = true -> (0 <= hrA_dcd a)%Z ->
    c_hr crops (hr_with a h y) = c_hr crops a.
  Proof.
    intros Hok Hd Hg Hc. unfold c_hr.
    cbn [hr_with hrA_hiref hrA_hifinal hrA_dap hrA_dcd hrA_yf hrA_pct hrA_cc hrA_ccprev hrA_ccxw hrA_crop hrA_gs].
    rewrite Hd, Hg. rewrite (HIref_first_day _ (hrA_hiref a) h _ _ (hrA_yf a) y); [reflexivity | apply Hok | exact Hc].
  Qed.

  (* ========================================================================================================== *)
  (*  Part A.3  the hypotheses of DayP.Section Day1 for the totalised concrete processes                          *)
  (* ========================================================================================================== *)
  Let P := total (procs_concrete crops).

  Theorem check_gw_ignores_depth_c prof : forall a z, p_gw P prof (gw_with a z) = p_gw P prof a.
  Proof. intros a z. reflexivity. Qed.

  Theorem root_first_day_c prof : forall a z, rdA_dap a = 1%Z -> rdA_gs a = true -> p_rd P prof (rd_with a z) = p_rd P prof a.
  Proof. intros a z Hd Hg. subst P. cbn [total p_rd procs_concrete po_rd]. rewrite c_rd_first_day by assumption. reflexivity. Qed.

  Theorem evaporation_first_day_c prof : forall a ws ez s2 w2, evA_dap a = 1%Z -> evA_simoff a = false ->
    p_ev P prof (ev_with a ws ez s2 w2) = p_ev P prof a.
  Proof. intros a ws ez s2 w2 Hd Hs. subst P. cbn [total p_ev procs_concrete po_ev]. rewrite c_ev_first_day by assumption. reflexivity. Qed.

  Theorem hiref_first_day_c : hi_crops_ok crops -> forall a h y, hrA_dap a = 1%Z -> hrA_gs a = true -> (0 <= hrA_dcd a)%Z ->
    p_hr P (hr_with a h y) = p_hr P a.
  Proof. intros Hok a h y Hd Hg Hc. subst P. cbn [total p_hr procs_concrete po_hr]. rewrite c_hr_first_day by assumption. reflexivity. Qed.
End ConcreteFirstDay.

(* ---- without [hi_crops_ok] the fourth hypothesis is false: a crop whose type is none of 1, 2, 3 and whose yield formation
        "starts" before planting hands the incoming hi_ref through on the first day ------------------------------------------- *)
Module Refute.
  Definition ybad : Yield.YCrop (F:=R) :=
    {| Yield.y_CropType := 0; Yield.y_Determinant := 1; Yield.y_HIstartCD := -5; Yield.y_YldFormCD := 60; Yield.y_HIendCD := 120;
       Yield.y_FloweringCD := 10; Yield.y_CanopyDevEndCD := 60; Yield.y_tLinSwitch := 20; Yield.y_dHILinear := 1/100; Yield.y_HIGC := 1/10;
       Yield.y_HI0 := 1/2; Yield.y_HIini := 1/100; Yield.y_WP := 30; Yield.y_WPy := 100; Yield.y_fCO2 := 1; Yield.y_dHI_pre := 0;
       Yield.y_dHI0 := 0; Yield.y_a_HI := 0; Yield.y_b_HI := 0; Yield.y_exc := 0; Yield.y_CCmin := 0; Yield.y_YldWC := 10 |}.
  Definition cbad : CropFull R :=
    {| cf_root := cf_root DaySideP.Ex.cfull; cf_can := cf_can DaySideP.Ex.cfull; cf_y := ybad; cf_s := cf_s DaySideP.Ex.cfull;
       cf_tr := cf_tr DaySideP.Ex.cfull; cf_c10 := 20; cf_maxcan := 60 |}.
  Definition abad : A_hr R :=
    {| hrA_hiref := 2/10; hrA_hifinal := 1/2; hrA_dap := 1; hrA_dcd := 0; hrA_yf := false; hrA_pct := 0; hrA_cc := 0; hrA_ccprev := 0;
       hrA_ccxw := 0; hrA_crop := DaySideP.Ex.dcrop; hrA_gs := true |}.

  Lemma hr_bad h : 4/1000 + 1/100 < h -> h < 1/2 - 4/1000 ->
    c_hr (fun _ => cbad) (hr_with abad h false) = Some {| hrR_hiref := h; hrR_yf := true; hrR_pct := 0 |}.
  Proof.
    intros H1 H2. unfold c_hr. cbn [hr_with abad hrA_hiref hrA_hifinal hrA_dap hrA_dcd hrA_yf hrA_pct hrA_cc hrA_ccprev hrA_ccxw hrA_crop hrA_gs
                                     cbad cf_y].
    unfold Yield.HIref_current_day. rewrite YieldR.hit_R. cbn [ybad Yield.y_HIstartCD Z.sub Z.add Z.opp Pos.sub Z.pos_sub]. rnum.
    rewrite (Rltb_true (-5) (IZR 1)) by lra. rewrite (Rleb_false (IZR 1 - -5 - 1) 0) by lra.
    unfold Yield.hi_curve, Yield.is12, Yield.hi_limit, Yield.hi_final_local, Yield.is23.
    cbn [ybad Yield.y_CropType Yield.y_HI0 Yield.y_HIini Yield.y_YldFormCD Z.eqb orb andb]. rnum.
    rewrite (Rltb_false (1/2) h) by lra. rewrite (Rleb_false h (1/100 + 4/1000)) by lra. rewrite (Rltb_false (1/2 - h) (4/1000)) by lra.
    rewrite !andb_false_r. rewrite (Rltb_false (1/2) h) by lra. reflexivity.
  Qed.
End Refute.

Theorem hiref_first_day_refuted :
  exists (crops : Z -> CropFull R) (a : A_hr R) (h : R) (y : bool),
    hrA_dap a = 1%Z /\ hrA_gs a = true /\ (0 <= hrA_dcd a)%Z /\
    p_hr (total (procs_concrete crops)) (hr_with a h y) <> p_hr (total (procs_concrete crops)) a.
Proof.
  exists (fun _ => Refute.cbad), Refute.abad, (3/10), false. split; [reflexivity|]. split; [reflexivity|]. split; [cbn; lia|].
  cbn [total p_hr procs_concrete po_hr].
  rewrite (Refute.hr_bad (3/10)) by lra.
  replace Refute.abad with (hr_with Refute.abad (2/10) false) by reflexivity.
  rewrite (Refute.hr_bad (2/10)) by lra.
  cbn [odflt]. intros E. assert (E' : (3:R)/10 = 2/10) by (exact (f_equal (@hrR_hiref R) E)). lra.
Qed.

(* ============================================================================================================ *)
(*  Part B  day1_dead for the concrete day                                                                       *)
(* ============================================================================================================ *)
(* the premise of [day1_dead] about germination, from the model: germination keeps a non-negative delay counter non-negative *)
Lemma germination_dcd_nonneg par crops season gs dap tsc w s : (0 <= d_delayed_cds s)%Z ->
  (0 <= geR_dcd (rs_ge (results (ctx par season gs dap tsc w s) (total (procs_concrete crops)))))%Z.
Proof.
  intros Hd. rewrite (sp_ge _ _ _ (results_spec (ctx par season gs dap tsc w s) (total (procs_concrete crops)))).
  cbn [total p_ge procs_concrete po_ge].
  match goal with |- context [c_ge ?p ?a] => destruct (c_ge p a) as [r|] eqn:E; [|cbn; lia];
    assert (Ha : geA_dcd a = d_delayed_cds s) by reflexivity end.
  cbn [odflt]. apply (c_ge_facts _ _ _ E). rewrite Ha. exact Hd.
Qed.

(* the statement of the brief: germination premise as in [day1_dead] *)
Theorem day1_dead_concrete_dcd par crops season tsc w (s : DState R) :
  hi_crops_ok crops -> p_sim_off par = false ->
  (0 <= geR_dcd (rs_ge (results (ctx par season true 1 tsc w s) (total (procs_concrete crops)))))%Z ->
  day_proc par (total (procs_concrete crops)) season true 1 tsc w (proj s) = day_proc par (total (procs_concrete crops)) season true 1 tsc w s.
Proof.
  intros Hok Eoff Hd. apply day1_dead; try assumption.
  - apply check_gw_ignores_depth_c.
  - apply root_first_day_c.
  - apply evaporation_first_day_c.
  - apply hiref_first_day_c. exact Hok.
Qed.

(* ... discharged: a non-negative delay counter before the day is enough *)
Theorem day1_dead_concrete par crops season tsc w (s : DState R) :
  hi_crops_ok crops -> p_sim_off par = false -> (0 <= d_delayed_cds s)%Z ->
  day_proc par (total (procs_concrete crops)) season true 1 tsc w (proj s) = day_proc par (total (procs_concrete crops)) season true 1 tsc w s.
Proof. intros Hok Eoff Hd. apply day1_dead_concrete_dcd; try assumption. apply germination_dcd_nonneg. exact Hd. Qed.

(* ... and for the state a season starts from: the reset stores delayed_cds = 0 *)
Corollary day1_dead_after_reset par crops k ws season tsc w (s : DState R) :
  hi_crops_ok crops -> p_sim_off par = false ->
  day_proc par (total (procs_concrete crops)) season true 1 tsc w (proj (reset par k ws s)) =
  day_proc par (total (procs_concrete crops)) season true 1 tsc w (reset par k ws s).
Proof. intros Hok Eoff. apply day1_dead_concrete; try assumption. cbn [reset d_delayed_cds]. lia. Qed.

(* ============================================================================================================ *)
(*  Part C  the option version: definedness of the first day does not depend on the dead fields either            *)
(* ============================================================================================================ *)
Lemma obind_ext {A B} (o o' : option A) (f f' : A -> option B) :
  o' = o -> (forall a, o = Some a -> f' a = f a) -> obind o' f' = obind o f.
Proof. intros -> H. destruct o as [a|]; [apply H; reflexivity | reflexivity]. Qed.

Section Day1Opt.
  Variables (par : DPar R) (PO : ProcsO R).
  Let prof := so_prof (p_soil par).
  Hypothesis gw_ignores_depth_o : forall a z, po_gw PO prof (gw_with a z) = po_gw PO prof a.
  Hypothesis root_first_day_o : forall a z, rdA_dap a = 1%Z -> rdA_gs a = true -> po_rd PO prof (rd_with a z) = po_rd PO prof a.
  Hypothesis evaporation_first_day_o : forall a ws ez s2 w2, evA_dap a = 1%Z -> evA_simoff a = false ->
    po_ev PO prof (ev_with a ws ez s2 w2) = po_ev PO prof a.
  Hypothesis hiref_first_day_o : forall a h y, hrA_dap a = 1%Z -> hrA_gs a = true -> (0 <= hrA_dcd a)%Z ->
    po_hr PO (hr_with a h y) = po_hr PO a.
  Hypothesis germination_nonneg_o : forall a r, po_ge PO prof a = Some r -> (0 <= geA_dcd a)%Z -> (0 <= geR_dcd r)%Z.

  Theorem results_opt_day1_dead season tsc w (s : DState R) :
    p_sim_off par = false -> (0 <= d_delayed_cds s)%Z ->
    results_opt (ctx par season true 1 tsc w (proj s)) PO = results_opt (ctx par season true 1 tsc w s) PO.
  Proof.
    intros Eoff Hd. unfold results_opt. cbv zeta.
    set (x := ctx par season true 1 tsc w s). set (x' := ctx par season true 1 tsc w (proj s)).
    apply obind_ext; [reflexivity|]. intros gdd _.
    apply obind_ext; [change (arg_gw x') with (gw_with (arg_gw x) None); apply gw_ignores_depth_o|]. intros r_gw _.
    apply obind_ext; [change (arg_rd x' gdd r_gw) with (rd_with (arg_rd x gdd r_gw) 0); apply root_first_day_o; reflexivity|]. intros r_rd _.
    apply obind_ext; [reflexivity|]. intros r_pi _.
    apply obind_ext; [reflexivity|]. intros r_dr _.
    apply obind_ext; [reflexivity|]. intros r_rp _.
    apply obind_ext; [reflexivity|]. intros r_ir _.
    apply obind_ext; [reflexivity|]. intros r_inf _.
    apply obind_ext; [reflexivity|]. intros r_cr _.
    apply obind_ext; [reflexivity|]. intros r_ge Ege.
    apply obind_ext; [reflexivity|]. intros r_gst _.
    apply obind_ext; [reflexivity|]. intros r_cc _.
    apply obind_ext.
    { change (arg_ev x' gdd r_ir r_inf r_cr r_ge r_cc) with (ev_with (arg_ev x gdd r_ir r_inf r_cr r_ge r_cc) 0 0 false 0).
      apply evaporation_first_day_o; [reflexivity | exact Eoff]. }
    intros r_ev _.
    apply obind_ext; [reflexivity|]. intros r_tr _.
    apply obind_ext; [reflexivity|]. intros r_gi _.
    apply obind_ext.
    { change (arg_hr x' r_ge r_cc r_tr) with (hr_with (arg_hr x r_ge r_cc r_tr) 0 false).
      apply hiref_first_day_o; [reflexivity | reflexivity |]. exact (germination_nonneg_o _ _ Ege Hd). }
    intros r_hr _.
    apply obind_ext; [reflexivity|]. intros r_bm _.
    apply obind_ext; [reflexivity|]. intros r_hi _.
    apply obind_ext; [reflexivity|]. intros r_rz _.
    reflexivity.
  Qed.

  Theorem day_proc_opt_day1_dead season tsc w (s : DState R) :
    p_sim_off par = false -> (0 <= d_delayed_cds s)%Z ->
    day_proc_opt par PO season true 1 tsc w (proj s) = day_proc_opt par PO season true 1 tsc w s.
  Proof.
    intros Eoff Hd. unfold day_proc_opt, day_core_opt. cbv zeta.
    change (mk_ctx par season true 1 tsc w (proj s)) with (ctx par season true 1 tsc w (proj s)).
    change (mk_ctx par season true 1 tsc w s) with (ctx par season true 1 tsc w s).
    rewrite (results_opt_day1_dead season tsc w s Eoff Hd).
    destruct (results_opt (ctx par season true 1 tsc w s) PO) as [Rs|]; reflexivity.
  Qed.
End Day1Opt.

Theorem day_proc_opt_day1_dead_concrete par crops season tsc w (s : DState R) :
  hi_crops_ok crops -> p_sim_off par = false -> (0 <= d_delayed_cds s)%Z ->
  day_proc_opt par (procs_concrete crops) season true 1 tsc w (proj s) = day_proc_opt par (procs_concrete crops) season true 1 tsc w s.
Proof.
  intros Hok Eoff Hd. apply day_proc_opt_day1_dead; try assumption; cbn [procs_concrete po_gw po_rd po_ev po_hr po_ge].
  - intros a z. apply c_gw_ignores_depth.
  - intros a z. apply c_rd_first_day.
  - intros a ws ez s2 w2. apply c_ev_first_day.
  - intros a h y. apply c_hr_first_day. exact Hok.
  - intros a r E H. exact (proj1 (c_ge_facts _ _ _ E H)).
Qed.

(* the guard of the concrete run loop *)
Corollary defined_c_day1_dead par crops season tsc w (s : DState R) :
  hi_crops_ok crops -> p_sim_off par = false -> (0 <= d_delayed_cds s)%Z ->
  defined_c par crops season true 1 tsc w (proj s) = defined_c par crops season true 1 tsc w s.
Proof. intros Hok Eoff Hd. unfold defined_c. rewrite day_proc_opt_day1_dead_concrete by assumption. reflexivity. Qed.

(* ============================================================================================================ *)
(*  Part D  with a water table the carried adjusted field capacity is dead on EVERY day                            *)
(* ============================================================================================================ *)
(* [proj] does not blank th_fc_Adj: without a water table check_groundwater_table returns the array it was handed.  With a
   water table (water_table = 1) it recomputes the array from the day's depth before anything reads it. *)
Definition set_fc (s : DState R) (f : list R) : DState R :=
  {| d_age_days := d_age_days s; d_age_days_ns := d_age_days_ns s; d_aer_days := d_aer_days s; 
     d_aer_days_comp := d_aer_days_comp s; d_irr_cum := d_irr_cum s; d_delayed_gdds := d_delayed_gdds s; 
     d_delayed_cds := d_delayed_cds s; d_pct_lag_phase := d_pct_lag_phase s; d_t_early_sen := d_t_early_sen s; 
     d_gdd_cum := d_gdd_cum s; d_day_submerged := d_day_submerged s; d_irr_net_cum := d_irr_net_cum s; d_e_pot := d_e_pot s; 
     d_t_pot := d_t_pot s; d_pre_adj := d_pre_adj s; d_crop_dead := d_crop_dead s; d_germination := d_germination s; 
     d_premat_senes := d_premat_senes s; d_growing_season := d_growing_season s; d_yield_form := d_yield_form s; 
     d_stage2 := d_stage2 s; d_wt_in_soil := d_wt_in_soil s; d_stage := d_stage s; d_f_pre := d_f_pre s; d_f_post := d_f_post s; 
     d_fpost_dwn := d_fpost_dwn s; d_fpost_upp := d_fpost_upp s; d_h1_cor_asum := d_h1_cor_asum s; 
     d_h1_cor_bsum := d_h1_cor_bsum s; d_f_pol := d_f_pol s; d_s_cor1 := d_s_cor1 s; d_s_cor2 := d_s_cor2 s; 
     d_hi_ref := d_hi_ref s; d_HIfinal := d_HIfinal s; d_growth_stage := d_growth_stage s; d_tr_ratio := d_tr_ratio s; 
     d_r_cor := d_r_cor s; d_canopy_cover := d_canopy_cover s; d_canopy_cover_adj := d_canopy_cover_adj s; 
     d_canopy_cover_ns := d_canopy_cover_ns s; d_canopy_cover_adj_ns := d_canopy_cover_adj_ns s; d_biomass := d_biomass s; 
     d_biomass_ns := d_biomass_ns s; d_YieldPot := d_YieldPot s; d_harvest_index := d_harvest_index s; 
     d_harvest_index_adj := d_harvest_index_adj s; d_ccx_act := d_ccx_act s; d_ccx_act_ns := d_ccx_act_ns s; d_ccx_w := d_ccx_w s; 
     d_ccx_w_ns := d_ccx_w_ns s; d_ccx_early_sen := d_ccx_early_sen s; d_cc_prev := d_cc_prev s; 
     d_protected_seed := d_protected_seed s; d_DryYield := d_DryYield s; d_FreshYield := d_FreshYield s; d_z_root := d_z_root s; 
     d_cc0_adj := d_cc0_adj s; d_surface_storage := d_surface_storage s; d_z_gw := d_z_gw s; d_th_fc_Adj := f; d_th := d_th s; 
     d_thini := d_thini s; d_time_step_counter := d_time_step_counter s; d_precipitation := d_precipitation s; 
     d_temp_max := d_temp_max s; d_temp_min := d_temp_min s; d_et0 := d_et0 s; d_sumET0EarlySen := d_sumET0EarlySen s; 
     d_gdd := d_gdd s; d_w_surf := d_w_surf s; d_evap_z := d_evap_z s; d_w_stage_2 := d_w_stage_2 s; d_depletion := d_depletion s; 
     d_taw := d_taw s |}.
Definition gw_with_fc (a : A_gw R) (f : list R) : A_gw R :=
  {| gwA_zgw := gwA_zgw a; gwA_th := gwA_th a; gwA_fcadj := f; gwA_wt := gwA_wt a; gwA_gw := gwA_gw a |}.
(* the dead fields at a season start when there is a water table *)
Definition proj_fc (s : DState R) : DState R := set_fc (proj s) [].

Lemma c_gw_ignores_fcadj p a f : gwA_wt a = 1%Z -> c_gw p (gw_with_fc a f) = c_gw p a.
Proof.
  intros H. unfold c_gw. cbn [gw_with_fc gwA_zgw gwA_th gwA_fcadj gwA_wt gwA_gw]. rewrite H.
  unfold Groundwater.check_groundwater_table. cbn [Z.eqb Pos.eqb]. reflexivity.
Qed.

(* processes that never raise, as optional processes *)
Definition lift (P : Procs R) : ProcsO R :=
  {| po_gd := fun a => Some (p_gd P a); po_gw := fun p a => Some (p_gw P p a); po_rd := fun p a => Some (p_rd P p a);
     po_pi := fun p a => Some (p_pi P p a); po_dr := fun p a => Some (p_dr P p a); po_rp := fun p a => Some (p_rp P p a);
     po_ir := fun p a => Some (p_ir P p a); po_inf := fun p a => Some (p_inf P p a); po_cr := fun p a => Some (p_cr P p a);
     po_ge := fun p a => Some (p_ge P p a); po_gst := fun a => Some (p_gst P a); po_cc := fun p a => Some (p_cc P p a);
     po_ev := fun p a => Some (p_ev P p a); po_tr := fun p a => Some (p_tr P p a); po_gi := fun p a => Some (p_gi P p a);
     po_hr := fun a => Some (p_hr P a); po_bm := fun a => Some (p_bm P a); po_hi := fun p a => Some (p_hi P p a);
     po_rz := fun p a => Some (p_rz P p a) |}.
Lemma total_lift (P : Procs R) : total (lift P) = P.
Proof. destruct P. reflexivity. Qed.
Lemma results_opt_lift x (P : Procs R) : exists Rs, results_opt x (lift P) = Some Rs /\ results x P = Rs.
Proof.
  assert (H : exists Rs, results_opt x (lift P) = Some Rs).
  { unfold results_opt, obind. cbv zeta. cbn [lift po_gd po_gw po_rd po_pi po_dr po_rp po_ir po_inf po_cr po_ge po_gst po_cc po_ev po_tr
                                               po_gi po_hr po_bm po_hi po_rz].
    destruct (x_gs x); eexists; reflexivity. }
  destruct H as [Rs H]. exists Rs. split; [exact H|]. rewrite <- (total_lift P) at 1. exact (results_opt_total _ _ _ H).
Qed.

Section FcDead.
  Variables (par : DPar R) (PO : ProcsO R).
  Let prof := so_prof (p_soil par).
  Hypothesis Hwt : p_water_table par = 1%Z.
  Hypothesis gw_ignores_fcadj_o : forall a f, gwA_wt a = 1%Z -> po_gw PO prof (gw_with_fc a f) = po_gw PO prof a.

  Theorem results_opt_fc_dead season gs dap tsc w (s : DState R) f :
    results_opt (ctx par season gs dap tsc w (set_fc s f)) PO = results_opt (ctx par season gs dap tsc w s) PO.
  Proof.
    unfold results_opt. cbv zeta.
    set (x := ctx par season gs dap tsc w s). set (x' := ctx par season gs dap tsc w (set_fc s f)).
    apply obind_ext; [reflexivity|]. intros gdd _.
    apply obind_ext; [change (arg_gw x') with (gw_with_fc (arg_gw x) f); apply gw_ignores_fcadj_o; exact Hwt|]. intros r_gw _.
    apply obind_ext; [reflexivity|]. intros r_rd _.
    apply obind_ext; [reflexivity|]. intros r_pi _.
    apply obind_ext; [reflexivity|]. intros r_dr _.
    apply obind_ext; [reflexivity|]. intros r_rp _.
    apply obind_ext; [reflexivity|]. intros r_ir _.
    apply obind_ext; [reflexivity|]. intros r_inf _.
    apply obind_ext; [reflexivity|]. intros r_cr _.
    apply obind_ext; [reflexivity|]. intros r_ge _.
    apply obind_ext; [reflexivity|]. intros r_gst _.
    apply obind_ext; [reflexivity|]. intros r_cc _.
    apply obind_ext; [reflexivity|]. intros r_ev _.
    apply obind_ext; [reflexivity|]. intros r_tr _.
    apply obind_ext; [reflexivity|]. intros r_gi _.
    apply obind_ext; [reflexivity|]. intros r_hr _.
    apply obind_ext; [reflexivity|]. intros r_bm _.
    apply obind_ext; [reflexivity|]. intros r_hi _.
    apply obind_ext; [reflexivity|]. intros r_rz _.
    reflexivity.
  Qed.

  Theorem day_proc_opt_fc_dead season gs dap tsc w (s : DState R) f :
    day_proc_opt par PO season gs dap tsc w (set_fc s f) = day_proc_opt par PO season gs dap tsc w s.
  Proof.
    unfold day_proc_opt, day_core_opt. cbv zeta.
    change (mk_ctx par season gs dap tsc w (set_fc s f)) with (ctx par season gs dap tsc w (set_fc s f)).
    change (mk_ctx par season gs dap tsc w s) with (ctx par season gs dap tsc w s).
    rewrite (results_opt_fc_dead season gs dap tsc w s f).
    destruct (results_opt (ctx par season gs dap tsc w s) PO) as [Rs|]; reflexivity.
  Qed.
End FcDead.

(* the same for processes that never raise (Day.v's [day_proc]) *)
Theorem day_proc_fc_dead par (P : Procs R) season gs dap tsc w (s : DState R) f :
  p_water_table par = 1%Z ->
  (forall a f, gwA_wt a = 1%Z -> p_gw P (so_prof (p_soil par)) (gw_with_fc a f) = p_gw P (so_prof (p_soil par)) a) ->
  day_proc par P season gs dap tsc w (set_fc s f) = day_proc par P season gs dap tsc w s.
Proof.
  intros Hwt Hgw. rewrite !day_proc_out.
  destruct (results_opt_lift (ctx par season gs dap tsc w (set_fc s f)) P) as (R1 & E1 & ->).
  destruct (results_opt_lift (ctx par season gs dap tsc w s) P) as (R2 & E2 & ->).
  rewrite (results_opt_fc_dead par (lift P) Hwt) in E1 by (intros a f0 Ha; cbn [lift po_gw]; rewrite Hgw by exact Ha; reflexivity).
  rewrite E2 in E1. injection E1 as <-. reflexivity.
Qed.

Theorem day_proc_fc_dead_concrete par crops season gs dap tsc w (s : DState R) f : p_water_table par = 1%Z ->
  day_proc par (total (procs_concrete crops)) season gs dap tsc w (set_fc s f) = day_proc par (total (procs_concrete crops)) season gs dap tsc w s.
Proof.
  intros Hwt. apply day_proc_fc_dead; [exact Hwt|]. intros a f0 Ha. cbn [total p_gw procs_concrete po_gw].
  rewrite c_gw_ignores_fcadj by exact Ha. reflexivity.
Qed.

Theorem defined_c_fc_dead par crops season gs dap tsc w (s : DState R) f : p_water_table par = 1%Z ->
  defined_c par crops season gs dap tsc w (set_fc s f) = defined_c par crops season gs dap tsc w s.
Proof.
  intros Hwt. unfold defined_c. rewrite (day_proc_opt_fc_dead par (procs_concrete crops) Hwt); [reflexivity|].
  intros a f0 Ha. cbn [procs_concrete po_gw]. apply c_gw_ignores_fcadj. exact Ha.
Qed.

(* first day of a season, water table: the 19 fields of [proj_list] AND th_fc_Adj are dead *)
Theorem day1_dead_concrete_table par crops season tsc w (s : DState R) :
  hi_crops_ok crops -> p_sim_off par = false -> p_water_table par = 1%Z -> (0 <= d_delayed_cds s)%Z ->
  day_proc par (total (procs_concrete crops)) season true 1 tsc w (proj_fc s) = day_proc par (total (procs_concrete crops)) season true 1 tsc w s /\
  defined_c par crops season true 1 tsc w (proj_fc s) = defined_c par crops season true 1 tsc w s.
Proof.
  intros Hok Eoff Hwt Hd. unfold proj_fc. split.
  - rewrite day_proc_fc_dead_concrete by exact Hwt. apply day1_dead_concrete; assumption.
  - rewrite defined_c_fc_dead by exact Hwt. apply defined_c_day1_dead; assumption.
Qed.

(* ============================================================================================================ *)
(*  Examples: the premises are satisfiable                                                                        *)
(* ============================================================================================================ *)
Example hi_crops_ok_example : hi_crops_ok DaySideP.Ex.crops.
Proof. intros id. left. cbn. lra. Qed.

Example day1_dead_concrete_example :
  hi_crops_ok DaySideP.Ex.crops /\ p_sim_off DaySideP.Ex.par = false /\ (0 <= d_delayed_cds DaySideP.Ex.st)%Z /\
  day_proc DaySideP.Ex.par (total (procs_concrete DaySideP.Ex.crops)) 1 true 1 50 DayP.Ex.w0 (proj (reset DaySideP.Ex.par 1 [] DaySideP.Ex.st)) =
  day_proc DaySideP.Ex.par (total (procs_concrete DaySideP.Ex.crops)) 1 true 1 50 DayP.Ex.w0 (reset DaySideP.Ex.par 1 [] DaySideP.Ex.st).
Proof.
  split; [exact hi_crops_ok_example|]. split; [reflexivity|]. split; [cbn; lia|].
  apply day1_dead_after_reset; [exact hi_crops_ok_example | reflexivity].
Qed.

Print Assumptions check_gw_ignores_depth_c.
Print Assumptions root_first_day_c.
Print Assumptions evaporation_first_day_c.
Print Assumptions hiref_first_day_c.
Print Assumptions hiref_first_day_refuted.
Print Assumptions day1_dead_concrete_dcd.
Print Assumptions day1_dead_concrete.
Print Assumptions day1_dead_after_reset.
Print Assumptions results_opt_day1_dead.
Print Assumptions day_proc_opt_day1_dead_concrete.
Print Assumptions defined_c_day1_dead.
Print Assumptions day_proc_fc_dead_concrete.
Print Assumptions defined_c_fc_dead.
Print Assumptions day1_dead_concrete_table.
Print Assumptions day1_dead_concrete_example.
