(* SeasonIndepP.v — C08 for the CONCRETE model: a season started by the reset proceeds exactly as a season started from the
   initial state (off-season not simulated).

   Builds on SeasonIndepDay.v (the four first-day hypotheses of DayP.Section Day1 for the concrete processes,
   [day1_dead_concrete], and its option version for the guard of the run loop).

   Part 3  [reset_matches_init]: proj (reset par k ws s) = proj s_init, field by field, where s_init is the state built by
           initialisation for the single-season configuration [par1] that starts with season k's crop ([fresh_like]), under
           the two premises about the carried fields that [proj] does not blank:  d_thini s = d_thini s_init  and
           d_th_fc_Adj s = d_th_fc_Adj s_init.  Both are discharged for runs WITHOUT a water table ([carry_inv],
           [run_steps_carry_no_table]: thini is never written by a day or by the reset; th_fc_Adj stays th_fc).
           With a water table th_fc_Adj is recomputed every day and thini is what initialisation computed from the table
           depth OF STEP 0 — [init_water_depends_on_depth] shows that the premise on thini is then a genuine restriction.
   Part 4  generic (every physics): two models with the same clock state produce the same rows, summary rows and states
           ([run_steps_sim], [run_steps_g_sim], [run_till_g_sim]); the same from the second step on when only the FIRST
           performed step is known to agree ([run_steps_first], [run_steps_g_first], [run_till_g_first]).
           Concrete: [season_first_step], [season_run_steps], [season_run_till], [season_indep_init],
           [season_indep_run_no_table].
   Part 5  Examples (premises satisfiable), Print Assumptions.

   Out of scope (not modelled here): a fresh SIMULATION started on the planting date numbers its steps from 0, re-indexes the
   weather table, the irrigation schedule and the groundwater series, and computes its own crop calendar / CO2 factor;
   [m_init] below keeps the clock values (tsc = planting step of season k, season = k) and the parameter record of the
   multi-season run and only replaces the physical state by the freshly initialised one. *)
From Coq Require Import Reals String List Bool ZArith Lra Lia.
From AC Require Import Num RInst Params Kernels Clock Day DayConcrete RunConcrete.
From AC.Water Require Import Groundwater.
From AC.Init Require Import SoilBuild InitState.
From AC.proofs Require Import ProfR DayP DayConcreteP ClockP RunP RunConcreteP DaySideP InitStateP SeasonIndepDay.
From AC.proofs Require GroundwaterR.
Import ListNotations.
Local Open Scope R_scope.

#[local] Existing Instance YieldR.RTrig.

Ltac dproj :=
  cbn [d_age_days d_age_days_ns d_aer_days d_aer_days_comp d_irr_cum d_delayed_gdds d_delayed_cds d_pct_lag_phase d_t_early_sen d_gdd_cum
       d_day_submerged d_irr_net_cum d_e_pot d_t_pot d_pre_adj d_crop_dead d_germination d_premat_senes d_growing_season d_yield_form
       d_stage2 d_wt_in_soil d_stage d_f_pre d_f_post d_fpost_dwn d_fpost_upp d_h1_cor_asum d_h1_cor_bsum d_f_pol d_s_cor1 d_s_cor2
       d_hi_ref d_HIfinal d_growth_stage d_tr_ratio d_r_cor d_canopy_cover d_canopy_cover_adj d_canopy_cover_ns d_canopy_cover_adj_ns
       d_biomass d_biomass_ns d_YieldPot d_harvest_index d_harvest_index_adj d_ccx_act d_ccx_act_ns d_ccx_w d_ccx_w_ns d_ccx_early_sen
       d_cc_prev d_protected_seed d_DryYield d_FreshYield d_z_root d_cc0_adj d_surface_storage d_z_gw d_th_fc_Adj d_th d_thini
       d_time_step_counter d_precipitation d_temp_max d_temp_min d_et0 d_sumET0EarlySen d_gdd d_w_surf d_evap_z d_w_stage_2 d_depletion
       d_taw].

(* ============================================================================================================ *)
(*  Part 3  the reset versus the initial state                                                                    *)
(* ============================================================================================================ *)
(* frame: the stored initial content and the adjusted field capacity are not written by the orchestration, nor by the reset *)
Lemma state_of_keeps_thini (x : Ctx R) (Rs : Results R) : d_thini (state_of x Rs) = d_thini (x_s x).
Proof. reflexivity. Qed.
Lemma day_proc_keeps_thini par (P : Procs R) season gs dap tsc w (s : DState R) :
  d_thini (fst (day_proc par P season gs dap tsc w s)) = d_thini s.
Proof. reflexivity. Qed.
Lemma reset_keeps_thini par k ws (s : DState R) : d_thini (reset par k ws s) = d_thini s.
Proof. reflexivity. Qed.
Lemma reset_keeps_fcadj par k ws (s : DState R) : d_th_fc_Adj (reset par k ws s) = d_th_fc_Adj s.
Proof. reflexivity. Qed.
Lemma proj_keeps_dead (s : DState R) : d_crop_dead (proj s) = d_crop_dead s.
Proof. reflexivity. Qed.
Lemma proj_keeps_dcd (s : DState R) : d_delayed_cds (proj s) = d_delayed_cds s.
Proof. reflexivity. Qed.

(* without a water table a defined concrete day returns the adjusted field capacity it was handed *)
Lemma day_keeps_fcadj_no_table par crops season gs dap tsc w (s s' : DState R) row :
  p_water_table par = 0%Z ->
  day_proc_opt par (procs_concrete crops) season gs dap tsc w s = Some (s', row) -> d_th_fc_Adj s' = d_th_fc_Adj s.
Proof.
  intros Hwt H. destruct (day_proc_opt_total _ _ _ _ _ _ _ _ _ _ H) as (_ & Rs & HR & _ & -> & _).
  pose proof (so_gw _ _ _ (results_opt_spec _ _ _ HR)) as E. cbn [procs_concrete po_gw] in E.
  destruct (c_gw_inv _ _ _ E) as [o Eo].
  cbn [t_gw trace_of arg_gw gwA_fcadj gwA_wt gwA_gw x_s x_wt x_par ctx] in Eo. unfold x_wt in Eo. cbn [x_par ctx] in Eo.
  rewrite Hwt in Eo. unfold check_groundwater_table in Eo. cbn [Z.eqb] in Eo. inversion Eo as [[E1 E2]].
  cbn [state_of d_th_fc_Adj]. symmetry. exact E1.
Qed.

Lemma repeat_map_const {A B} (x : B) (l : list A) : repeat x (length l) = map (fun _ => x) l.
Proof. induction l as [|a l IH]; cbn [length repeat map]; [reflexivity | rewrite IH; reflexivity]. Qed.

(* [par1]: a configuration whose FIRST season is season k of [par] — same profile, same field management (only the initial
   ponding is read), the crop of its season 0 has the HI0 / CC0 of [par]'s season k.  Instances: [par] itself when every
   season grows the same crop ([fresh_like_same_crop]); [shift_par par k] in general ([fresh_like_shift]). *)
Record fresh_like (par par1 : DPar R) (k : Z) : Prop := {
  fl_prof : so_prof (p_soil par1) = so_prof (p_soil par);
  fl_surf : init_surface (p_field par1) = init_surface (p_field par);
  fl_hi0 : c_HI0 (p_crop par1 0%Z) = c_HI0 (p_crop par k);
  fl_cc0 : c_CC0 (p_crop par1 0%Z) = c_CC0 (p_crop par k) }.

Definition shift_par (par : DPar R) (k : Z) : DPar R :=
  {| p_soil := p_soil par; p_irr := p_irr par; p_fallow_irr := p_fallow_irr par; p_field := p_field par;
     p_fallow_field := p_fallow_field par; p_crop := fun j => p_crop par (j + k)%Z; p_fallow_crop := p_fallow_crop par;
     p_water_table := p_water_table par; p_co2c := fun j => p_co2c par (j + k)%Z; p_co2r := p_co2r par;
     p_evap_steps := p_evap_steps par; p_sim_off := p_sim_off par |}.

Lemma fresh_like_shift par k : fresh_like par (shift_par par k) k.
Proof. constructor; reflexivity. Qed.

Lemma fresh_like_same_crop par k :
  c_HI0 (p_crop par 0%Z) = c_HI0 (p_crop par k) -> c_CC0 (p_crop par 0%Z) = c_CC0 (p_crop par k) -> fresh_like par par k.
Proof. intros H1 H2. constructor; [reflexivity | reflexivity | exact H1 | exact H2]. Qed.

(* THE FIELD-BY-FIELD COMPARISON.  Fields blanked by [proj] need no argument; of the others
     - the counters / flags / harvest-index and canopy fields are the same constants on both sides;
     - aer_days_comp: np.zeros(int(Soil.nComp)) against np.zeros(nComp of the profile): premise [so_nComp = length profile];
     - HIfinal, cc0_adj: season k's crop against the first crop of the fresh configuration: [fl_hi0], [fl_cc0];
     - surface_storage: the bund water of FieldMngt on both sides: [fl_surf];
     - th, thini: the reset copies thini into th; initialisation stores the same array twice: premise on thini;
     - th_fc_Adj: carried, premise. *)
Theorem reset_matches_init par par1 k ws (s : DState R) zgw0 fcr th0 s_init :
  p_sim_off par = false ->
  so_nComp (p_soil par) = Z.of_nat (length (so_prof (p_soil par))) ->
  fresh_like par par1 k ->
  init_state par1 0 zgw0 fcr th0 = Some s_init ->
  d_thini s = d_thini s_init ->
  d_th_fc_Adj s = d_th_fc_Adj s_init ->
  proj (reset par k ws s) = proj s_init.
Proof.
  intros Eoff Hn [Hp Hs Hh Hc] Hi Hth Hfc.
  destruct (init_state_inv _ _ _ _ _ _ Hi) as (z & b & fc & th & _ & ->).
  cbn [d_thini d_th_fc_Adj] in Hth, Hfc.
  unfold proj, reset. rewrite Eoff. cbn [negb]. dproj. rewrite Hth, Hfc, Hn, Nat2Z.id, repeat_map_const, Hp, Hh, Hc, Hs.
  cbn [Z.eqb]. unfold init_surface. rnum. reflexivity.
Qed.

(* with a water table th_fc_Adj is dead as well ([SeasonIndepDay.day1_dead_concrete_table]): no premise about it *)
Theorem reset_matches_init_table par par1 k ws (s : DState R) zgw0 fcr th0 s_init :
  p_sim_off par = false ->
  so_nComp (p_soil par) = Z.of_nat (length (so_prof (p_soil par))) ->
  fresh_like par par1 k ->
  init_state par1 0 zgw0 fcr th0 = Some s_init ->
  d_thini s = d_thini s_init ->
  proj_fc (reset par k ws s) = proj_fc s_init.
Proof.
  intros Eoff Hn [Hp Hs Hh Hc] Hi Hth.
  destruct (init_state_inv _ _ _ _ _ _ Hi) as (z & b & fc & th & _ & ->).
  cbn [d_thini] in Hth.
  unfold proj_fc, set_fc. unfold proj. dproj. unfold reset. dproj. rewrite Eoff. cbn [negb].
  rewrite Hth, Hn, Nat2Z.id, repeat_map_const, Hp, Hh, Hc, Hs.
  cbn [Z.eqb]. unfold init_surface. rnum. reflexivity.
Qed.

(* ---- the two premises, for runs without a water table ------------------------------------------------------------------ *)
Definition carry_inv (par : DPar R) (th0 : list R) (s : DState R) : Prop :=
  d_thini s = th0 /\ d_th_fc_Adj s = map (fun c => c_th_fc c) (so_prof (p_soil par)).

Lemma carry_inv_reset par th0 k ws s : carry_inv par th0 s -> carry_inv par th0 (reset par k ws s).
Proof. intros H. exact H. Qed.
Lemma carry_inv_of_reset par th0 k ws s : carry_inv par th0 (reset par k ws s) -> carry_inv par th0 s.
Proof. intros H. exact H. Qed.

Lemma carry_inv_day par crops th0 season gs dap tsc w s s' row : p_water_table par = 0%Z ->
  day_proc_opt par (procs_concrete crops) season gs dap tsc w s = Some (s', row) -> carry_inv par th0 s -> carry_inv par th0 s'.
Proof.
  intros Hwt H [H1 H2]. split.
  - destruct (day_proc_opt_total _ _ _ _ _ _ _ _ _ _ H) as (_ & Rs & _ & _ & -> & _). exact H1.
  - rewrite (day_keeps_fcadj_no_table _ _ _ _ _ _ _ _ _ _ Hwt H). exact H2.
Qed.

(* initialisation establishes it, for every season counter and every crop list *)
Lemma carry_inv_init par k zgw0 fcr th0 s0 : p_water_table par = 0%Z ->
  init_state par k zgw0 fcr th0 = Some s0 -> carry_inv par th0 s0.
Proof.
  intros Hwt Hi. destruct (init_state_defined_no_table par k zgw0 fcr th0 Hwt) as (s & E & _ & H1 & H2 & _).
  rewrite E in Hi. injection Hi as <-. split; assumption.
Qed.

(* every state of a run by step counts / to termination *)
Theorem run_steps_carry_no_table par crops c ws th0 n (m0 m : CModel (F:=R)) : p_water_table par = 0%Z ->
  carry_inv par th0 (phys (st m0)) -> run_steps_c par crops c ws n m0 = GOk m -> carry_inv par th0 (phys (st m)).
Proof.
  intros Hwt H0 H. unfold run_steps_c in H.
  destruct (run_steps_g_inv _ _ _ _ (proc_c par crops) dead (matured par) (summary_of par) (reset par) (defined_c par crops)
              (carry_inv par th0) (fun _ => True) (fun _ => True)) with (c := c) (ws := ws) (k := n) (m0 := m0) (m' := m)
    as (evs & _ & HI & _); try assumption.
  - intros e Hd _ Hpre. split; [|exact I]. exact (carry_inv_day _ _ _ _ _ _ _ _ _ _ _ Hwt (is_day_opt par crops e Hd) Hpre).
  - intros k ws' p Hp. exact Hp.
  - intros t w _. exact I.
Qed.

Theorem run_till_carry_no_table par crops c ws th0 fuel (m0 m : CModel (F:=R)) : p_water_table par = 0%Z ->
  carry_inv par th0 (phys (st m0)) -> run_till_c par crops c ws fuel m0 = Some (GOk m) -> carry_inv par th0 (phys (st m)).
Proof.
  intros Hwt H0 H. unfold run_till_c in H.
  destruct (run_till_g_inv _ _ _ _ (proc_c par crops) dead (matured par) (summary_of par) (reset par) (defined_c par crops)
              (carry_inv par th0) (fun _ => True) (fun _ => True)) with (c := c) (ws := ws) (fuel := fuel) (m0 := m0) (m' := m)
    as (evs & _ & HI & _); try assumption.
  - intros e Hd _ Hpre. split; [|exact I]. exact (carry_inv_day _ _ _ _ _ _ _ _ _ _ _ Hwt (is_day_opt par crops e Hd) Hpre).
  - intros k ws' p Hp. exact Hp.
  - intros t w _. exact I.
Qed.

(* the stored initial content alone, with or without a water table: no day (defined or not) and no reset writes it *)
Theorem run_steps_thini par crops c ws n (m0 m : CModel (F:=R)) :
  run_steps_c par crops c ws n m0 = GOk m -> d_thini (phys (st m)) = d_thini (phys (st m0)).
Proof.
  intros H. unfold run_steps_c in H.
  destruct (run_steps_g_inv _ _ _ _ (proc_c par crops) dead (matured par) (summary_of par) (reset par) (defined_c par crops)
              (fun s => d_thini s = d_thini (phys (st m0))) (fun _ => True) (fun _ => True)) with (c := c) (ws := ws) (k := n) (m0 := m0) (m' := m)
    as (evs & _ & HI & _); try assumption; try reflexivity.
  - intros e [_ Hp] _ Hpre. split; [|exact I]. unfold proc_c in Hp.
    rewrite <- Hpre. rewrite <- (day_proc_keeps_thini par (total (procs_concrete crops)) (e_season _ _ _ e) (e_gs _ _ _ e) (e_dap _ _ _ e)
                                   (e_tsc _ _ _ e) (e_w _ _ _ e) (e_pre _ _ _ e)). rewrite Hp. reflexivity.
  - intros k ws' p Hp. exact Hp.
  - intros t w _. exact I.
Qed.

(* reset versus initial state, no water table: only static premises and the invariant of the run *)
Theorem reset_matches_init_no_table par par1 k ws (s : DState R) zgw0 fcr th0 s_init :
  p_sim_off par = false -> p_water_table par = 0%Z -> p_water_table par1 = 0%Z ->
  so_nComp (p_soil par) = Z.of_nat (length (so_prof (p_soil par))) ->
  fresh_like par par1 k ->
  init_state par1 0 zgw0 fcr th0 = Some s_init ->
  carry_inv par th0 s ->
  proj (reset par k ws s) = proj s_init.
Proof.
  intros Eoff Hwt Hwt1 Hn Hfl Hi [H1 H2].
  destruct (carry_inv_init par1 0 zgw0 fcr th0 s_init Hwt1 Hi) as [I1 I2].
  apply (reset_matches_init par par1 k ws s zgw0 fcr th0 s_init); try assumption.
  - rewrite H1, I1. reflexivity.
  - rewrite H2, I2, (fl_prof _ _ _ Hfl). reflexivity.
Qed.

(* ---- with a water table the stored initial content depends on the table depth at the step initialisation ran:
        the profile of InitStateP.init_water_table_example, initial contents [0.3; 0.1]; table at 0.12 m: the second
        compartment is saturated (0.3); table at 5 m: untouched (0.1).  So a run initialised on the planting date of
        season k (depth of that day) and the reset of a multi-season run (thini computed with the depth of step 0) start
        season k from different water contents whenever the two depths straddle a compartment centre. -------------------- *)
Theorem init_water_depends_on_depth :
  exists (p : list (Comp R)) (th0 : list R) (z1 z2 : R) r1 r2,
    wf_prof p /\ in_bounds p th0 /\
    init_water p 1 (Some z1) false th0 = Some r1 /\ init_water p 1 (Some z2) false th0 = Some r2 /\ snd r1 <> snd r2.
Proof.
  destruct init_water_table_example as (Hw & _ & Hb & fc & th & E & _ & Eth & _). cbv zeta in *.
  set (p := [GroundwaterR.ex_top; GroundwaterR.ex_bot]) in *.
  exists p, [3/10; 1/10], (12/100), 5. do 2 eexists. split; [exact Hw|]. split; [exact Hb|]. split; [exact E|]. split.
  - unfold init_water. cbn [Z.eqb Pos.eqb].
    assert (Hs : init_wt_in_soil 5 p = false).
    { unfold init_wt_in_soil, gw_wt_in_soil. cbn [p existsb GroundwaterR.ex_top GroundwaterR.ex_bot c_zmid]. rnum. GroundwaterR.rdecide. reflexivity. }
    rewrite Hs. reflexivity.
  - cbn [snd]. rewrite Eth. intros H. injection H as H. lra.
Qed.

(* ============================================================================================================ *)
(*  Part 4.1  generic: runs from models with the same clock state                                                 *)
(* ============================================================================================================ *)
Section ClockSim.
  Variable Phys W Row Out : Type.
  Variable proc : Z -> bool -> Z -> Z -> W -> Phys -> Phys * Row.
  Variable dead : Phys -> bool.
  Variable matured : Z -> Z -> Phys -> bool.
  Variable summary_of : Z -> bool -> Phys -> Out.
  Variable reset : Z -> list W -> Phys -> Phys.
  Variable defined : Z -> bool -> Z -> Z -> W -> Phys -> bool.

  Notation St := (St Phys).
  Notation Model := (Model Phys Row Out).
  Notation day_step := (day_step Phys W Row Out proc dead matured summary_of).
  Notation update_time := (update_time Phys W reset).
  Notation perform := (perform Phys W Row Out proc dead matured summary_of reset).
  Notation run_steps := (run_steps Phys W Row Out proc dead matured summary_of reset).
  Notation perform_g := (perform_g Phys W Row Out proc dead matured summary_of reset defined).
  Notation run_steps_g := (run_steps_g Phys W Row Out proc dead matured summary_of reset defined).
  Notation run_till_g := (run_till_g Phys W Row Out proc dead matured summary_of reset defined).
  Notation day_defined := (day_defined Phys W dead defined).
  Notation in_season := (in_season Phys dead).

  (* the same clock state around another physical state *)
  Definition with_phys (s : St) (p : Phys) : St :=
    {| phys := p; tsc := tsc s; season := season s; dap := dap s; mature := mature s; hflag := hflag s; fin := fin s |}.

  Lemma in_season_with_phys c s p : dead p = dead (phys s) -> in_season c (with_phys s p) = in_season c s.
  Proof. intros H. unfold Clock.in_season. cbn [with_phys season tsc mature hflag phys]. rewrite H. reflexivity. Qed.

  (* a day that treats two physical states alike is the same clock step on both *)
  Lemma day_step_with_phys c w s p : dead p = dead (phys s) ->
    (let gs := in_season c s in let dap' := (if gs then dap s + 1 else 0)%Z in
     proc (season s) gs dap' (tsc s) w p = proc (season s) gs dap' (tsc s) w (phys s)) ->
    day_step c w (with_phys s p) = day_step c w s.
  Proof.
    intros Hd Hp. cbv zeta in Hp. unfold Clock.day_step. rewrite (in_season_with_phys c s p Hd).
    cbn [with_phys season tsc mature hflag phys dap fin]. rewrite Hp. reflexivity.
  Qed.

  Lemma day_defined_with_phys c w s p : dead p = dead (phys s) ->
    (let gs := in_season c s in let dap' := (if gs then dap s + 1 else 0)%Z in
     defined (season s) gs dap' (tsc s) w p = defined (season s) gs dap' (tsc s) w (phys s)) ->
    day_defined c w (with_phys s p) = day_defined c w s.
  Proof.
    intros Hd Hp. cbv zeta in Hp. unfold Clock.day_defined. rewrite (in_season_with_phys c s p Hd).
    cbn [with_phys season tsc mature hflag phys dap fin]. exact Hp.
  Qed.

  (* what two related steps / runs append to their tables *)
  Definition sum_list (sr : option (SumRow Out)) : list (SumRow Out) := match sr with Some r => [r] | None => [] end.
  (* [a], [b] come from [m], [m'] by ONE step that wrote the same row and the same summary row (if any) and ended in the same state *)
  Definition step_rel (m m' a b : Model) : Prop :=
    st a = st b /\ exists row sr,
      rows (tabs a) = row :: rows (tabs m) /\ rows (tabs b) = row :: rows (tabs m') /\
      sums (tabs a) = sum_list sr ++ sums (tabs m) /\ sums (tabs b) = sum_list sr ++ sums (tabs m').
  (* ... by steps that wrote the same rows [dr] and the same summary rows [ds] (most recent first) and ended in the same state *)
  Definition run_rel (m m' a b : Model) : Prop :=
    st a = st b /\ exists dr ds,
      rows (tabs a) = dr ++ rows (tabs m) /\ rows (tabs b) = dr ++ rows (tabs m') /\
      sums (tabs a) = ds ++ sums (tabs m) /\ sums (tabs b) = ds ++ sums (tabs m').
  (* same outcome: both Ok and related, or the same exception, or stopped at the same step *)
  Definition res_rel (Rl : Model -> Model -> Prop) (r r' : res Model) : Prop :=
    match r, r' with Ok a, Ok b => Rl a b | Raise e, Raise e' => e = e' | _, _ => False end.
  Definition gres_rel (Rl : Model -> Model -> Prop) (r r' : gres Model) : Prop :=
    match r, r' with GOk a, GOk b => Rl a b | GRaise e, GRaise e' => e = e' | Stopped t, Stopped t' => t = t' | _, _ => False end.
  Definition ogres_rel (Rl : Model -> Model -> Prop) (o o' : option (gres Model)) : Prop :=
    match o, o' with Some r, Some r' => gres_rel Rl r r' | None, None => True | _, _ => False end.

  Lemma res_rel_impl (R1 R2 : Model -> Model -> Prop) r r' : (forall a b, R1 a b -> R2 a b) -> res_rel R1 r r' -> res_rel R2 r r'.
  Proof. intros H. destruct r, r'; cbn; auto. Qed.
  Lemma gres_rel_impl (R1 R2 : Model -> Model -> Prop) r r' : (forall a b, R1 a b -> R2 a b) -> gres_rel R1 r r' -> gres_rel R2 r r'.
  Proof. intros H. destruct r, r'; cbn; auto. Qed.
  Lemma ogres_rel_impl (R1 R2 : Model -> Model -> Prop) o o' : (forall a b, R1 a b -> R2 a b) -> ogres_rel R1 o o' -> ogres_rel R2 o o'.
  Proof. intros H. destruct o as [r|], o' as [r'|]; cbn; auto. apply gres_rel_impl. exact H. Qed.

  Lemma run_rel_refl m m' : st m = st m' -> run_rel m m' m m'.
  Proof. intros H. split; [exact H|]. exists [], []. repeat split; reflexivity. Qed.
  Lemma step_run m m' a b : step_rel m m' a b -> run_rel m m' a b.
  Proof. intros (H & row & sr & H1 & H2 & H3 & H4). split; [exact H|]. exists [row], (sum_list sr). repeat split; assumption. Qed.
  Lemma step_run_trans m m' a b x y : step_rel m m' a b -> run_rel a b x y -> run_rel m m' x y.
  Proof.
    intros (_ & row & sr & H1 & H2 & H3 & H4) (H & dr & ds & G1 & G2 & G3 & G4). split; [exact H|].
    exists (dr ++ [row]), (ds ++ sum_list sr). rewrite <- !app_assoc. cbn [app].
    rewrite G1, G2, G3, G4, H1, H2, H3, H4. repeat split; reflexivity.
  Qed.

  (* ---- one performed step ---------------------------------------------------------------------------------------- *)
  Lemma perform_sim c ws m m' :
    tsc (st m') = tsc (st m) ->
    (forall w, nthW W ws (tsc (st m)) = Some w -> day_step c w (st m') = day_step c w (st m)) ->
    res_rel (step_rel m m') (perform c ws m) (perform c ws m').
  Proof.
    intros Ht Hd. rewrite !(perform_unfold Phys W Row Out proc dead matured summary_of reset). rewrite Ht.
    destruct (nthW W ws (tsc (st m))) as [w|] eqn:Ew; [|reflexivity].
    rewrite (Hd w eq_refl). destruct (day_step c w (st m)) as [[s1 row] sr].
    destruct (update_time c ws _) as [s3|e]; [|reflexivity].
    cbn [res_rel]. split; [reflexivity|]. exists row, sr. cbn [st tabs rows sums]. destruct sr; repeat split; reflexivity.
  Qed.

  Lemma perform_g_sim c ws m m' :
    tsc (st m') = tsc (st m) ->
    (forall w, nthW W ws (tsc (st m)) = Some w ->
               day_step c w (st m') = day_step c w (st m) /\ day_defined c w (st m') = day_defined c w (st m)) ->
    gres_rel (step_rel m m') (perform_g c ws m) (perform_g c ws m').
  Proof.
    intros Ht Hd. pose proof (perform_sim c ws m m' Ht (fun w Hw => proj1 (Hd w Hw))) as H.
    unfold Clock.perform_g. rewrite Ht. destruct (nthW W ws (tsc (st m))) as [w|] eqn:Ew; [|reflexivity].
    rewrite (proj2 (Hd w eq_refl)). destruct (day_defined c w (st m)); [|reflexivity].
    destruct (perform c ws m), (perform c ws m'); cbn in H |- *; try contradiction; exact H.
  Qed.

  Lemma perform_sim_eq c ws m m' : st m' = st m -> res_rel (step_rel m m') (perform c ws m) (perform c ws m').
  Proof. intros H. apply perform_sim; [rewrite H; reflexivity | intros w _; rewrite H; reflexivity]. Qed.
  Lemma perform_g_sim_eq c ws m m' : st m' = st m -> gres_rel (step_rel m m') (perform_g c ws m) (perform_g c ws m').
  Proof. intros H. apply perform_g_sim; [rewrite H; reflexivity | intros w _; rewrite H; split; reflexivity]. Qed.

  (* ---- run_steps --------------------------------------------------------------------------------------------------- *)
  Lemma run_steps_S c ws n m m' :
    (forall a b, st b = st a -> res_rel (run_rel a b) (run_steps c ws n a) (run_steps c ws n b)) ->
    res_rel (step_rel m m') (perform c ws m) (perform c ws m') ->
    res_rel (run_rel m m') (run_steps c ws (S n) m) (run_steps c ws (S n) m').
  Proof.
    intros IH H. cbn [Clock.run_steps]. destruct (perform c ws m) as [a|e], (perform c ws m') as [b|e']; cbn in H; try contradiction; [|exact H].
    pose proof H as (Hst & _). rewrite <- Hst. destruct (fin (st a)).
    - cbn. apply step_run. exact H.
    - eapply res_rel_impl; [|apply IH; symmetry; exact Hst]. intros x y. apply step_run_trans. exact H.
  Qed.

  Theorem run_steps_sim c ws n : forall m m', st m' = st m -> res_rel (run_rel m m') (run_steps c ws n m) (run_steps c ws n m').
  Proof.
    induction n as [|n IH]; intros m m' H.
    - cbn. apply run_rel_refl. symmetry. exact H.
    - apply run_steps_S; [exact IH | apply perform_sim_eq; exact H].
  Qed.

  (* only the first step is known to agree: from then on the two runs coincide *)
  Theorem run_steps_first c ws n m m' :
    res_rel (step_rel m m') (perform c ws m) (perform c ws m') ->
    res_rel (run_rel m m') (run_steps c ws (S n) m) (run_steps c ws (S n) m').
  Proof. apply run_steps_S. apply run_steps_sim. Qed.

  (* ---- run_steps_g ------------------------------------------------------------------------------------------------- *)
  Lemma run_steps_g_S c ws n m m' :
    (forall a b, st b = st a -> gres_rel (run_rel a b) (run_steps_g c ws n a) (run_steps_g c ws n b)) ->
    gres_rel (step_rel m m') (perform_g c ws m) (perform_g c ws m') ->
    gres_rel (run_rel m m') (run_steps_g c ws (S n) m) (run_steps_g c ws (S n) m').
  Proof.
    intros IH H. cbn [Clock.run_steps_g].
    destruct (perform_g c ws m) as [a|e|t], (perform_g c ws m') as [b|e'|t']; cbn in H; try contradiction; try exact H.
    pose proof H as (Hst & _). rewrite <- Hst. destruct (fin (st a)).
    - cbn. apply step_run. exact H.
    - eapply gres_rel_impl; [|apply IH; symmetry; exact Hst]. intros x y. apply step_run_trans. exact H.
  Qed.

  Theorem run_steps_g_sim c ws n : forall m m', st m' = st m -> gres_rel (run_rel m m') (run_steps_g c ws n m) (run_steps_g c ws n m').
  Proof.
    induction n as [|n IH]; intros m m' H.
    - cbn. apply run_rel_refl. symmetry. exact H.
    - apply run_steps_g_S; [exact IH | apply perform_g_sim_eq; exact H].
  Qed.

  Theorem run_steps_g_first c ws n m m' :
    gres_rel (step_rel m m') (perform_g c ws m) (perform_g c ws m') ->
    gres_rel (run_rel m m') (run_steps_g c ws (S n) m) (run_steps_g c ws (S n) m').
  Proof. apply run_steps_g_S. apply run_steps_g_sim. Qed.

  (* ---- run_till_g -------------------------------------------------------------------------------------------------- *)
  Theorem run_till_g_sim c ws fuel : forall m m', st m' = st m -> ogres_rel (run_rel m m') (run_till_g c ws fuel m) (run_till_g c ws fuel m').
  Proof.
    induction fuel as [|fuel IH]; intros m m' H; cbn [Clock.run_till_g]; rewrite H; destruct (fin (st m)).
    - cbn. apply run_rel_refl. symmetry. exact H.
    - exact I.
    - cbn. apply run_rel_refl. symmetry. exact H.
    - pose proof (perform_g_sim_eq c ws m m' H) as P.
      destruct (perform_g c ws m) as [a|e|t], (perform_g c ws m') as [b|e'|t']; cbn in P; try contradiction; try exact P.
      pose proof P as (Hst & _). eapply ogres_rel_impl; [|apply IH; symmetry; exact Hst]. intros x y. apply step_run_trans. exact P.
  Qed.

  Theorem run_till_g_first c ws fuel m m' : fin (st m) = false -> fin (st m') = false ->
    gres_rel (step_rel m m') (perform_g c ws m) (perform_g c ws m') ->
    ogres_rel (run_rel m m') (run_till_g c ws (S fuel) m) (run_till_g c ws (S fuel) m').
  Proof.
    intros F1 F2 P. cbn [Clock.run_till_g]. rewrite F1, F2.
    destruct (perform_g c ws m) as [a|e|t], (perform_g c ws m') as [b|e'|t']; cbn in P; try contradiction; try exact P.
    pose proof P as (Hst & _). eapply ogres_rel_impl; [|apply run_till_g_sim; symmetry; exact Hst]. intros x y. apply step_run_trans. exact P.
  Qed.

  (* ---- when does [update_time] start a season: the state it returns is [start_season] of the state it was given ------- *)
  Lemma update_time_new_season c ws (s s' : St) : update_time c ws s = Ok s' -> season s' <> season s ->
    exists sp t, s' = start_season Phys W reset (season s + 1) ws sp t /\ phys sp = phys s /\
                 nthZ (plant c) (season s + 1) = Some t.
  Proof.
    unfold Clock.update_time. cbv zeta. intros H Hne.
    repeat match type of H with
           | (if ?b then _ else _) = _ => destruct b eqn:?
           | match nthZ ?l ?k with _ => _ end = _ => destruct (nthZ l k) as [t|] eqn:En
           end; try discriminate; injection H as <-; try (exfalso; apply Hne; reflexivity).
    - exists s, t. repeat split; reflexivity.
    - match goal with E : (_ =? _)%Z = true |- _ => apply Z.eqb_eq in E; subst t end.
      eexists _, _. split; [reflexivity|]. split; reflexivity.
  Qed.
End ClockSim.

Arguments with_phys {Phys} s p.
Arguments step_rel {Phys Row Out} m m' a b.
Arguments run_rel {Phys Row Out} m m' a b.
Arguments res_rel {Phys Row Out} Rl r r'.
Arguments gres_rel {Phys Row Out} Rl r r'.
Arguments ogres_rel {Phys Row Out} Rl o o'.

(* ============================================================================================================ *)
(*  Part 4.2  the concrete season                                                                                 *)
(* ============================================================================================================ *)
Section SeasonCore.
  Variables (par : DPar R) (crops : Z -> CropFull R) (c : ClockP) (ws : list (Day.W R)).
  Notation procc := (proc_c par crops).
  Notation defc := (defined_c par crops).
  Notation CM := (CModel (F:=R)).

  (* the clock state right after update_time started season k at step pk from the state [stp] of the previous day *)
  Variables (stp : St (DState R)) (k pk : Z).
  Let st_r : St (DState R) := start_season' par k ws stp pk.
  (* the freshly initialised physical state *)
  Variable s_i : DState R.
  Hypothesis Hin : in_season (DState R) dead c st_r = true.       (* the planting step of season k is a day of the season *)
  (* the first day of the season treats the two physical states alike *)
  Hypothesis Hdead : dead s_i = dead (phys st_r).
  Hypothesis Hday : forall w,
    procc k true 1 pk w s_i = procc k true 1 pk w (reset par k ws (phys stp)) /\
    defc k true 1 pk w s_i = defc k true 1 pk w (reset par k ws (phys stp)).

  Lemma first_clock_step_same w :
    day_step (DState R) (Day.W R) (DRow R) (DOut R) procc dead (matured par) (summary_of par) c w (with_phys st_r s_i) =
    day_step (DState R) (Day.W R) (DRow R) (DOut R) procc dead (matured par) (summary_of par) c w st_r /\
    day_defined (DState R) (Day.W R) dead defc c w (with_phys st_r s_i) = day_defined (DState R) (Day.W R) dead defc c w st_r.
  Proof.
    split.
    - apply day_step_with_phys; [exact Hdead|]. cbv zeta. rewrite Hin. exact (proj1 (Hday w)).
    - apply day_defined_with_phys; [exact Hdead|]. cbv zeta. rewrite Hin. exact (proj2 (Hday w)).
  Qed.

  (* the two models: same clock, any tables *)
  Variables (T T' : Tables (DRow R) (DOut R)).
  Let m_reset : CM := {| st := st_r; tabs := T |}.
  Let m_init : CM := {| st := with_phys st_r s_i; tabs := T' |}.

  Theorem core_first_step : gres_rel (step_rel m_reset m_init) (perform_c par crops c ws m_reset) (perform_c par crops c ws m_init).
  Proof.
    unfold perform_c. apply perform_g_sim; [reflexivity|]. intros w _. exact (first_clock_step_same w).
  Qed.

  Theorem core_run_steps n :
    gres_rel (run_rel m_reset m_init) (run_steps_c par crops c ws (S n) m_reset) (run_steps_c par crops c ws (S n) m_init).
  Proof. unfold run_steps_c. apply run_steps_g_first. exact core_first_step. Qed.

  Theorem core_run_till fuel : fin stp = false ->
    ogres_rel (run_rel m_reset m_init) (run_till_c par crops c ws (S fuel) m_reset) (run_till_c par crops c ws (S fuel) m_init).
  Proof. intros F. unfold run_till_c. apply run_till_g_first; [exact F | exact F | exact core_first_step]. Qed.

  Theorem core_run_steps_total n :
    res_rel (run_rel m_reset m_init)
      (run_steps (DState R) (Day.W R) (DRow R) (DOut R) procc dead (matured par) (summary_of par) (reset par) c ws (S n) m_reset)
      (run_steps (DState R) (Day.W R) (DRow R) (DOut R) procc dead (matured par) (summary_of par) (reset par) c ws (S n) m_init).
  Proof.
    apply run_steps_first. apply perform_sim; [reflexivity|]. intros w _. exact (proj1 (first_clock_step_same w)).
  Qed.

  Corollary core_run_steps_ok n a : run_steps_c par crops c ws (S n) m_reset = GOk a ->
    exists b, run_steps_c par crops c ws (S n) m_init = GOk b /\ st a = st b /\
      exists dr ds, rows (tabs a) = dr ++ rows T /\ rows (tabs b) = dr ++ rows T' /\
                    sums (tabs a) = ds ++ sums T /\ sums (tabs b) = ds ++ sums T'.
  Proof.
    intros H. pose proof (core_run_steps n) as G. rewrite H in G.
    destruct (run_steps_c par crops c ws (S n) m_init) as [b|e|t]; cbn in G; try contradiction.
    exists b. split; [reflexivity|]. exact G.
  Qed.
End SeasonCore.

(* ---- the premise in the form of Part 3: the two states agree outside the dead fields ---------------------------------- *)
Section Season.
  Variables (par : DPar R) (crops : Z -> CropFull R) (c : ClockP) (ws : list (Day.W R)).
  Notation procc := (proc_c par crops).
  Notation defc := (defined_c par crops).
  Notation CM := (CModel (F:=R)).
  Hypothesis Hok : hi_crops_ok crops.
  Hypothesis Eoff : p_sim_off par = false.
  Variables (stp : St (DState R)) (k pk : Z).
  Let st_r : St (DState R) := start_season' par k ws stp pk.
  Variable s_i : DState R.
  Hypothesis Hin : in_season (DState R) dead c st_r = true.
  Hypothesis Hproj : proj (reset par k ws (phys stp)) = proj s_i.

  Lemma s_i_dead : dead s_i = dead (phys st_r).
  Proof. unfold dead. rewrite <- (proj_keeps_dead s_i), <- Hproj. reflexivity. Qed.
  Lemma s_i_dcd : (0 <= d_delayed_cds s_i)%Z.
  Proof. rewrite <- (proj_keeps_dcd s_i), <- Hproj. cbn [proj reset d_delayed_cds]. lia. Qed.

  (* the day: same new state, same rows; same definedness *)
  Lemma first_day_same w :
    procc k true 1 pk w s_i = procc k true 1 pk w (reset par k ws (phys stp)) /\
    defc k true 1 pk w s_i = defc k true 1 pk w (reset par k ws (phys stp)).
  Proof.
    unfold proc_c. split.
    - rewrite <- (day1_dead_concrete par crops k pk w s_i Hok Eoff s_i_dcd).
      rewrite <- (day1_dead_after_reset par crops k ws k pk w (phys stp) Hok Eoff). rewrite Hproj. reflexivity.
    - rewrite <- (defined_c_day1_dead par crops k pk w s_i Hok Eoff s_i_dcd).
      rewrite <- (defined_c_day1_dead par crops k pk w (reset par k ws (phys stp)) Hok Eoff) by (cbn [reset d_delayed_cds]; lia).
      rewrite Hproj. reflexivity.
  Qed.

  Variables (T T' : Tables (DRow R) (DOut R)).
  Let m_reset : CM := {| st := st_r; tabs := T |}.
  Let m_init : CM := {| st := with_phys st_r s_i; tabs := T' |}.

  (* the first performed step yields the same row, the same summary row (if any) and the same model state *)
  Theorem season_first_step : gres_rel (step_rel m_reset m_init) (perform_c par crops c ws m_reset) (perform_c par crops c ws m_init).
  Proof. exact (core_first_step par crops c ws stp k pk s_i Hin s_i_dead first_day_same T T'). Qed.

  (* ... hence the same rows, summary rows and states for every positive step count *)
  Theorem season_run_steps n :
    gres_rel (run_rel m_reset m_init) (run_steps_c par crops c ws (S n) m_reset) (run_steps_c par crops c ws (S n) m_init).
  Proof. exact (core_run_steps par crops c ws stp k pk s_i Hin s_i_dead first_day_same T T' n). Qed.

  (* ... and to termination *)
  Theorem season_run_till fuel : fin stp = false ->
    ogres_rel (run_rel m_reset m_init) (run_till_c par crops c ws (S fuel) m_reset) (run_till_c par crops c ws (S fuel) m_init).
  Proof. exact (core_run_till par crops c ws stp k pk s_i Hin s_i_dead first_day_same T T' fuel). Qed.

  (* the same for the unguarded loop of Clock.v (a day that raises computes with the defaults there) *)
  Theorem season_run_steps_total n :
    res_rel (run_rel m_reset m_init)
      (run_steps (DState R) (Day.W R) (DRow R) (DOut R) procc dead (matured par) (summary_of par) (reset par) c ws (S n) m_reset)
      (run_steps (DState R) (Day.W R) (DRow R) (DOut R) procc dead (matured par) (summary_of par) (reset par) c ws (S n) m_init).
  Proof. exact (core_run_steps_total par crops c ws stp k pk s_i Hin s_i_dead first_day_same T T' n). Qed.

  (* readable form of [season_run_steps] for a run that returns *)
  Corollary season_run_steps_ok n a : run_steps_c par crops c ws (S n) m_reset = GOk a ->
    exists b, run_steps_c par crops c ws (S n) m_init = GOk b /\ st a = st b /\
      exists dr ds, rows (tabs a) = dr ++ rows T /\ rows (tabs b) = dr ++ rows T' /\
                    sums (tabs a) = ds ++ sums T /\ sums (tabs b) = ds ++ sums T'.
  Proof. exact (core_run_steps_ok par crops c ws stp k pk s_i Hin s_i_dead first_day_same T T' n a). Qed.
End Season.

(* ---- with a water table: agreement outside the dead fields and th_fc_Adj ---------------------------------------------- *)
Section SeasonTable.
  Variables (par : DPar R) (crops : Z -> CropFull R) (c : ClockP) (ws : list (Day.W R)).
  Notation procc := (proc_c par crops).
  Notation defc := (defined_c par crops).
  Notation CM := (CModel (F:=R)).
  Hypothesis Hok : hi_crops_ok crops.
  Hypothesis Eoff : p_sim_off par = false.
  Hypothesis Hwt : p_water_table par = 1%Z.
  Variables (stp : St (DState R)) (k pk : Z).
  Let st_r : St (DState R) := start_season' par k ws stp pk.
  Variable s_i : DState R.
  Hypothesis Hin : in_season (DState R) dead c st_r = true.
  Hypothesis Hproj : proj_fc (reset par k ws (phys stp)) = proj_fc s_i.

  Lemma s_i_dead_t : dead s_i = dead (phys st_r).
  Proof. unfold dead. change (d_crop_dead s_i) with (d_crop_dead (proj_fc s_i)). rewrite <- Hproj. reflexivity. Qed.
  Lemma s_i_dcd_t : (0 <= d_delayed_cds s_i)%Z.
  Proof. change (d_delayed_cds s_i) with (d_delayed_cds (proj_fc s_i)). rewrite <- Hproj. cbn [proj_fc set_fc proj reset d_delayed_cds]. lia. Qed.

  Lemma first_day_same_t w :
    procc k true 1 pk w s_i = procc k true 1 pk w (reset par k ws (phys stp)) /\
    defc k true 1 pk w s_i = defc k true 1 pk w (reset par k ws (phys stp)).
  Proof.
    destruct (day1_dead_concrete_table par crops k pk w s_i Hok Eoff Hwt s_i_dcd_t) as [A1 A2].
    destruct (day1_dead_concrete_table par crops k pk w (reset par k ws (phys stp)) Hok Eoff Hwt) as [B1 B2]; [cbn [reset d_delayed_cds]; lia|].
    unfold proc_c. rewrite <- A1, <- A2, <- B1, <- B2, Hproj. split; reflexivity.
  Qed.

  Variables (T T' : Tables (DRow R) (DOut R)).
  Let m_reset : CM := {| st := st_r; tabs := T |}.
  Let m_init : CM := {| st := with_phys st_r s_i; tabs := T' |}.

  Theorem season_table_first_step : gres_rel (step_rel m_reset m_init) (perform_c par crops c ws m_reset) (perform_c par crops c ws m_init).
  Proof. exact (core_first_step par crops c ws stp k pk s_i Hin s_i_dead_t first_day_same_t T T'). Qed.
  Theorem season_table_run_steps n :
    gres_rel (run_rel m_reset m_init) (run_steps_c par crops c ws (S n) m_reset) (run_steps_c par crops c ws (S n) m_init).
  Proof. exact (core_run_steps par crops c ws stp k pk s_i Hin s_i_dead_t first_day_same_t T T' n). Qed.
  Theorem season_table_run_till fuel : fin stp = false ->
    ogres_rel (run_rel m_reset m_init) (run_till_c par crops c ws (S fuel) m_reset) (run_till_c par crops c ws (S fuel) m_init).
  Proof. exact (core_run_till par crops c ws stp k pk s_i Hin s_i_dead_t first_day_same_t T T' fuel). Qed.
End SeasonTable.

(* the planting step of a season is a day of that season *)
Lemma in_season_started par c ws (stp : St (DState R)) k pk : wf_clock c -> nthZ (plant c) k = Some pk ->
  in_season (DState R) dead c (start_season' par k ws stp pk) = true.
Proof.
  intros Hwf Hp. pose proof (nthZ_range _ _ _ Hp) as Hk.
  destruct (nthZ_some_iff (harv c) k) as [h Hh]; [rewrite (wf_len c Hwf); exact Hk|].
  pose proof (wf_plant_harv c Hwf k pk h Hp Hh) as Hph.
  unfold in_season, start_season', start_season. cbn [season tsc mature hflag phys]. rewrite Hp, Hh.
  replace (0 <=? k)%Z with true by (symmetry; apply Z.leb_le; lia).
  replace (pk <=? pk)%Z with true by (symmetry; apply Z.leb_le; lia).
  replace (pk <=? h)%Z with true by (symmetry; apply Z.leb_le; lia).
  reflexivity.
Qed.

(* ---- with the initial state of the single-season configuration -------------------------------------------------------- *)
Theorem season_indep_init par par1 crops c ws (stp : St (DState R)) k pk zgw0 fcr th0 s_init T T' :
  hi_crops_ok crops -> p_sim_off par = false ->
  so_nComp (p_soil par) = Z.of_nat (length (so_prof (p_soil par))) ->
  fresh_like par par1 k ->
  init_state par1 0 zgw0 fcr th0 = Some s_init ->
  d_thini (phys stp) = d_thini s_init ->
  d_th_fc_Adj (phys stp) = d_th_fc_Adj s_init ->
  wf_clock c -> nthZ (plant c) k = Some pk ->
  let m_reset : CModel (F:=R) := {| st := start_season' par k ws stp pk; tabs := T |} in
  let m_init : CModel (F:=R) := {| st := with_phys (start_season' par k ws stp pk) s_init; tabs := T' |} in
  forall n, gres_rel (run_rel m_reset m_init) (run_steps_c par crops c ws (S n) m_reset) (run_steps_c par crops c ws (S n) m_init).
Proof.
  intros Hok Eoff Hn Hfl Hi Hth Hfc Hwf Hp m_reset m_init n.
  apply season_run_steps; try assumption.
  - apply in_season_started; assumption.
  - apply (reset_matches_init par par1 k ws (phys stp) zgw0 fcr th0 s_init); assumption.
Qed.

(* ---- THE CLOSED STATEMENT without a water table: a multi-season run from its own initial state [s0] (any season counter
        k0, any crop list) has reached a model [m] whose clock state was produced by the season start of season k; replacing
        the physical state of [m] by the initial state [s_init] of the configuration that starts with season k changes no row,
        no summary row and no state from the first step of the season on. -------------------------------------------------- *)
Theorem season_indep_run_no_table par par1 crops c ws k0 zgw0 fcr th0 s0 (m0 m : CModel (F:=R)) n0
        (stp : St (DState R)) k pk zgw1 fcr1 s_init T' :
  hi_crops_ok crops -> p_sim_off par = false -> p_water_table par = 0%Z -> p_water_table par1 = 0%Z ->
  so_nComp (p_soil par) = Z.of_nat (length (so_prof (p_soil par))) ->
  wf_clock c ->
  (* the multi-season run *)
  init_state par k0 zgw0 fcr th0 = Some s0 -> phys (st m0) = s0 ->
  run_steps_c par crops c ws n0 m0 = GOk m ->
  st m = start_season' par k ws stp pk -> nthZ (plant c) k = Some pk ->
  (* the single-season configuration: same initial water contents th0 *)
  fresh_like par par1 k -> init_state par1 0 zgw1 fcr1 th0 = Some s_init ->
  let m_init : CModel (F:=R) := {| st := with_phys (st m) s_init; tabs := T' |} in
  forall n, gres_rel (run_rel m m_init) (run_steps_c par crops c ws (S n) m) (run_steps_c par crops c ws (S n) m_init).
Proof.
  intros Hok Eoff Hwt Hwt1 Hn Hwf Hi0 Hm0 Hrun Hst Hp Hfl Hi1.
  assert (C0 : carry_inv par th0 (phys (st m0))) by (rewrite Hm0; exact (carry_inv_init par k0 zgw0 fcr th0 s0 Hwt Hi0)).
  pose proof (run_steps_carry_no_table par crops c ws th0 n0 m0 m Hwt C0 Hrun) as C.
  rewrite Hst in C. cbn [start_season' start_season phys] in C. apply carry_inv_of_reset in C.
  clear Hrun. destruct m as [sm tm]. cbn [st] in Hst |- *. subst sm. cbv zeta. intros n.
  apply season_run_steps; try assumption.
  - apply in_season_started; assumption.
  - exact (reset_matches_init_no_table par par1 k ws (phys stp) zgw1 fcr1 th0 s_init Eoff Hwt Hwt1 Hn Hfl Hi1 C).
Qed.

(* ---- THE STATEMENT WITH a water table: the one premise that remains is that the two initialisations stored the same initial
        water contents ([d_thini s0 = d_thini s_init]); it holds when they ran with the same table depth, the same "FC" flag and
        the same interpolated contents ([init_thini_same]) and can fail otherwise ([init_water_depends_on_depth]). --------------- *)
Lemma init_thini_same par par1 k0 k1 zgw fcr th0 s0 s1 :
  so_prof (p_soil par1) = so_prof (p_soil par) -> p_water_table par1 = p_water_table par ->
  init_state par k0 zgw fcr th0 = Some s0 -> init_state par1 k1 zgw fcr th0 = Some s1 -> d_thini s0 = d_thini s1.
Proof.
  intros Hp Hw H0 H1.
  destruct (init_state_inv _ _ _ _ _ _ H0) as (z & b & fc & th & E0 & ->).
  destruct (init_state_inv _ _ _ _ _ _ H1) as (z' & b' & fc' & th' & E1 & ->).
  rewrite Hp, Hw, E0 in E1. injection E1 as _ _ _ <-. reflexivity.
Qed.

Theorem season_indep_run_table par par1 crops c ws k0 zgw0 fcr th0 s0 (m0 m : CModel (F:=R)) n0
        (stp : St (DState R)) k pk zgw1 fcr1 th1 s_init T' :
  hi_crops_ok crops -> p_sim_off par = false -> p_water_table par = 1%Z ->
  so_nComp (p_soil par) = Z.of_nat (length (so_prof (p_soil par))) ->
  wf_clock c ->
  init_state par k0 zgw0 fcr th0 = Some s0 -> phys (st m0) = s0 ->
  run_steps_c par crops c ws n0 m0 = GOk m ->
  st m = start_season' par k ws stp pk -> nthZ (plant c) k = Some pk ->
  fresh_like par par1 k -> init_state par1 0 zgw1 fcr1 th1 = Some s_init ->
  d_thini s0 = d_thini s_init ->
  let m_init : CModel (F:=R) := {| st := with_phys (st m) s_init; tabs := T' |} in
  forall n, gres_rel (run_rel m m_init) (run_steps_c par crops c ws (S n) m) (run_steps_c par crops c ws (S n) m_init).
Proof.
  intros Hok Eoff Hwt Hn Hwf Hi0 Hm0 Hrun Hst Hp Hfl Hi1 Hth.
  pose proof (run_steps_thini par crops c ws n0 m0 m Hrun) as C. rewrite Hm0, Hst in C.
  cbn [start_season' start_season phys] in C. rewrite reset_keeps_thini in C.
  clear Hrun. destruct m as [sm tm]. cbn [st] in Hst |- *. subst sm. cbv zeta. intros n.
  apply season_table_run_steps; try assumption.
  - apply in_season_started; assumption.
  - apply (reset_matches_init_table par par1 k ws (phys stp) zgw1 fcr1 th1 s_init); try assumption. rewrite C. exact Hth.
Qed.

(* a season start inside a run is [start_season'] of the state the day ended in: the premise [st m = start_season' ...] of the
   theorem above holds after every performed step that changed the season counter *)
Theorem perform_c_new_season par crops c ws (m m' : CModel (F:=R)) : perform_c par crops c ws m = GOk m' ->
  season (st m') <> season (st m) ->
  exists stp pk, st m' = start_season' par (season (st m) + 1) ws stp pk /\ nthZ (plant c) (season (st m) + 1) = Some pk.
Proof.
  intros H Hne. unfold perform_c in H. apply perform_g_ok in H. destruct H as [H _].
  rewrite (perform_unfold (DState R) (Day.W R) (DRow R) (DOut R)) in H.
  destruct (nthW (Day.W R) ws (tsc (st m))) as [w|]; [|discriminate].
  destruct (day_step _ _ _ _ _ _ _ _ c w (st m)) as [[s1 row] sr] eqn:Ed.
  destruct (day_step_clock _ _ _ _ _ _ _ _ _ _ _ _ _ _ Ed) as (_ & Hs1 & _).
  destruct (update_time _ _ _ c ws _) as [s3|e] eqn:Eu; [|discriminate]. injection H as <-. cbn [st] in *.
  destruct (update_time_new_season _ _ _ _ _ _ _ Eu) as (sp & t & E1 & _ & E3).
  - cbn [set_fin season]. rewrite Hs1. exact Hne.
  - cbn [set_fin season] in E1, E3. rewrite Hs1 in E1, E3. exists sp, t. split; [exact E1 | exact E3].
Qed.

(* ============================================================================================================ *)
(*  Part 5  the premises are satisfiable                                                                          *)
(* ============================================================================================================ *)
(* DaySideP.Ex (two layers / four compartments, bunds, net irrigation, no water table), two seasons of the same crop planted at
   steps 0 and 150; the state of day 40 of season 0 stands for the state the previous season ended in *)
Definition ex_clock2 : ClockP := {| n_steps := 300; plant := [0%Z; 150%Z]; harv := [100%Z; 250%Z]; off_season := false |}.

Lemma ex_clock2_wf : wf_clock ex_clock2.
Proof.
  assert (P : forall k x, nthZ [0%Z; 150%Z] k = Some x -> (k = 0 /\ x = 0 \/ k = 1 /\ x = 150)%Z).
  { intros k x. unfold nthZ. destruct (Z.ltb_spec k 0); [discriminate|].
    destruct (Z.to_nat k) as [|[|[|n]]] eqn:En; cbn; intros [= <-]; [left|right]; (split; [lia|reflexivity]). }
  assert (Hh : forall k x, nthZ [100%Z; 250%Z] k = Some x -> (k = 0 /\ x = 100 \/ k = 1 /\ x = 250)%Z).
  { intros k x. unfold nthZ. destruct (Z.ltb_spec k 0); [discriminate|].
    destruct (Z.to_nat k) as [|[|[|n]]] eqn:En; cbn; intros [= <-]; [left|right]; (split; [lia|reflexivity]). }
  constructor; cbn [ex_clock2 plant harv n_steps].
  - reflexivity.
  - intros k p h Hp Hq. apply P in Hp. apply Hh in Hq. lia.
  - intros k h p' Hq Hp. apply P in Hp. apply Hh in Hq. lia.
  - intros k p Hp. apply P in Hp. lia.
Qed.

Definition ex_stp : St (DState R) :=
  {| phys := DaySideP.Ex.st; tsc := 149; season := 0; dap := 0; mature := true; hflag := true; fin := false |}.

Example season_indep_example :
  hi_crops_ok DaySideP.Ex.crops /\ p_sim_off DaySideP.Ex.par = false /\
  so_nComp (p_soil DaySideP.Ex.par) = Z.of_nat (length (so_prof (p_soil DaySideP.Ex.par))) /\
  fresh_like DaySideP.Ex.par DaySideP.Ex.par 1 /\ wf_clock ex_clock2 /\ nthZ (plant ex_clock2) 1 = Some 150%Z /\
  exists s_init, init_state DaySideP.Ex.par 0 None false ex_th0 = Some s_init /\
    d_thini (phys ex_stp) = d_thini s_init /\ d_th_fc_Adj (phys ex_stp) = d_th_fc_Adj s_init /\
    proj (reset DaySideP.Ex.par 1 [] (phys ex_stp)) = proj s_init /\
    forall ws T T' n,
      gres_rel (run_rel {| st := start_season' DaySideP.Ex.par 1 ws ex_stp 150; tabs := T |}
                        {| st := with_phys (start_season' DaySideP.Ex.par 1 ws ex_stp 150) s_init; tabs := T' |})
        (run_steps_c DaySideP.Ex.par DaySideP.Ex.crops ex_clock2 ws (S n) {| st := start_season' DaySideP.Ex.par 1 ws ex_stp 150; tabs := T |})
        (run_steps_c DaySideP.Ex.par DaySideP.Ex.crops ex_clock2 ws (S n)
                     {| st := with_phys (start_season' DaySideP.Ex.par 1 ws ex_stp 150) s_init; tabs := T' |}).
Proof.
  assert (Hfl : fresh_like DaySideP.Ex.par DaySideP.Ex.par 1) by (apply fresh_like_same_crop; reflexivity).
  split; [exact hi_crops_ok_example|]. split; [reflexivity|]. split; [reflexivity|]. split; [exact Hfl|].
  split; [exact ex_clock2_wf|]. split; [reflexivity|].
  destruct (init_state_defined_no_table DaySideP.Ex.par 0 None false ex_th0 eq_refl) as (s & E & _ & E1 & E2 & _).
  exists s. split; [exact E|].
  assert (H1 : d_thini (phys ex_stp) = d_thini s) by (rewrite E1; reflexivity).
  assert (H2 : d_th_fc_Adj (phys ex_stp) = d_th_fc_Adj s) by (rewrite E2; reflexivity).
  split; [exact H1|]. split; [exact H2|]. split.
  - apply (reset_matches_init DaySideP.Ex.par DaySideP.Ex.par 1 [] (phys ex_stp) None false ex_th0 s); try assumption; reflexivity.
  - intros ws T T' n.
    apply (season_indep_init DaySideP.Ex.par DaySideP.Ex.par DaySideP.Ex.crops ex_clock2 ws ex_stp 1 150 None false ex_th0 s T T');
      try assumption; try reflexivity; [exact hi_crops_ok_example | exact ex_clock2_wf].
Qed.

(* the same parameter set with a water table 5 m deep at initialisation (below every compartment: nothing is saturated) *)
Definition par_t : DPar R :=
  {| p_soil := p_soil DaySideP.Ex.par; p_irr := p_irr DaySideP.Ex.par; p_fallow_irr := p_fallow_irr DaySideP.Ex.par;
     p_field := p_field DaySideP.Ex.par; p_fallow_field := p_fallow_field DaySideP.Ex.par; p_crop := p_crop DaySideP.Ex.par;
     p_fallow_crop := p_fallow_crop DaySideP.Ex.par; p_water_table := 1; p_co2c := p_co2c DaySideP.Ex.par; p_co2r := p_co2r DaySideP.Ex.par;
     p_evap_steps := p_evap_steps DaySideP.Ex.par; p_sim_off := false |}.

Example season_table_example :
  hi_crops_ok DaySideP.Ex.crops /\ p_sim_off par_t = false /\ p_water_table par_t = 1%Z /\
  so_nComp (p_soil par_t) = Z.of_nat (length (so_prof (p_soil par_t))) /\ fresh_like par_t par_t 1 /\
  exists s_init, init_state par_t 0 (Some 5) false ex_th0 = Some s_init /\
    d_thini (phys ex_stp) = d_thini s_init /\
    proj_fc (reset par_t 1 [] (phys ex_stp)) = proj_fc s_init /\
    forall ws T T' n,
      gres_rel (run_rel {| st := start_season' par_t 1 ws ex_stp 150; tabs := T |}
                        {| st := with_phys (start_season' par_t 1 ws ex_stp 150) s_init; tabs := T' |})
        (run_steps_c par_t DaySideP.Ex.crops ex_clock2 ws (S n) {| st := start_season' par_t 1 ws ex_stp 150; tabs := T |})
        (run_steps_c par_t DaySideP.Ex.crops ex_clock2 ws (S n)
                     {| st := with_phys (start_season' par_t 1 ws ex_stp 150) s_init; tabs := T' |}).
Proof.
  assert (Hfl : fresh_like par_t par_t 1) by (apply fresh_like_same_crop; reflexivity).
  split; [exact hi_crops_ok_example|]. split; [reflexivity|]. split; [reflexivity|]. split; [reflexivity|]. split; [exact Hfl|].
  assert (Hs : init_wt_in_soil 5 (so_prof (p_soil par_t)) = false).
  { unfold init_wt_in_soil, gw_wt_in_soil.
    cbn [par_t p_soil DaySideP.Ex.par DaySideP.Ex.soil so_prof TranspirationR.ex_p TranspirationR.ex_comp existsb c_zmid]. rnum.
    GroundwaterR.rdecide. reflexivity. }
  destruct (init_state_defined_table par_t 0 5 false ex_th0 eq_refl Hs) as (s & E & _ & _ & Eth).
  exists s. split; [exact E|].
  assert (H1 : d_thini (phys ex_stp) = d_thini s).
  { destruct (init_state_inv _ _ _ _ _ _ E) as (z & b & fc & th & _ & Es). rewrite Es in Eth |- *. cbn [d_th d_thini] in *. rewrite Eth. reflexivity. }
  split; [exact H1|].
  assert (H2 : proj_fc (reset par_t 1 [] (phys ex_stp)) = proj_fc s)
    by (apply (reset_matches_init_table par_t par_t 1 [] (phys ex_stp) (Some 5) false ex_th0 s); try assumption; reflexivity).
  split; [exact H2|].
  intros ws T T' n. apply season_table_run_steps; [exact hi_crops_ok_example | reflexivity | reflexivity | |].
  - apply in_season_started; [exact ex_clock2_wf | reflexivity].
  - apply (reset_matches_init_table par_t par_t 1 ws (phys ex_stp) (Some 5) false ex_th0 s); try assumption; reflexivity.
Qed.

Print Assumptions reset_matches_init.
Print Assumptions run_steps_carry_no_table.
Print Assumptions run_till_carry_no_table.
Print Assumptions reset_matches_init_no_table.
Print Assumptions reset_matches_init_table.
Print Assumptions run_steps_thini.
Print Assumptions init_water_depends_on_depth.
Print Assumptions run_steps_sim.
Print Assumptions run_steps_first.
Print Assumptions run_steps_g_sim.
Print Assumptions run_steps_g_first.
Print Assumptions run_till_g_sim.
Print Assumptions run_till_g_first.
Print Assumptions season_first_step.
Print Assumptions season_run_steps.
Print Assumptions season_run_till.
Print Assumptions season_run_steps_total.
Print Assumptions season_run_steps_ok.
Print Assumptions season_indep_init.
Print Assumptions season_indep_run_no_table.
Print Assumptions season_table_first_step.
Print Assumptions season_table_run_steps.
Print Assumptions season_table_run_till.
Print Assumptions season_indep_run_table.
Print Assumptions perform_c_new_season.
Print Assumptions season_indep_example.
Print Assumptions season_table_example.
