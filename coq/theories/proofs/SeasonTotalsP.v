(* SeasonTotalsP.v — property C06 on the CONCRETE WHOLE RUN: every row of the seasonal summary repeats the yield columns of the
   growth row written on its harvest step, and its seasonal irrigation is the SUM of the daily IrrDay column over the days of that
   season up to and including the harvest day.

   What the code does (Day.v [state_of] / [summary_of], DayRowsP.day_irr_totals_concrete, DayConcreteP.off_season_concrete):
   the counter reported by the summary is irr_cum (irr_net_cum under net irrigation, strategy 4); on an in-season day it advances by
   exactly that day's IrrDay column, on a day outside the season it is set to 0 (and IrrDay = 0), the season reset sets it to 0.
   The summary row is written on the day the harvest flag is raised, from the state AFTER that day, with the in-season flag of
   that day.  Hence the invariant [IrrSumInv]

        counter (phys (st m))  =  irr_run (season (st m)) evs
                               =  sum of IrrDay over the most recent unbroken run of in-season days of the current season,

   and, with the clock invariant (ClockP.clock_inv: before the harvest flag is raised every day of a season >= 0 is an in-season
   day), the run is the WHOLE season so far: [season_irr k evs], the sum over all events of season k.

   Premises: well-formed clock, the run starts from a model with the clock invariant (e.g. `init_c`), counters 0, crop not dead,
   harvest flag down; every day of the run is defined.  No premise on the parameters, the weather or the physics. *)
From Coq Require Import Reals List Bool ZArith Lra Lia Sorted.
From AC Require Import Num RInst Params Kernels Clock Day DayConcrete RunConcrete.
From AC.proofs Require Import ProfR DayP DayConcreteP ClockP RunP RunConcreteP DayRowsP.
Import ListNotations.
Local Open Scope R_scope.

#[local] Existing Instance YieldR.RTrig.

(* ============================================================================================================ *)
(*  Part A  one performed step of the abstract clock, with the flags                                              *)
(* ============================================================================================================ *)
Section Generic.
  Variable Phys W Row Out : Type.
  Variable proc : Z -> bool -> Z -> Z -> W -> Phys -> Phys * Row.
  Variable dead : Phys -> bool.
  Variable matured : Z -> Z -> Phys -> bool.
  Variable summary_of : Z -> bool -> Phys -> Out.
  Variable reset : Z -> list W -> Phys -> Phys.

  Lemma perform_step_full c ws (m m' : Model Phys Row Out) w : nthW W ws (tsc (st m)) = Some w ->
    perform Phys W Row Out proc dead matured summary_of reset c ws m = Ok m' ->
    let s := st m in
    let ev := event_of Phys W Row proc dead c w s in
    let gs := in_season Phys dead c s in
    let ph := e_post Phys W Row ev in
    let mature1 := if gs && matured (season s) (e_dap Phys W Row ev) ph then true else mature s in
    let ht := match nthZ (harv c) (season s) with Some h => (h =? tsc s + 1)%Z | None => false end in
    let emit := (-1 <? season s)%Z && (mature1 || dead ph || ht) && negb (hflag s) in
    sums (tabs m') = (if emit then [{| s_season := season s; s_date := (tsc s + 1)%Z; s_step := tsc s; s_out := summary_of (season s) gs ph |}]
                      else []) ++ sums (tabs m) /\
    ((season (st m') = season s /\ phys (st m') = ph /\ hflag (st m') = (if emit then true else hflag s) /\ mature (st m') = mature1) \/
     (season (st m') = (season s + 1)%Z /\ phys (st m') = reset (season s + 1)%Z ws ph /\ hflag (st m') = false /\ mature (st m') = false)).
  Proof.
    intros Ew. unfold Clock.perform. rewrite Ew. unfold Clock.day_step, event_of. cbv zeta.
    destruct (proc (season (st m)) (in_season Phys dead c (st m)) (if in_season Phys dead c (st m) then (dap (st m) + 1)%Z else 0%Z)
                   (tsc (st m)) w (phys (st m))) as [ph row] eqn:Epr. cbn [fst snd e_dap e_post].
    match goal with |- match ?u with Ok _ => _ | Raise _ => _ end = _ -> _ => destruct u as [s3|e] eqn:Eu end; [|discriminate].
    intros [= <-]. cbn [st tabs sums].
    split.
    - match goal with |- context [if ?b then Some _ else None] => destruct b end; reflexivity.
    - revert Eu. unfold Clock.update_time. cbn [fin hflag season tsc phys dap mature].
      repeat match goal with
             | |- context [if ?b then _ else _] => destruct b
             | |- context [match nthZ ?l ?k with _ => _ end] => destruct (nthZ l k)
             end; try discriminate; intros [= <-]; cbn [phys season hflag mature Clock.start_season]; auto.
  Qed.

  (* before the harvest flag is raised, every day of a season >= 0 is an in-season day *)
  Lemma in_season_true c (s : St Phys) : wf_clock c -> clock_inv Phys c s -> (0 <= season s)%Z ->
    hflag s = false -> mature s = false -> dead (phys s) = false -> in_season Phys dead c s = true.
  Proof.
    intros Hwf [I1 I2 I3 I4 I5 I6 I7] H0 Hf Hm Hd. unfold Clock.in_season.
    replace (0 <=? season s)%Z with true by (symmetry; apply Z.leb_le; exact H0).
    unfold n_seasons in I2.
    destruct (nthZ_some_iff (plant c) (season s) ltac:(lia)) as [p Ep].
    destruct (nthZ_some_iff (harv c) (season s) ltac:(rewrite (wf_len c Hwf); lia)) as [h Eh].
    rewrite Ep, Eh, Hf, Hm, Hd. pose proof (I4 p Ep). pose proof (I5 Hf h Eh).
    replace (p <=? tsc s)%Z with true by (symmetry; apply Z.leb_le; lia).
    replace (tsc s <=? h)%Z with true by (symmetry; apply Z.leb_le; lia). reflexivity.
  Qed.
End Generic.

(* ============================================================================================================ *)
(*  Part B  the concrete run                                                                                       *)
(* ============================================================================================================ *)
Section Totals.
  Variables (par : DPar R) (crops : Z -> CropFull R).

  Notation PO := (procs_concrete crops).
  Notation procc := (proc_c par crops).
  Notation defc := (defined_c par crops).
  Notation EvC := (Ev (DState R) (Day.W R) (DRow R)).
  Notation is_day_c := (is_day (DState R) (Day.W R) (DRow R) procc defc).
  Notation ReachC := (Reach (DState R) (Day.W R) (DRow R) (DOut R) procc dead (matured par) (summary_of par) (reset par) defc).
  Notation performc := (perform (DState R) (Day.W R) (DRow R) (DOut R) procc dead (matured par) (summary_of par) (reset par)).
  Notation evof := (event_of (DState R) (Day.W R) (DRow R) procc dead).
  Notation minvc := (minv (DState R) (DRow R) (DOut R)).
  Notation CModelR := (Model (DState R) (DRow R) (DOut R)).
  Notation SumRowR := (SumRow (DOut R)).

  (* the counter the summary reports: applied irrigation, or the net requirement under net irrigation (strategy 4) *)
  Definition irr_counter (s : DState R) : R := if (i_method (p_irr par) =? 4)%Z then d_irr_net_cum s else d_irr_cum s.
  (* the IrrDay column of the row an event wrote *)
  Definition ev_irr (e : EvC) : R := fl_IrrDay (r_flux (e_row _ _ _ e)).

  (* sum of IrrDay over the most recent unbroken run of in-season days of season k (events are listed most recent first) *)
  Fixpoint irr_run (k : Z) (evs : list EvC) : R :=
    match evs with
    | [] => 0
    | e :: rest => if (e_season _ _ _ e =? k)%Z && e_gs _ _ _ e then ev_irr e + irr_run k rest else 0
    end.
  (* sum of IrrDay over ALL events of season k *)
  Definition season_irr (k : Z) (evs : list EvC) : R :=
    fold_right Rplus 0 (map ev_irr (filter (fun e => (e_season _ _ _ e =? k)%Z) evs)).

  (* the season index never decreases along a run *)
  Definition seasons_sorted (evs : list EvC) : Prop := StronglySorted (fun e1 e2 => (e_season _ _ _ e2 <= e_season _ _ _ e1)%Z) evs.

  Lemma season_irr_none k evs : Forall (fun e => (e_season _ _ _ e < k)%Z) evs -> season_irr k evs = 0.
  Proof.
    unfold season_irr. induction 1 as [|e l He Hl IH]; [reflexivity|]. cbn [filter].
    replace (e_season _ _ _ e =? k)%Z with false by (symmetry; apply Z.eqb_neq; lia). exact IH.
  Qed.

  Lemma season_irr_cons k e evs :
    season_irr k (e :: evs) = (if (e_season _ _ _ e =? k)%Z then ev_irr e else 0) + season_irr k evs.
  Proof. unfold season_irr. cbn [filter]. destruct (e_season _ _ _ e =? k)%Z; cbn [map fold_right]; lra. Qed.

  Lemma irr_run_season k evs : seasons_sorted evs -> Forall (fun e => (e_season _ _ _ e <= k)%Z) evs ->
    Forall (fun e => e_season _ _ _ e = k -> e_gs _ _ _ e = true) evs -> irr_run k evs = season_irr k evs.
  Proof.
    induction evs as [|e l IH]; intros Hs Hle Hg; [reflexivity|].
    inversion Hs as [|? ? Hs' Hall]; subst. inversion Hle as [|? ? Hle1 Hle']; subst. inversion Hg as [|? ? Hg1 Hg']; subst.
    cbn [irr_run]. unfold season_irr. cbn [filter]. destruct (Z.eqb_spec (e_season _ _ _ e) k) as [E|E].
    - rewrite (Hg1 E). cbn [andb map fold_right]. rewrite (IH Hs' Hle' Hg'). reflexivity.
    - cbn [andb]. symmetry. apply season_irr_none. eapply Forall_impl; [|exact Hall]. cbn. intros a Ha. lia.
  Qed.

  (* a summary row [r] written by the event [e], [l] = e :: the events before it *)
  Definition row_of_event (r : SumRowR) (e : EvC) (l : list EvC) : Prop :=
    s_season r = e_season _ _ _ e /\ s_step r = e_tsc _ _ _ e /\ s_date r = (e_tsc _ _ _ e + 1)%Z /\
    (0 <= e_season _ _ _ e)%Z /\ e_gs _ _ _ e = true /\
    (* seasonal irrigation = the counter after the harvest day = the sum of the IrrDay column over the season's days *)
    o_IrrTot (s_out r) = irr_counter (e_post _ _ _ e) /\
    o_IrrTot (s_out r) = season_irr (e_season _ _ _ e) l /\
    (* the yields are the yield columns of the growth row of the harvest day *)
    o_Dry (s_out r) = gr_Dry (r_growth (e_row _ _ _ e)) /\
    o_Fresh (s_out r) = gr_Fresh (r_growth (e_row _ _ _ e)) /\
    o_Pot (s_out r) = gr_Pot (r_growth (e_row _ _ _ e)).

  (* the summary rows written along the event list (both most recent first) *)
  Inductive sum_rows_ok : list EvC -> list SumRowR -> Prop :=
  | sro_nil : sum_rows_ok [] []
  | sro_skip e evs rs : sum_rows_ok evs rs -> sum_rows_ok (e :: evs) rs
  | sro_emit e evs rs r : sum_rows_ok evs rs -> row_of_event r e (e :: evs) -> sum_rows_ok (e :: evs) (r :: rs).

  Lemma sum_rows_in evs rs : sum_rows_ok evs rs ->
    forall r, In r rs -> exists later e earlier, evs = later ++ e :: earlier /\ row_of_event r e (e :: earlier).
  Proof.
    induction 1 as [|e evs rs H IH|e evs rs r0 H IH Hr]; intros r Hin; [destruct Hin| |].
    - destruct (IH r Hin) as (la & e' & ea & -> & Hre). exists (e :: la), e', ea. split; [reflexivity|exact Hre].
    - destruct Hin as [<-|Hin].
      + exists [], e, evs. split; [reflexivity|exact Hr].
      + destruct (IH r Hin) as (la & e' & ea & -> & Hre). exists (e :: la), e', ea. split; [reflexivity|exact Hre].
  Qed.

  (* the invariant of a reached model [m] with its event list [evs], relative to the model [m0] the run started from *)
  Record IrrSumInv (m0 : CModelR) (evs : list EvC) (m : CModelR) : Prop := {
    si_irr : irr_counter (phys (st m)) = irr_run (season (st m)) evs;
    si_flags : hflag (st m) = false -> mature (st m) = false /\ dead (phys (st m)) = false;
    si_gs : hflag (st m) = false -> (0 <= season (st m))%Z ->
            Forall (fun e => e_season _ _ _ e = season (st m) -> e_gs _ _ _ e = true) evs;
    si_le : Forall (fun e => (e_season _ _ _ e <= season (st m))%Z) evs;
    si_sorted : seasons_sorted evs;
    (* the summary rows written since m0: each by its harvest event; its seasonal irrigation is the sum of IrrDay over ALL events
       of its season so far (the days after the harvest flag is raised are outside the season: IrrDay = 0) *)
    si_sums : exists rs, sums (tabs m) = rs ++ sums (tabs m0) /\ sum_rows_ok evs rs /\
                Forall (fun r => (s_season r <= season (st m))%Z /\ o_IrrTot (s_out r) = season_irr (s_season r) evs) rs /\
                (hflag (st m) = false -> Forall (fun r => (s_season r < season (st m))%Z) rs) }.

  Variable c : ClockP.
  Variable ws : list (Day.W R).
  Hypothesis Hwf : wf_clock c.

  Lemma irr_sum_perform (m0 m m' : CModelR) evs w :
    minvc c m -> IrrSumInv m0 evs m ->
    nthW (Day.W R) ws (tsc (st m)) = Some w -> day_defined (DState R) (Day.W R) dead defc c w (st m) = true ->
    performc c ws m = Ok m' ->
    IrrSumInv m0 (evof c w (st m) :: evs) m' /\ (fin (st m') = false -> minvc c m').
  Proof.
    intros Hm [I1 I2 I3 I4 I5 (rs & I6 & I7 & I8 & I9)] Ew Ed Hp.
    split; [|intros Hf; destruct (perform_inv _ _ _ _ procc dead (matured par) (summary_of par) (reset par) c ws m m' Hwf Hm Hp)
                       as (w' & s1 & row' & sr & _ & _ & _ & _ & _ & _ & Hnf); exact (proj1 (Hnf Hf))].
    pose proof (event_is_day (DState R) (Day.W R) (DRow R) procc dead defc c w (st m) Ed) as Hday.
    pose proof (is_day_opt par crops _ Hday) as Hopt.
    destruct (perform_step_full _ _ _ _ procc dead (matured par) (summary_of par) (reset par) c ws m m' w Ew Hp) as [Hsums Hcase].
    cbv zeta in Hsums, Hcase.
    set (e := evof c w (st m)) in *. set (s := st m) in *. set (k := season s) in *.
    set (gs := in_season (DState R) dead c s) in *.
    assert (Hes : e_season _ _ _ e = k) by reflexivity. assert (Hg : e_gs _ _ _ e = gs) by reflexivity.
    assert (Hep : e_pre _ _ _ e = phys s) by reflexivity. assert (Het : e_tsc _ _ _ e = tsc s) by reflexivity.
    set (ph := e_post _ _ _ e) in *. set (row := e_row _ _ _ e) in *.
    rewrite Hes, Hg, Hep, Het in Hopt.
    assert (Hgk : gs = true -> (0 <= k)%Z).
    { unfold gs, Clock.in_season. fold k. destruct (Z.leb_spec 0 k); [intros _; assumption|discriminate]. }
    (* the counter after the day *)
    assert (F1 : irr_counter ph = irr_run k (e :: evs)).
    { cbn [irr_run]. rewrite Hes, Hg, Z.eqb_refl. cbn [andb]. destruct gs eqn:G.
      - specialize (Hgk eq_refl).
        pose proof (day_irr_totals_concrete _ _ _ _ _ _ _ _ _ _ Hopt eq_refl) as T. cbv zeta in T.
        assert (Hsel : sel_irr par k = p_irr par) by (unfold sel_irr; replace (0 <=? k)%Z with true by (symmetry; apply Z.leb_le; exact Hgk); reflexivity).
        rewrite Hsel in T. destruct T as [T1 T2]. unfold ev_irr. fold row. rewrite <- I1. unfold irr_counter.
        destruct (Z.eqb_spec (i_method (p_irr par)) 4) as [M|M]; [rewrite (T2 M) | rewrite (T1 M)]; lra.
      - pose proof (off_season_concrete _ _ _ _ _ _ _ _ _ Hopt) as X. cbv zeta in X.
        destruct X as (_ & _ & _ & X4 & X5 & _). unfold irr_counter. destruct (_ =? 4)%Z; assumption. }
    (* the crop does not die outside the season *)
    assert (F2 : gs = false -> dead ph = dead (phys s)).
    { intros G. rewrite G in Hopt. pose proof (off_season_concrete _ _ _ _ _ _ _ _ _ Hopt) as X. cbv zeta in X. unfold dead. tauto. }
    (* an in-season day when the flag is down *)
    assert (F3 : hflag s = false -> (0 <= k)%Z -> gs = true).
    { intros Hf H0. destruct (I2 Hf) as [A B]. exact (in_season_true _ dead c s Hwf (proj1 Hm) H0 Hf A B). }
    (* nothing is irrigated outside the season *)
    assert (F4 : gs = false -> ev_irr e = 0).
    { intros G. rewrite G in Hopt. pose proof (off_season_concrete _ _ _ _ _ _ _ _ _ Hopt) as X. cbv zeta in X. unfold ev_irr. fold row. tauto. }
    (* the rows written before keep their sums *)
    assert (Hold : Forall (fun r => (s_season r <= k)%Z /\ o_IrrTot (s_out r) = season_irr (s_season r) (e :: evs)) rs).
    { assert (Hlt : hflag s = false -> Forall (fun r => (s_season r < k)%Z) rs) by exact I9.
      rewrite Forall_forall in *. intros r Hr. destruct (I8 r Hr) as [A B]. fold s k in A. split; [exact A|].
      rewrite season_irr_cons, Hes. destruct (Z.eqb_spec k (s_season r)) as [E|E]; [|lra].
      destruct (hflag s) eqn:Hf; [|specialize (Hlt eq_refl r Hr); lia].
      rewrite F4; [lra|]. exact (hflag_not_in_season _ dead c s Hf). }
    set (mature1 := if gs && matured par k (e_dap _ _ _ e) ph then true else mature s) in *.
    set (ht := match nthZ (harv c) k with Some h => (h =? tsc s + 1)%Z | None => false end) in *.
    set (emit := (-1 <? k)%Z && (mature1 || dead ph || ht) && negb (hflag s)) in *.
    (* the summary rows *)
    assert (Hrows : exists rs', sums (tabs m') = rs' ++ sums (tabs m0) /\ sum_rows_ok (e :: evs) rs' /\
                      Forall (fun r => (s_season r <= k)%Z /\ o_IrrTot (s_out r) = season_irr (s_season r) (e :: evs)) rs' /\
                      (emit = false -> hflag s = false -> Forall (fun r => (s_season r < k)%Z) rs')).
    { rewrite Hsums, I6. destruct emit eqn:Em.
      - eexists (_ :: rs). split; [reflexivity|].
        cut (row_of_event {| s_season := k; s_date := (tsc s + 1)%Z; s_step := tsc s; s_out := summary_of par k gs ph |} e (e :: evs)).
        { intros Hre. split; [apply sro_emit; [exact I7|exact Hre]|]. split; [|discriminate].
          constructor; [|exact Hold]. cbn [s_season s_out]. split; [lia|].
          destruct Hre as (_ & _ & _ & _ & _ & _ & Hre & _). cbn [s_out] in Hre. rewrite Hes in Hre. exact Hre. }
        unfold emit in Em. apply andb_true_iff in Em. destruct Em as [Em Hfl]. apply andb_true_iff in Em. destruct Em as [Ek _].
        apply negb_true_iff in Hfl. apply Z.ltb_lt in Ek. assert (H0 : (0 <= k)%Z) by lia.
        pose proof (F3 Hfl H0) as G.
        assert (Hsel : sel_irr par k = p_irr par) by (unfold sel_irr; replace (0 <=? k)%Z with true by (symmetry; apply Z.leb_le; exact H0); reflexivity).
        pose proof (day_yield_concrete _ _ _ _ _ _ _ _ _ _ Hopt) as Y. cbv zeta in Y. destruct Y as (_ & _ & _ & _ & _ & Y6 & Y7 & Y8 & _).
        assert (Hirr : o_IrrTot (summary_of par k gs ph) = irr_counter ph).
        { cbn [summary_of o_IrrTot]. rewrite G, Hsel. reflexivity. }
        unfold row_of_event. cbn [s_season s_step s_date s_out]. rewrite Hes, Hg, Het. fold ph row.
        split; [reflexivity|]. split; [reflexivity|]. split; [reflexivity|]. split; [exact H0|]. split; [exact G|].
        split; [exact Hirr|]. split.
        + rewrite Hirr, F1. apply irr_run_season.
          * constructor; [exact I5|]. rewrite Hes. exact I4.
          * constructor; [rewrite Hes; lia | exact I4].
          * constructor; [intros _; rewrite Hg; exact G | exact (I3 Hfl H0)].
        + cbn [summary_of o_Dry o_Fresh o_Pot]. split; [exact Y6|]. split; [exact Y7|exact Y8].
      - exists rs. split; [reflexivity|]. split; [apply sro_skip; exact I7|]. split; [exact Hold|]. intros _ Hf. exact (I9 Hf). }
    destruct Hcase as [(C1 & C2 & C3 & C4) | (C1 & C2 & C3 & C4)].
    - (* the same season goes on *)
      constructor.
      + rewrite C1, C2. exact F1.
      + rewrite C3, C4, C2. intros Hf. destruct emit eqn:Em; [discriminate|].
        destruct (I2 Hf) as [A B]. unfold emit in Em. rewrite Hf in Em. cbn [negb] in Em. rewrite andb_true_r in Em.
        destruct (Z.ltb_spec (-1) k) as [Hk|Hk]; cbn [andb] in Em.
        * apply orb_false_iff in Em. destruct Em as [Em _]. apply orb_false_iff in Em. exact Em.
        * assert (G : gs = false).
          { destruct gs eqn:G; [|reflexivity]. specialize (Hgk eq_refl). lia. }
          split; [unfold mature1; rewrite G; cbn [andb]; exact A | rewrite (F2 G); exact B].
      + rewrite C3, C1. intros Hf H0. destruct emit eqn:Em; [discriminate|].
        constructor; [intros _; rewrite Hg; exact (F3 Hf H0) | exact (I3 Hf H0)].
      + rewrite C1. constructor; [rewrite Hes; lia | exact I4].
      + constructor; [exact I5|]. rewrite Hes. exact I4.
      + destruct Hrows as (rs' & R1 & R2 & R3 & R4). exists rs'. split; [exact R1|]. split; [exact R2|]. rewrite C1, C3. split; [exact R3|].
        intros Hf. destruct emit eqn:Em; [discriminate|]. exact (R4 eq_refl Hf).
    - (* the next season starts *)
      constructor.
      + rewrite C1, C2. cbn [irr_run]. rewrite Hes. replace (k =? k + 1)%Z with false by (symmetry; apply Z.eqb_neq; lia). cbn [andb].
        unfold irr_counter. cbn [reset d_irr_cum d_irr_net_cum]. rnum. destruct (_ =? 4)%Z; reflexivity.
      + rewrite C3, C4, C2. intros _. split; [reflexivity|]. reflexivity.
      + rewrite C1. intros _ _. constructor; [rewrite Hes; intros; lia|].
        eapply Forall_impl; [|exact I4]. cbn. intros a Ha E. fold k in Ha. lia.
      + rewrite C1. constructor; [rewrite Hes; lia|]. eapply Forall_impl; [|exact I4]. cbn. intros a Ha. fold k in Ha. lia.
      + constructor; [exact I5|]. rewrite Hes. exact I4.
      + destruct Hrows as (rs' & R1 & R2 & R3 & _). exists rs'. split; [exact R1|]. split; [exact R2|]. rewrite C1. split.
        * eapply Forall_impl; [|exact R3]. cbn. intros r [A B]. split; [lia|exact B].
        * intros _. eapply Forall_impl; [|exact R3]. cbn. intros r [A _]. lia.
  Qed.

  (* ---- the two run loops ------------------------------------------------------------------------------------------ *)
  Lemma run_steps_totals_acc k : forall (m0 : CModelR) evs m m',
    ReachC c ws m0 evs m -> minvc c m -> IrrSumInv m0 evs m ->
    run_steps_c par crops c ws k m = GOk m' ->
    exists evs', ReachC c ws m0 (evs' ++ evs) m' /\ IrrSumInv m0 (evs' ++ evs) m'.
  Proof.
    unfold run_steps_c. induction k as [|k IH]; intros m0 evs m m' HR Hm HI; cbn [Clock.run_steps_g].
    - intros [= <-]. exists []. split; assumption.
    - destruct (perform_g _ _ _ _ _ _ _ _ _ _ c ws m) as [m1|e|t] eqn:Ep; try discriminate.
      destruct (perform_g_ok _ _ _ _ _ _ _ _ _ _ _ _ _ _ Ep) as (Hp & w & Ew & Ed).
      pose proof (Reach_step _ _ _ _ _ _ _ _ _ _ c ws m0 evs m m1 w HR Ew Ed Hp) as HR1.
      destruct (irr_sum_perform m0 m m1 evs w Hm HI Ew Ed Hp) as [HI1 Hnf].
      destruct (fin (st m1)) eqn:Ef.
      + intros [= <-]. exists [evof c w (st m)]. split; assumption.
      + intros H. destruct (IH m0 _ m1 m' HR1 (Hnf eq_refl) HI1 H) as (evs' & A & B).
        exists (evs' ++ [evof c w (st m)]). rewrite <- app_assoc. split; assumption.
  Qed.

  Lemma run_till_totals_acc fuel : forall (m0 : CModelR) evs m m',
    ReachC c ws m0 evs m -> (fin (st m) = false -> minvc c m) -> IrrSumInv m0 evs m ->
    run_till_c par crops c ws fuel m = Some (GOk m') ->
    exists evs', ReachC c ws m0 (evs' ++ evs) m' /\ IrrSumInv m0 (evs' ++ evs) m'.
  Proof.
    unfold run_till_c. induction fuel as [|fuel IH]; intros m0 evs m m' HR Hm HI; cbn [Clock.run_till_g];
      destruct (fin (st m)) eqn:Ef; try discriminate; try (intros [= <-]; exists []; split; assumption).
    destruct (perform_g _ _ _ _ _ _ _ _ _ _ c ws m) as [m1|e|t] eqn:Ep; try discriminate.
    destruct (perform_g_ok _ _ _ _ _ _ _ _ _ _ _ _ _ _ Ep) as (Hp & w & Ew & Ed).
    pose proof (Reach_step _ _ _ _ _ _ _ _ _ _ c ws m0 evs m m1 w HR Ew Ed Hp) as HR1.
    destruct (irr_sum_perform m0 m m1 evs w (Hm eq_refl) HI Ew Ed Hp) as [HI1 Hnf].
    intros H. destruct (IH m0 _ m1 m' HR1 Hnf HI1 H) as (evs' & A & B).
    exists (evs' ++ [evof c w (st m)]). rewrite <- app_assoc. split; assumption.
  Qed.

  (* the invariant at the start of a run: counters 0, crop not dead, harvest flag down *)
  Definition totals_start (m0 : CModelR) : Prop :=
    d_irr_cum (phys (st m0)) = 0 /\ d_irr_net_cum (phys (st m0)) = 0 /\
    hflag (st m0) = false /\ mature (st m0) = false /\ d_crop_dead (phys (st m0)) = false.

  Lemma totals_start_inv m0 : totals_start m0 -> IrrSumInv m0 [] m0.
  Proof.
    intros (A & B & C & D & E). constructor.
    - cbn [irr_run]. unfold irr_counter. destruct (_ =? 4)%Z; assumption.
    - intros _. split; [exact D | exact E].
    - intros _ _. constructor.
    - constructor.
    - constructor.
    - exists []. split; [reflexivity|]. split; [constructor|]. split; [constructor|]. intros _. constructor.
  Qed.

  (* what the invariant says about the final model, in the form of the property: every summary row written during the run was
     written by one event of the run (its harvest day) and reports the sums / values of that season *)
  Definition totals_concl (m0 : CModelR) (evs : list EvC) (m' : CModelR) : Prop :=
    irr_counter (phys (st m')) = irr_run (season (st m')) evs /\
    exists rs, sums (tabs m') = rs ++ sums (tabs m0) /\ sum_rows_ok evs rs /\
      (* seasonal irrigation = the sum of the IrrDay column over ALL rows of that season written during the run *)
      (forall r, In r rs -> o_IrrTot (s_out r) = season_irr (s_season r) evs) /\
      (* the row was written by its harvest event: yields of that day's growth row, counter after that day *)
      forall r, In r rs -> exists later e earlier, evs = later ++ e :: earlier /\ row_of_event r e (e :: earlier).

  Lemma inv_totals_concl m0 evs m' : IrrSumInv m0 evs m' -> totals_concl m0 evs m'.
  Proof.
    intros [I1 _ _ _ _ (rs & I6 & I7 & I8 & _)]. split; [exact I1|]. exists rs. split; [exact I6|]. split; [exact I7|].
    split; [|exact (sum_rows_in evs rs I7)]. rewrite Forall_forall in I8. intros r Hr. exact (proj2 (I8 r Hr)).
  Qed.

  (* run_model(till_termination = True) from a model with the clock invariant *)
  Theorem run_summary_irrigation_sum fuel (m0 m' : CModelR) :
    minvc c m0 -> totals_start m0 -> run_till_c par crops c ws fuel m0 = Some (GOk m') ->
    exists evs : list EvC,
      ReachC c ws m0 evs m' /\ totals_concl m0 evs m' /\
      rows (tabs m') = map (fun e => (e_tsc _ _ _ e, e_row _ _ _ e)) evs ++ rows (tabs m0).
  Proof.
    intros Hm Hs H.
    destruct (run_till_totals_acc fuel m0 [] m0 m' (Reach_nil _ _ _ _ _ _ _ _ _ _ c ws m0) (fun _ => Hm) (totals_start_inv m0 Hs) H)
      as (evs & HR & HI).
    rewrite app_nil_r in HR, HI. exists evs. split; [exact HR|]. split; [exact (inv_totals_concl _ _ _ HI)|].
    exact (reach_rows _ _ _ _ _ _ _ _ _ _ _ _ _ _ _ HR).
  Qed.

  (* run_model(num_steps = k) *)
  Theorem run_steps_summary_irrigation_sum k (m0 m' : CModelR) :
    minvc c m0 -> totals_start m0 -> run_steps_c par crops c ws k m0 = GOk m' ->
    exists evs : list EvC,
      ReachC c ws m0 evs m' /\ totals_concl m0 evs m' /\
      rows (tabs m') = map (fun e => (e_tsc _ _ _ e, e_row _ _ _ e)) evs ++ rows (tabs m0).
  Proof.
    intros Hm Hs H.
    destruct (run_steps_totals_acc k m0 [] m0 m' (Reach_nil _ _ _ _ _ _ _ _ _ _ c ws m0) Hm (totals_start_inv m0 Hs) H) as (evs & HR & HI).
    rewrite app_nil_r in HR, HI. exists evs. split; [exact HR|]. split; [exact (inv_totals_concl _ _ _ HI)|].
    exact (reach_rows _ _ _ _ _ _ _ _ _ _ _ _ _ _ _ HR).
  Qed.

  (* ... right after initialisation: the tables are empty, so [sums (tabs m')] is exactly the list of the run's summary rows *)
  Lemma init_totals_start (s0 : DState R) (m0 : CModelR) :
    init_c c s0 = Ok m0 -> d_irr_cum s0 = 0 -> d_irr_net_cum s0 = 0 -> d_crop_dead s0 = false ->
    minvc c m0 /\ totals_start m0 /\ sums (tabs m0) = [] /\ rows (tabs m0) = [].
  Proof.
    intros Hi A B D. unfold init_c in Hi.
    assert (Hp : plant c <> []) by (intros E; unfold init_model in Hi; rewrite E in Hi; discriminate).
    assert (Hp0 : forall p, nthZ (plant c) 0 = Some p -> (0 <= p)%Z) by (intros p Ep; apply (wf_window c Hwf 0%Z p Ep)).
    assert (H2 : (2 <= n_steps c)%Z).
    { destruct (plant c) as [|p r] eqn:Epl; [contradiction|].
      assert (E0 : nthZ (plant c) 0 = Some p) by (rewrite Epl; reflexivity).
      destruct (wf_window c Hwf 0%Z p E0). lia. }
    destruct (init_model_inv _ _ _ c s0 m0 Hwf H2 Hp Hp0 Hi) as (Hm & _ & _). split; [exact Hm|].
    revert Hi. unfold init_model. destruct (plant c) as [|p r]; [discriminate|]. intros [= <-].
    unfold totals_start. cbn [st phys hflag mature tabs sums rows]. repeat split; assumption.
  Qed.

  Theorem run_from_init_summary_totals (s0 : DState R) fuel (m0 m' : CModelR) :
    init_c c s0 = Ok m0 -> d_irr_cum s0 = 0 -> d_irr_net_cum s0 = 0 -> d_crop_dead s0 = false ->
    run_till_c par crops c ws fuel m0 = Some (GOk m') ->
    exists evs : list EvC,
      ReachC c ws m0 evs m' /\
      rows (tabs m') = map (fun e => (e_tsc _ _ _ e, e_row _ _ _ e)) evs /\
      sum_rows_ok evs (sums (tabs m')) /\
      (forall r, In r (sums (tabs m')) -> o_IrrTot (s_out r) = season_irr (s_season r) evs) /\
      forall r, In r (sums (tabs m')) -> exists later e earlier, evs = later ++ e :: earlier /\ row_of_event r e (e :: earlier).
  Proof.
    intros Hi A B D H. destruct (init_totals_start s0 m0 Hi A B D) as (Hm & Hs & S0 & R0).
    destruct (run_summary_irrigation_sum fuel m0 m' Hm Hs H) as (evs & HR & (_ & rs & E1 & E2 & E3 & E4) & Hrows).
    rewrite S0, app_nil_r in E1. rewrite R0, app_nil_r in Hrows. rewrite E1.
    exists evs. split; [exact HR|]. split; [exact Hrows|]. split; [exact E2|]. split; [exact E3|exact E4].
  Qed.
End Totals.

(* ============================================================================================================ *)
(*  Part C  from the initial state of Init/InitState.v; example; assumptions                                       *)
(* ============================================================================================================ *)
From AC.Init Require Import InitState.
From AC.proofs Require Import DaySideP InitStateP.

(* the state built by init_state has both counters at 0 and a living crop *)
Lemma init_state_totals par k zgw0 fcr th0 s0 : init_state par k zgw0 fcr th0 = Some s0 ->
  d_irr_cum s0 = 0 /\ d_irr_net_cum s0 = 0 /\ d_crop_dead s0 = false.
Proof. intros E. destruct (init_state_inv _ _ _ _ _ _ E) as (z & b & fc & th & _ & ->). cbn. repeat split; reflexivity. Qed.

(* run_model(till_termination = True) right after _initialize(): premises — a well-formed clock and that every day of the run is
   defined (it is part of `run_till_c ... = Some (GOk m')`); nothing about parameters, weather or physics *)
Theorem run_from_init_state_summary_totals par crops c ws k zgw0 fcr th0 s0 fuel (m0 m' : Model (DState R) (DRow R) (DOut R)) :
  wf_clock c -> init_state par k zgw0 fcr th0 = Some s0 -> init_c c s0 = Ok m0 ->
  run_till_c par crops c ws fuel m0 = Some (GOk m') ->
  exists evs : list (Ev (DState R) (Day.W R) (DRow R)),
    Reach (DState R) (Day.W R) (DRow R) (DOut R) (proc_c par crops) dead (matured par) (summary_of par) (reset par) (defined_c par crops)
          c ws m0 evs m' /\
    rows (tabs m') = map (fun e => (e_tsc _ _ _ e, e_row _ _ _ e)) evs /\
    sum_rows_ok par evs (sums (tabs m')) /\
    (forall r, In r (sums (tabs m')) -> o_IrrTot (s_out r) = season_irr (s_season r) evs) /\
    forall r, In r (sums (tabs m')) -> exists later e earlier, evs = later ++ e :: earlier /\ row_of_event par r e (e :: earlier).
Proof.
  intros Hwf Hs Hi H. destruct (init_state_totals _ _ _ _ _ _ Hs) as (A & B & D).
  exact (run_from_init_summary_totals par crops c ws Hwf s0 fuel m0 m' Hi A B D H).
Qed.

(* the instance of InitStateP.run_from_init_example (DaySideP.Ex, 120-step window, one season planted at step 0, harvest step 100,
   net irrigation): every premise holds, so the conclusion holds for every terminated run of it *)
Example run_summary_totals_example :
  exists s0 m0, init_state DaySideP.Ex.par (init_season ex_clock) None false ex_th0 = Some s0 /\ init_c ex_clock s0 = Ok m0 /\
    forall fuel m', run_till_c DaySideP.Ex.par DaySideP.Ex.crops ex_clock ex_ws fuel m0 = Some (GOk m') ->
    exists evs : list (Ev (DState R) (Day.W R) (DRow R)),
      rows (tabs m') = map (fun e => (e_tsc _ _ _ e, e_row _ _ _ e)) evs /\
      sum_rows_ok DaySideP.Ex.par evs (sums (tabs m')) /\
      (forall r, In r (sums (tabs m')) -> o_IrrTot (s_out r) = season_irr (s_season r) evs).
Proof.
  destruct (init_state_defined_no_table DaySideP.Ex.par (init_season ex_clock) None false ex_th0 eq_refl) as (s0 & E & _).
  exists s0. eexists. split; [exact E|]. split; [reflexivity|]. intros fuel m' H.
  destruct (run_from_init_state_summary_totals DaySideP.Ex.par DaySideP.Ex.crops ex_clock ex_ws _ None false ex_th0 s0 fuel _ m' ex_clock_wf E eq_refl H)
    as (evs & _ & R & S1 & S2 & _).
  exists evs. split; [exact R|]. split; [exact S1|exact S2].
Qed.

(* the sums on a two-event list: an in-season day of season 0 after an off-season day of the filler season *)
Example irr_run_example (e1 e2 : Ev (DState R) (Day.W R) (DRow R)) :
  e_season _ _ _ e1 = 0%Z -> e_gs _ _ _ e1 = true -> e_season _ _ _ e2 = (-1)%Z ->
  irr_run 0 [e1; e2] = ev_irr e1 /\ season_irr 0 [e1; e2] = ev_irr e1.
Proof.
  intros A B C. unfold season_irr. cbn [irr_run filter]. rewrite A, B, C. cbn. split; lra.
Qed.

Print Assumptions perform_step_full.
Print Assumptions irr_run_season.
Print Assumptions irr_sum_perform.
Print Assumptions run_summary_irrigation_sum.
Print Assumptions run_steps_summary_irrigation_sum.
Print Assumptions run_from_init_summary_totals.
Print Assumptions run_from_init_state_summary_totals.
Print Assumptions run_summary_totals_example.
