(* SoilBuildR.v — theorems about Init/SoilBuild.v at the real instance (exact arithmetic).
   C18: the profile is built as specified (ordering of the hydraulic values, geometry, contiguous layers), the deepening
   loop (terminates since /repo 1d078f4; leaves zBot/z_top/zMid stale: [deepen_geometry_refuted]), the initial water content
   (Layer and Depth methods; [iwc_in_bounds_refuted]: layers not named stay at 0), the pedotransfer ordering (partial, refuted
   on the full calibrated range).  Only the [box*]/[texture_*] lemmas use the Interval library (primitive-integer/float axioms
   of its computation kernel); every other theorem depends on the axioms of Coq's Reals only. *)
From AC Require Import Num RInst Params.
From AC.proofs Require Import ProfR.
From AC.Init Require Import SoilBuild.
From Coq Require Import Sorting.Sorted.
From Interval Require Import Tactic.
Local Open Scope R_scope.

Ltac inv H := inversion H; subst; clear H.
Notation RowR := (Row (F:=R)).
Notation AsgR := (Asg (F:=R)).
Notation SpecR := (LayerSpec (F:=R)).

(* ============================================================================================
   0. small facts *)
Lemma pow10_2 : pow10 2 = 100.
Proof. unfold pow10. simpl. lra. Qed.

Lemma Rround2_cm k : Rround 2 (IZR k / 100) = IZR k / 100.
Proof. rewrite <- pow10_2. apply Rround_IZR. Qed.

Lemma Rround2_nonneg x : 0 <= x -> 0 <= Rround 2 x.
Proof.
  intros H. replace 0 with (Rround 2 (IZR 0 / 100)).
  - apply Rround_mono. lra.
  - rewrite Rround2_cm. lra.
Qed.

(* ============================================================================================
   2. ordering of the hydraulic values: needs nothing about dz *)
Definition valid_layer (L : SpecR) : Prop :=
  0 < ls_wp L /\ ls_wp L < ls_fc L /\ ls_fc L <= ls_s L /\ 0 <= ls_ksat L.

Record asg_ok (a : AsgR) : Prop := {
  ao_dry : a_dry a = a_wp a / 2;
  ao_wp : 0 < a_wp a;
  ao_wp_fc : a_wp a < a_fc a;
  ao_fc_s : a_fc a <= a_s a;
  ao_tau : 0 <= a_tau a <= 1;
  ao_ksat : 0 <= a_ksat a }.

Lemma tau_of_range ks : 0 <= tau_of ks <= 1.
Proof. unfold tau_of. rnum. rcases; lra. Qed.

Lemma mk_asg_ok k L : valid_layer L -> asg_ok (mk_asg k L).
Proof.
  intros (H1 & H2 & H3 & H4). constructor; cbn; rnum; try lra. apply tau_of_range.
Qed.

(* a property of every assigned cell *)
Definition rows_sat (P : AsgR -> Prop) (rows : list RowR) : Prop :=
  Forall (fun r => match r_asg r with Some a => P a | None => True end) rows.

Lemma create_rows_unassigned acc dz : Forall (fun r => r_asg r = None) (create_rows acc dz).
Proof. revert acc; induction dz as [|d dz IH]; intros acc; cbn; constructor; auto. Qed.

Lemma create_df_sat (P : AsgR -> Prop) dz : rows_sat P (create_df dz).
Proof.
  unfold rows_sat, create_df. eapply Forall_impl; [|apply create_rows_unassigned].
  intros r H; rewrite H; exact I.
Qed.

Lemma map_cond_sat (P : AsgR -> Prop) (test : RowR -> bool) a rows :
  P a -> rows_sat P rows ->
  rows_sat P (map (fun r => if test r then set_asg r (Some a) else r) rows).
Proof.
  intros Ha H. unfold rows_sat in *. rewrite Forall_map. eapply Forall_impl; [|exact H].
  intros r Hr. cbv beta. destruct (test r); [cbn; exact Ha | exact Hr].
Qed.

Lemma add_layer_sat (P : AsgR -> Prop) rows L rows' :
  (forall k, P (mk_asg k L)) -> rows_sat P rows -> add_layer rows L = Some rows' -> rows_sat P rows'.
Proof.
  intros HP H. unfold add_layer.
  destruct (nltb _ _ _); [discriminate|].
  destruct (_ =? 1)%Z.
  - intros E; inv E. apply map_cond_sat; auto.
  - destruct (last_dzsum _ _); [|discriminate]. intros E; inv E. apply map_cond_sat; auto.
Qed.

Lemma add_layers_sat (P : AsgR -> Prop) Ls : forall rows rows',
  (forall L k, In L Ls -> P (mk_asg k L)) -> rows_sat P rows -> add_layers rows Ls = Some rows' -> rows_sat P rows'.
Proof.
  induction Ls as [|L Ls IH]; intros rows rows' HP H; cbn.
  - intros E; inv E; exact H.
  - destruct (add_layer rows L) as [r1|] eqn:E1; [|discriminate]. intros E.
    eapply IH; [| |exact E].
    + intros; apply HP; right; assumption.
    + eapply add_layer_sat; [|exact H|exact E1]. intros; apply HP; left; reflexivity.
Qed.

Lemma ffill_rows_sat (P : AsgR -> Prop) rows : forall last,
  match last with Some a => P a | None => True end -> rows_sat P rows -> rows_sat P (ffill_rows last rows).
Proof.
  induction rows as [|r rows IH]; intros last Hl H; cbn; [constructor|].
  inv H. destruct (r_asg r) as [a|] eqn:E.
  - constructor; [cbn; exact H2 | apply IH; auto].
  - constructor; [cbn; exact Hl | apply IH; auto].
Qed.

Lemma redz_rows_asg rows : forall acc, map r_asg (redz_rows acc rows) = map r_asg rows.
Proof. induction rows as [|r rows IH]; intros acc; cbn; [reflexivity| f_equal; apply IH]. Qed.

Lemma rows_sat_asg (P : AsgR -> Prop) rows rows' : map r_asg rows' = map r_asg rows -> rows_sat P rows -> rows_sat P rows'.
Proof.
  revert rows'; induction rows as [|r rows IH]; intros [|r' rows'] E H; try discriminate; [constructor|].
  cbn in E. inv E. inv H. constructor; [rewrite H1; exact H4 | apply IH; auto].
Qed.

Lemma fill_nan_sat (P : AsgR -> Prop) rows rows' zs : rows_sat P rows -> fill_nan rows = Some (rows', zs) -> rows_sat P rows'.
Proof.
  intros H. unfold fill_nan. destruct (existsb _ _); [discriminate|]. intros E; inv E.
  eapply rows_sat_asg; [apply redz_rows_asg|]. apply ffill_rows_sat; [exact I|exact H].
Qed.

Lemma fill_nan_assigned rows rows' zs :
  fill_nan rows = Some (rows', zs) -> Forall (fun r => exists a, r_asg r = Some a) rows'.
Proof.
  unfold fill_nan. destruct (existsb _ _) eqn:E; [discriminate|]. intros H; inv H.
  apply Forall_forall. intros r Hr.
  destruct (r_asg r) as [a|] eqn:Ea; [eauto|].
  assert (existsb is_unassigned (redz_rows (nofZ num_ops 0) (ffill_rows None rows)) = true).
  { apply existsb_exists. exists r; split; [exact Hr|]. unfold is_unassigned. rewrite Ea. reflexivity. }
  congruence.
Qed.

Lemma build_rows_sat (P : AsgR -> Prop) dz layers rows zs :
  (forall L k, In L layers -> P (mk_asg k L)) -> build_rows dz layers = Some (rows, zs) -> rows_sat P rows.
Proof.
  intros HP. unfold build_rows. destruct (add_layers _ _) as [r1|] eqn:E; [|discriminate].
  intros H. eapply fill_nan_sat; [|exact H]. eapply add_layers_sat; [exact HP| |exact E]. apply create_df_sat.
Qed.

(* the ordering in the form the processes use it (Comp records) *)
Record comp_ordered (c : Comp R) : Prop := {
  co_dry : c_th_dry c = c_th_wp c / 2;
  co_dry_pos : 0 < c_th_dry c;
  co_dry_wp : c_th_dry c < c_th_wp c;
  co_wp_fc : c_th_wp c < c_th_fc c;
  co_fc_s : c_th_fc c <= c_th_s c;
  co_tau : 0 <= c_tau c <= 1;
  co_ksat : 0 <= c_ksat c }.

Lemma to_comps_forall (Q : Comp R -> Prop) (P : AsgR -> Prop) rows p :
  (forall r a c, r_asg r = Some a -> P a -> to_comp r = Some c -> Q c) ->
  rows_sat P rows -> to_comps rows = Some p -> Forall Q p.
Proof.
  intros HQ. revert p; induction rows as [|r rows IH]; intros p H; cbn.
  - intros E; inv E; constructor.
  - inv H. destruct (to_comp r) as [c|] eqn:Ec; [|discriminate].
    destruct (to_comps rows) as [cs|]; [|discriminate]. intros E; inv E.
    constructor; [|apply IH; auto].
    unfold to_comp in Ec. destruct (r_asg r) as [a|] eqn:Ea; [|discriminate].
    eapply HQ; [exact Ea | exact H2 | unfold to_comp; rewrite Ea; exact Ec].
Qed.

(* THEOREM 2 *)
Theorem build_ordered dz layers p :
  Forall valid_layer layers -> build_profile dz layers = Some p -> Forall comp_ordered p.
Proof.
  intros Hv. unfold build_profile. destruct (build_rows dz layers) as [[rows zs]|] eqn:E; [|discriminate].
  apply (to_comps_forall comp_ordered asg_ok).
  - intros r a c Ea Ha Ec. unfold to_comp in Ec. rewrite Ea in Ec. inv Ec.
    destruct Ha. constructor; cbn; try lra; try assumption.
  - eapply build_rows_sat; [|exact E]. intros L k HL. apply mk_asg_ok.
    rewrite Forall_forall in Hv; auto.
Qed.

(* when is tau strictly positive: Ksat >= 1 mm/day gives tau >= 0.08 (every built-in soil has Ksat >= 2) *)
Lemma tau_of_pos ks : 1 <= ks -> 8 / 100 <= tau_of ks.
Proof.
  intros H. unfold tau_of. rnum.
  assert (Hp : 1 <= Rpow ks (35 / 100)).
  { unfold Rpow. destruct (Req_EM_T ks 0); [lra|]. unfold Rpower.
    apply exp_ge_1. apply Rmult_le_pos; [lra|]. rewrite <- ln_1. destruct H as [H|H].
    - left; apply ln_increasing; lra.
    - rewrite <- H; lra. }
  assert (Hr : 8 / 100 <= Rround 2 (866 / 10000 * Rpow ks (35 / 100))).
  { replace (8 / 100) with (Rround 2 (IZR 8 / 100)) by (rewrite Rround2_cm; lra).
    apply Rround_mono. nra. }
  rcases; lra.
Qed.

(* ============================================================================================
   1a. numpy's pairwise summation is a sum *)
Fixpoint Rsum (l : list R) : R := match l with [] => 0 | x :: r => x + Rsum r end.

Lemma Rsum_app a b : Rsum (a ++ b) = Rsum a + Rsum b.
Proof. induction a as [|x a IH]; cbn; [lra | rewrite IH; lra]. Qed.

Lemma fold_plus_Rsum l a : fold_left (fun a x : R => nadd num_ops a x) l a = a + Rsum l.
Proof. revert a; induction l as [|x l IH]; intros a; cbn; [lra|]. rewrite IH. rnum. lra. Qed.

Lemma Rsum_firstn_skipn n l : Rsum (firstn n l) + Rsum (skipn n l) = Rsum l.
Proof. rewrite <- Rsum_app, firstn_skipn. reflexivity. Qed.

Lemma zip_add_sum (r a : list R) : (length a <= length r)%nat ->
  Rsum (zip_add r a) = Rsum r + Rsum a /\ length (zip_add r a) = length r.
Proof.
  revert a; induction r as [|x r IH]; intros [|y a] H; cbn in *; try (split; [lra|reflexivity]); try lia.
  destruct (IH a) as [H1 H2]; [lia|]. rewrite H1, H2. rnum. split; [lra|reflexivity].
Qed.

Lemma pw_loop_sum nb : forall r rest r' rest', length r = 8%nat -> pw_loop nb r rest = (r', rest') ->
  Rsum r' + Rsum rest' = Rsum r + Rsum rest /\ length r' = 8%nat.
Proof.
  induction nb as [|nb IH]; intros r rest r' rest' Hl; cbn [pw_loop].
  - intros E; inv E. split; [reflexivity|exact Hl].
  - intros E. destruct (zip_add_sum r (firstn 8 rest)) as [H1 H2]; [rewrite Hl; apply firstn_le_length|].
    apply IH in E; [|congruence]. destruct E as [E1 E2]. split; [|exact E2].
    rewrite E1, H1. pose proof (Rsum_firstn_skipn 8 rest). lra.
Qed.

Lemma pw_block_sum (l : list R) : (8 <= length l)%nat -> pw_block l = Rsum l.
Proof.
  intros H. unfold pw_block.
  destruct (pw_loop _ _ _) as [r rest] eqn:E.
  apply pw_loop_sum in E; [|apply firstn_length_le; exact H]. destruct E as [E1 E2].
  pose proof (Rsum_firstn_skipn 8 l) as Hs.
  do 9 (destruct r as [|? r]; try discriminate E2).
  rewrite fold_plus_Rsum. cbn [Rsum] in E1. rnum. lra.
Qed.

Lemma pw_sum_fuel_sum fuel : forall l : list R, (length l <= fuel)%nat -> pw_sum_fuel fuel l = Rsum l.
Proof.
  induction fuel as [|f IH]; intros l Hl; cbn [pw_sum_fuel].
  - destruct l; [|cbn in Hl; lia]. reflexivity.
  - destruct (Nat.ltb_spec (length l) 8).
    + rewrite fold_plus_Rsum. rnum. lra.
    + destruct (Nat.leb_spec (length l) 128).
      * apply pw_block_sum; assumption.
      * set (n2 := (Nat.div (length l) 2 - Nat.modulo (Nat.div (length l) 2) 8)%nat).
        assert (Hd : (Nat.div (length l) 2 < length l)%nat) by (apply Nat.div_lt; lia).
        assert (Hn2 : (n2 <= Nat.div (length l) 2)%nat) by (unfold n2; lia).
        assert (Hpos : (0 < n2)%nat).
        { unfold n2. pose proof (Nat.mod_upper_bound (Nat.div (length l) 2) 8).
          assert (64 <= Nat.div (length l) 2)%nat by (apply Nat.div_le_lower_bound; lia). lia. }
        rewrite !IH.
        -- rnum. apply Rsum_firstn_skipn.
        -- rewrite skipn_length. lia.
        -- rewrite firstn_length. lia.
Qed.

Lemma pw_sum_sum (l : list R) : pw_sum l = Rsum l.
Proof. apply pw_sum_fuel_sum. lia. Qed.

(* ============================================================================================
   1b. geometry.  The code rounds running sums to centimetres (np.cumsum(dz).round(2)); when every thickness is a
   whole number of centimetres the rounding is exact and the bottoms are exactly the running sums. *)
Definition cm (d : R) : Prop := exists k : Z, (0 < k)%Z /\ d = IZR k / 100.
Definition cm0 (d : R) : Prop := exists k : Z, d = IZR k / 100.

Lemma cm_pos d : cm d -> 0 < d.
Proof. intros (k & Hk & ->). apply IZR_lt in Hk. lra. Qed.
Lemma cm_round d : cm d -> Rround 2 d = d.
Proof. intros (k & _ & ->). apply Rround2_cm. Qed.
Lemma cm0_round d : cm0 d -> Rround 2 d = d.
Proof. intros (k & ->). apply Rround2_cm. Qed.
Lemma cm0_plus a d : cm0 a -> cm d -> cm0 (a + d).
Proof. intros (m & ->) (k & _ & ->). exists (m + k)%Z. rewrite plus_IZR. lra. Qed.
Lemma cm0_0 : cm0 0.
Proof. exists 0%Z. lra. Qed.

(* rows starting at depth [top]: bottoms are the running sum, zBot/z_top/zMid agree with them *)
Fixpoint geom_ok (top : R) (rows : list RowR) : Prop :=
  match rows with
  | [] => True
  | r :: rest =>
    r_dzsum r = top + r_dz r /\ r_zbot r = r_dzsum r /\ r_ztop r = r_zbot r - r_dz r /\
    r_zmid r = (r_ztop r + r_zbot r) / 2 /\ geom_ok (r_dzsum r) rest
  end.

Definition geo (r : RowR) := (r_dz r, r_dzsum r, r_zbot r, r_ztop r, r_zmid r).

Lemma geo_eq r r' : geo r' = geo r ->
  r_dz r' = r_dz r /\ r_dzsum r' = r_dzsum r /\ r_zbot r' = r_zbot r /\ r_ztop r' = r_ztop r /\ r_zmid r' = r_zmid r.
Proof. unfold geo. intros H. inversion H. auto. Qed.

Lemma geom_ok_geo rows : forall rows' top, map geo rows' = map geo rows -> geom_ok top rows -> geom_ok top rows'.
Proof.
  induction rows as [|r rows IH]; intros [|r' rows'] top E H; try discriminate; [exact I|].
  cbn [map] in E. assert (E1 : geo r' = geo r) by congruence. assert (E2 : map geo rows' = map geo rows) by congruence.
  apply geo_eq in E1. destruct E1 as (e1 & e2 & e3 & e4 & e5).
  cbn [geom_ok] in *. destruct H as (A & B & C & D & G).
  rewrite e1, e2, e3, e4, e5. repeat split; auto.
Qed.

Lemma create_rows_geom dz : forall acc, cm0 acc -> Forall cm dz ->
  geom_ok acc (create_rows acc dz) /\ map r_dz (create_rows acc dz) = dz.
Proof.
  induction dz as [|d dz IH]; intros acc Ha H; cbn; [split; [exact I|reflexivity]|].
  inv H. rnum. pose proof (cm0_plus _ _ Ha H2) as Hs. rewrite (cm0_round _ Hs).
  destruct (IH (acc + d) Hs H3) as [G M]. repeat split; auto. f_equal; exact M.
Qed.

Lemma map_cond_geo (test : RowR -> bool) a rows :
  map geo (map (fun r => if test r then set_asg r (Some a) else r) rows) = map geo rows.
Proof. rewrite map_map. apply map_ext. intros r. destruct (test r); reflexivity. Qed.

Lemma add_layer_geo rows L rows' : add_layer rows L = Some rows' -> map geo rows' = map geo rows.
Proof.
  unfold add_layer. destruct (nltb _ _ _); [discriminate|]. destruct (_ =? 1)%Z.
  - intros E; inv E. apply map_cond_geo.
  - destruct (last_dzsum _ _); [|discriminate]. intros E; inv E. apply map_cond_geo.
Qed.

Lemma add_layers_geo Ls : forall rows rows', add_layers rows Ls = Some rows' -> map geo rows' = map geo rows.
Proof.
  induction Ls as [|L Ls IH]; intros rows rows'; cbn.
  - intros E; inv E; reflexivity.
  - destruct (add_layer rows L) as [r1|] eqn:E1; [|discriminate]. intros E.
    etransitivity; [eapply IH; exact E | eapply add_layer_geo; exact E1].
Qed.

Lemma ffill_rows_geo rows : forall last, map geo (ffill_rows last rows) = map geo rows.
Proof. induction rows as [|r rows IH]; intros last; cbn; [reflexivity|]. f_equal. apply IH. Qed.

Lemma set_dz_dzsum_id (r : RowR) : set_dz_dzsum r (r_dz r) (r_dzsum r) = r.
Proof. destruct r; reflexivity. Qed.

Lemma redz_rows_id rows : forall acc, cm0 acc -> Forall cm (map r_dz rows) -> geom_ok acc rows ->
  redz_rows acc rows = rows.
Proof.
  induction rows as [|r rows IH]; intros acc Ha Hc G; cbn; [reflexivity|].
  cbn in Hc. inv Hc. destruct G as (A & B & C & D & G). rnum.
  rewrite (cm_round _ H1). pose proof (cm0_plus _ _ Ha H1) as Hs. rewrite (cm0_round _ Hs), <- A.
  rewrite set_dz_dzsum_id. f_equal. rewrite A. apply IH; auto. rewrite <- A; exact G.
Qed.

Lemma Rsum_cm0 dz : Forall cm dz -> cm0 (Rsum dz).
Proof.
  induction 1 as [|d dz Hd _ IH]; cbn; [apply cm0_0|].
  rewrite Rplus_comm. apply cm0_plus; assumption.
Qed.

(* THEOREM 1, geometry part *)
Theorem build_wf_geometry dz layers rows zs :
  Forall cm dz -> build_rows dz layers = Some (rows, zs) ->
  map r_dz rows = dz /\ geom_ok 0 rows /\ zs = Rsum dz.
Proof.
  intros Hc. unfold build_rows. destruct (add_layers _ _) as [r1|] eqn:E; [|discriminate].
  unfold fill_nan. destruct (existsb _ _); [discriminate|]. intros H; inv H.
  destruct (create_rows_geom dz 0 cm0_0 Hc) as [G M].
  assert (G1 : geom_ok 0 (ffill_rows None r1)).
  { eapply geom_ok_geo; [|exact G]. rewrite ffill_rows_geo. eapply add_layers_geo; exact E. }
  assert (M1 : map r_dz (ffill_rows None r1) = dz).
  { rewrite <- M. pose proof (add_layers_geo _ _ _ E) as Hg. rewrite <- (ffill_rows_geo r1 None) in Hg.
    apply (f_equal (map (fun g : R * R * R * R * R => fst (fst (fst (fst g)))))) in Hg.
    rewrite !map_map in Hg. exact Hg. }
  rnum. rewrite redz_rows_id; auto; [|exact cm0_0| rewrite M1; exact Hc].
  rewrite M1, pw_sum_sum. repeat split; auto. apply cm0_round. apply Rsum_cm0; exact Hc.
Qed.

(* ============================================================================================
   1c. layers: the profile is a concatenation of non-empty blocks numbered 1, 2, ..., n from the surface;
   all rows of a block carry the same assignment (the layer's properties). *)
Definition assigned_as (a : AsgR) (r : RowR) : Prop := r_asg r = Some a.
Definition unassigned (r : RowR) : Prop := r_asg r = None.

Inductive blocks (P : AsgR -> Prop) : Z -> Z -> list RowR -> Prop :=
| blocks_nil lo : blocks P lo lo []
| blocks_cons lo hi a B A :
    B <> [] -> Forall (assigned_as a) B -> a_layer a = (lo + 1)%Z -> P a ->
    blocks P (lo + 1) hi A -> blocks P lo hi (B ++ A).

Lemma blocks_range P lo hi A : blocks P lo hi A -> (lo <= hi)%Z /\ (lo = hi -> A = []) /\ (A = [] -> lo = hi).
Proof.
  induction 1 as [lo|lo hi a B A HB HF Ha HP HA (I1 & I2 & I3)].
  - repeat split; auto; lia.
  - repeat split; try lia.
    intros E. apply app_eq_nil in E. destruct E; contradiction.
Qed.

Lemma blocks_assigned P lo hi A : blocks P lo hi A -> Forall (fun r => exists a, r_asg r = Some a) A.
Proof.
  induction 1 as [lo|lo hi a B A HB HF Ha HP HA IH]; [constructor|].
  apply Forall_app; split; [|exact IH]. eapply Forall_impl; [|exact HF]. intros r Hr; exists a; exact Hr.
Qed.

Lemma blocks_snoc P lo hi A : blocks P lo hi A -> forall a B,
  B <> [] -> Forall (assigned_as a) B -> a_layer a = (hi + 1)%Z -> P a -> blocks P lo (hi + 1) (A ++ B).
Proof.
  induction 1 as [lo|lo hi a0 B0 A HB0 HF0 Ha0 HP0 HA IH]; intros a B HB HF Ha HP.
  - cbn. rewrite <- (app_nil_r B). eapply blocks_cons; eauto. constructor.
  - rewrite <- app_assoc. eapply blocks_cons; eauto.
Qed.

(* extending the last block *)
Lemma blocks_extend P lo hi A : blocks P lo hi A -> A <> [] -> forall l,
  exists a, fold_left (fun acc (r : RowR) => match r_asg r with Some a => Some a | None => acc end) A l = Some a /\
            forall B, Forall (assigned_as a) B -> blocks P lo hi (A ++ B).
Proof.
  induction 1 as [lo|lo hi a0 B0 A HB0 HF0 Ha0 HP0 HA IH]; intros HN l; [contradiction|].
  rewrite fold_left_app.
  assert (HB : forall l, fold_left (fun acc (r : RowR) => match r_asg r with Some a => Some a | None => acc end) B0 l
                         = Some a0).
  { clear -HB0 HF0. induction B0 as [|r B0 IHB]; intros l; [contradiction|]. inv HF0. cbn. rewrite H1.
    destruct B0 as [|r' B0]; [reflexivity|]. apply IHB; [discriminate|assumption]. }
  rewrite HB. destruct A as [|r A].
  - exists a0. split; [reflexivity|]. intros B HFB. pose proof (blocks_range _ _ _ _ HA) as (_ & _ & E).
    specialize (E eq_refl). subst hi. rewrite app_nil_r. rewrite <- (app_nil_r (B0 ++ B)).
    apply (blocks_cons P lo (lo + 1) a0 (B0 ++ B) []).
    + intros E. apply app_eq_nil in E. destruct E; contradiction.
    + apply Forall_app; split; assumption.
    + exact Ha0.
    + exact HP0.
    + constructor.
  - destruct (IH ltac:(discriminate) (Some a0)) as (a & E & HE). exists a. split; [exact E|].
    intros B HFB. rewrite <- app_assoc. eapply blocks_cons; eauto.
Qed.

Lemma blocks_asg P rows : forall lo hi rows', blocks P lo hi rows -> map r_asg rows' = map r_asg rows -> blocks P lo hi rows'.
Proof.
  intros lo hi rows' H. revert rows'. induction H as [lo|lo hi a B A HB HF Ha HP HA IH]; intros rows' E.
  - destruct rows'; [constructor|discriminate].
  - rewrite map_app in E. apply map_eq_app in E. destruct E as (B' & A' & -> & EB & EA).
    eapply blocks_cons; eauto.
    + intros ->. destruct B; [contradiction|discriminate].
    + clear -HF EB. revert B' EB. induction B as [|r B IHB]; intros [|r' B'] EB; try discriminate; [constructor|].
      inv HF. cbn in EB. inv EB. constructor; [unfold assigned_as in *; congruence|apply IHB; auto].
Qed.

Lemma max_layer_fold P lo hi A : blocks P lo hi A ->
  fold_left (fun m (r : RowR) => match r_asg r with Some a => Z.max m (a_layer a) | None => m end) A lo = hi.
Proof.
  induction 1 as [lo|lo hi a B A HB HF Ha HP HA IH]; [reflexivity|].
  rewrite fold_left_app.
  assert (E : forall m, (lo <= m <= lo + 1)%Z ->
     fold_left (fun m (r : RowR) => match r_asg r with Some a => Z.max m (a_layer a) | None => m end) B m = (lo + 1)%Z).
  { clear -HB HF Ha. induction B as [|r B IHB]; intros m Hm; [contradiction|]. inv HF. cbn. rewrite H1.
    destruct B as [|r' B]; [cbn; lia|]. apply IHB; [discriminate|assumption|lia]. }
  rewrite E by lia. exact IH.
Qed.

Lemma fold_unassigned_id {T} (g : T -> RowR -> T) U : Forall unassigned U ->
  (forall m r, unassigned r -> g m r = m) -> forall m, fold_left g U m = m.
Proof. intros HU Hg. induction HU as [|r U Hr _ IH]; intros m; cbn; [reflexivity|]. rewrite Hg by assumption. apply IH. Qed.

Definition shape (P : AsgR -> Prop) (hi : Z) (rows : list RowR) : Prop :=
  exists A U, rows = A ++ U /\ blocks P 0 hi A /\ Forall unassigned U.

Lemma shape_max_layer P hi rows : shape P hi rows -> max_layer rows = hi.
Proof.
  intros (A & U & -> & HA & HU). unfold max_layer. rewrite fold_left_app.
  rewrite (max_layer_fold _ _ _ _ HA). apply fold_unassigned_id; [exact HU|].
  intros m r Hr. unfold unassigned in Hr. rewrite Hr. reflexivity.
Qed.

Definition sorted (rows : list RowR) : Prop := StronglySorted Rle (map r_dzsum rows).

Lemma sorted_geo rows rows' : map geo rows' = map geo rows -> sorted rows -> sorted rows'.
Proof.
  intros E. unfold sorted.
  replace (map r_dzsum rows') with (map r_dzsum rows); [auto|].
  apply (f_equal (map (fun g : R * R * R * R * R => snd (fst (fst (fst g)))))) in E. rewrite !map_map in E.
  symmetry; exact E.
Qed.

Lemma sorted_app_r A U : sorted (A ++ U) -> sorted U.
Proof.
  unfold sorted. rewrite map_app. induction (map r_dzsum A) as [|x l IH]; cbn; [auto|].
  intros H. inv H. auto.
Qed.

Lemma create_rows_sorted dz : forall acc, Forall (fun d => 0 <= d) dz ->
  sorted (create_rows acc dz) /\ Forall (fun r => Rround 2 acc <= r_dzsum r) (create_rows acc dz).
Proof.
  induction dz as [|d dz IH]; intros acc H; cbn; [split; constructor|].
  inv H. rnum. destruct (IH (acc + d) H3) as [S1 S2].
  assert (Hm : Rround 2 acc <= Rround 2 (acc + d)) by (apply Rround_mono; lra).
  split.
  - unfold sorted. cbn. constructor; [exact S1|].
    rewrite Forall_map. eapply Forall_impl; [|exact S2]. intros r Hr; exact Hr.
  - constructor; [cbn; exact Hm|]. eapply Forall_impl; [|exact S2]. intros r Hr; cbn in Hr; lra.
Qed.

(* a test that is downward closed in dzsum selects a prefix of a sorted list of unassigned rows *)
Lemma map_prefix (test : RowR -> bool) a U :
  sorted U -> Forall unassigned U ->
  (forall r1 r2, unassigned r1 -> r_dzsum r1 <= r_dzsum r2 -> test r2 = true -> test r1 = true) ->
  exists U1 U2, U = U1 ++ U2 /\ Forall unassigned U2 /\
    map (fun r => if test r then set_asg r (Some a) else r) U = map (fun r => set_asg r (Some a)) U1 ++ U2.
Proof.
  intros HS HU Hm. induction U as [|r U IH].
  - exists [], []. repeat split; constructor.
  - inv HU. unfold sorted in HS. cbn in HS. inv HS. destruct (test r) eqn:Et.
    + destruct (IH H3 H2) as (U1 & U2 & -> & HU2 & E). exists (r :: U1), U2. repeat split; auto.
      cbn. rewrite Et. f_equal. exact E.
    + exists [], (r :: U). repeat split; [constructor; auto|]. cbn. rewrite Et. f_equal.
      rewrite <- (map_id U) at 2. apply map_ext_in. intros r' Hr'.
      destruct (test r') eqn:Et'; [|reflexivity].
      rewrite Forall_map in H4. rewrite Forall_forall in H4. specialize (H4 _ Hr').
      rewrite (Hm r r' H1 H4 Et') in Et. discriminate.
Qed.

Lemma map_id_assigned (test : RowR -> bool) a A :
  Forall (fun r => test r = false) A -> map (fun r => if test r then set_asg r (Some a) else r) A = A.
Proof.
  intros H. rewrite <- (map_id A) at 2. apply map_ext_in. intros r Hr. rewrite Forall_forall in H. rewrite (H r Hr). reflexivity.
Qed.

Lemma shape_after_mask P hi A U (test : RowR -> bool) a :
  blocks P 0 hi A -> Forall unassigned U -> sorted U ->
  Forall (fun r => test r = false) A ->
  (forall r1 r2, unassigned r1 -> r_dzsum r1 <= r_dzsum r2 -> test r2 = true -> test r1 = true) ->
  a_layer a = (hi + 1)%Z -> P a ->
  let rows' := map (fun r => if test r then set_asg r (Some a) else r) (A ++ U) in
  shape P hi rows' \/ shape P (hi + 1) rows'.
Proof.
  intros HA HU HS HtA Hm Ha HP rows'. unfold rows'. rewrite map_app, map_id_assigned by exact HtA.
  destruct (map_prefix test a U HS HU Hm) as (U1 & U2 & -> & HU2 & E). rewrite E.
  destruct U1 as [|r1 U1].
  - left. exists A, U2. repeat split; auto.
  - right. exists (A ++ map (fun r => set_asg r (Some a)) (r1 :: U1)), U2. rewrite app_assoc. repeat split; auto.
    eapply blocks_snoc; eauto; [discriminate|].
    rewrite Forall_map. apply Forall_forall. intros r _. reflexivity.
Qed.

Lemma add_layer_shape P hi rows L rows' :
  sorted rows -> shape P hi rows -> (forall k, P (mk_asg k L)) -> add_layer rows L = Some rows' ->
  shape P hi rows' \/ shape P (hi + 1) rows'.
Proof.
  intros HS Hsh HP. pose proof (shape_max_layer _ _ _ Hsh) as Hmax. destruct Hsh as (A & U & -> & HA & HU).
  unfold add_layer. rewrite Hmax. clear Hmax. destruct (nltb _ _ _); [discriminate|].
  destruct (hi + 1 =? 1)%Z eqn:E1.
  - apply Z.eqb_eq in E1. assert (hi = 0%Z) by lia. subst hi. intros E; inv E.
    pose proof (blocks_range _ _ _ _ HA) as (_ & HA0 & _). specialize (HA0 eq_refl). subst A.
    apply shape_after_mask; [exact HA | exact HU | eapply sorted_app_r; exact HS | constructor | | reflexivity | apply HP].
    intros r1 r2 _ H12. rnum. destruct (Rleb_spec (Rround 2 (r_dzsum r2)) (Rround 2 (ls_thick L))); [|discriminate].
    intros _. apply Rleb_true. pose proof (Rround_mono 2 _ _ H12). lra.
  - destruct (last_dzsum _ _) as [last|]; [|discriminate]. intros E; inv E.
    apply shape_after_mask; [exact HA | exact HU | | | | reflexivity | apply HP].
    + eapply sorted_app_r; exact HS.
    + eapply Forall_impl; [|apply (blocks_assigned _ _ _ _ HA)]. intros r (a & Hr).
      unfold is_unassigned. rewrite Hr. apply andb_false_r.
    + intros r1 r2 Hu H12 Ht. apply andb_true_iff in Ht. destruct Ht as [Ht1 Ht2]. apply andb_true_iff.
      split.
      * revert Ht1. rnum. destruct (Rleb_spec (Rround 2 (r_dzsum r2)) (Rround 2 (ls_thick L + last))); [|discriminate]. intros _. apply Rleb_true.
        pose proof (Rround_mono 2 _ _ H12). lra.
      * unfold is_unassigned. unfold unassigned in Hu. rewrite Hu. reflexivity.
Qed.

Lemma add_layers_shape P Ls : forall hi rows rows',
  sorted rows -> shape P hi rows -> (forall L k, In L Ls -> P (mk_asg k L)) -> add_layers rows Ls = Some rows' ->
  exists hi', shape P hi' rows'.
Proof.
  induction Ls as [|L Ls IH]; intros hi rows rows' HS Hsh HP; cbn.
  - intros E; inv E. exists hi; exact Hsh.
  - destruct (add_layer rows L) as [r1|] eqn:E1; [|discriminate]. intros E.
    assert (HS1 : sorted r1) by (eapply sorted_geo; [eapply add_layer_geo; exact E1 | exact HS]).
    assert (HP1 : forall L0 k, In L0 Ls -> P (mk_asg k L0)) by (intros; apply HP; right; assumption).
    destruct (add_layer_shape P hi rows L r1 HS Hsh (fun k => HP L k (or_introl eq_refl)) E1) as [H|H];
      eapply IH; eauto.
Qed.

Lemma set_asg_id (r : RowR) : set_asg r (r_asg r) = r.
Proof. destruct r; reflexivity. Qed.

Definition carry (l : option AsgR) (A : list RowR) : option AsgR :=
  fold_left (fun acc (r : RowR) => match r_asg r with Some a => Some a | None => acc end) A l.

Lemma ffill_rows_app A : forall l U, ffill_rows l (A ++ U) = ffill_rows l A ++ ffill_rows (carry l A) U.
Proof.
  induction A as [|r A IH]; intros l U; cbn; [reflexivity|]. f_equal. rewrite IH. unfold carry. cbn.
  destruct (r_asg r); reflexivity.
Qed.

Lemma ffill_rows_assigned A : Forall (fun r : RowR => exists a, r_asg r = Some a) A -> forall l, ffill_rows l A = A.
Proof.
  induction 1 as [|r A (a & Hr) _ IH]; intros l; cbn; [reflexivity|]. rewrite Hr.
  rewrite <- Hr at 1. rewrite set_asg_id. f_equal. apply IH.
Qed.

Lemma ffill_rows_unassigned U : Forall unassigned U -> forall l, ffill_rows l U = map (fun r => set_asg r l) U.
Proof.
  induction 1 as [|r U Hr _ IH]; intros l; cbn; [reflexivity|]. unfold unassigned in Hr. rewrite Hr. f_equal. apply IH.
Qed.

Lemma fill_nan_blocks P hi rows rows' zs :
  shape P hi rows -> fill_nan rows = Some (rows', zs) -> blocks P 0 hi rows'.
Proof.
  intros (A & U & -> & HA & HU) H.
  pose proof (fill_nan_assigned _ _ _ H) as Hass.
  unfold fill_nan in H. destruct (existsb _ _); [discriminate|]. inv H.
  eapply blocks_asg; [|apply redz_rows_asg].
  rewrite ffill_rows_app, (ffill_rows_assigned A (blocks_assigned _ _ _ _ HA)), (ffill_rows_unassigned U HU).
  destruct A as [|r A].
  - (* nothing assigned: every row would stay NaN *)
    destruct U as [|u U]; [cbn; exact HA|]. exfalso.
    assert (Hu : r_asg u = None) by (inv HU; assumption).
    cbn in Hass. rewrite Hu in Hass. apply Forall_inv in Hass. destruct Hass as (a & Ha). cbn in Ha. discriminate.
  - destruct (blocks_extend _ _ _ _ HA ltac:(discriminate) None) as (a & Ec & Hext).
    unfold carry. rewrite Ec. apply Hext. rewrite Forall_map. apply Forall_forall. intros u _. reflexivity.
Qed.

(* readable form of [blocks]: every row is assigned; the first layer is 1; going down, a row either carries exactly the
   assignment of the row above or starts the next layer *)
Fixpoint contiguous (prev : option AsgR) (rows : list RowR) : Prop :=
  match rows with
  | [] => True
  | r :: rest =>
    exists a, r_asg r = Some a /\
              match prev with None => a_layer a = 1%Z | Some b => a = b \/ a_layer a = (a_layer b + 1)%Z end /\
              contiguous (Some a) rest
  end.

Lemma contiguous_block a B : Forall (assigned_as a) B -> forall rest, contiguous (Some a) rest -> contiguous (Some a) (B ++ rest).
Proof.
  induction 1 as [|r B Hr _ IH]; intros rest H; cbn; [exact H|]. exists a. repeat split; auto.
Qed.

Lemma blocks_contiguous P lo hi A : blocks P lo hi A -> forall prev,
  match prev with None => lo = 0%Z | Some b => a_layer b = lo end -> contiguous prev A.
Proof.
  induction 1 as [lo|lo hi a B A HB HF Ha HP HA IH]; intros prev Hp; [exact I|].
  destruct B as [|r B]; [contradiction|]. inv HF. cbn. exists a. split; [exact H1|]. split.
  - destruct prev as [b|]; [right; lia | lia].
  - apply contiguous_block; [exact H2|]. apply IH. exact Ha.
Qed.

(* THEOREM 1, layer part: for non-negative thicknesses the built profile consists of contiguous layers 1..n from the
   surface and every compartment carries the properties of one of the given layer specifications (with tau computed
   from its Ksat and th_dry = th_wp/2, see [mk_asg]) *)
Definition from_spec (layers : list SpecR) (a : AsgR) : Prop := exists L, In L layers /\ a = mk_asg (a_layer a) L.

Theorem build_layers_contiguous dz layers rows zs :
  Forall (fun d => 0 <= d) dz -> build_rows dz layers = Some (rows, zs) ->
  exists n, blocks (from_spec layers) 0 n rows /\ contiguous None rows.
Proof.
  intros Hd. unfold build_rows. destruct (add_layers _ _) as [r1|] eqn:E; [|discriminate]. intros H.
  destruct (create_rows_sorted dz (nofZ num_ops 0) Hd) as [HS _].
  destruct (add_layers_shape (from_spec layers) layers 0 (create_df dz) r1 HS) as (n & Hn); auto.
  - exists [], (create_df dz). repeat split; [constructor|]. apply create_rows_unassigned.
  - intros L k HL. exists L. split; [exact HL|reflexivity].
  - exists n. pose proof (fill_nan_blocks _ _ _ _ _ Hn H) as Hb. split; [exact Hb|].
    eapply blocks_contiguous; [exact Hb|reflexivity].
Qed.

(* THEOREM 1+2 together, in the vocabulary of ProfR.v: a profile built from whole-centimetre thicknesses and layers with
   0 < wp < fc < s and Ksat >= 1 is well formed *)
Definition strict_layer (L : SpecR) : Prop := 0 < ls_wp L /\ ls_wp L < ls_fc L /\ ls_fc L < ls_s L /\ 1 <= ls_ksat L.

Lemma to_comps_dz rows p : to_comps rows = Some p -> map c_dz p = map r_dz rows.
Proof.
  revert p; induction rows as [|r rows IH]; intros p; cbn.
  - intros E; inv E; reflexivity.
  - destruct (to_comp r) as [c|] eqn:Ec; [|discriminate]. destruct (to_comps rows) as [cs|]; [|discriminate].
    intros E; inv E. cbn. f_equal; [|apply IH; reflexivity].
    unfold to_comp in Ec. destruct (r_asg r); [|discriminate]. inv Ec. reflexivity.
Qed.

Theorem build_wf dz layers p :
  Forall cm dz -> Forall strict_layer layers -> build_profile dz layers = Some p -> wf_prof p.
Proof.
  intros Hc Hv Hb. unfold wf_prof.
  assert (Hdz : Forall (fun c => 0 < c_dz c) p).
  { unfold build_profile in Hb. destruct (build_rows dz layers) as [[rows zs]|] eqn:E; [|discriminate].
    destruct (build_wf_geometry _ _ _ _ Hc E) as (M & _ & _). apply to_comps_dz in Hb. rewrite M in Hb.
    rewrite <- Hb in Hc. rewrite Forall_map in Hc. eapply Forall_impl; [|exact Hc]. intros c Hcm. apply cm_pos; exact Hcm. }
  assert (Hs : Forall (fun c => c_th_fc c < c_th_s c /\ 8 / 100 <= c_tau c /\ 1 <= c_ksat c) p).
  { unfold build_profile in Hb. destruct (build_rows dz layers) as [[rows zs]|] eqn:E; [|discriminate].
    apply (to_comps_forall _ (fun a => a_fc a < a_s a /\ 8 / 100 <= a_tau a /\ 1 <= a_ksat a) rows p); [| |exact Hb].
    - intros r a c Ea Ha Ec. unfold to_comp in Ec. rewrite Ea in Ec. inv Ec. exact Ha.
    - eapply build_rows_sat; [|exact E]. intros L k HL. rewrite Forall_forall in Hv.
      destruct (Hv L HL) as (H1 & H2 & H3 & H4). cbn. repeat split; auto. apply tau_of_pos; exact H4. }
  assert (Ho : Forall comp_ordered p).
  { eapply build_ordered; [|exact Hb]. eapply Forall_impl; [|exact Hv]. intros L (H1 & H2 & H3 & H4).
    unfold valid_layer. repeat split; lra. }
  rewrite Forall_forall in *. intros c Hin. destruct (Ho c Hin). destruct (Hs c Hin) as (S1 & S2 & S3).
  constructor; auto; try lra.
Qed.

(* ============================================================================================
   5. initial water content *)
(* pandas' group_mean (Kahan summation / count) of equal values is that value *)
Lemma kahan_sum xs : forall s c, c = 0 -> kahan s c xs = s + Rsum xs.
Proof.
  induction xs as [|v xs IH]; intros s c Hc; cbn [kahan Rsum]; [lra|]. subst c. rewrite IH; rnum; lra.
Qed.

Lemma len_F_pos (xs : list R) : xs <> [] -> (0 < len_F xs)%Z.
Proof.
  assert (H : forall l : list R, (0 <= len_F l)%Z) by (induction l; cbn [len_F]; lia).
  destruct xs as [|x xs]; [contradiction|]. intros _. cbn [len_F]. specialize (H xs). lia.
Qed.

Lemma kahan_mean_const x xs : xs <> [] -> (forall v, In v xs -> v = x) -> kahan_mean xs = x.
Proof.
  intros HN Hc. unfold kahan_mean. rnum. rewrite kahan_sum by reflexivity.
  assert (E : Rsum xs = x * IZR (len_F xs)).
  { clear HN. induction xs as [|v xs IH]; cbn [Rsum len_F]; [lra|].
    rewrite plus_IZR, (Hc v) by (left; reflexivity). rewrite IH by (intros; apply Hc; right; assumption). lra. }
  rewrite E. pose proof (len_F_pos xs HN) as Hp. apply IZR_lt in Hp. field. lra.
Qed.

(* the rows of one layer all carry the same assignment *)
Definition uniform_layers (rows : list RowR) : Prop :=
  forall r1 r2 a1 a2, In r1 rows -> In r2 rows -> r_asg r1 = Some a1 -> r_asg r2 = Some a2 ->
                      a_layer a1 = a_layer a2 -> a1 = a2.

Lemma blocks_layers P lo hi A : blocks P lo hi A ->
  Forall (fun r => exists a, r_asg r = Some a /\ (lo < a_layer a <= hi)%Z) A.
Proof.
  induction 1 as [lo|lo hi a B A HB HF Ha HP HA IH]; [constructor|].
  pose proof (blocks_range _ _ _ _ HA) as (Hr & _).
  apply Forall_app; split.
  - eapply Forall_impl; [|exact HF]. intros r Hr'. exists a. split; [exact Hr'|lia].
  - eapply Forall_impl; [|exact IH]. intros r (a' & E & Hl). exists a'. split; [exact E|lia].
Qed.

Lemma blocks_uniform P lo hi A : blocks P lo hi A -> uniform_layers A.
Proof.
  induction 1 as [lo|lo hi a B A HB HF Ha HP HA IH]; intros r1 r2 a1 a2 I1 I2 E1 E2 El; [destruct I1|].
  pose proof (blocks_layers _ _ _ _ HA) as HL. rewrite Forall_forall in HL, HF.
  apply in_app_or in I1. apply in_app_or in I2.
  destruct I1 as [I1|I1], I2 as [I2|I2].
  - pose proof (HF _ I1) as F1. pose proof (HF _ I2) as F2. unfold assigned_as in *. congruence.
  - pose proof (HF _ I1) as F1. destruct (HL _ I2) as (a' & E' & Hl). unfold assigned_as in *.
    assert (a1 = a) by congruence. assert (a2 = a') by congruence. subst. lia.
  - pose proof (HF _ I2) as F2. destruct (HL _ I1) as (a' & E' & Hl). unfold assigned_as in *.
    assert (a2 = a) by congruence. assert (a1 = a') by congruence. subst. lia.
  - exact (IH r1 r2 a1 a2 I1 I2 E1 E2 El).
Qed.

Lemma layer_vals_const (f : AsgR -> R) rows r0 a0 :
  uniform_layers rows -> In r0 rows -> r_asg r0 = Some a0 ->
  layer_vals f (a_layer a0) rows <> [] /\ forall v, In v (layer_vals f (a_layer a0) rows) -> v = f a0.
Proof.
  intros HU I0 E0. split.
  - unfold layer_vals. intros E. assert (Hin : In (f a0) (flat_map (fun r : RowR => match r_asg r with
        | Some a => if (a_layer a =? a_layer a0)%Z then [f a] else [] | None => [] end) rows)).
    { apply in_flat_map. exists r0. split; [exact I0|]. rewrite E0, Z.eqb_refl. left; reflexivity. }
    rewrite E in Hin. destruct Hin.
  - intros v Hv. unfold layer_vals in Hv. apply in_flat_map in Hv. destruct Hv as (r & Ir & Hv).
    destruct (r_asg r) as [a|] eqn:Ea; [|destruct Hv].
    destruct (a_layer a =? a_layer a0)%Z eqn:El; [|destruct Hv]. apply Z.eqb_eq in El.
    destruct Hv as [<-|[]]. f_equal. exact (HU r r0 a a0 Ir I0 Ea E0 El).
Qed.

Lemma hyd_lookup_spec rows r0 a0 :
  uniform_layers rows -> In r0 rows -> r_asg r0 = Some a0 ->
  hyd_lookup rows (a_layer a0) = Some (a_wp a0, a_fc a0, a_s a0).
Proof.
  intros HU I0 E0. unfold hyd_lookup.
  destruct (layer_vals_const a_wp rows r0 a0 HU I0 E0) as [N1 C1].
  destruct (layer_vals_const a_fc rows r0 a0 HU I0 E0) as [N2 C2].
  destruct (layer_vals_const a_s rows r0 a0 HU I0 E0) as [N3 C3].
  destruct (layer_vals a_wp (a_layer a0) rows) eqn:E; [contradiction|].
  rewrite (kahan_mean_const _ _ N1 C1), (kahan_mean_const _ _ N2 C2), (kahan_mean_const _ _ N3 C3). reflexivity.
Qed.

Lemma hyd_lookup_some rows L h : hyd_lookup rows L = Some h ->
  exists r a, In r rows /\ r_asg r = Some a /\ a_layer a = L.
Proof.
  unfold hyd_lookup. destruct (layer_vals a_wp L rows) as [|x l] eqn:E; [discriminate|]. intros _.
  assert (Hin : In x (layer_vals a_wp L rows)) by (rewrite E; left; reflexivity).
  unfold layer_vals in Hin. apply in_flat_map in Hin. destruct Hin as (r & Ir & Hv).
  destruct (r_asg r) as [a|] eqn:Ea; [|destruct Hv]. destruct (a_layer a =? L)%Z eqn:El; [|destruct Hv].
  apply Z.eqb_eq in El. eauto.
Qed.

(* SPECIFICATION.  What one entry (value v) asks for in a layer with assignment a *)
Definition requested (ty : WcType) (a : AsgR) (v : WcVal (F:=R)) : option R :=
  match ty, v with
  | TProp, VTok PSAT => Some (a_s a)
  | TProp, VTok PFC => Some (a_fc a)
  | TProp, VTok PWP => Some (a_wp a)
  | TProp, VTok POther => Some 0
  | TPct, VNum x => Some (a_wp a + x / 100 * (a_fc a - a_wp a))
  | TNum, VNum x => Some x
  | _, _ => None
  end.

Lemma point_value_requested ty a v x :
  point_value ty (a_wp a, a_fc a, a_s a) v = Some x -> requested ty a v = Some x.
Proof. unfold point_value, requested. destruct ty, v as [[]|]; rnum; auto; discriminate. Qed.

(* method Layer: the water content of a compartment whose layer has assignment a is the value requested by the LAST
   entry (d, v) whose layer number int(d) is that layer; [cur] (initially 0) when no entry names the layer *)
Fixpoint spec_layer_value (ty : WcType) (a : AsgR) (dl : list R) (vals : list (WcVal (F:=R))) (cur : R) : R :=
  match dl, vals with
  | d :: dl', v :: vals' =>
    spec_layer_value ty a dl' vals'
      (if (ntrunc num_ops d =? a_layer a)%Z then match requested ty a v with Some x => x | None => cur end else cur)
  | _, _ => cur
  end.

Lemma combine_map_snd {A B} (g : A * B -> B) (l : list A) : forall t : list B,
  combine l (map g (combine l t)) = map (fun rt => (fst rt, g rt)) (combine l t).
Proof. induction l as [|x l IH]; intros [|y t]; cbn; try reflexivity. f_equal. apply IH. Qed.

Lemma map_combine_snd_id (rows : list RowR) : forall th0 : list R, length th0 = length rows ->
  map (fun rt : RowR * R => match r_asg (fst rt) with Some a => snd rt | None => snd rt end) (combine rows th0) = th0.
Proof.
  induction rows as [|r rows IH]; intros [|t th0] H; cbn in *; try reflexivity; try discriminate.
  destruct (r_asg r); f_equal; apply IH; congruence.
Qed.

Lemma assign_layers_spec ty rows :
  uniform_layers rows -> Forall (fun r => exists a, r_asg r = Some a) rows ->
  forall dl vals values th0, length th0 = length rows -> iwc_values ty MLayer rows dl vals = Some values ->
  assign_layers rows th0 dl values =
  map (fun rt => match r_asg (fst rt) with Some a => spec_layer_value ty a dl vals (snd rt) | None => snd rt end)
      (combine rows th0).
Proof.
  intros HU HA dl. induction dl as [|d dl IH]; intros vals values th0 Hlen E.
  - destruct vals as [|v vals]; cbn in E; [inv E|discriminate]. cbn [assign_layers spec_layer_value].
    symmetry. apply map_combine_snd_id; exact Hlen.
  - destruct vals as [|v vals]; cbn in E.
    + inv E. cbn [assign_layers spec_layer_value]. symmetry. apply map_combine_snd_id; exact Hlen.
    + match type of E with match ?h with _ => _ end = _ => destruct h as [x|] eqn:Eh; [|discriminate] end.
      destruct (iwc_values ty MLayer rows dl vals) as [xs|] eqn:Ex; [|discriminate]. inv E.
      cbn [assign_layers]. rewrite (IH vals xs _); [| |exact Ex].
      2:{ rewrite map_length, combine_length, Hlen. apply Nat.min_id. }
      rewrite combine_map_snd, map_map.
      apply map_ext_in. intros [r t] Hin. cbn [fst snd].
      assert (Ir : In r rows) by (eapply in_combine_l; exact Hin).
      rewrite Forall_forall in HA. destruct (HA r Ir) as (a & Ea). rewrite Ea.
      unfold row_layer. rewrite Ea. cbn [spec_layer_value]. rewrite (Z.eqb_sym (ntrunc num_ops d)).
      destruct (a_layer a =? ntrunc num_ops d)%Z eqn:El; [|reflexivity]. apply Z.eqb_eq in El.
      (* the entry names this row's layer: the model's value is the requested one *)
      assert (Hreq : requested ty a v = Some x).
      { destruct ty.
        - unfold hyd_lookup_f in Eh. destruct (neqb _ _ _); [|discriminate].
          destruct (hyd_lookup rows (ntrunc num_ops d)) as [h|] eqn:Eh'; [|discriminate].
          rewrite <- El, (hyd_lookup_spec rows r a HU Ir Ea) in Eh'. inv Eh'. apply point_value_requested; exact Eh.
        - unfold hyd_lookup_f in Eh. destruct (neqb _ _ _); [|discriminate].
          destruct (hyd_lookup rows (ntrunc num_ops d)) as [h|] eqn:Eh'; [|discriminate].
          rewrite <- El, (hyd_lookup_spec rows r a HU Ir Ea) in Eh'. inv Eh'. apply point_value_requested; exact Eh.
        - destruct v; [discriminate|]. inv Eh. reflexivity. }
      rewrite Hreq. reflexivity.
Qed.

(* THEOREM 5, method Layer *)
Theorem iwc_layer_spec ty rows zs dl vals th :
  uniform_layers rows -> Forall (fun r => exists a, r_asg r = Some a) rows ->
  initial_wc ty MLayer rows zs dl vals = Some th ->
  th = map (fun r => match r_asg r with Some a => spec_layer_value ty a dl vals 0 | None => 0 end) rows.
Proof.
  intros HU HA. unfold initial_wc. destruct (iwc_values ty MLayer rows dl vals) as [values|] eqn:E; [|discriminate].
  intros H; inv H. rewrite (assign_layers_spec ty rows HU HA dl vals values _ (map_length _ _) E).
  clear. induction rows as [|r rows IH]; cbn [map combine fst snd]; [reflexivity|]. f_equal. exact IH.
Qed.

(* a layer that no entry names keeps the initial 0 — e.g. the default InitialWaterContent(depth_layer=[1], value=['FC'])
   on the two-layer built-in soils Paddy and ac_TunisLocal leaves layer 2 at th = 0 < th_dry *)
Lemma spec_layer_uncovered ty a : forall dl vals cur,
  Forall (fun d => ntrunc num_ops d <> a_layer a) dl -> spec_layer_value ty a dl vals cur = cur.
Proof.
  induction dl as [|d dl IH]; intros [|v vals] cur H; cbn [spec_layer_value]; try reflexivity.
  inv H. rewrite IH by assumption. destruct (Z.eqb_spec (ntrunc num_ops d) (a_layer a)); [contradiction|reflexivity].
Qed.

Theorem iwc_in_bounds_refuted ty rows zs dl vals th r a :
  uniform_layers rows -> Forall (fun r => exists a, r_asg r = Some a) rows ->
  initial_wc ty MLayer rows zs dl vals = Some th ->
  In r rows -> r_asg r = Some a -> 0 < a_dry a -> Forall (fun d => ntrunc num_ops d <> a_layer a) dl ->
  exists i, nth_error rows i = Some r /\ nth_error th i = Some 0 /\ ~ (a_dry a <= 0).
Proof.
  intros HU HA H Ir Ea Hdry Hun. rewrite (iwc_layer_spec _ _ _ _ _ _ HU HA H).
  destruct (In_nth_error _ _ Ir) as (i & Hi). exists i. split; [exact Hi|]. split; [|lra].
  rewrite nth_error_map, Hi. cbn. rewrite Ea, spec_layer_uncovered by exact Hun. reflexivity.
Qed.

Lemma spec_layer_bounds ty a lo hi : forall dl vals cur,
  (lo <= cur <= hi \/ Exists (fun dv => ntrunc num_ops (fst dv) = a_layer a) (combine dl vals)) ->
  Forall (fun v => exists x, requested ty a v = Some x /\ lo <= x <= hi) vals ->
  lo <= spec_layer_value ty a dl vals cur <= hi.
Proof.
  induction dl as [|d dl IH]; intros [|v vals] cur H HV; cbn [spec_layer_value combine] in *;
    try (destruct H as [H|H]; [exact H|inv H]).
  inv HV. destruct H2 as (x & Ex & Hx). rewrite Ex. apply IH; [|assumption].
  destruct (Z.eqb_spec (ntrunc num_ops d) (a_layer a)) as [El|El]; [left; exact Hx|].
  destruct H as [H|H]; [left; exact H|]. inv H; [cbn in H1; contradiction|right; assumption].
Qed.

Lemma in_bounds_of_rows (g : AsgR -> R) rows : forall p,
  to_comps rows = Some p ->
  (forall r a, In r rows -> r_asg r = Some a -> a_dry a <= g a <= a_s a) ->
  in_bounds p (map (fun r => match r_asg r with Some a => g a | None => 0 end) rows).
Proof.
  induction rows as [|r rows IH]; intros p; cbn.
  - intros E _; inv E. constructor.
  - destruct (to_comp r) as [c|] eqn:Ec; [|discriminate]. destruct (to_comps rows) as [cs|]; [|discriminate].
    intros E H; inv E. unfold to_comp in Ec. destruct (r_asg r) as [a|] eqn:Ea; [|discriminate]. inv Ec.
    constructor; [cbn; apply (H r a); auto|]. apply IH; [reflexivity|]. intros; eapply H; eauto.
Qed.

(* THEOREM 5, bounds (method Layer): when every layer of the profile is named by some entry and every requested value lies
   between wilting point and saturation, the initial water content is within [th_dry, th_s] *)
Theorem iwc_layer_in_bounds ty rows zs dl vals th p :
  uniform_layers rows -> rows_sat asg_ok rows -> to_comps rows = Some p ->
  initial_wc ty MLayer rows zs dl vals = Some th ->
  (forall r a, In r rows -> r_asg r = Some a ->
     Exists (fun dv => ntrunc num_ops (fst dv) = a_layer a) (combine dl vals) /\
     Forall (fun v => exists x, requested ty a v = Some x /\ a_wp a <= x <= a_s a) vals) ->
  in_bounds p th.
Proof.
  intros HU Hok Hp H Hreq.
  assert (HA : Forall (fun r => exists a, r_asg r = Some a) rows).
  { clear -Hp. revert p Hp. induction rows as [|r rows IH]; intros p Hp; [constructor|]. cbn in Hp.
    destruct (to_comp r) as [c|] eqn:Ec; [|discriminate]. destruct (to_comps rows) as [cs|] eqn:Ecs; [|discriminate].
    constructor; [|eapply IH; reflexivity]. unfold to_comp in Ec. destruct (r_asg r); [eauto|discriminate]. }
  rewrite (iwc_layer_spec _ _ _ _ _ _ HU HA H). apply in_bounds_of_rows; [exact Hp|].
  intros r a Ir Ea. destruct (Hreq r a Ir Ea) as [Hex Hv].
  unfold rows_sat in Hok. rewrite Forall_forall in Hok. specialize (Hok r Ir). rewrite Ea in Hok. destruct Hok.
  assert (Hb : a_wp a <= spec_layer_value ty a dl vals 0 <= a_s a) by (apply spec_layer_bounds; auto).
  lra.
Qed.

(* the usual requests are between wilting point and saturation *)
Definition good_val (ty : WcType) (v : WcVal (F:=R)) : Prop :=
  match ty, v with
  | TProp, VTok PSAT | TProp, VTok PFC | TProp, VTok PWP => True
  | TPct, VNum x => 0 <= x <= 100
  | _, _ => False
  end.

Lemma good_val_requested ty a v : asg_ok a -> good_val ty v ->
  exists x, requested ty a v = Some x /\ a_wp a <= x <= a_s a.
Proof.
  intros [] Hg. destruct ty, v as [[]|x]; cbn in Hg; try contradiction; cbn; eexists; (split; [reflexivity|]); try lra.
  assert (0 <= x / 100 * (a_fc a - a_wp a) <= 1 * (a_fc a - a_wp a)); [|lra].
  split; [apply Rmult_le_pos; lra | apply Rmult_le_compat_r; lra].
Qed.

(* --------------------------------------------------------------------------------------------
   method Depth.  SPECIFICATION (declarative): y is the piecewise-linear interpolation of the points [pts]
   (sorted by strictly increasing depth) at x, constant beyond the first and the last point *)
Definition consec (p q : R * R) (pts : list (R * R)) : Prop := exists l1 l2, pts = l1 ++ p :: q :: l2.

Definition is_interp (pts : list (R * R)) (x y : R) : Prop :=
  (exists p rest, pts = p :: rest /\ x <= fst p /\ y = snd p) \/
  (exists p front, pts = front ++ [p] /\ fst p <= x /\ y = snd p) \/
  (exists p q, consec p q pts /\ fst p <= x <= fst q /\ fst p < fst q /\
               y = snd p + (snd q - snd p) * (x - fst p) / (fst q - fst p)).

Definition increasing (xs : list R) : Prop := StronglySorted Rlt xs.

Lemma consec_cons p q e pts : consec p q pts -> consec p q (e :: pts).
Proof. intros (l1 & l2 & ->). exists (e :: l1), l2. reflexivity. Qed.

Lemma is_interp_cons e pts x y : pts <> [] -> fst e <= x ->
  ((exists p front, pts = front ++ [p] /\ fst p <= x /\ y = snd p) \/
   (exists p q, consec p q pts /\ fst p <= x <= fst q /\ fst p < fst q /\
                y = snd p + (snd q - snd p) * (x - fst p) / (fst q - fst p))) ->
  is_interp (e :: pts) x y.
Proof.
  intros HN He [(p & front & -> & H1 & H2)|(p & q & Hc & H1 & H2 & H3)].
  - right; left. exists p, (e :: front). repeat split; auto.
  - right; right. exists p, q. repeat split; try tauto. apply consec_cons; exact Hc.
Qed.

Lemma interp_seg_spec xs : forall ys x0 y0 x, x0 <= x -> increasing (x0 :: xs) -> length xs = length ys ->
  let y := interp_seg x x0 y0 xs ys in
  let pts := combine (x0 :: xs) (y0 :: ys) in
  (exists p front, pts = front ++ [p] /\ fst p <= x /\ y = snd p) \/
  (exists p q, consec p q pts /\ fst p <= x <= fst q /\ fst p < fst q /\
               y = snd p + (snd q - snd p) * (x - fst p) / (fst q - fst p)).
Proof.
  induction xs as [|x1 xs IH]; intros [|y1 ys] x0 y0 x Hx HS Hl; try discriminate; cbn [interp_seg combine].
  - left. exists (x0, y0), []. repeat split; auto.
  - inv HS. inv H2. rnum. destruct (Rleb_spec x1 x) as [H1x|H1x].
    + cbn in Hl. destruct (IH ys x1 y1 x H1x H1 ltac:(congruence)) as [(p & front & E & A & B)|(p & q & Hc & A & B & C)].
      * left. exists p, ((x0, y0) :: front). cbn [combine] in E. rewrite E. repeat split; auto.
      * right. exists p, q. repeat split; try tauto. apply consec_cons. exact Hc.
    + right. exists (x0, y0), (x1, y1). cbn [fst snd]. split; [exists [], (combine xs ys); reflexivity|].
      assert (x0 < x1) by lra. repeat split; try lra.
      destruct (Reqb_spec x0 x) as [->|Hne]; [field; lra | field; lra].
Qed.

Lemma last_F_last (xs : list R) : forall d, exists front, d :: xs = front ++ [last_F d xs].
Proof.
  induction xs as [|x xs IH]; intros d; cbn.
  - exists []. reflexivity.
  - destruct (IH x) as (front & E). exists (d :: front). rewrite E. reflexivity.
Qed.

Lemma combine_snoc (xs : list R) : forall (ys : list R) fx fy x y, length xs = length ys -> xs = fx ++ [x] -> ys = fy ++ [y] ->
  combine xs ys = combine fx fy ++ [(x, y)].
Proof.
  intros ys fx fy x y Hl -> ->. rewrite !app_length in Hl. cbn in Hl.
  assert (Hl' : length fx = length fy) by lia. clear Hl. revert fy Hl'.
  induction fx as [|a fx IH]; intros [|b fy] Hl'; try discriminate; cbn; [reflexivity|]. f_equal. apply IH. cbn in Hl'. lia.
Qed.

(* np.interp against the declarative specification *)
Lemma interp_spec x xs ys y : increasing xs -> length xs = length ys -> interp x xs ys = Some y ->
  is_interp (combine xs ys) x y.
Proof.
  intros HS Hl. unfold interp. destruct xs as [|x0 xs], ys as [|y0 ys]; try discriminate. cbn in Hl.
  rnum. destruct (Rltb_spec (last_F x0 xs) x) as [Hlast|Hlast].
  - intros E; injection E as <-. right; left.
    destruct (last_F_last xs x0) as (fx & Ex). destruct (last_F_last ys y0) as (fy & Ey).
    exists (last_F x0 xs, last_F y0 ys), (combine fx fy). split; [apply combine_snoc; auto; cbn; congruence|].
    cbn. split; [lra|reflexivity].
  - destruct (Rltb_spec x x0) as [H0|H0]; intros E; injection E as <-.
    + left. exists (x0, y0), (combine xs ys). repeat split; cbn; lra.
    + destruct (interp_seg_spec xs ys x0 y0 x ltac:(lra) HS ltac:(congruence)) as [H|H].
      * right; left. exact H.
      * right; right. exact H.
Qed.

(* the end points the code adds — (0, first value) when the first depth is positive, (zSoil, last value) when the last
   depth is above the profile bottom — do not change the interpolant *)
Lemma is_interp_prepend x0 d0 v0 pts x y : x0 < d0 ->
  is_interp ((x0, v0) :: (d0, v0) :: pts) x y -> is_interp ((d0, v0) :: pts) x y.
Proof.
  intros H0 [(p & rest & E & A & B)|[(p & front & E & A & B)|(p & q & (l1 & l2 & E) & A & B & C)]].
  - injection E as <- <-. cbn in *. left. exists (d0, v0), pts. repeat split; cbn; lra.
  - right; left. destruct front as [|f front]; [discriminate|]. cbn in E. injection E as <- E.
    exists p, front. repeat split; auto.
  - destruct l1 as [|e l1]; cbn in E.
    + injection E as <- <- <-. cbn in *. left. exists (d0, v0), pts. repeat split; cbn; [lra|]. subst y. field. lra.
    + injection E as <- E. right; right. exists p, q. repeat split; try tauto. exists l1, l2. exact E.
Qed.

Lemma is_interp_append pts dl vl zs x y : dl < zs ->
  is_interp ((pts ++ [(dl, vl)]) ++ [(zs, vl)]) x y -> is_interp (pts ++ [(dl, vl)]) x y.
Proof.
  intros Hz [(p & rest & E & A & B)|[(p & front & E & A & B)|(p & q & (l1 & l2 & E) & A & B & C)]].
  - left. destruct pts as [|e pts]; cbn in E.
    + injection E as <- _. exists (dl, vl), []. repeat split; auto.
    + injection E as <- _. exists e, (pts ++ [(dl, vl)]). repeat split; auto.
  - apply app_inj_tail in E. destruct E as [_ <-]. cbn in *. right; left. exists (dl, vl), pts. repeat split; cbn; lra.
  - induction l2 as [|e l2' _] using rev_ind.
    + (* the added segment is flat *)
      replace (l1 ++ [p; q]) with ((l1 ++ [p]) ++ [q]) in E by (rewrite <- app_assoc; reflexivity).
      apply app_inj_tail in E. destruct E as [E <-]. apply app_inj_tail in E. destruct E as [_ <-]. cbn in *.
      right; left. exists (dl, vl), pts. repeat split; cbn; [lra|]. subst y. field. lra.
    + replace (l1 ++ p :: q :: l2' ++ [e]) with ((l1 ++ p :: q :: l2') ++ [e]) in E by (rewrite <- app_assoc; reflexivity).
      apply app_inj_tail in E. destruct E as [E _].
      right; right. exists p, q. repeat split; try tauto. exists l1, l2'. exact E.
Qed.

(* mid-depths as the initial-water-content code recomputes them from dzsum *)
Fixpoint mids (top : R) (rows : list RowR) : list R :=
  match rows with [] => [] | r :: rest => (top + r_dzsum r) / 2 :: mids (r_dzsum r) rest end.

Lemma interp_rows_forall2 xs ys rows : forall top th, interp_rows top rows xs ys = Some th ->
  Forall2 (fun mid t => interp mid xs ys = Some t) (mids top rows) th.
Proof.
  induction rows as [|r rows IH]; intros top th; cbn.
  - intros E; inv E. constructor.
  - rnum. destruct (interp ((top + r_dzsum r) / 2) xs ys) as [t|] eqn:Et; [|discriminate].
    destruct (interp_rows (r_dzsum r) rows xs ys) as [ts|] eqn:Ets; [|discriminate]. intros E; inv E.
    constructor; [exact Et|apply IH; exact Ets].
Qed.

Lemma increasing_le_last l : forall d, increasing (d :: l) -> Forall (fun e => e <= last_F d l) (d :: l).
Proof.
  induction l as [|x l IH]; intros d H; cbn.
  - constructor; [lra|constructor].
  - inv H. pose proof (IH x H2) as Hx. constructor; [|exact Hx].
    inv H3. inv Hx. lra.
Qed.

Lemma increasing_snoc l z : increasing l -> Forall (fun e => e < z) l -> increasing (l ++ [z]).
Proof.
  induction 1 as [|x l HS IH HF]; intros Hz; cbn; [repeat constructor|].
  inv Hz. constructor; [apply IH; assumption|]. apply Forall_app; split; [exact HF|]. constructor; [lra|constructor].
Qed.

Lemma Forall2_imp {A B} (P Q : A -> B -> Prop) l1 l2 : (forall a b, P a b -> Q a b) -> Forall2 P l1 l2 -> Forall2 Q l1 l2.
Proof. intros H. induction 1; constructor; auto. Qed.

Lemma nat_eqb_len_true {A B} (a : list A) (b : list B) : nat_eqb_len a b = true -> length a = length b.
Proof. unfold nat_eqb_len. apply Nat.eqb_eq. Qed.

(* THEOREM 5, method Depth: the water content of every compartment is the piecewise-linear interpolation of the user's
   points (depth_i, value_i) at the compartment's mid-depth, constant beyond the first and the last point *)
Theorem iwc_depth_spec ty rows zs dl vals values th :
  increasing dl ->
  iwc_values ty MDepth rows dl vals = Some values ->
  initial_wc ty MDepth rows zs dl vals = Some th ->
  Forall2 (fun mid t => is_interp (combine dl values) mid t) (mids 0 rows) th.
Proof.
  intros Hinc Ev. unfold initial_wc. rewrite Ev.
  destruct dl as [|d0 dl']; [discriminate|]. destruct values as [|v0 values']; [discriminate|].
  destruct (nat_eqb_len (d0 :: dl') (v0 :: values')) eqn:El; [|discriminate]. cbn [negb].
  apply nat_eqb_len_true in El. rnum.
  set (xs1 := if Rltb 0 d0 then 0 :: d0 :: dl' else d0 :: dl').
  set (ys1 := if Rltb 0 d0 then v0 :: v0 :: values' else v0 :: values').
  assert (H1 : (if Rltb 0 d0 then (0 :: d0 :: dl', v0 :: v0 :: values') else (d0 :: dl', v0 :: values')) = (xs1, ys1))
    by (unfold xs1, ys1; destruct (Rltb 0 d0); reflexivity).
  rewrite H1. clear H1.
  assert (Hinc1 : increasing xs1).
  { unfold xs1. destruct (Rltb_spec 0 d0) as [H0|H0]; [|exact Hinc].
    constructor; [exact Hinc|]. constructor; [exact H0|]. inv Hinc. eapply Forall_impl; [|exact H3]. intros e He; cbn in He; lra. }
  assert (Hl1 : length xs1 = length ys1) by (unfold xs1, ys1; destruct (Rltb 0 d0); cbn in *; congruence).
  assert (Hstrip1 : forall x y, is_interp (combine xs1 ys1) x y -> is_interp (combine (d0 :: dl') (v0 :: values')) x y).
  { unfold xs1, ys1. destruct (Rltb_spec 0 d0) as [H0|H0]; [|auto]. intros x y. cbn [combine]. apply is_interp_prepend; exact H0. }
  assert (Hne : exists x1 xs1' y1 ys1', xs1 = x1 :: xs1' /\ ys1 = y1 :: ys1').
  { unfold xs1, ys1. destruct (Rltb 0 d0); repeat eexists. }
  destruct Hne as (x1 & xs1' & y1 & ys1' & Ex1 & Ey1).
  destruct (Rltb_spec (last_F 0 xs1) zs) as [Hz|Hz]; intros Hth; apply interp_rows_forall2 in Hth.
  - (* bottom point appended *)
    rewrite Ex1 in Hz. cbn [last_F] in Hz.
    destruct (last_F_last xs1' x1) as (fx & Efx). destruct (last_F_last ys1' y1) as (fy & Efy).
    assert (Hc : combine xs1 ys1 = combine fx fy ++ [(last_F x1 xs1', last_F y1 ys1')]).
    { apply combine_snoc; [exact Hl1| rewrite Ex1; exact Efx | rewrite Ey1; exact Efy]. }
    assert (Hc2 : combine (xs1 ++ [zs]) (ys1 ++ [last_F 0 ys1]) = combine xs1 ys1 ++ [(zs, last_F y1 ys1')]).
    { apply combine_snoc; [rewrite !app_length; cbn; lia|reflexivity|]. rewrite Ey1. reflexivity. }
    assert (Hinc2 : increasing (xs1 ++ [zs])).
    { apply increasing_snoc; [exact Hinc1|]. rewrite Ex1 in Hinc1 |- *. pose proof (increasing_le_last _ _ Hinc1) as Hle.
      eapply Forall_impl; [|exact Hle]. intros e He; cbn in He; lra. }
    eapply Forall2_imp; [|exact Hth]. intros mid t Hi. apply Hstrip1.
    apply interp_spec in Hi; [|exact Hinc2|rewrite !app_length; cbn; lia].
    rewrite Hc2, Hc in Hi. rewrite Hc. eapply is_interp_append; [exact Hz|exact Hi].
  - eapply Forall2_imp; [|exact Hth]. intros mid t Hi. apply Hstrip1. apply interp_spec in Hi; auto.
Qed.

(* ============================================================================================
   4. the deepening loop of read_model_parameters (as repaired by /repo commit 1d078f4: when no compartment is thinner
   than 0.25 m the bottom compartment keeps growing, so the loop always ends) *)
Lemma ltb_true_R (a b : R) : a < b -> nltb num_ops a b = true.
Proof. rnum. apply Rltb_true. Qed.
Lemma ltb_false_R (a b : R) : b <= a -> nltb num_ops a b = false.
Proof. rnum. apply Rltb_false. Qed.

(* when the loop ends the profile reaches at least Zmax + 0.1 (it ends strictly below the maximum rooting depth) *)
Theorem deepen_reaches fuel : forall zmax rows zs rows' zs',
  deepen fuel zmax rows zs = Some (rows', zs') -> zmax + 1 / 10 <= zs'.
Proof.
  induction fuel as [|f IH]; intros zmax rows zs rows' zs'; cbn [deepen]; [discriminate|].
  destruct (nltb num_ops zs _) eqn:Hz.
  - destruct (grow_step rows) as [r1|]; [|discriminate].
    destruct (fill_nan r1) as [[r2 z2]|]; [apply IH|discriminate].
  - intros E; inv E. revert Hz. rnum. destruct (Rltb_spec zs' (zmax + 1 / 10)); [discriminate|]. intros _. lra.
Qed.

(* what the loop never touches: the layer and its hydraulic properties — and zBot, z_top, zMid, which therefore no longer
   agree with dz/dzsum once a compartment has grown (they keep their create_df values) *)
Definition same_but_dz (r r' : RowR) : Prop :=
  r_asg r' = r_asg r /\ r_zbot r' = r_zbot r /\ r_ztop r' = r_ztop r /\ r_zmid r' = r_zmid r.

Lemma same_but_dz_refl rows : Forall2 same_but_dz rows rows.
Proof. induction rows; constructor; auto. repeat split. Qed.

Lemma same_but_dz_trans a b c : Forall2 same_but_dz a b -> Forall2 same_but_dz b c -> Forall2 same_but_dz a c.
Proof.
  intros H; revert c; induction H as [|x y a b (A1 & A2 & A3 & A4) _ IH]; intros c Hc; inv Hc; constructor; auto.
  destruct H1 as (B1 & B2 & B3 & B4). repeat split; congruence.
Qed.

Definition assigned (r : RowR) : Prop := exists a, r_asg r = Some a.

(* one pass of the for loop: the lowest compartment thinner than 0.25 m grows by 0.1 m ... *)
Lemma grow_last_spec rows :
  (Forall (fun r => 25 / 100 <= r_dz r) rows /\ grow_last rows = None) \/
  (exists l1 r l2, rows = l1 ++ r :: l2 /\ r_dz r < 25 / 100 /\ Forall (fun q => 25 / 100 <= r_dz q) l2 /\
                   grow_last rows = Some (l1 ++ set_dz r (r_dz r + 1 / 10) :: l2)).
Proof.
  induction rows as [|r rows IH]; [left; split; [constructor|reflexivity]|].
  cbn [grow_last]. destruct IH as [[HF ->]|(l1 & q & l2 & -> & Hq & Hl2 & ->)].
  - destruct (Rlt_dec (r_dz r) (25 / 100)) as [H|H].
    + right. exists [], r, rows. rewrite ltb_true_R by (rnum; exact H). repeat split; auto.
    + left. rewrite ltb_false_R by (rnum; lra). split; [constructor; [lra|exact HF]|reflexivity].
  - right. exists (r :: l1), q, l2. repeat split; auto.
Qed.

(* ... or, when there is none, the bottom compartment does *)
Lemma grow_bottom_spec rows : rows <> [] ->
  exists l1 r, rows = l1 ++ [r] /\ grow_bottom rows = Some (l1 ++ [set_dz r (r_dz r + 1 / 10)]).
Proof.
  induction rows as [|r rows IH]; intros HN; [contradiction|].
  destruct rows as [|r' rows].
  - exists [], r. split; reflexivity.
  - destruct (IH ltac:(discriminate)) as (l1 & q & E & Eg). exists (r :: l1), q. split; [cbn; rewrite E; reflexivity|].
    change (grow_bottom (r :: r' :: rows)) with (match grow_bottom (r' :: rows) with Some rest' => Some (r :: rest') | None => None end).
    rewrite Eg. reflexivity.
Qed.

(* in both cases exactly one compartment grows by 0.1 m *)
Lemma grow_step_spec rows : rows <> [] ->
  exists l1 r l2, rows = l1 ++ r :: l2 /\ grow_step rows = Some (l1 ++ set_dz r (r_dz r + 1 / 10) :: l2) /\
                  Forall (fun q => 25 / 100 <= r_dz q) l2 /\ (25 / 100 <= r_dz r -> l2 = []).
Proof.
  intros HN. unfold grow_step. destruct (grow_last_spec rows) as [[HF ->]|(l1 & r & l2 & -> & Hr & Hl2 & ->)].
  - destruct (grow_bottom_spec rows HN) as (l1 & r & -> & ->). exists l1, r, []. repeat split; auto.
  - exists l1, r, l2. repeat split; auto. intros; lra.
Qed.

Lemma same_but_dz_mid l1 r l2 d : Forall2 same_but_dz (l1 ++ r :: l2) (l1 ++ set_dz r d :: l2).
Proof.
  induction l1 as [|x l1 IH]; cbn.
  - constructor; [repeat split|apply same_but_dz_refl].
  - constructor; [repeat split|exact IH].
Qed.

Lemma redz_rows_same rows : forall acc, Forall2 same_but_dz rows (redz_rows acc rows).
Proof. induction rows as [|r rows IH]; intros acc; cbn; constructor; auto. repeat split. Qed.

Lemma same_assigned rows rows' : Forall2 same_but_dz rows rows' -> Forall assigned rows -> Forall assigned rows'.
Proof.
  induction 1 as [|r r' rows rows' (A & _) _ IH]; intros H; [constructor|]. inv H. constructor; [unfold assigned; rewrite A; assumption|auto].
Qed.

Lemma fill_nan_same rows rows' zs : Forall assigned rows -> fill_nan rows = Some (rows', zs) -> Forall2 same_but_dz rows rows'.
Proof.
  intros HA. unfold fill_nan. destruct (existsb _ _); [discriminate|]. intros E; inv E.
  rewrite (ffill_rows_assigned rows HA None). apply redz_rows_same.
Qed.

(* THEOREM 4a: layer properties are preserved by deepening (and zBot, z_top, zMid are left as they were) *)
Theorem deepen_preserves fuel : forall zmax rows zs rows' zs',
  Forall assigned rows -> deepen fuel zmax rows zs = Some (rows', zs') -> Forall2 same_but_dz rows rows'.
Proof.
  induction fuel as [|f IH]; intros zmax rows zs rows' zs' HA; cbn [deepen]; [discriminate|].
  match goal with |- context [if ?b then _ else _] => destruct b end.
  - destruct rows as [|r0 rows0]; [discriminate|].
    destruct (grow_step_spec (r0 :: rows0) ltac:(discriminate)) as (l1 & r & l2 & E & -> & _).
    destruct (fill_nan _) as [[r2 z2]|] eqn:E2; [|discriminate]. intros Ed. rewrite E in *.
    pose proof (same_but_dz_mid l1 r l2 (r_dz r + 1 / 10)) as S1. pose proof (same_assigned _ _ S1 HA) as HA1.
    pose proof (fill_nan_same _ _ _ HA1 E2) as S2. pose proof (same_assigned _ _ S2 HA1) as HA2.
    eapply same_but_dz_trans; [exact S1|]. eapply same_but_dz_trans; [exact S2|]. eapply IH; [exact HA2|exact Ed].
  - intros E; inv E. apply same_but_dz_refl.
Qed.

(* --------------------------------------------------------------------------------------------
   whole-centimetre profiles: every rounding in fill_nan is exact *)
Fixpoint sums_ok (top : R) (rows : list RowR) : Prop :=
  match rows with [] => True | r :: rest => r_dzsum r = top + r_dz r /\ sums_ok (r_dzsum r) rest end.

Lemma geom_sums top rows : geom_ok top rows -> sums_ok top rows.
Proof. revert top; induction rows as [|r rows IH]; intros top; cbn; [auto|]. intros (A & _ & _ & _ & G). split; auto. Qed.

Lemma cm_grow d : cm d -> cm (d + 1 / 10).
Proof. intros (k & Hk & ->). exists (k + 10)%Z. split; [lia|]. rewrite plus_IZR. lra. Qed.

Lemma redz_rows_cm rows : forall acc, cm0 acc -> Forall cm (map r_dz rows) ->
  map r_dz (redz_rows acc rows) = map r_dz rows /\ sums_ok acc (redz_rows acc rows).
Proof.
  induction rows as [|r rows IH]; intros acc Ha H; cbn; [split; [reflexivity|exact I]|]. cbn in H. inv H. rnum.
  rewrite (cm_round _ H2). pose proof (cm0_plus _ _ Ha H2) as Hs. rewrite (cm0_round _ Hs).
  destruct (IH (acc + r_dz r) Hs H3) as [E S]. split; [f_equal; exact E|]. split; [reflexivity|exact S].
Qed.

Lemma fill_nan_cm rows : Forall assigned rows -> Forall cm (map r_dz rows) ->
  exists rows', fill_nan rows = Some (rows', Rsum (map r_dz rows)) /\ map r_dz rows' = map r_dz rows /\
                Forall assigned rows' /\ sums_ok 0 rows'.
Proof.
  intros HA Hc. unfold fill_nan. rewrite (ffill_rows_assigned rows HA None).
  assert (H0 : cm0 (nofZ num_ops 0)) by exact cm0_0.
  destruct (redz_rows_cm rows (nofZ num_ops 0) H0 Hc) as [Hdz Hsum].
  assert (HA' : Forall assigned (redz_rows (nofZ num_ops 0) rows)).
  { eapply same_assigned; [apply redz_rows_same|exact HA]. }
  destruct (existsb is_unassigned (redz_rows (nofZ num_ops 0) rows)) eqn:Ee.
  - exfalso. apply existsb_exists in Ee. destruct Ee as (r & Ir & Hr). rewrite Forall_forall in HA'.
    destruct (HA' r Ir) as (a & Ea). unfold is_unassigned in Hr. rewrite Ea in Hr. discriminate.
  - eexists. split; [|split; [exact Hdz|split; [exact HA'|exact Hsum]]]. rewrite Hdz, pw_sum_sum. rnum.
    rewrite cm0_round; [reflexivity|]. apply Rsum_cm0; exact Hc.
Qed.

Lemma Rsum_mid a d b : Rsum (a ++ d :: b) = Rsum a + (d + Rsum b).
Proof. rewrite Rsum_app. reflexivity. Qed.

(* one iteration of the while loop *)
Lemma deepen_step_cm rows : rows <> [] -> Forall assigned rows -> Forall cm (map r_dz rows) ->
  exists r1 r2, grow_step rows = Some r1 /\ fill_nan r1 = Some (r2, Rsum (map r_dz r2)) /\ r2 <> [] /\
     Forall assigned r2 /\ Forall cm (map r_dz r2) /\ sums_ok 0 r2 /\ Rsum (map r_dz r2) = Rsum (map r_dz rows) + 1 / 10.
Proof.
  intros HN HA Hc. destruct (grow_step_spec rows HN) as (l1 & r & l2 & -> & Eg & _).
  set (r1 := l1 ++ set_dz r (r_dz r + 1 / 10) :: l2) in *.
  assert (HA1 : Forall assigned r1) by (eapply same_assigned; [apply same_but_dz_mid|exact HA]).
  assert (Hdz1 : map r_dz r1 = map r_dz l1 ++ (r_dz r + 1 / 10) :: map r_dz l2) by (unfold r1; rewrite map_app; reflexivity).
  rewrite map_app in Hc. cbn [map] in Hc. apply Forall_app in Hc. destruct Hc as [C1 C2]. inv C2.
  assert (Hc1 : Forall cm (map r_dz r1)).
  { rewrite Hdz1. apply Forall_app; split; [exact C1|]. constructor; [apply cm_grow; assumption|assumption]. }
  destruct (fill_nan_cm r1 HA1 Hc1) as (r2 & Ef & Hdz2 & HA2 & Hs2).
  exists r1, r2. rewrite Hdz2. repeat split; auto.
  - intros ->. destruct l1; discriminate.
  - rewrite Hdz1, map_app. cbn [map]. rewrite !Rsum_mid. lra.
Qed.

(* THEOREM 4b (termination, unconditional for whole-centimetre profiles): n iterations suffice as soon as
   n * 0.1 >= Zmax + 0.1 - zSoil; fuel n+1 because the last call only evaluates the loop condition *)
Theorem deepen_terminates zmax : forall n rows zs,
  rows <> [] -> Forall assigned rows -> Forall cm (map r_dz rows) -> zs = Rsum (map r_dz rows) ->
  zmax + 1 / 10 - zs <= INR n / 10 ->
  exists res, deepen (S n) zmax rows zs = Some res.
Proof.
  induction n as [|n IH]; intros rows zs HN HA Hc Hz Hn; cbn [deepen].
  - cbn in Hn. rewrite ltb_false_R by (rnum; lra). eauto.
  - destruct (Rlt_dec zs (zmax + 1 / 10)) as [H|H].
    + rewrite ltb_true_R by (rnum; exact H).
      destruct (deepen_step_cm rows HN HA Hc) as (r1 & r2 & -> & -> & HN2 & HA2 & Hc2 & _ & Hsum).
      apply IH; auto. rewrite Hsum, <- Hz. rewrite S_INR in Hn. lra.
    + rewrite ltb_false_R by (rnum; lra). eauto.
Qed.

(* THEOREM 4c: what IS true after deepening a whole-centimetre profile: thicknesses are still whole centimetres, dzsum is the
   running sum of the NEW thicknesses and zSoil their total *)
Theorem deepen_sums fuel : forall zmax rows zs rows' zs',
  rows <> [] -> Forall assigned rows -> Forall cm (map r_dz rows) -> sums_ok 0 rows -> zs = Rsum (map r_dz rows) ->
  deepen fuel zmax rows zs = Some (rows', zs') ->
  Forall cm (map r_dz rows') /\ sums_ok 0 rows' /\ zs' = Rsum (map r_dz rows') /\ Rsum (map r_dz rows) <= zs'.
Proof.
  induction fuel as [|f IH]; intros zmax rows zs rows' zs' HN HA Hc Hs Hz; cbn [deepen]; [discriminate|].
  match goal with |- context [if ?b then _ else _] => destruct b end.
  - destruct (deepen_step_cm rows HN HA Hc) as (r1 & r2 & -> & -> & HN2 & HA2 & Hc2 & Hs2 & Hsum). intros E.
    destruct (IH _ _ _ _ _ HN2 HA2 Hc2 Hs2 eq_refl E) as (A & B & C & D). repeat split; auto. lra.
  - intros E; inv E. repeat split; auto. lra.
Qed.

(* THEOREM 4d (open defect, refuted geometry): fill_nan recomputes dz, dzsum and zSoil but not zBot, z_top, zMid.  Whenever
   the loop runs at least once on a well-formed whole-centimetre profile, the bottom compartment ends with
   zBot = old profile depth < new profile depth = dzsum, so the geometry statement of C18 fails for the deepened profile *)
Lemma last_sums (rows : list RowR) : forall top d, sums_ok top rows -> rows <> [] ->
  r_dzsum (last rows d) = top + Rsum (map r_dz rows).
Proof.
  induction rows as [|r rows IH]; intros top d H HN; [contradiction|]. destruct H as [A S].
  destruct rows as [|r' rows]; [cbn; lra|].
  change (last (r :: r' :: rows) d) with (last (r' :: rows) d). rewrite (IH _ d S ltac:(discriminate)). cbn [map Rsum]. lra.
Qed.

Lemma last_zbot (rows : list RowR) : forall top d, geom_ok top rows -> rows <> [] ->
  r_zbot (last rows d) = top + Rsum (map r_dz rows).
Proof.
  induction rows as [|r rows IH]; intros top d H HN; [contradiction|]. destruct H as (A & B & _ & _ & G).
  destruct rows as [|r' rows]; [cbn; lra|].
  change (last (r :: r' :: rows) d) with (last (r' :: rows) d). rewrite (IH _ d G ltac:(discriminate)). cbn [map Rsum]. lra.
Qed.

Lemma last_same rows rows' d : Forall2 same_but_dz rows rows' -> r_zbot (last rows' d) = r_zbot (last rows d).
Proof.
  induction 1 as [|r r' rows rows' (_ & B & _) H IH]; [reflexivity|].
  destruct H as [|r2 r2' rows2 rows2' H2 H3]; [cbn; exact B|]. exact IH.
Qed.

Theorem deepen_geometry_refuted fuel zmax rows zs rows' zs' d :
  rows <> [] -> Forall assigned rows -> Forall cm (map r_dz rows) -> geom_ok 0 rows -> zs = Rsum (map r_dz rows) ->
  zs < zmax + 1 / 10 ->
  deepen fuel zmax rows zs = Some (rows', zs') ->
  r_zbot (last rows' d) = zs /\ r_dzsum (last rows' d) = zs' /\ zs < zs' /\ ~ geom_ok 0 rows'.
Proof.
  intros HN HA Hc Hg Hz Hlt Hd.
  pose proof (deepen_reaches _ _ _ _ _ _ Hd) as Hreach.
  pose proof (deepen_preserves _ _ _ _ _ _ HA Hd) as Hsame.
  destruct (deepen_sums _ _ _ _ _ _ HN HA Hc (geom_sums _ _ Hg) Hz Hd) as (Hc' & Hs' & Hz' & _).
  assert (HN' : rows' <> []) by (intros ->; inv Hsame; contradiction).
  assert (E1 : r_zbot (last rows' d) = zs).
  { rewrite (last_same _ _ d Hsame), (last_zbot _ 0 d Hg HN), Hz. lra. }
  assert (E2 : r_dzsum (last rows' d) = zs').
  { rewrite (last_sums _ 0 d Hs' HN'), Hz'. lra. }
  repeat split; auto; [lra|].
  intros Hg'. pose proof (last_zbot _ 0 d Hg' HN') as E3. rewrite E1, <- Hz' in E3. lra.
Qed.

(* ============================================================================================
   3. Saxton & Rawls pedotransfer: ordering of the derived water contents *)
Definition raw_wp sand clay om := fst (fst (fst (sr_raw (F:=R) sand clay om))).
Definition raw_fc sand clay om := snd (fst (fst (sr_raw (F:=R) sand clay om))).
Definition raw_s sand clay om := snd (fst (sr_raw (F:=R) sand clay om)).

Lemma le_shift a b c : c <= b - a -> a + c <= b.
Proof. lra. Qed.

Lemma rnd_dec_1000 x : rnd_dec 1000 x = Rround 3 x.
Proof. unfold rnd_dec. rnum. unfold Rround, pow10. simpl (IZR (10 ^ Z.max 3 0)). rewrite (Rmult_comm 1000 x). reflexivity. Qed.

Lemma rnd_dec_1000_err x : x - 5 / 10000 <= rnd_dec 1000 x <= x + 5 / 10000.
Proof.
  rewrite rnd_dec_1000. pose proof (Rround_err 3 x) as H.
  assert (E : pow10 3 = 1000) by (unfold pow10; simpl; lra). rewrite E in H.
  revert H. unfold Rabs. destruct (Rcase_abs _); lra.
Qed.

(* margins before rounding (to 3 decimals) carry over to the rounded values the layer receives *)
Lemma texture_from_margins sand clay om wp fc s ks :
  1 / 1000 <= raw_wp sand clay om -> raw_wp sand clay om + 2 / 1000 <= raw_fc sand clay om ->
  raw_fc sand clay om + 2 / 1000 <= raw_s sand clay om ->
  texture_props sand clay om = Some (wp, fc, s, ks) -> 0 < wp /\ wp < fc /\ fc < s.
Proof.
  unfold raw_wp, raw_fc, raw_s, texture_props. destruct (sr_raw sand clay om) as [[[a b] c] d]. cbn [fst snd].
  intros H1 H2 H3. destruct (nfinite d); [|discriminate]. intros E. inv E.
  pose proof (rnd_dec_1000_err a). pose proof (rnd_dec_1000_err b). pose proof (rnd_dec_1000_err c).
  unfold rnd_dec in *. rnum. lra.
Qed.

Ltac tex_box sand clay om d := intros Hs Hc Ho; unfold raw_wp, raw_fc, raw_s, sr_raw; cbn [fst snd]; rnum; try apply le_shift;
  interval with (i_bisect sand, i_bisect clay, i_bisect om, i_depth d).

(* sub-boxes of the calibrated range (sand, clay in %, organic matter in %w) on which the margins hold; proved by interval
   arithmetic with bisection *)
Definition tex_box1 sand clay om := 0 <= sand <= 50 /\ 0 <= clay <= 50 /\ 0 <= om <= 8.
Definition tex_box2 sand clay om := 50 <= sand <= 90 /\ 4 <= clay <= 10 /\ 0 <= om <= 8.
Definition tex_box3 sand clay om := 50 <= sand <= 80 /\ 10 <= clay <= 20 /\ 0 <= om <= 8.
Definition tex_box4 sand clay om := 50 <= sand <= 60 /\ 20 <= clay <= 40 /\ 0 <= om <= 8.
Definition tex_box5 sand clay om := 0 <= sand <= 40 /\ 50 <= clay <= 60 /\ 0 <= om <= 3.

Lemma box1_wp sand clay om : 0 <= sand <= 50 -> 0 <= clay <= 50 -> 0 <= om <= 8 -> 1 / 1000 <= raw_wp sand clay om.
Proof. tex_box sand clay om 21%nat. Qed.
Lemma box1_fc sand clay om : 0 <= sand <= 50 -> 0 <= clay <= 50 -> 0 <= om <= 8 -> raw_wp sand clay om + 2 / 1000 <= raw_fc sand clay om.
Proof. tex_box sand clay om 21%nat. Qed.
Lemma box1_s sand clay om : 0 <= sand <= 50 -> 0 <= clay <= 50 -> 0 <= om <= 8 -> raw_fc sand clay om + 2 / 1000 <= raw_s sand clay om.
Proof. tex_box sand clay om 24%nat. Qed.
Lemma box2_wp sand clay om : 50 <= sand <= 90 -> 4 <= clay <= 10 -> 0 <= om <= 8 -> 1 / 1000 <= raw_wp sand clay om.
Proof. tex_box sand clay om 21%nat. Qed.
Lemma box2_fc sand clay om : 50 <= sand <= 90 -> 4 <= clay <= 10 -> 0 <= om <= 8 -> raw_wp sand clay om + 2 / 1000 <= raw_fc sand clay om.
Proof. tex_box sand clay om 21%nat. Qed.
Lemma box2_s sand clay om : 50 <= sand <= 90 -> 4 <= clay <= 10 -> 0 <= om <= 8 -> raw_fc sand clay om + 2 / 1000 <= raw_s sand clay om.
Proof. tex_box sand clay om 24%nat. Qed.
Lemma box3_wp sand clay om : 50 <= sand <= 80 -> 10 <= clay <= 20 -> 0 <= om <= 8 -> 1 / 1000 <= raw_wp sand clay om.
Proof. tex_box sand clay om 21%nat. Qed.
Lemma box3_fc sand clay om : 50 <= sand <= 80 -> 10 <= clay <= 20 -> 0 <= om <= 8 -> raw_wp sand clay om + 2 / 1000 <= raw_fc sand clay om.
Proof. tex_box sand clay om 21%nat. Qed.
Lemma box3_s sand clay om : 50 <= sand <= 80 -> 10 <= clay <= 20 -> 0 <= om <= 8 -> raw_fc sand clay om + 2 / 1000 <= raw_s sand clay om.
Proof. tex_box sand clay om 24%nat. Qed.
Lemma box4_wp sand clay om : 50 <= sand <= 60 -> 20 <= clay <= 40 -> 0 <= om <= 8 -> 1 / 1000 <= raw_wp sand clay om.
Proof. tex_box sand clay om 21%nat. Qed.
Lemma box4_fc sand clay om : 50 <= sand <= 60 -> 20 <= clay <= 40 -> 0 <= om <= 8 -> raw_wp sand clay om + 2 / 1000 <= raw_fc sand clay om.
Proof. tex_box sand clay om 21%nat. Qed.
Lemma box4_s sand clay om : 50 <= sand <= 60 -> 20 <= clay <= 40 -> 0 <= om <= 8 -> raw_fc sand clay om + 2 / 1000 <= raw_s sand clay om.
Proof. tex_box sand clay om 24%nat. Qed.
Lemma box5_wp sand clay om : 0 <= sand <= 40 -> 50 <= clay <= 60 -> 0 <= om <= 3 -> 1 / 1000 <= raw_wp sand clay om.
Proof. tex_box sand clay om 21%nat. Qed.
Lemma box5_fc sand clay om : 0 <= sand <= 40 -> 50 <= clay <= 60 -> 0 <= om <= 3 -> raw_wp sand clay om + 2 / 1000 <= raw_fc sand clay om.
Proof. tex_box sand clay om 21%nat. Qed.
Lemma box5_s sand clay om : 0 <= sand <= 40 -> 50 <= clay <= 60 -> 0 <= om <= 3 -> raw_fc sand clay om + 2 / 1000 <= raw_s sand clay om.
Proof. tex_box sand clay om 30%nat. Qed.

(* THEOREM 3 (partial): wp < fc < s on five sub-boxes of the calibrated range.
   The full statement — for all 0 <= sand, 0 <= clay <= 60, sand + clay <= 100, 0 <= om <= 8 — is FALSE, see
   [texture_ordered_refuted] below; not covered here: sand > 90 %, and the strips clay < 4 % with sand > 50 %,
   clay > 50 % with om > 3 %, sand + clay close to 100 with sand > 60 %. *)
Theorem texture_ordered_partial sand clay om wp fc s ks :
  tex_box1 sand clay om \/ tex_box2 sand clay om \/ tex_box3 sand clay om \/ tex_box4 sand clay om \/ tex_box5 sand clay om ->
  texture_props sand clay om = Some (wp, fc, s, ks) -> 0 < wp /\ wp < fc /\ fc < s.
Proof.
  intros [(A & B & C)|[(A & B & C)|[(A & B & C)|[(A & B & C)|(A & B & C)]]]]; apply texture_from_margins.
  - apply box1_wp; assumption. - apply box1_fc; assumption. - apply box1_s; assumption.
  - apply box2_wp; assumption. - apply box2_fc; assumption. - apply box2_s; assumption.
  - apply box3_wp; assumption. - apply box3_fc; assumption. - apply box3_s; assumption.
  - apply box4_wp; assumption. - apply box4_fc; assumption. - apply box4_s; assumption.
  - apply box5_wp; assumption. - apply box5_fc; assumption. - apply box5_s; assumption.
Qed.

(* the calibrated range contains textures for which the pedotransfer yields a negative wilting point (pure sand) or a
   saturation below field capacity (40 % sand, 60 % clay, 8 % organic matter); in the code np.log / ** then produce NaN and
   round() raises ValueError *)
Theorem texture_ordered_refuted :
  raw_wp 100 0 0 < 0 /\ raw_s 40 60 8 < raw_fc 40 60 8.
Proof.
  split.
  - unfold raw_wp, sr_raw. cbn [fst snd]. rnum. interval.
  - unfold raw_s, raw_fc, sr_raw. cbn [fst snd]. rnum. apply Rminus_lt. interval.
Qed.

(* ============================================================================================
   Examples: the hypotheses of the main theorems are satisfiable; concrete instances of finding 9 *)
Definition ex_layer : SpecR :=
  {| ls_thick := 2 / 10; ls_wp := 1 / 10; ls_fc := 22 / 100; ls_s := 41 / 100; ls_ksat := 1200; ls_pen := 100 |}.   (* SandyLoam *)
Definition ex_row (d s : R) : RowR :=
  {| r_dz := d; r_dzsum := s; r_zbot := s; r_ztop := s - d; r_zmid := (s - d + s) / 2; r_asg := Some (mk_asg 1 ex_layer) |}.

Lemma rr_a : Rround 2 (0 + 1 / 10) = 1 / 10.
Proof. replace (0 + 1 / 10) with (IZR 10 / 100) by lra. rewrite Rround2_cm. lra. Qed.
Lemma rr_b : Rround 2 (1 / 10) = 1 / 10.
Proof. replace (1 / 10) with (IZR 10 / 100) by lra. rewrite Rround2_cm. lra. Qed.
Lemma rr_c : Rround 2 (0 + 1 / 10 + 1 / 10) = 2 / 10.
Proof. replace (0 + 1 / 10 + 1 / 10) with (IZR 20 / 100) by lra. rewrite Rround2_cm. lra. Qed.
Lemma rr_d : Rround 2 (2 / 10) = 2 / 10.
Proof. replace (2 / 10) with (IZR 20 / 100) by lra. rewrite Rround2_cm. lra. Qed.

(* a two-compartment SandyLoam profile is built, so build_ordered / build_wf / build_wf_geometry / build_layers_contiguous
   apply to it *)
Example build_ex : exists p, build_profile [1 / 10; 1 / 10] [ex_layer] = Some p /\ wf_prof p /\ length p = 2%nat.
Proof.
  assert (E : exists p, build_profile [1 / 10; 1 / 10] [ex_layer] = Some p /\ length p = 2%nat).
  { unfold build_profile, build_rows, create_df, add_layers, add_layer, fill_nan. cbn [create_rows max_layer fold_left r_asg].
    cbn [Z.add Z.eqb Pos.eqb Pos.add Pos.succ]. cbn [ex_layer ls_ksat ls_thick]. rnum.
    rewrite (Rltb_false 1200 0) by lra. cbn [map r_dzsum]. rewrite rr_a, rr_c, !rr_b, !rr_d.
    rewrite (Rleb_true (1 / 10) (2 / 10)) by lra. rewrite (Rleb_true (2 / 10) (2 / 10)) by lra.
    cbn [ffill_rows redz_rows set_asg r_asg r_dz set_dz_dzsum existsb is_unassigned orb]. rnum.
    cbn [to_comps to_comp map r_asg]. eexists. split; [reflexivity|reflexivity]. }
  destruct E as (p & E & L). exists p. repeat split; auto.
  eapply build_wf; [| |exact E].
  - repeat constructor; exists 10%Z; (split; [lia|lra]).
  - repeat constructor; cbn; lra.
Qed.

Example geometry_ex rows zs : build_rows [1 / 10; 1 / 10] [ex_layer] = Some (rows, zs) ->
  zs = 2 / 10 /\ exists n, blocks (from_spec [ex_layer]) 0 n rows.
Proof.
  intros H. split.
  - assert (Hc : Forall cm [1 / 10; 1 / 10]) by (repeat constructor; exists 10%Z; (split; [lia|lra])).
    destruct (build_wf_geometry _ _ _ _ Hc H) as (_ & _ & ->). cbn. lra.
  - assert (Hp : Forall (fun d => 0 <= d) [1 / 10; 1 / 10]) by (repeat constructor; lra).
    destruct (build_layers_contiguous _ _ _ _ Hp H) as (n & Hn & _). exists n; exact Hn.
Qed.

Definition ex_rows12 : list RowR :=
  [ex_row (1 / 10) (1 / 10); ex_row (1 / 10) (2 / 10); ex_row (1 / 10) (3 / 10); ex_row (1 / 10) (4 / 10);
   ex_row (1 / 10) (5 / 10); ex_row (1 / 10) (6 / 10); ex_row (1 / 10) (7 / 10); ex_row (1 / 10) (8 / 10);
   ex_row (1 / 10) (9 / 10); ex_row (1 / 10) (10 / 10); ex_row (1 / 10) (11 / 10); ex_row (1 / 10) (12 / 10)].

Lemma ex_rows12_ok : ex_rows12 <> [] /\ Forall assigned ex_rows12 /\ Forall cm (map r_dz ex_rows12) /\ geom_ok 0 ex_rows12 /\
                     12 / 10 = Rsum (map r_dz ex_rows12).
Proof.
  split; [discriminate|]. split; [repeat constructor; eexists; reflexivity|].
  split; [repeat constructor; exists 10%Z; (split; [lia|cbn; lra])|]. split; [cbn; repeat split; lra|cbn; lra].
Qed.

(* the default SandyLoam profile (12 x 0.1 m) under Maize (Zmax = 2.3 m): the loop terminates (12 iterations suffice) ... *)
Example deepen_terminates_ex : exists res, deepen 13 (23 / 10) ex_rows12 (12 / 10) = Some res.
Proof.
  destruct ex_rows12_ok as (A & B & C & _ & E). apply deepen_terminates; auto. simpl INR. lra.
Qed.

(* ... and the result is the witness of the open geometry defect: the profile is now at least 2.4 m deep (zSoil, last dzsum)
   while the bottom compartment still says zBot = 1.2 m *)
Example deepen_geometry_refuted_ex : exists rows' zs',
  deepen 13 (23 / 10) ex_rows12 (12 / 10) = Some (rows', zs') /\
  24 / 10 <= zs' /\ r_dzsum (last rows' (ex_row 0 0)) = zs' /\ r_zbot (last rows' (ex_row 0 0)) = 12 / 10 /\ ~ geom_ok 0 rows'.
Proof.
  destruct deepen_terminates_ex as ([rows' zs'] & Hd). exists rows', zs'. split; [exact Hd|].
  destruct ex_rows12_ok as (A & B & C & G & E).
  assert (Hlt : 12 / 10 < 23 / 10 + 1 / 10) by lra.
  destruct (deepen_geometry_refuted 13 (23 / 10) ex_rows12 (12 / 10) rows' zs' (ex_row 0 0) A B C G E Hlt Hd) as (H1 & H2 & H3 & H4).
  pose proof (deepen_reaches _ _ _ _ _ _ Hd) as Hr.
  split; [lra|]. split; [exact H2|]. split; [exact H1|exact H4].
Qed.

(* the former finding 9 (dz = [0.3]*4 under Maize looped for ever): with the repaired loop it terminates *)
Example deepen_former_hang_ex : exists res,
  deepen 13 (23 / 10) [ex_row (3 / 10) (3 / 10); ex_row (3 / 10) (6 / 10); ex_row (3 / 10) (9 / 10); ex_row (3 / 10) (12 / 10)]
         (12 / 10) = Some res.
Proof.
  apply deepen_terminates.
  - discriminate.
  - repeat constructor; eexists; reflexivity.
  - repeat constructor; exists 30%Z; (split; [lia|cbn; lra]).
  - cbn. lra.
  - simpl INR. lra.
Qed.

(* the pedotransfer boxes are inhabited: a loam (40 % sand, 20 % clay, 2.5 % organic matter) *)
Example texture_ex wp fc s ks : texture_props 40 20 (25 / 10) = Some (wp, fc, s, ks) -> 0 < wp /\ wp < fc /\ fc < s.
Proof. apply texture_ordered_partial. left. unfold tex_box1. lra. Qed.

(* initial water content: the hypotheses of iwc_layer_spec / iwc_layer_in_bounds / iwc_depth_spec are satisfiable *)
Definition ex_rows2 : list RowR := [ex_row (1 / 10) (1 / 10); ex_row (1 / 10) (2 / 10)].

Lemma ex_rows2_uniform : uniform_layers ex_rows2 /\ Forall (fun r => exists a, r_asg r = Some a) ex_rows2.
Proof.
  split.
  - intros r1 r2 a1 a2 I1 I2 E1 E2 _. cbn in I1, I2.
    destruct I1 as [<-|[<-|[]]], I2 as [<-|[<-|[]]]; cbn in E1, E2; congruence.
  - repeat constructor; eexists; reflexivity.
Qed.

Example iwc_layer_ex : exists th, initial_wc TNum MLayer ex_rows2 (2 / 10) [1] [VNum (3 / 10)] = Some th /\ th = [3 / 10; 3 / 10].
Proof.
  destruct ex_rows2_uniform as [HU HA].
  assert (E : exists th, initial_wc TNum MLayer ex_rows2 (2 / 10) [1] [VNum (3 / 10)] = Some th) by (cbn; eauto).
  destruct E as (th & E). exists th. split; [exact E|].
  rewrite (iwc_layer_spec _ _ _ _ _ _ HU HA E). cbn [map ex_rows2 ex_row r_asg spec_layer_value requested mk_asg a_layer].
  rnum. change (Flocq.Core.Raux.Ztrunc 1) with (Flocq.Core.Raux.Ztrunc (IZR 1)). rewrite Flocq.Core.Raux.Ztrunc_IZR. reflexivity.
Qed.

Example iwc_depth_ex : exists values th,
  increasing [5 / 100; 15 / 100] /\
  iwc_values TNum MDepth ex_rows2 [5 / 100; 15 / 100] [VNum (2 / 10); VNum (3 / 10)] = Some values /\
  initial_wc TNum MDepth ex_rows2 (2 / 10) [5 / 100; 15 / 100] [VNum (2 / 10); VNum (3 / 10)] = Some th.
Proof.
  exists [2 / 10; 3 / 10]. 
  assert (Hi : increasing [5 / 100; 15 / 100]) by (repeat constructor; lra).
  assert (Hv : iwc_values TNum MDepth ex_rows2 [5 / 100; 15 / 100] [VNum (2 / 10); VNum (3 / 10)] = Some [2 / 10; 3 / 10]) by reflexivity.
  unfold initial_wc. rewrite Hv. cbn [nat_eqb_len length Nat.eqb negb]. rnum.
  rewrite (Rltb_true 0 (5 / 100)) by lra. cbn [last_F]. rewrite (Rltb_true (15 / 100) (2 / 10)) by lra.
  cbn [app last_F interp_rows ex_rows2 ex_row r_dzsum interp last_F]. rnum.
  rewrite (Rltb_false (2 / 10) ((0 + 1 / 10) / 2)) by lra. rewrite (Rltb_false ((0 + 1 / 10) / 2) 0) by lra.
  rewrite (Rltb_false (2 / 10) ((1 / 10 + 2 / 10) / 2)) by lra. rewrite (Rltb_false ((1 / 10 + 2 / 10) / 2) 0) by lra.
  eexists. split; [exact Hi|]. split; reflexivity.
Qed.
