(* SoilBuildR.v — theorems about Init/SoilBuild.v at the real instance (exact arithmetic).
   C18: the profile is built as specified (ordering of the hydraulic values, geometry, contiguous layers),
   the deepening loop (and its non-termination, finding 9), the initial water content. *)
From AC Require Import Num RInst Params.
From AC.proofs Require Import ProfR.
From AC.Init Require Import SoilBuild.
From Coq Require Import Sorting.Sorted.
Local Open Scope R_scope.

Ltac inv H := inversion H; subst; clear H.
Notation RowR := (Row (F:=R)).
Notation AsgR := (Asg (F:=R)).
Notation SpecR := (LayerSpec (F:=R)).

(* ============================================================================================
   0. small facts *)
Lemma pow10_2 : pow10 2 = 100.
Proof. unfold pow10. simpl. lra. Qed.

Lemma Rround2_cm k : Rround 2 (IZR k / 100) = IZR k / 100.
Proof. rewrite <- pow10_2. apply Rround_IZR. Qed.

Lemma Rround2_nonneg x : 0 <= x -> 0 <= Rround 2 x.
Proof.
  intros H. replace 0 with (Rround 2 (IZR 0 / 100)).
  - apply Rround_mono. lra.
  - rewrite Rround2_cm. lra.
Qed.

(* ============================================================================================
   2. ordering of the hydraulic values: needs nothing about dz *)
Definition valid_layer (L : SpecR) : Prop :=
  0 < ls_wp L /\ ls_wp L < ls_fc L /\ ls_fc L <= ls_s L /\ 0 <= ls_ksat L.

Record asg_ok (a : AsgR) : Prop := {
  ao_dry : a_dry a = a_wp a / 2;
  ao_wp : 0 < a_wp a;
  ao_wp_fc : a_wp a < a_fc a;
  ao_fc_s : a_fc a <= a_s a;
  ao_tau : 0 <= a_tau a <= 1;
  ao_ksat : 0 <= a_ksat a }.

Lemma tau_of_range ks : 0 <= tau_of ks <= 1.
Proof. unfold tau_of. rnum. rcases; lra. Qed.

Lemma mk_asg_ok k L : valid_layer L -> asg_ok (mk_asg k L).
Proof.
  intros (H1 & H2 & H3 & H4). constructor; cbn; rnum; try lra. apply tau_of_range.
Qed.

(* a property of every assigned cell *)
Definition rows_sat (P : AsgR -> Prop) (rows : list RowR) : Prop :=
  Forall (fun r => match r_asg r with Some a => P a | None => True end) rows.

Lemma create_rows_unassigned acc dz : Forall (fun r => r_asg r = None) (create_rows acc dz).
Proof. revert acc; induction dz as [|d dz IH]; intros acc; cbn; constructor; auto. Qed.

Lemma create_df_sat (P : AsgR -> Prop) dz : rows_sat P (create_df dz).
Proof.
  unfold rows_sat, create_df. eapply Forall_impl; [|apply create_rows_unassigned].
  intros r H; rewrite H; exact I.
Qed.

Lemma map_cond_sat (P : AsgR -> Prop) (test : RowR -> bool) a rows :
  P a -> rows_sat P rows ->
  rows_sat P (map (fun r => if test r then set_asg r (Some a) else r) rows).
Proof.
  intros Ha H. unfold rows_sat in *. rewrite Forall_map. eapply Forall_impl; [|exact H].
  intros r Hr. cbv beta. destruct (test r); [cbn; exact Ha | exact Hr].
Qed.

Lemma add_layer_sat (P : AsgR -> Prop) rows L rows' :
  (forall k, P (mk_asg k L)) -> rows_sat P rows -> add_layer rows L = Some rows' -> rows_sat P rows'.
Proof.
  intros HP H. unfold add_layer.
  destruct (nltb _ _ _); [discriminate|].
  destruct (_ =? 1)%Z.
  - intros E; inv E. apply map_cond_sat; auto.
  - destruct (last_dzsum _ _); [|discriminate]. intros E; inv E. apply map_cond_sat; auto.
Qed.

Lemma add_layers_sat (P : AsgR -> Prop) Ls : forall rows rows',
  (forall L k, In L Ls -> P (mk_asg k L)) -> rows_sat P rows -> add_layers rows Ls = Some rows' -> rows_sat P rows'.
Proof.
  induction Ls as [|L Ls IH]; intros rows rows' HP H; cbn.
  - intros E; inv E; exact H.
  - destruct (add_layer rows L) as [r1|] eqn:E1; [|discriminate]. intros E.
    eapply IH; [| |exact E].
    + intros; apply HP; right; assumption.
    + eapply add_layer_sat; [|exact H|exact E1]. intros; apply HP; left; reflexivity.
Qed.

Lemma ffill_rows_sat (P : AsgR -> Prop) rows : forall last,
  match last with Some a => P a | None => True end -> rows_sat P rows -> rows_sat P (ffill_rows last rows).
Proof.
  induction rows as [|r rows IH]; intros last Hl H; cbn; [constructor|].
  inv H. destruct (r_asg r) as [a|] eqn:E.
  - constructor; [cbn; exact H2 | apply IH; auto].
  - constructor; [cbn; exact Hl | apply IH; auto].
Qed.

Lemma redz_rows_asg rows : forall acc, map r_asg (redz_rows acc rows) = map r_asg rows.
Proof. induction rows as [|r rows IH]; intros acc; cbn; [reflexivity| f_equal; apply IH]. Qed.

Lemma rows_sat_asg (P : AsgR -> Prop) rows rows' : map r_asg rows' = map r_asg rows -> rows_sat P rows -> rows_sat P rows'.
Proof.
  revert rows'; induction rows as [|r rows IH]; intros [|r' rows'] E H; try discriminate; [constructor|].
  cbn in E. inv E. inv H. constructor; [rewrite H1; exact H4 | apply IH; auto].
Qed.

Lemma fill_nan_sat (P : AsgR -> Prop) rows rows' zs : rows_sat P rows -> fill_nan rows = Some (rows', zs) -> rows_sat P rows'.
Proof.
  intros H. unfold fill_nan. destruct (existsb _ _); [discriminate|]. intros E; inv E.
  eapply rows_sat_asg; [apply redz_rows_asg|]. apply ffill_rows_sat; [exact I|exact H].
Qed.

Lemma fill_nan_assigned rows rows' zs :
  fill_nan rows = Some (rows', zs) -> Forall (fun r => exists a, r_asg r = Some a) rows'.
Proof.
  unfold fill_nan. destruct (existsb _ _) eqn:E; [discriminate|]. intros H; inv H.
  apply Forall_forall. intros r Hr.
  destruct (r_asg r) as [a|] eqn:Ea; [eauto|].
  assert (existsb is_unassigned (redz_rows (nofZ num_ops 0) (ffill_rows None rows)) = true).
  { apply existsb_exists. exists r; split; [exact Hr|]. unfold is_unassigned. rewrite Ea. reflexivity. }
  congruence.
Qed.

Lemma build_rows_sat (P : AsgR -> Prop) dz layers rows zs :
  (forall L k, In L layers -> P (mk_asg k L)) -> build_rows dz layers = Some (rows, zs) -> rows_sat P rows.
Proof.
  intros HP. unfold build_rows. destruct (add_layers _ _) as [r1|] eqn:E; [|discriminate].
  intros H. eapply fill_nan_sat; [|exact H]. eapply add_layers_sat; [exact HP| |exact E]. apply create_df_sat.
Qed.

(* the ordering in the form the processes use it (Comp records) *)
Record comp_ordered (c : Comp R) : Prop := {
  co_dry : c_th_dry c = c_th_wp c / 2;
  co_dry_pos : 0 < c_th_dry c;
  co_dry_wp : c_th_dry c < c_th_wp c;
  co_wp_fc : c_th_wp c < c_th_fc c;
  co_fc_s : c_th_fc c <= c_th_s c;
  co_tau : 0 <= c_tau c <= 1;
  co_ksat : 0 <= c_ksat c }.

Lemma to_comps_forall (Q : Comp R -> Prop) (P : AsgR -> Prop) rows p :
  (forall r a c, r_asg r = Some a -> P a -> to_comp r = Some c -> Q c) ->
  rows_sat P rows -> to_comps rows = Some p -> Forall Q p.
Proof.
  intros HQ. revert p; induction rows as [|r rows IH]; intros p H; cbn.
  - intros E; inv E; constructor.
  - inv H. destruct (to_comp r) as [c|] eqn:Ec; [|discriminate].
    destruct (to_comps rows) as [cs|]; [|discriminate]. intros E; inv E.
    constructor; [|apply IH; auto].
    unfold to_comp in Ec. destruct (r_asg r) as [a|] eqn:Ea; [|discriminate].
    eapply HQ; [exact Ea | exact H2 | unfold to_comp; rewrite Ea; exact Ec].
Qed.

(* THEOREM 2 *)
Theorem build_ordered dz layers p :
  Forall valid_layer layers -> build_profile dz layers = Some p -> Forall comp_ordered p.
Proof.
  intros Hv. unfold build_profile. destruct (build_rows dz layers) as [[rows zs]|] eqn:E; [|discriminate].
  apply (to_comps_forall comp_ordered asg_ok).
  - intros r a c Ea Ha Ec. unfold to_comp in Ec. rewrite Ea in Ec. inv Ec.
    destruct Ha. constructor; cbn; try lra; try assumption.
  - eapply build_rows_sat; [|exact E]. intros L k HL. apply mk_asg_ok.
    rewrite Forall_forall in Hv; auto.
Qed.

(* when is tau strictly positive: Ksat >= 1 mm/day gives tau >= 0.08 (every built-in soil has Ksat >= 2) *)
Lemma tau_of_pos ks : 1 <= ks -> 8 / 100 <= tau_of ks.
Proof.
  intros H. unfold tau_of. rnum.
  assert (Hp : 1 <= Rpow ks (35 / 100)).
  { unfold Rpow. destruct (Req_EM_T ks 0); [lra|]. unfold Rpower.
    apply exp_ge_1. apply Rmult_le_pos; [lra|]. rewrite <- ln_1. destruct H as [H|H].
    - left; apply ln_increasing; lra.
    - rewrite <- H; lra. }
  assert (Hr : 8 / 100 <= Rround 2 (866 / 10000 * Rpow ks (35 / 100))).
  { replace (8 / 100) with (Rround 2 (IZR 8 / 100)) by (rewrite Rround2_cm; lra).
    apply Rround_mono. nra. }
  rcases; lra.
Qed.

(* ============================================================================================
   1a. numpy's pairwise summation is a sum *)
Fixpoint Rsum (l : list R) : R := match l with [] => 0 | x :: r => x + Rsum r end.

Lemma Rsum_app a b : Rsum (a ++ b) = Rsum a + Rsum b.
Proof. induction a as [|x a IH]; cbn; [lra | rewrite IH; lra]. Qed.

Lemma fold_plus_Rsum l a : fold_left (fun a x : R => nadd num_ops a x) l a = a + Rsum l.
Proof. revert a; induction l as [|x l IH]; intros a; cbn; [lra|]. rewrite IH. rnum. lra. Qed.

Lemma Rsum_firstn_skipn n l : Rsum (firstn n l) + Rsum (skipn n l) = Rsum l.
Proof. rewrite <- Rsum_app, firstn_skipn. reflexivity. Qed.

Lemma zip_add_sum (r a : list R) : (length a <= length r)%nat ->
  Rsum (zip_add r a) = Rsum r + Rsum a /\ length (zip_add r a) = length r.
Proof.
  revert a; induction r as [|x r IH]; intros [|y a] H; cbn in *; try (split; [lra|reflexivity]); try lia.
  destruct (IH a) as [H1 H2]; [lia|]. rewrite H1, H2. rnum. split; [lra|reflexivity].
Qed.

Lemma pw_loop_sum nb : forall r rest r' rest', length r = 8%nat -> pw_loop nb r rest = (r', rest') ->
  Rsum r' + Rsum rest' = Rsum r + Rsum rest /\ length r' = 8%nat.
Proof.
  induction nb as [|nb IH]; intros r rest r' rest' Hl; cbn [pw_loop].
  - intros E; inv E. split; [reflexivity|exact Hl].
  - intros E. destruct (zip_add_sum r (firstn 8 rest)) as [H1 H2]; [rewrite Hl; apply firstn_le_length|].
    apply IH in E; [|congruence]. destruct E as [E1 E2]. split; [|exact E2].
    rewrite E1, H1. pose proof (Rsum_firstn_skipn 8 rest). lra.
Qed.

Lemma pw_block_sum (l : list R) : (8 <= length l)%nat -> pw_block l = Rsum l.
Proof.
  intros H. unfold pw_block.
  destruct (pw_loop _ _ _) as [r rest] eqn:E.
  apply pw_loop_sum in E; [|apply firstn_length_le; exact H]. destruct E as [E1 E2].
  pose proof (Rsum_firstn_skipn 8 l) as Hs.
  do 9 (destruct r as [|? r]; try discriminate E2).
  rewrite fold_plus_Rsum. cbn [Rsum] in E1. rnum. lra.
Qed.

Lemma pw_sum_fuel_sum fuel : forall l : list R, (length l <= fuel)%nat -> pw_sum_fuel fuel l = Rsum l.
Proof.
  induction fuel as [|f IH]; intros l Hl; cbn [pw_sum_fuel].
  - destruct l; [|cbn in Hl; lia]. reflexivity.
  - destruct (Nat.ltb_spec (length l) 8).
    + rewrite fold_plus_Rsum. rnum. lra.
    + destruct (Nat.leb_spec (length l) 128).
      * apply pw_block_sum; assumption.
      * set (n2 := (Nat.div (length l) 2 - Nat.modulo (Nat.div (length l) 2) 8)%nat).
        assert (Hd : (Nat.div (length l) 2 < length l)%nat) by (apply Nat.div_lt; lia).
        assert (Hn2 : (n2 <= Nat.div (length l) 2)%nat) by (unfold n2; lia).
        assert (Hpos : (0 < n2)%nat).
        { unfold n2. pose proof (Nat.mod_upper_bound (Nat.div (length l) 2) 8).
          assert (64 <= Nat.div (length l) 2)%nat by (apply Nat.div_le_lower_bound; lia). lia. }
        rewrite !IH.
        -- rnum. apply Rsum_firstn_skipn.
        -- rewrite skipn_length. lia.
        -- rewrite firstn_length. lia.
Qed.

Lemma pw_sum_sum (l : list R) : pw_sum l = Rsum l.
Proof. apply pw_sum_fuel_sum. lia. Qed.

(* ============================================================================================
   1b. geometry.  The code rounds running sums to centimetres (np.cumsum(dz).round(2)); when every thickness is a
   whole number of centimetres the rounding is exact and the bottoms are exactly the running sums. *)
Definition cm (d : R) : Prop := exists k : Z, (0 < k)%Z /\ d = IZR k / 100.
Definition cm0 (d : R) : Prop := exists k : Z, d = IZR k / 100.

Lemma cm_pos d : cm d -> 0 < d.
Proof. intros (k & Hk & ->). apply IZR_lt in Hk. lra. Qed.
Lemma cm_round d : cm d -> Rround 2 d = d.
Proof. intros (k & _ & ->). apply Rround2_cm. Qed.
Lemma cm0_round d : cm0 d -> Rround 2 d = d.
Proof. intros (k & ->). apply Rround2_cm. Qed.
Lemma cm0_plus a d : cm0 a -> cm d -> cm0 (a + d).
Proof. intros (m & ->) (k & _ & ->). exists (m + k)%Z. rewrite plus_IZR. lra. Qed.
Lemma cm0_0 : cm0 0.
Proof. exists 0%Z. lra. Qed.

(* rows starting at depth [top]: bottoms are the running sum, zBot/z_top/zMid agree with them *)
Fixpoint geom_ok (top : R) (rows : list RowR) : Prop :=
  match rows with
  | [] => True
  | r :: rest =>
    r_dzsum r = top + r_dz r /\ r_zbot r = r_dzsum r /\ r_ztop r = r_zbot r - r_dz r /\
    r_zmid r = (r_ztop r + r_zbot r) / 2 /\ geom_ok (r_dzsum r) rest
  end.

Definition geo (r : RowR) := (r_dz r, r_dzsum r, r_zbot r, r_ztop r, r_zmid r).

Lemma geo_eq r r' : geo r' = geo r ->
  r_dz r' = r_dz r /\ r_dzsum r' = r_dzsum r /\ r_zbot r' = r_zbot r /\ r_ztop r' = r_ztop r /\ r_zmid r' = r_zmid r.
Proof. unfold geo. intros H. inversion H. auto. Qed.

Lemma geom_ok_geo rows : forall rows' top, map geo rows' = map geo rows -> geom_ok top rows -> geom_ok top rows'.
Proof.
  induction rows as [|r rows IH]; intros [|r' rows'] top E H; try discriminate; [exact I|].
  cbn [map] in E. assert (E1 : geo r' = geo r) by congruence. assert (E2 : map geo rows' = map geo rows) by congruence.
  apply geo_eq in E1. destruct E1 as (e1 & e2 & e3 & e4 & e5).
  cbn [geom_ok] in *. destruct H as (A & B & C & D & G).
  rewrite e1, e2, e3, e4, e5. repeat split; auto.
Qed.

Lemma create_rows_geom dz : forall acc, cm0 acc -> Forall cm dz ->
  geom_ok acc (create_rows acc dz) /\ map r_dz (create_rows acc dz) = dz.
Proof.
  induction dz as [|d dz IH]; intros acc Ha H; cbn; [split; [exact I|reflexivity]|].
  inv H. rnum. pose proof (cm0_plus _ _ Ha H2) as Hs. rewrite (cm0_round _ Hs).
  destruct (IH (acc + d) Hs H3) as [G M]. repeat split; auto. f_equal; exact M.
Qed.

Lemma map_cond_geo (test : RowR -> bool) a rows :
  map geo (map (fun r => if test r then set_asg r (Some a) else r) rows) = map geo rows.
Proof. rewrite map_map. apply map_ext. intros r. destruct (test r); reflexivity. Qed.

Lemma add_layer_geo rows L rows' : add_layer rows L = Some rows' -> map geo rows' = map geo rows.
Proof.
  unfold add_layer. destruct (nltb _ _ _); [discriminate|]. destruct (_ =? 1)%Z.
  - intros E; inv E. apply map_cond_geo.
  - destruct (last_dzsum _ _); [|discriminate]. intros E; inv E. apply map_cond_geo.
Qed.

Lemma add_layers_geo Ls : forall rows rows', add_layers rows Ls = Some rows' -> map geo rows' = map geo rows.
Proof.
  induction Ls as [|L Ls IH]; intros rows rows'; cbn.
  - intros E; inv E; reflexivity.
  - destruct (add_layer rows L) as [r1|] eqn:E1; [|discriminate]. intros E.
    etransitivity; [eapply IH; exact E | eapply add_layer_geo; exact E1].
Qed.

Lemma ffill_rows_geo rows : forall last, map geo (ffill_rows last rows) = map geo rows.
Proof. induction rows as [|r rows IH]; intros last; cbn; [reflexivity|]. f_equal. apply IH. Qed.

Lemma set_dz_dzsum_id (r : RowR) : set_dz_dzsum r (r_dz r) (r_dzsum r) = r.
Proof. destruct r; reflexivity. Qed.

Lemma redz_rows_id rows : forall acc, cm0 acc -> Forall cm (map r_dz rows) -> geom_ok acc rows ->
  redz_rows acc rows = rows.
Proof.
  induction rows as [|r rows IH]; intros acc Ha Hc G; cbn; [reflexivity|].
  cbn in Hc. inv Hc. destruct G as (A & B & C & D & G). rnum.
  rewrite (cm_round _ H1). pose proof (cm0_plus _ _ Ha H1) as Hs. rewrite (cm0_round _ Hs), <- A.
  rewrite set_dz_dzsum_id. f_equal. rewrite A. apply IH; auto. rewrite <- A; exact G.
Qed.

Lemma Rsum_cm0 dz : Forall cm dz -> cm0 (Rsum dz).
Proof.
  induction 1 as [|d dz Hd _ IH]; cbn; [apply cm0_0|].
  rewrite Rplus_comm. apply cm0_plus; assumption.
Qed.

(* THEOREM 1, geometry part *)
Theorem build_wf_geometry dz layers rows zs :
  Forall cm dz -> build_rows dz layers = Some (rows, zs) ->
  map r_dz rows = dz /\ geom_ok 0 rows /\ zs = Rsum dz.
Proof.
  intros Hc. unfold build_rows. destruct (add_layers _ _) as [r1|] eqn:E; [|discriminate].
  unfold fill_nan. destruct (existsb _ _); [discriminate|]. intros H; inv H.
  destruct (create_rows_geom dz 0 cm0_0 Hc) as [G M].
  assert (G1 : geom_ok 0 (ffill_rows None r1)).
  { eapply geom_ok_geo; [|exact G]. rewrite ffill_rows_geo. eapply add_layers_geo; exact E. }
  assert (M1 : map r_dz (ffill_rows None r1) = dz).
  { rewrite <- M. pose proof (add_layers_geo _ _ _ E) as Hg. rewrite <- (ffill_rows_geo r1 None) in Hg.
    apply (f_equal (map (fun g : R * R * R * R * R => fst (fst (fst (fst g)))))) in Hg.
    rewrite !map_map in Hg. exact Hg. }
  rnum. rewrite redz_rows_id; auto; [|exact cm0_0| rewrite M1; exact Hc].
  rewrite M1, pw_sum_sum. repeat split; auto. apply cm0_round. apply Rsum_cm0; exact Hc.
Qed.

(* ============================================================================================
   1c. layers: the profile is a concatenation of non-empty blocks numbered 1, 2, ..., n from the surface;
   all rows of a block carry the same assignment (the layer's properties). *)
Definition assigned_as (a : AsgR) (r : RowR) : Prop := r_asg r = Some a.
Definition unassigned (r : RowR) : Prop := r_asg r = None.

Inductive blocks (P : AsgR -> Prop) : Z -> Z -> list RowR -> Prop :=
| blocks_nil lo : blocks P lo lo []
| blocks_cons lo hi a B A :
    B <> [] -> Forall (assigned_as a) B -> a_layer a = (lo + 1)%Z -> P a ->
    blocks P (lo + 1) hi A -> blocks P lo hi (B ++ A).

Lemma blocks_range P lo hi A : blocks P lo hi A -> (lo <= hi)%Z /\ (lo = hi -> A = []) /\ (A = [] -> lo = hi).
Proof.
  induction 1 as [lo|lo hi a B A HB HF Ha HP HA (I1 & I2 & I3)].
  - repeat split; auto; lia.
  - repeat split; try lia.
    intros E. apply app_eq_nil in E. destruct E; contradiction.
Qed.

Lemma blocks_assigned P lo hi A : blocks P lo hi A -> Forall (fun r => exists a, r_asg r = Some a) A.
Proof.
  induction 1 as [lo|lo hi a B A HB HF Ha HP HA IH]; [constructor|].
  apply Forall_app; split; [|exact IH]. eapply Forall_impl; [|exact HF]. intros r Hr; exists a; exact Hr.
Qed.

Lemma blocks_snoc P lo hi A : blocks P lo hi A -> forall a B,
  B <> [] -> Forall (assigned_as a) B -> a_layer a = (hi + 1)%Z -> P a -> blocks P lo (hi + 1) (A ++ B).
Proof.
  induction 1 as [lo|lo hi a0 B0 A HB0 HF0 Ha0 HP0 HA IH]; intros a B HB HF Ha HP.
  - cbn. rewrite <- (app_nil_r B). eapply blocks_cons; eauto. constructor.
  - rewrite <- app_assoc. eapply blocks_cons; eauto.
Qed.

(* extending the last block *)
Lemma blocks_extend P lo hi A : blocks P lo hi A -> A <> [] -> forall l,
  exists a, fold_left (fun acc (r : RowR) => match r_asg r with Some a => Some a | None => acc end) A l = Some a /\
            forall B, Forall (assigned_as a) B -> blocks P lo hi (A ++ B).
Proof.
  induction 1 as [lo|lo hi a0 B0 A HB0 HF0 Ha0 HP0 HA IH]; intros HN l; [contradiction|].
  rewrite fold_left_app.
  assert (HB : forall l, fold_left (fun acc (r : RowR) => match r_asg r with Some a => Some a | None => acc end) B0 l
                         = Some a0).
  { clear -HB0 HF0. induction B0 as [|r B0 IHB]; intros l; [contradiction|]. inv HF0. cbn. rewrite H1.
    destruct B0 as [|r' B0]; [reflexivity|]. apply IHB; [discriminate|assumption]. }
  rewrite HB. destruct A as [|r A].
  - exists a0. split; [reflexivity|]. intros B HFB. pose proof (blocks_range _ _ _ _ HA) as (_ & _ & E).
    specialize (E eq_refl). subst hi. rewrite app_nil_r. rewrite <- (app_nil_r (B0 ++ B)).
    apply (blocks_cons P lo (lo + 1) a0 (B0 ++ B) []).
    + intros E. apply app_eq_nil in E. destruct E; contradiction.
    + apply Forall_app; split; assumption.
    + exact Ha0.
    + exact HP0.
    + constructor.
  - destruct (IH ltac:(discriminate) (Some a0)) as (a & E & HE). exists a. split; [exact E|].
    intros B HFB. rewrite <- app_assoc. eapply blocks_cons; eauto.
Qed.

Lemma blocks_asg P rows : forall lo hi rows', blocks P lo hi rows -> map r_asg rows' = map r_asg rows -> blocks P lo hi rows'.
Proof.
  intros lo hi rows' H. revert rows'. induction H as [lo|lo hi a B A HB HF Ha HP HA IH]; intros rows' E.
  - destruct rows'; [constructor|discriminate].
  - rewrite map_app in E. apply map_eq_app in E. destruct E as (B' & A' & -> & EB & EA).
    eapply blocks_cons; eauto.
    + intros ->. destruct B; [contradiction|discriminate].
    + clear -HF EB. revert B' EB. induction B as [|r B IHB]; intros [|r' B'] EB; try discriminate; [constructor|].
      inv HF. cbn in EB. inv EB. constructor; [unfold assigned_as in *; congruence|apply IHB; auto].
Qed.

Lemma max_layer_fold P lo hi A : blocks P lo hi A ->
  fold_left (fun m (r : RowR) => match r_asg r with Some a => Z.max m (a_layer a) | None => m end) A lo = hi.
Proof.
  induction 1 as [lo|lo hi a B A HB HF Ha HP HA IH]; [reflexivity|].
  rewrite fold_left_app.
  assert (E : forall m, (lo <= m <= lo + 1)%Z ->
     fold_left (fun m (r : RowR) => match r_asg r with Some a => Z.max m (a_layer a) | None => m end) B m = (lo + 1)%Z).
  { clear -HB HF Ha. induction B as [|r B IHB]; intros m Hm; [contradiction|]. inv HF. cbn. rewrite H1.
    destruct B as [|r' B]; [cbn; lia|]. apply IHB; [discriminate|assumption|lia]. }
  rewrite E by lia. exact IH.
Qed.

Lemma fold_unassigned_id {T} (g : T -> RowR -> T) U : Forall unassigned U ->
  (forall m r, unassigned r -> g m r = m) -> forall m, fold_left g U m = m.
Proof. intros HU Hg. induction HU as [|r U Hr _ IH]; intros m; cbn; [reflexivity|]. rewrite Hg by assumption. apply IH. Qed.

Definition shape (P : AsgR -> Prop) (hi : Z) (rows : list RowR) : Prop :=
  exists A U, rows = A ++ U /\ blocks P 0 hi A /\ Forall unassigned U.

Lemma shape_max_layer P hi rows : shape P hi rows -> max_layer rows = hi.
Proof.
  intros (A & U & -> & HA & HU). unfold max_layer. rewrite fold_left_app.
  rewrite (max_layer_fold _ _ _ _ HA). apply fold_unassigned_id; [exact HU|].
  intros m r Hr. unfold unassigned in Hr. rewrite Hr. reflexivity.
Qed.

Definition sorted (rows : list RowR) : Prop := StronglySorted Rle (map r_dzsum rows).

Lemma sorted_geo rows rows' : map geo rows' = map geo rows -> sorted rows -> sorted rows'.
Proof.
  intros E. unfold sorted.
  replace (map r_dzsum rows') with (map r_dzsum rows); [auto|].
  apply (f_equal (map (fun g : R * R * R * R * R => snd (fst (fst (fst g)))))) in E. rewrite !map_map in E.
  symmetry; exact E.
Qed.

Lemma sorted_app_r A U : sorted (A ++ U) -> sorted U.
Proof.
  unfold sorted. rewrite map_app. induction (map r_dzsum A) as [|x l IH]; cbn; [auto|].
  intros H. inv H. auto.
Qed.

Lemma create_rows_sorted dz : forall acc, Forall (fun d => 0 <= d) dz ->
  sorted (create_rows acc dz) /\ Forall (fun r => Rround 2 acc <= r_dzsum r) (create_rows acc dz).
Proof.
  induction dz as [|d dz IH]; intros acc H; cbn; [split; constructor|].
  inv H. rnum. destruct (IH (acc + d) H3) as [S1 S2].
  assert (Hm : Rround 2 acc <= Rround 2 (acc + d)) by (apply Rround_mono; lra).
  split.
  - unfold sorted. cbn. constructor; [exact S1|].
    rewrite Forall_map. eapply Forall_impl; [|exact S2]. intros r Hr; exact Hr.
  - constructor; [cbn; exact Hm|]. eapply Forall_impl; [|exact S2]. intros r Hr; cbn in Hr; lra.
Qed.

(* a test that is downward closed in dzsum selects a prefix of a sorted list of unassigned rows *)
Lemma map_prefix (test : RowR -> bool) a U :
  sorted U -> Forall unassigned U ->
  (forall r1 r2, unassigned r1 -> r_dzsum r1 <= r_dzsum r2 -> test r2 = true -> test r1 = true) ->
  exists U1 U2, U = U1 ++ U2 /\ Forall unassigned U2 /\
    map (fun r => if test r then set_asg r (Some a) else r) U = map (fun r => set_asg r (Some a)) U1 ++ U2.
Proof.
  intros HS HU Hm. induction U as [|r U IH].
  - exists [], []. repeat split; constructor.
  - inv HU. unfold sorted in HS. cbn in HS. inv HS. destruct (test r) eqn:Et.
    + destruct (IH H3 H2) as (U1 & U2 & -> & HU2 & E). exists (r :: U1), U2. repeat split; auto.
      cbn. rewrite Et. f_equal. exact E.
    + exists [], (r :: U). repeat split; [constructor; auto|]. cbn. rewrite Et. f_equal.
      rewrite <- (map_id U) at 2. apply map_ext_in. intros r' Hr'.
      destruct (test r') eqn:Et'; [|reflexivity].
      rewrite Forall_map in H4. rewrite Forall_forall in H4. specialize (H4 _ Hr').
      rewrite (Hm r r' H1 H4 Et') in Et. discriminate.
Qed.

Lemma map_id_assigned (test : RowR -> bool) a A :
  Forall (fun r => test r = false) A -> map (fun r => if test r then set_asg r (Some a) else r) A = A.
Proof.
  intros H. rewrite <- (map_id A) at 2. apply map_ext_in. intros r Hr. rewrite Forall_forall in H. rewrite (H r Hr). reflexivity.
Qed.

Lemma shape_after_mask P hi A U (test : RowR -> bool) a :
  blocks P 0 hi A -> Forall unassigned U -> sorted U ->
  Forall (fun r => test r = false) A ->
  (forall r1 r2, unassigned r1 -> r_dzsum r1 <= r_dzsum r2 -> test r2 = true -> test r1 = true) ->
  a_layer a = (hi + 1)%Z -> P a ->
  let rows' := map (fun r => if test r then set_asg r (Some a) else r) (A ++ U) in
  shape P hi rows' \/ shape P (hi + 1) rows'.
Proof.
  intros HA HU HS HtA Hm Ha HP rows'. unfold rows'. rewrite map_app, map_id_assigned by exact HtA.
  destruct (map_prefix test a U HS HU Hm) as (U1 & U2 & -> & HU2 & E). rewrite E.
  destruct U1 as [|r1 U1].
  - left. exists A, U2. repeat split; auto.
  - right. exists (A ++ map (fun r => set_asg r (Some a)) (r1 :: U1)), U2. rewrite app_assoc. repeat split; auto.
    eapply blocks_snoc; eauto; [discriminate|].
    rewrite Forall_map. apply Forall_forall. intros r _. reflexivity.
Qed.

Lemma add_layer_shape P hi rows L rows' :
  sorted rows -> shape P hi rows -> (forall k, P (mk_asg k L)) -> add_layer rows L = Some rows' ->
  shape P hi rows' \/ shape P (hi + 1) rows'.
Proof.
  intros HS Hsh HP. pose proof (shape_max_layer _ _ _ Hsh) as Hmax. destruct Hsh as (A & U & -> & HA & HU).
  unfold add_layer. rewrite Hmax. clear Hmax. destruct (nltb _ _ _); [discriminate|].
  destruct (hi + 1 =? 1)%Z eqn:E1.
  - apply Z.eqb_eq in E1. assert (hi = 0%Z) by lia. subst hi. intros E; inv E.
    pose proof (blocks_range _ _ _ _ HA) as (_ & HA0 & _). specialize (HA0 eq_refl). subst A.
    apply shape_after_mask; [exact HA | exact HU | eapply sorted_app_r; exact HS | constructor | | reflexivity | apply HP].
    intros r1 r2 _ H12. rnum. destruct (Rleb_spec (Rround 2 (r_dzsum r2)) (Rround 2 (ls_thick L))); [|discriminate].
    intros _. apply Rleb_true. pose proof (Rround_mono 2 _ _ H12). lra.
  - destruct (last_dzsum _ _) as [last|]; [|discriminate]. intros E; inv E.
    apply shape_after_mask; [exact HA | exact HU | | | | reflexivity | apply HP].
    + eapply sorted_app_r; exact HS.
    + eapply Forall_impl; [|apply (blocks_assigned _ _ _ _ HA)]. intros r (a & Hr).
      unfold is_unassigned. rewrite Hr. apply andb_false_r.
    + intros r1 r2 Hu H12 Ht. apply andb_true_iff in Ht. destruct Ht as [Ht1 Ht2]. apply andb_true_iff.
      split.
      * revert Ht1. rnum. destruct (Rleb_spec (r_dzsum r2) (ls_thick L + last)); [|discriminate]. intros _. apply Rleb_true. lra.
      * unfold is_unassigned. unfold unassigned in Hu. rewrite Hu. reflexivity.
Qed.
