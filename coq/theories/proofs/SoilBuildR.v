(* SoilBuildR.v — theorems about Init/SoilBuild.v at the real instance (exact arithmetic).
   C18: the profile is built as specified (ordering of the hydraulic values, geometry, contiguous layers),
   the deepening loop (and its non-termination, finding 9), the initial water content. *)
From AC Require Import Num RInst Params.
From AC.proofs Require Import ProfR.
From AC.Init Require Import SoilBuild.
From Coq Require Import Sorting.Sorted.
Local Open Scope R_scope.

Ltac inv H := inversion H; subst; clear H.
Notation RowR := (Row (F:=R)).
Notation AsgR := (Asg (F:=R)).
Notation SpecR := (LayerSpec (F:=R)).

(* ============================================================================================
   0. small facts *)
Lemma pow10_2 : pow10 2 = 100.
Proof. unfold pow10. simpl. lra. Qed.

Lemma Rround2_cm k : Rround 2 (IZR k / 100) = IZR k / 100.
Proof. rewrite <- pow10_2. apply Rround_IZR. Qed.

Lemma Rround2_nonneg x : 0 <= x -> 0 <= Rround 2 x.
Proof.
  intros H. replace 0 with (Rround 2 (IZR 0 / 100)).
  - apply Rround_mono. lra.
  - rewrite Rround2_cm. lra.
Qed.

(* ============================================================================================
   2. ordering of the hydraulic values: needs nothing about dz *)
Definition valid_layer (L : SpecR) : Prop :=
  0 < ls_wp L /\ ls_wp L < ls_fc L /\ ls_fc L <= ls_s L /\ 0 <= ls_ksat L.

Record asg_ok (a : AsgR) : Prop := {
  ao_dry : a_dry a = a_wp a / 2;
  ao_wp : 0 < a_wp a;
  ao_wp_fc : a_wp a < a_fc a;
  ao_fc_s : a_fc a <= a_s a;
  ao_tau : 0 <= a_tau a <= 1;
  ao_ksat : 0 <= a_ksat a }.

Lemma tau_of_range ks : 0 <= tau_of ks <= 1.
Proof. unfold tau_of. rnum. rcases; lra. Qed.

Lemma mk_asg_ok k L : valid_layer L -> asg_ok (mk_asg k L).
Proof.
  intros (H1 & H2 & H3 & H4). constructor; cbn; rnum; try lra. apply tau_of_range.
Qed.

(* a property of every assigned cell *)
Definition rows_sat (P : AsgR -> Prop) (rows : list RowR) : Prop :=
  Forall (fun r => match r_asg r with Some a => P a | None => True end) rows.

Lemma create_rows_unassigned acc dz : Forall (fun r => r_asg r = None) (create_rows acc dz).
Proof. revert acc; induction dz as [|d dz IH]; intros acc; cbn; constructor; auto. Qed.

Lemma create_df_sat (P : AsgR -> Prop) dz : rows_sat P (create_df dz).
Proof.
  unfold rows_sat, create_df. eapply Forall_impl; [|apply create_rows_unassigned].
  intros r H; rewrite H; exact I.
Qed.

Lemma map_cond_sat (P : AsgR -> Prop) (test : RowR -> bool) a rows :
  P a -> rows_sat P rows ->
  rows_sat P (map (fun r => if test r then set_asg r (Some a) else r) rows).
Proof.
  intros Ha H. unfold rows_sat in *. rewrite Forall_map. eapply Forall_impl; [|exact H].
  intros r Hr. cbv beta. destruct (test r); [cbn; exact Ha | exact Hr].
Qed.

Lemma add_layer_sat (P : AsgR -> Prop) rows L rows' :
  (forall k, P (mk_asg k L)) -> rows_sat P rows -> add_layer rows L = Some rows' -> rows_sat P rows'.
Proof.
  intros HP H. unfold add_layer.
  destruct (nltb _ _ _); [discriminate|].
  destruct (_ =? 1)%Z.
  - intros E; inv E. apply map_cond_sat; auto.
  - destruct (last_dzsum _ _); [|discriminate]. intros E; inv E. apply map_cond_sat; auto.
Qed.

Lemma add_layers_sat (P : AsgR -> Prop) Ls : forall rows rows',
  (forall L k, In L Ls -> P (mk_asg k L)) -> rows_sat P rows -> add_layers rows Ls = Some rows' -> rows_sat P rows'.
Proof.
  induction Ls as [|L Ls IH]; intros rows rows' HP H; cbn.
  - intros E; inv E; exact H.
  - destruct (add_layer rows L) as [r1|] eqn:E1; [|discriminate]. intros E.
    eapply IH; [| |exact E].
    + intros; apply HP; right; assumption.
    + eapply add_layer_sat; [|exact H|exact E1]. intros; apply HP; left; reflexivity.
Qed.

Lemma ffill_rows_sat (P : AsgR -> Prop) rows : forall last,
  match last with Some a => P a | None => True end -> rows_sat P rows -> rows_sat P (ffill_rows last rows).
Proof.
  induction rows as [|r rows IH]; intros last Hl H; cbn; [constructor|].
  inv H. destruct (r_asg r) as [a|] eqn:E.
  - constructor; [cbn; exact H2 | apply IH; auto].
  - constructor; [cbn; exact Hl | apply IH; auto].
Qed.

Lemma redz_rows_asg rows : forall acc, map r_asg (redz_rows acc rows) = map r_asg rows.
Proof. induction rows as [|r rows IH]; intros acc; cbn; [reflexivity| f_equal; apply IH]. Qed.

Lemma rows_sat_asg (P : AsgR -> Prop) rows rows' : map r_asg rows' = map r_asg rows -> rows_sat P rows -> rows_sat P rows'.
Proof.
  revert rows'; induction rows as [|r rows IH]; intros [|r' rows'] E H; try discriminate; [constructor|].
  cbn in E. inv E. inv H. constructor; [rewrite H1; exact H4 | apply IH; auto].
Qed.

Lemma fill_nan_sat (P : AsgR -> Prop) rows rows' zs : rows_sat P rows -> fill_nan rows = Some (rows', zs) -> rows_sat P rows'.
Proof.
  intros H. unfold fill_nan. destruct (existsb _ _); [discriminate|]. intros E; inv E.
  eapply rows_sat_asg; [apply redz_rows_asg|]. apply ffill_rows_sat; [exact I|exact H].
Qed.

Lemma fill_nan_assigned rows rows' zs :
  fill_nan rows = Some (rows', zs) -> Forall (fun r => exists a, r_asg r = Some a) rows'.
Proof.
  unfold fill_nan. destruct (existsb _ _) eqn:E; [discriminate|]. intros H; inv H.
  apply Forall_forall. intros r Hr.
  destruct (r_asg r) as [a|] eqn:Ea; [eauto|].
  assert (existsb is_unassigned (redz_rows (nofZ num_ops 0) (ffill_rows None rows)) = true).
  { apply existsb_exists. exists r; split; [exact Hr|]. unfold is_unassigned. rewrite Ea. reflexivity. }
  congruence.
Qed.

Lemma build_rows_sat (P : AsgR -> Prop) dz layers rows zs :
  (forall L k, In L layers -> P (mk_asg k L)) -> build_rows dz layers = Some (rows, zs) -> rows_sat P rows.
Proof.
  intros HP. unfold build_rows. destruct (add_layers _ _) as [r1|] eqn:E; [|discriminate].
  intros H. eapply fill_nan_sat; [|exact H]. eapply add_layers_sat; [exact HP| |exact E]. apply create_df_sat.
Qed.

(* the ordering in the form the processes use it (Comp records) *)
Record comp_ordered (c : Comp R) : Prop := {
  co_dry : c_th_dry c = c_th_wp c / 2;
  co_dry_pos : 0 < c_th_dry c;
  co_dry_wp : c_th_dry c < c_th_wp c;
  co_wp_fc : c_th_wp c < c_th_fc c;
  co_fc_s : c_th_fc c <= c_th_s c;
  co_tau : 0 <= c_tau c <= 1;
  co_ksat : 0 <= c_ksat c }.

Lemma to_comps_forall (Q : Comp R -> Prop) (P : AsgR -> Prop) rows p :
  (forall r a c, r_asg r = Some a -> P a -> to_comp r = Some c -> Q c) ->
  rows_sat P rows -> to_comps rows = Some p -> Forall Q p.
Proof.
  intros HQ. revert p; induction rows as [|r rows IH]; intros p H; cbn.
  - intros E; inv E; constructor.
  - inv H. destruct (to_comp r) as [c|] eqn:Ec; [|discriminate].
    destruct (to_comps rows) as [cs|]; [|discriminate]. intros E; inv E.
    constructor; [|apply IH; auto].
    unfold to_comp in Ec. destruct (r_asg r) as [a|] eqn:Ea; [|discriminate].
    eapply HQ; [exact Ea | exact H2 | unfold to_comp; rewrite Ea; exact Ec].
Qed.

(* THEOREM 2 *)
Theorem build_ordered dz layers p :
  Forall valid_layer layers -> build_profile dz layers = Some p -> Forall comp_ordered p.
Proof.
  intros Hv. unfold build_profile. destruct (build_rows dz layers) as [[rows zs]|] eqn:E; [|discriminate].
  apply (to_comps_forall comp_ordered asg_ok).
  - intros r a c Ea Ha Ec. unfold to_comp in Ec. rewrite Ea in Ec. inv Ec.
    destruct Ha. constructor; cbn; try lra; try assumption.
  - eapply build_rows_sat; [|exact E]. intros L k HL. apply mk_asg_ok.
    rewrite Forall_forall in Hv; auto.
Qed.

(* when is tau strictly positive: Ksat >= 1 mm/day gives tau >= 0.09 (every built-in soil has Ksat >= 2) *)
Lemma tau_of_pos ks : 1 <= ks -> 9 / 100 <= tau_of ks.
Proof.
  intros H. unfold tau_of. rnum.
  assert (Hp : 1 <= Rpow ks (35 / 100)).
  { unfold Rpow. destruct (Req_EM_T ks 0); [lra|]. unfold Rpower.
    apply exp_ge_1. apply Rmult_le_pos; [lra|]. rewrite <- ln_1. destruct H as [H|H].
    - left; apply ln_increasing; lra.
    - rewrite <- H; lra. }
  assert (Hr : 9 / 100 <= Rround 2 (866 / 10000 * Rpow ks (35 / 100))).
  { replace (9 / 100) with (Rround 2 (IZR 9 / 100)) by (rewrite Rround2_cm; lra).
    apply Rround_mono. nra. }
  rcases; lra.
Qed.
