(* TranspirationR.v — theorems about Water/Transpiration.v at the real instance (exact arithmetic).
   C01 (transpiration_balance), C03 (transpiration_bounds), C04 (tr_le_pot, trpot_nonneg, off_season_zero,
   irrnet lower bound). *)
From AC Require Import Num RInst Params Kernels.
From AC.Water Require Import RootZone Transpiration.
From AC.proofs Require Import ProfR KernelsR.
Local Open Scope R_scope.

(* ------------------------------------------------------------------------------------------------ *)
(* small real-arithmetic helpers *)
Lemma div_nonneg a b : 0 <= a -> 0 < b -> 0 <= a / b.
Proof. intros Ha Hb. apply Rmult_le_pos; [exact Ha | left; apply Rinv_0_lt_compat; exact Hb]. Qed.

Lemma Rround_0 d : Rround d 0 = 0.
Proof.
  pose proof (Rround_IZR d 0) as H. replace (IZR 0 / pow10 d) with 0 in H by (unfold Rdiv; simpl; ring). exact H.
Qed.
Lemma Rround_nonneg d x : 0 <= x -> 0 <= Rround d x.
Proof. intros H. rewrite <- (Rround_0 d). apply Rround_mono. exact H. Qed.

(* ------------------------------------------------------------------------------------------------ *)
(* 2. off season *)
Theorem off_season_zero p ztop k method smt s et0 co2c co2r gdd :
  exists o, transpiration p ztop k method smt s et0 co2c co2r false gdd = Some o /\
            o_TrAct o = 0 /\ o_TrPot0 o = 0 /\ o_TrPot_NS o = 0 /\ o_IrrNet o = 0 /\
            s_th (o_state o) = s_th s /\ s_surf (o_state o) = s_surf s /\
            s_irr_net_cum (o_state o) = 0 /\ s_t_pot (o_state o) = 0.
Proof. eexists. split; [reflexivity|]. cbn. rnum. repeat split; reflexivity. Qed.

(* ------------------------------------------------------------------------------------------------ *)
(* potential transpiration *)
Lemma Rpow_nonneg x y : 0 <= Rpow x y.
Proof.
  unfold Rpow. destruct (Req_EM_T x 0); [destruct (Req_EM_T y 0); lra|].
  unfold Rpower. left. apply exp_pos.
Qed.

Lemma tr_kscold_range k gdd kc : tr_kscold k gdd = Some kc -> 0 <= kc <= 1.
Proof.
  unfold tr_kscold. destruct (k_TrColdStress k =? 0)%Z; [intros [= <-]; rnum; lra|].
  destruct (k_TrColdStress k =? 1)%Z; [|discriminate]. rnum.
  destruct (Rleb_spec (k_GDD_up k) gdd) as [H1|H1]; [intros [= <-]; lra|].
  destruct (Rleb_spec gdd (k_GDD_lo k)) as [H2|H2]; [intros [= <-]; lra|].
  intros [= <-].
  set (c := (2 / 100 * 1 - 98 / 100 * (2 / 100)) / (98 / 100 * (1 - 2 / 100))).
  set (rel := (gdd - k_GDD_lo k) / (k_GDD_up k - k_GDD_lo k)).
  assert (Hrel : 0 <= rel <= 1) by (apply frac_range; lra).
  assert (Hc : 0 < c < 1).
  { unfold c. split; [apply Rdiv_lt_0_compat; lra|]. apply div_lt_iff; lra. }
  assert (Hln : ln c < 0) by (rewrite <- ln_1; apply ln_increasing; lra).
  assert (HE : 0 < exp (- (-1 * ln c) * rel) <= 1).
  { split; [apply exp_pos|]. apply exp_le_1. nra. }
  set (E := exp (- (-1 * ln c) * rel)) in *.
  set (D := 2 / 100 + (1 - 2 / 100) * E).
  assert (HD : 2 / 100 <= D <= 1) by (unfold D; lra).
  assert (Hq1 : 0 <= 1 * (2 / 100) / D <= 1) by (apply frac_range; lra).
  assert (Hq2 : 2 / 100 <= 1 * (2 / 100) / D).
  { apply (Rmult_le_reg_r D); [lra|]. replace (1 * (2 / 100) / D * D) with (2 / 100) by (field; lra). nra. }
  nra.
Qed.

Lemma tr_pot_nonneg k kcb ccadj et0 cc ccxw : 0 <= kcb -> 0 <= ccadj -> 0 <= et0 -> 0 <= tr_pot k kcb ccadj et0 cc ccxw.
Proof.
  intros H1 H2 H3. unfold tr_pot. rnum.
  assert (0 <= kcb * ccadj * et0) by (apply Rmult_le_pos; [apply Rmult_le_pos|]; assumption).
  destruct (Rltb cc ccxw); [|assumption].
  destruct (Rltb (1 / 1000) ccxw && Rltb (1 / 1000) cc); [|assumption].
  apply Rmult_le_pos; [assumption | apply Rpow_nonneg].
Qed.

(* explicit sufficient conditions for a non-negative crop coefficient *)
Lemma tr_kcb_nonneg k age ccxw co2c co2r :
  0 <= k_Kcb k -> (5 < age -> (age - 5) * (k_fage k / 100) * ccxw <= k_Kcb k) ->
  co2r < 550 -> co2c - co2r <= 20 * (550 - co2r) ->
  0 <= tr_kcb k age ccxw co2c co2r.
Proof.
  intros HK Hage Hr Hc. unfold tr_kcb. rnum.
  set (kcb := if Rltb 5 age then _ else _).
  assert (Hk : 0 <= kcb) by (unfold kcb; destruct (Rltb_spec 5 age); [specialize (Hage r); lra | exact HK]).
  destruct (Rltb_spec co2r co2c); [|exact Hk].
  apply Rmult_le_pos; [exact Hk|].
  assert (0 <= (co2c - co2r) / (550 - co2r) <= 20).
  { split; [apply div_nonneg; lra|]. apply (Rmult_le_reg_r (550 - co2r)); [lra|].
    replace ((co2c - co2r) / (550 - co2r) * (550 - co2r)) with (co2c - co2r) by (field; lra). lra. }
  lra.
Qed.

(* ------------------------------------------------------------------------------------------------ *)
(* surface layer *)
Lemma tr_sub_aer_nonneg lag p : 0 <= lag -> forall aer aer', Forall (fun a => 0 <= a) aer ->
  tr_sub_aer lag p aer = Some aer' -> Forall (fun a => 0 <= a) aer'.
Proof.
  intros Hl. induction p as [|c p IH]; intros aer aer' Ha; cbn [tr_sub_aer].
  - intros [= <-]. exact Ha.
  - destruct aer as [|a aer]; [discriminate|]. inversion Ha; subst.
    destruct (tr_sub_aer lag p aer) as [r|] eqn:E; [|discriminate]. intros [= <-].
    constructor; [|eapply IH; eauto]. rnum. destruct (Rltb_spec lag (a + 1)); lra.
Qed.

(* what the surface block guarantees: water taken from the pond is what is reported as TrAct0, the
   demand passed on to the soil plus TrAct0 never exceeds the potential *)
Lemma tr_surface_spec lag p surf ds aer T u :
  0 <= T -> 0 <= ds -> (ds < lag -> ds + 1 <= lag) ->
  tr_surface lag p surf ds aer T = Some u ->
  u_surf u + u_TrAct0 u = surf /\ 0 <= u_TrAct0 u /\ 0 <= u_TrPot u /\ u_TrPot u + u_TrAct0 u <= T /\
  (0 <= surf -> 0 <= u_surf u).
Proof.
  intros HT Hds Hint. unfold tr_surface. rnum.
  destruct (Rltb_spec 0 surf) as [Hs|Hs]; cbn [andb];
    [destruct (Rltb_spec ds lag) as [Hl|Hl]|]; try (intros [= <-]; cbn; lra).
  destruct (tr_sub_aer lag p aer); [|discriminate]. intros [= <-]. cbn.
  assert (Hlag : 0 < lag) by lra. specialize (Hint Hl).
  assert (Hf : 0 <= (ds + 1) / lag <= 1) by (apply frac_range; lra).
  set (f := 1 - (ds + 1) / lag) in *. assert (Hf01 : 0 <= f <= 1) by (unfold f; lra).
  assert (HfT : 0 <= f * T <= T) by nra.
  rcases; lra.
Qed.

Lemma tr_surface_balance lag p surf ds aer T u :
  tr_surface lag p surf ds aer T = Some u -> u_surf u + u_TrAct0 u = surf.
Proof.
  unfold tr_surface. rnum. destruct (Rltb 0 surf && Rltb ds lag); [|intros [= <-]; cbn; lra].
  destruct (tr_sub_aer lag p aer); [|discriminate]. intros [= <-]. cbn.
  destruct (Rltb _ surf); lra.
Qed.

Lemma tr_surface_aer lag p surf ds aer T u : 0 <= lag ->
  Forall (fun a => 0 <= a) aer -> tr_surface lag p surf ds aer T = Some u -> Forall (fun a => 0 <= a) (u_aer u).
Proof.
  intros Hl Ha. unfold tr_surface. destruct (_ && _); [|intros [= <-]; exact Ha].
  destruct (tr_sub_aer lag p aer) eqn:E; [|discriminate]. intros [= <-]. cbn. eapply tr_sub_aer_nonneg; eauto.
Qed.

(* ------------------------------------------------------------------------------------------------ *)
(* root-zone stress: Ks <= 1 needs only TAW >= 0, which root_zone_water guarantees by its max(.,0) *)
Lemma ws_drel_range0 pu pl Dr taw : 0 <= taw -> 0 <= ws_drel pu pl Dr taw <= 1.
Proof.
  intros [Ht|Ht]; [apply ws_drel_range; exact Ht|]. subst taw.
  unfold ws_drel. rnum. rcases; cbn [andb]; lra.
Qed.

Lemma rz_taw_nonneg p zr th ztop zmin aer r :
  root_zone_water p zr th ztop zmin aer = Some r -> 0 <= rz_TAW_Rz r /\ 0 <= rz_TAW_Zt r.
Proof.
  unfold root_zone_water. destruct (rz_loop _ _ _ _ _) as [a|]; [|discriminate].
  assert (Hp : forall x, 0 <= pmax x 0) by (intros x; unfold pmax; rnum; destruct (Rltb_spec x 0); lra).
  destruct (_ <? _)%num.
  - destruct (_ <=? 0)%Z; [discriminate|]. destruct (top_loop _ _ _ _ _ _) as [[act fc] wp].
    intros [= <-]. cbn. split; apply Hp.
  - intros [= <-]. cbn. split; apply Hp.
Qed.

Lemma tr_ks_le_1 k tes r et0 ksa : 0 <= rz_TAW_Rz r -> 0 <= rz_TAW_Zt r ->
  pmin (Ksw_StoLin (tr_ksw k tes (fst (tr_dr_taw r)) (snd (tr_dr_taw r)) et0)) ksa <= 1.
Proof.
  intros H1 H2.
  assert (Ht : 0 <= snd (tr_dr_taw r)) by (unfold tr_dr_taw; destruct (_ <=? _)%num; cbn; assumption).
  unfold tr_ksw, water_stress. cbn [Ksw_StoLin].
  match goal with |- context [ws_drel ?a ?b ?c ?d] => pose proof (ws_drel_range0 a b c d Ht) as Hd; set (d1 := ws_drel a b c d) in * end.
  unfold pmin. rnum. destruct (Rltb_spec ksa (1 - d1)); lra.
Qed.

(* ------------------------------------------------------------------------------------------------ *)
(* geometry of the profile and the compartments covered by the root zone *)
(* dzsum is the running sum of dz, starting from depth z0 *)
Fixpoint geom (z0 : R) (p : list (Comp R)) : Prop :=
  match p with [] => True | c :: p' => c_dzsum c = z0 + c_dz c /\ geom (c_dzsum c) p' end.

Definition plan_ok (x : Plan) : Prop := wf_comp (pl_comp x) /\ 0 <= pl_rf x <= 1 /\ 0 <= pl_sx x.

Lemma count_if_nonneg {A} (f : A -> bool) l : (0 <= count_if f l)%Z.
Proof. induction l as [|x l IH]; cbn [count_if]; [lia|]. destruct (f x); lia. Qed.

Lemma comp_sto_nil rd : tr_comp_sto (F:=R) [] rd = 0%nat.
Proof. reflexivity. Qed.

Lemma comp_sto_cons_true c p rd : Rltb (c_dzsum c) rd = true -> tr_comp_sto (c :: p) rd = S (tr_comp_sto p rd).
Proof.
  intros H. unfold tr_comp_sto. cbn [count_if length]. rnum. rewrite H.
  pose proof (count_if_nonneg (fun c0 : Comp R => Rltb (c_dzsum c0) rd) p) as Hc.
  set (n := count_if _ p) in *. rewrite Nat2Z.inj_succ.
  replace (Z.min (1 + n + 1) (Z.succ (Z.of_nat (length p)))) with (Z.succ (Z.min (n + 1) (Z.of_nat (length p)))) by lia.
  rewrite Z2Nat.inj_succ by lia. reflexivity.
Qed.

Lemma comp_sto_cons_false c p rd : Rltb (c_dzsum c) rd = false ->
  count_if (fun c0 : Comp R => Rltb (c_dzsum c0) rd) p = 0%Z -> tr_comp_sto (c :: p) rd = 1%nat.
Proof.
  intros H H0. unfold tr_comp_sto. cbn [count_if length]. rnum. rewrite H, H0. rewrite Nat2Z.inj_succ.
  replace (Z.min (0 + 0 + 1) (Z.succ (Z.of_nat (length p)))) with 1%Z by lia. reflexivity.
Qed.

Lemma count_zero_below z0 p rd : wf_prof p -> geom z0 p -> rd <= z0 ->
  count_if (fun c0 : Comp R => Rltb (c_dzsum c0) rd) p = 0%Z.
Proof.
  revert z0. induction p as [|c p IH]; intros z0 Hw Hg Hz; [reflexivity|].
  inversion Hw as [|? ? Hc Hw']; subst. destruct Hg as [Hs Hg]. destruct Hc as [Hdz _ _ _ _ _ _].
  cbn [count_if]. destruct (Rltb_spec (c_dzsum c) rd); [lra|]. rewrite (IH (c_dzsum c)); [reflexivity|assumption..|lra].
Qed.

Lemma tr_sxbot_nonneg k rc rd c : 0 <= k_SxTop k -> 0 <= k_SxBot k -> 0 <= rc -> 0 < c_dzsum c -> 0 <= tr_sxbot k rc rd c.
Proof.
  intros HT HB Hr Hz. unfold tr_sxbot. rnum.
  assert (HBr : 0 <= k_SxBot k * rc) by (apply Rmult_le_pos; assumption).
  destruct (Rleb_spec (c_dzsum c) rd); [|exact HBr].
  assert (Hw : 0 <= (rd - c_dzsum c) / rd <= 1) by (apply frac_range; lra).
  set (w := (rd - c_dzsum c) / rd) in *. set (B := k_SxBot k * rc) in *.
  assert (0 <= B * (1 - w)) by (apply Rmult_le_pos; lra).
  assert (0 <= k_SxTop k * w) by (apply Rmult_le_pos; lra). lra.
Qed.

Lemma tr_rootfact_range c z0 rd : 0 < c_dz c -> c_dzsum c = z0 + c_dz c -> z0 <= rd -> 0 <= tr_rootfact c rd <= 1.
Proof.
  intros Hd Hs Hz. unfold tr_rootfact. rnum. destruct (Rltb_spec rd (c_dzsum c)); [|lra].
  assert (0 <= (c_dzsum c - rd) / c_dz c <= 1) by (apply frac_range; lra). lra.
Qed.

Lemma tr_plan_ok k m rc rd : 0 <= k_SxTop k -> 0 <= k_SxBot k -> 0 <= rc ->
  forall p z0 sxbot, wf_prof p -> geom z0 p -> 0 <= z0 <= rd -> 0 <= sxbot ->
  Forall plan_ok (tr_plan k m rc rd (tr_comp_sto p rd) p sxbot).
Proof.
  intros HT HB Hr. induction p as [|c p IH]; intros z0 sxbot Hw Hg Hz Hsx.
  - rewrite comp_sto_nil. constructor.
  - inversion Hw as [|? ? Hc Hw']; subst. destruct Hg as [Hs Hg]. pose proof Hc as [Hdz _ _ _ _ _ _].
    assert (Hpos : 0 < c_dzsum c) by lra.
    pose proof (tr_sxbot_nonneg k rc rd c HT HB Hr Hpos) as Hsb.
    assert (Hhead : plan_ok (c, tr_rootfact c rd,
              if (m =? 4)%Z then (k_SxTop k + k_SxBot k) / 2 else (sxbot + tr_sxbot k rc rd c) / 2)).
    { unfold plan_ok, pl_comp, pl_rf, pl_sx. cbn [fst snd]. split; [exact Hc|]. split.
      - apply (tr_rootfact_range c z0); lra.
      - destruct (m =? 4)%Z; lra. }
    destruct (Rltb_spec (c_dzsum c) rd) as [Hlt|Hge].
    + rewrite comp_sto_cons_true by (apply Rltb_true; exact Hlt). cbn [tr_plan]. rnum.
      constructor; [exact Hhead|]. apply (IH (c_dzsum c)); [assumption..|lra|exact Hsb].
    + rewrite comp_sto_cons_false; [|apply Rltb_false; lra | apply (count_zero_below (c_dzsum c)); [assumption..|lra]].
      cbn [tr_plan]. rnum. constructor; [exact Hhead|]. destruct p; constructor.
Qed.

Lemma tr_plan_prefix k m rc rd n : forall p sxbot, exists p2, p = map pl_comp (tr_plan k m rc rd n p sxbot) ++ p2.
Proof.
  induction n as [|n IH]; intros p sxbot; [exists p; destruct p; reflexivity|].
  destruct p as [|c p]; [exists []; reflexivity|]. cbn [tr_plan map].
  destruct (IH p (tr_sxbot k rc rd c)) as [p2 Hp2]. exists p2. unfold pl_comp at 1. cbn [fst app]. f_equal. exact Hp2.
Qed.

(* ------------------------------------------------------------------------------------------------ *)
(* the extraction loop *)
Lemma tr_kscomp_range k c t pu : 0 <= tr_kscomp k c t pu <= 1.
Proof.
  unfold tr_kscomp. rnum.
  destruct (Rleb _ t); [lra|]. destruct (Rltb _ t); [|lra].
  set (pRel := ((c_th_fc c - t) / (c_th_fc c - c_th_wp c) - k_pu1 k) / (k_pl1 k - k_pu1 k)).
  set (e := 1 - (exp (pRel * k_fs1 k) - 1) / (exp (k_fs1 k) - 1)).
  set (ks := if Rleb pRel 0 then 1 else if Rleb 1 pRel then 0 else e).
  destruct (Rltb_spec 1 ks); [lra|]. destruct (Rltb_spec ks 0); lra.
Qed.

Lemma tr_aercomp_nonneg k c t ds a : 1 < k_LagAer k -> 0 <= a ->
  0 <= fst (tr_aercomp k c t ds a) /\ 0 <= snd (tr_aercomp k c t ds a).
Proof.
  intros Hl Ha. unfold tr_aercomp. rnum.
  destruct (Rleb (k_LagAer k) ds); [cbn; lra|]. destruct (Rltb _ t); [|cbn; lra].
  set (ac0 := (c_th_s c - t) / (c_th_s c - (c_th_s c - k_Aer k / 100))).
  set (ac := if Rltb ac0 0 then 0 else ac0).
  assert (Hac : 0 <= ac) by (unfold ac; destruct (Rltb_spec ac0 0); lra).
  cbn [fst snd]. destruct (Rleb_spec (k_LagAer k) (a + 1)).
  - split; [|lra]. apply div_nonneg; [|lra]. assert (0 <= (k_LagAer k - 1) * ac) by (apply Rmult_le_pos; lra). lra.
  - split; [|lra]. apply div_nonneg; [|lra]. assert (0 <= (a + 1 - 1) * ac) by (apply Rmult_le_pos; lra). lra.
Qed.

Lemma tr_sink_spec m c t te ks aer sx rf :
  0 < c_dz c -> 0 < te -> 0 <= ks -> 0 <= aer -> 0 <= sx -> 0 <= rf ->
  let s := tr_sink m c t te ks aer sx rf in
  0 <= s /\ s * 1000 * c_dz c <= te /\ (c_th_dry c <= t -> c_th_dry c <= t - s).
Proof.
  intros Hd Hte Hks Ha Hsx Hrf. unfold tr_sink. rnum.
  set (thx := te / 1000 / c_dz c).
  assert (Hthx : thx * 1000 * c_dz c = te) by (unfold thx; field; lra).
  assert (Hthx0 : 0 < thx) by (unfold thx; apply Rdiv_lt_0_compat; [lra|exact Hd]).
  set (s0 := if (m =? 4)%Z then aer * sx * rf else pmin ks aer * sx * rf).
  assert (Hs0 : 0 <= s0).
  { unfold s0. destruct (m =? 4)%Z.
    - apply Rmult_le_pos; [apply Rmult_le_pos|]; assumption.
    - apply Rmult_le_pos; [apply Rmult_le_pos|]; try assumption. unfold pmin. rnum. destruct (Rltb aer ks); assumption. }
  set (s1 := if Rltb thx s0 then thx else s0).
  assert (Hs1 : 0 <= s1 <= thx) by (unfold s1; destruct (Rltb_spec thx s0); lra).
  assert (Hle : forall s, 0 <= s <= thx -> s * 1000 * c_dz c <= te).
  { intros s [H0 H1]. rewrite <- Hthx. apply Rmult_le_compat_r; [lra|]. apply Rmult_le_compat_r; lra. }
  cbv zeta. destruct (Rltb_spec (t - s1) (c_th_dry c)) as [Hlt|Hge].
  - destruct (Rltb_spec (t - c_th_dry c) 0).
    + split; [lra|]. split; [apply Hle; lra | lra].
    + split; [lra|]. split; [apply Hle; lra | lra].
  - split; [lra|]. split; [apply Hle; lra | lra].
Qed.

(* mass balance of the loop: no hypothesis at all *)
Lemma tr_loop_balance k m pus ds plan : forall p2 th aer te tr th' aer' tr',
  tr_loop k m pus ds plan th aer te tr = Some (th', aer', tr') ->
  storage (map pl_comp plan ++ p2) th' + tr' = storage (map pl_comp plan ++ p2) th + tr.
Proof.
  induction plan as [|x plan IH]; intros p2 th aer te tr th' aer' tr'; cbn [tr_loop].
  - intros [= <- <- <-]. reflexivity.
  - rnum. destruct (Rltb 0 te); [|intros [= <- <- <-]; reflexivity].
    destruct pus as [pu|]; [|discriminate]. destruct th as [|t th]; [discriminate|]. destruct aer as [|a aer]; [discriminate|].
    set (sink := tr_sink _ _ _ _ _ _ _ _).
    destruct (tr_loop _ _ _ _ _ _ _ _ _) as [[[ths aers] tr1]|] eqn:E; [|discriminate].
    intros [= <- <- <-]. apply (IH p2) in E. cbn [map app]. rewrite !storage_cons, W_sub. rewrite W_alt in E. rnum. lra.
Qed.

(* with a sound plan the loop extracts a non-negative amount, never more than the demand, and keeps th within bounds *)
Lemma tr_loop_spec k m pus ds : 1 < k_LagAer k ->
  forall plan, Forall plan_ok plan -> forall p2 th aer te tr th' aer' tr',
  Forall (fun a => 0 <= a) aer ->
  tr_loop k m pus ds plan th aer te tr = Some (th', aer', tr') ->
  tr <= tr' /\ tr' - tr <= Rmax te 0 /\
  (in_bounds (map pl_comp plan ++ p2) th -> in_bounds (map pl_comp plan ++ p2) th').
Proof.
  intros Hl. induction plan as [|x plan IH]; intros Hok p2 th aer te tr th' aer' tr' Ha; cbn [tr_loop].
  - intros [= <- <- <-]. pose proof (Rmax_r te 0). repeat split; try lra. auto.
  - rnum. destruct (Rltb_spec 0 te) as [Hte|Hte]; [|intros [= <- <- <-]; pose proof (Rmax_r te 0); repeat split; try lra; auto].
    destruct pus as [pu|]; [|discriminate]. destruct th as [|t th]; [discriminate|]. destruct aer as [|a aer]; [discriminate|].
    inversion Hok as [|? ? Hx Hok']; subst. inversion Ha as [|? ? Ha0 Ha']; subst.
    destruct Hx as [Hc [Hrf Hsx]]. pose proof Hc as [Hdz _ _ _ _ _ _].
    pose proof (tr_kscomp_range k (pl_comp x) t pu) as Hks.
    pose proof (tr_aercomp_nonneg k (pl_comp x) t ds a Hl Ha0) as [Hae _].
    pose proof (tr_sink_spec m (pl_comp x) t te _ _ (pl_sx x) (pl_rf x) Hdz Hte (proj1 Hks) Hae Hsx (proj1 Hrf)) as Hs.
    cbv zeta in Hs. set (sink := tr_sink _ _ _ _ _ _ _ _) in *. destruct Hs as [Hs0 [Hs1 Hs2]].
    destruct (tr_loop _ _ _ _ _ _ _ _ _) as [[[ths aers] tr1]|] eqn:E; [|discriminate].
    intros [= <- <- <-]. apply (IH Hok' p2) in E; [|exact Ha']. destruct E as [E1 [E2 E3]].
    assert (Hx0 : 0 <= sink * 1000 * c_dz (pl_comp x)) by (apply Rmult_le_pos; [apply Rmult_le_pos|]; lra).
    rewrite (Rmax_left te 0) by lra. rewrite (Rmax_left (te - sink * 1000 * c_dz (pl_comp x)) 0) in E2 by lra.
    split; [lra|]. split; [lra|].
    cbn [map app]. intros Hb. inversion Hb as [|? ? ? ? Hbt Hb']; subst. constructor; [|apply E3; exact Hb'].
    specialize (Hs2 (proj1 Hbt)). lra.
Qed.

(* ------------------------------------------------------------------------------------------------ *)
(* net irrigation *)
Lemma tr_netirr_balance smt plan : Forall (fun x => c_dz (pl_comp x) <> 0) plan ->
  forall p2 th thc pl irr th' irr',
  tr_netirr smt plan th thc pl irr = Some (th', irr') ->
  storage (map pl_comp plan ++ p2) th' = storage (map pl_comp plan ++ p2) th + (irr' - irr).
Proof.
  induction plan as [|x plan IH]; intros Hd p2 th thc pl irr th' irr'; cbn [tr_netirr].
  - intros [= <- <-]. lra.
  - destruct th as [|t th]; [discriminate|]. inversion Hd as [|? ? Hx Hd']; subst.
    destruct (tr_netirr _ _ _ _ _ _) as [[ths irr1]|] eqn:E; [|discriminate].
    intros [= <- <-]. apply (IH Hd' p2) in E. cbn [map app]. rewrite !storage_cons. rnum.
    rewrite W_add by exact Hx. rnum. lra.
Qed.

(* soil layers: the layer number never decreases along the profile, is positive, and compartments of one layer
   share th_wp and th_fc (the code computes the layer's target once, at the first compartment of the layer) *)
Fixpoint layers_from (pl : Z) (wp fc : R) (p : list (Comp R)) : Prop :=
  match p with
  | [] => True
  | c :: p' => ((pl < c_layer c)%Z \/ (c_layer c = pl /\ c_th_wp c = wp /\ c_th_fc c = fc)) /\
               layers_from (c_layer c) (c_th_wp c) (c_th_fc c) p'
  end.
Definition layers_ok (p : list (Comp R)) : Prop := layers_from 0 0 0 p.

Lemma layers_from_app pl wp fc l1 l2 : layers_from pl wp fc (l1 ++ l2) -> layers_from pl wp fc l1.
Proof.
  revert pl wp fc. induction l1 as [|c l1 IH]; intros pl wp fc; cbn [app layers_from]; [trivial|].
  intros [H1 H2]. split; [exact H1 | eapply IH; exact H2].
Qed.

Lemma tr_netirr_bounds smt plan : 0 <= smt <= 100 -> Forall plan_ok plan ->
  forall p2 th thc pl wp fc irr th' irr',
  layers_from pl wp fc (map pl_comp plan) -> (thc = wp + smt / 100 * (fc - wp) \/ wp = 0) ->
  tr_netirr smt plan th thc pl irr = Some (th', irr') ->
  in_bounds (map pl_comp plan ++ p2) th -> in_bounds (map pl_comp plan ++ p2) th'.
Proof.
  intros Hs. induction plan as [|x plan IH]; intros Hok p2 th thc pl wp fc irr th' irr' Hl Hinv; cbn [tr_netirr].
  - intros [= <- <-]. auto.
  - destruct th as [|t th]; [discriminate|]. inversion Hok as [|? ? Hx Hok']; subst.
    destruct Hx as [Hc [Hrf _]]. pose proof Hc as [Hdz Hdry Hdw Hwf Hfs _ _].
    cbn [map layers_from] in Hl. destruct Hl as [Hl1 Hl2]. rnum.
    set (c := pl_comp x) in *.
    set (own := c_th_wp c + smt / 100 * (c_th_fc c - c_th_wp c)).
    set (thc' := if (pl <? c_layer c)%Z then own else thc).
    assert (Hthc : thc' = own).
    { unfold thc'. destruct (pl <? c_layer c)%Z eqn:El; [reflexivity|].
      apply Z.ltb_ge in El. destruct Hl1 as [Hl1|[_ [Hw Hf]]]; [lia|].
      destruct Hinv as [Hinv|Hinv]; [|lra]. unfold own. rewrite Hw, Hf. exact Hinv. }
    destruct (tr_netirr _ _ _ _ _ _) as [[ths irr1]|] eqn:E; [|discriminate].
    intros [= <- <-] Hb. cbn [map app] in *. fold c. inversion Hb as [|? ? ? ? Hbt Hb']; subst.
    constructor.
    + assert (Hf : 0 <= smt / 100 <= 1) by lra. set (f := smt / 100) in *.
      assert (Hown : c_th_wp c <= own <= c_th_fc c) by (unfold own; nra).
      replace (t + pl_rf x * (thc' - t) * 1000 * c_dz c / (1000 * c_dz c)) with (t + pl_rf x * (thc' - t)) by (field; lra).
      rewrite Hthc. set (rf := pl_rf x) in *. fold c in Hbt. clearbody own rf c.
      assert (0 <= (1 - rf) * (t - c_th_dry c)) by (apply Rmult_le_pos; lra).
      assert (0 <= rf * (own - c_th_dry c)) by (apply Rmult_le_pos; lra).
      assert (0 <= (1 - rf) * (c_th_s c - t)) by (apply Rmult_le_pos; lra).
      assert (0 <= rf * (c_th_s c - own)) by (apply Rmult_le_pos; lra).
      lra.
    + eapply (IH Hok' p2 th thc' (if (pl <? c_layer c)%Z then c_layer c else pl) (c_th_wp c) (c_th_fc c)); [| |exact E|exact Hb'].
      * destruct (pl <? c_layer c)%Z eqn:El; [exact Hl2|].
        apply Z.ltb_ge in El. destruct Hl1 as [Hl1|[Hq _]]; [lia|]. rewrite <- Hq. exact Hl2.
      * left. exact Hthc.
Qed.

(* the tail as a whole *)
Lemma tr_tail_balance p ztop k m smt s plan th1 trpot th2 irrnet cum depl taw p2 :
  p = map pl_comp plan ++ p2 -> Forall (fun x => c_dz (pl_comp x) <> 0) plan ->
  tr_tail p ztop k m smt s plan th1 trpot = Some (th2, irrnet, cum, depl, taw) ->
  storage p th2 = storage p th1 + irrnet.
Proof.
  intros Hp Hd. unfold tr_tail. rnum.
  destruct ((m =? 4)%Z && Rltb 0 trpot).
  - destruct (root_zone_water _ _ _ _ _ _) as [r2|]; [|discriminate].
    destruct (Rltb _ _).
    + destruct (tr_netirr _ _ _ _ _ _) as [[t2 i2]|] eqn:E; [|discriminate]. intros [= <- <- _ _ _].
      pose proof (tr_netirr_balance _ _ Hd p2 _ _ _ _ _ _ E) as B. rewrite Hp. rnum. lra.
    + intros [= <- <- _ _ _]. rnum. lra.
  - destruct (_ && _); intros [= <- <- _ _ _]; rnum; lra.
Qed.

Lemma tr_tail_bounds p ztop k m smt s plan th1 trpot th2 irrnet cum depl taw p2 :
  p = map pl_comp plan ++ p2 -> Forall plan_ok plan -> 0 <= smt <= 100 -> layers_ok p ->
  tr_tail p ztop k m smt s plan th1 trpot = Some (th2, irrnet, cum, depl, taw) ->
  in_bounds p th1 -> in_bounds p th2.
Proof.
  intros Hp Hok Hs Hl. unfold tr_tail. rnum.
  destruct ((m =? 4)%Z && Rltb 0 trpot).
  - destruct (root_zone_water _ _ _ _ _ _) as [r2|]; [|discriminate].
    destruct (Rltb _ _).
    + destruct (tr_netirr _ _ _ _ _ _) as [[t2 i2]|] eqn:E; [|discriminate]. intros [= <- _ _ _ _].
      rewrite Hp. eapply (tr_netirr_bounds smt plan Hs Hok p2 _ _ 0%Z 0 0); [| |exact E].
      * unfold layers_ok in Hl. rewrite Hp in Hl. eapply layers_from_app; exact Hl.
      * right; reflexivity.
    + intros [= <- _ _ _ _]. auto.
  - destruct (_ && _); intros [= <- _ _ _ _]; auto.
Qed.

(* ------------------------------------------------------------------------------------------------ *)
(* main theorems *)

(* inversion of a successful in-season call; the equation must be the head of the goal *)
Ltac tr_inv :=
  unfold transpiration; cbv zeta;
  destruct (tr_kscold _ _) as [kc|] eqn:Ekc; [|discriminate];
  destruct (tr_surface _ _ _ _ _ _) as [u|] eqn:Eu; [|discriminate];
  destruct (root_zone_water _ _ _ _ _ _) as [r|] eqn:Er; [|discriminate];
  destruct (aeration_stress _ _ _ _ _) as [[ksa ad]|] eqn:Ea; [|discriminate];
  destruct (tr_loop _ _ _ _ _ _ _ _ _) as [[[th1 aer1] tract]|] eqn:El; [|discriminate];
  destruct (tr_tail _ _ _ _ _ _ _ _ _) as [[[[[th2 irrnet] cum] depl] taw]|] eqn:Et; [|discriminate];
  intros [= <-]; cbn [o_TrAct o_TrPot0 o_TrPot_NS o_IrrNet o_state s_th s_surf].

(* 1a. potential transpiration is non-negative (C04) *)
Theorem trpot_nonneg p ztop k m smt s et0 co2c co2r gs gdd o :
  0 <= et0 -> 0 <= s_cc_adj s -> 0 <= s_cc_adj_ns s ->
  0 <= tr_kcb k (tr_age (s_dap s) (s_delayed_cds s) (k_MaxCanopyCD k) (s_age_days s)) (s_ccx_w s) co2c co2r ->
  0 <= tr_kcb k (tr_age (s_dap s) (s_delayed_cds s) (k_MaxCanopyCD k) (s_age_days_ns s)) (s_ccx_w_ns s) co2c co2r ->
  transpiration p ztop k m smt s et0 co2c co2r gs gdd = Some o ->
  0 <= o_TrPot0 o /\ 0 <= o_TrPot_NS o.
Proof.
  intros He Hc Hcn Hk Hkn. destruct gs.
  - tr_inv. pose proof (tr_kscold_range _ _ _ Ekc) as Hkc. rnum.
    split; (apply Rmult_le_pos; [apply tr_pot_nonneg; assumption | lra]).
  - unfold transpiration. intros [= <-]. cbn. rnum. lra.
Qed.

(* standing assumptions on the profile geometry, the crop constants and the counters in the state *)
Record tr_wf (p : list (Comp R)) (k : TrCrop) (s : TrState) : Prop := {
  tw_prof : wf_prof p;
  tw_geom : geom 0 p;                      (* dzsum is the running sum of dz *)
  tw_sxtop : 0 <= k_SxTop k;
  tw_sxbot : 0 <= k_SxBot k;
  tw_rcor : 0 <= s_r_cor s;
  tw_zmin : 0 <= k_Zmin k;
  tw_lag : 1 < k_LagAer k;                 (* LagAer = 1 makes the aeration factor 0/0 *)
  tw_aer : Forall (fun a => 0 <= a) (s_aer_comp s);
  tw_ds : 0 <= s_day_sub s;
  tw_ds_int : s_day_sub s < k_LagAer k -> s_day_sub s + 1 <= k_LagAer k   (* integer counters *) }.

Lemma tr_rootdepth_nonneg zr zmin : 0 <= zmin -> 0 <= tr_rootdepth zr zmin.
Proof.
  intros H. unfold tr_rootdepth. rnum. apply Rround_nonneg. unfold pmax. rnum. destruct (Rltb_spec zr zmin); lra.
Qed.

Lemma tr_wf_plan p k s m : tr_wf p k s ->
  Forall plan_ok (tr_plan k m (s_r_cor s) (tr_rootdepth (s_z_root s) (k_Zmin k))
                          (tr_comp_sto p (tr_rootdepth (s_z_root s) (k_Zmin k))) p (k_SxTop k)).
Proof.
  intros [Hw Hg HT HB Hr Hz _ _ _ _]. pose proof (tr_rootdepth_nonneg (s_z_root s) _ Hz).
  apply (tr_plan_ok k m _ _ HT HB Hr p 0); try assumption. lra.
Qed.

(* 1b. actual transpiration lies between 0 and the potential (C04) *)
Theorem tr_le_pot p ztop k m smt s et0 co2c co2r gdd o :
  tr_wf p k s ->
  transpiration p ztop k m smt s et0 co2c co2r true gdd = Some o ->
  0 <= o_TrPot0 o -> 0 <= o_TrAct o <= o_TrPot0 o.
Proof.
  intros Hwf. pose proof (tr_wf_plan p k s m Hwf) as Hplan. destruct Hwf as [Hw Hg HT HB Hr Hz Hl Ha Hds Hdi].
  tr_inv. intros HT0.
  pose proof (tr_surface_spec _ _ _ _ _ _ _ HT0 Hds Hdi Eu) as [_ [Hu1 [Hu2 [Hu3 _]]]].
  assert (Hua : Forall (fun a => 0 <= a) (u_aer u)) by (eapply tr_surface_aer; [| |exact Eu]; [lra|exact Ha]).
  pose proof (rz_taw_nonneg _ _ _ _ _ _ _ Er) as [Ht1 Ht2].
  pose proof (tr_ks_le_1 k (s_t_early_sen s) r et0 ksa Ht1 Ht2) as Hks.
  destruct (tr_plan_prefix k m (s_r_cor s) (tr_rootdepth (s_z_root s) (k_Zmin k))
              (tr_comp_sto p (tr_rootdepth (s_z_root s) (k_Zmin k))) p (k_SxTop k)) as [p2 Hp2].
  pose proof (tr_loop_spec k m _ _ Hl _ Hplan p2 _ _ _ _ _ _ _ Hua El) as [L1 [L2 _]].
  rnum. set (ks := pmin _ ksa) in *.
  assert (Htp : Rmax (if (m =? 4)%Z then u_TrPot u else u_TrPot u * ks) 0 <= u_TrPot u).
  { apply Rmax_lub; [|exact Hu2]. destruct (m =? 4)%Z; [lra|]. nra. }
  lra.
Qed.

(* 3. mass balance (C01): root extraction removes exactly what is summed into TrAct, surface transpiration is
   taken from the pond, net irrigation adds exactly IrrNet.  Only dz <> 0 is used (division in the net-irrigation
   update); stated with wf_prof.  Holds in and out of season. *)
Theorem transpiration_balance p ztop k m smt s et0 co2c co2r gs gdd o :
  wf_prof p ->
  transpiration p ztop k m smt s et0 co2c co2r gs gdd = Some o ->
  storage p (s_th (o_state o)) + s_surf (o_state o) + o_TrAct o = storage p (s_th s) + s_surf s + o_IrrNet o.
Proof.
  intros Hw. destruct gs; [|unfold transpiration; intros [= <-]; cbn; rnum; lra].
  tr_inv.
  destruct (tr_plan_prefix k m (s_r_cor s) (tr_rootdepth (s_z_root s) (k_Zmin k))
              (tr_comp_sto p (tr_rootdepth (s_z_root s) (k_Zmin k))) p (k_SxTop k)) as [p2 Hp2].
  set (plan := tr_plan _ _ _ _ _ _ _) in *.
  pose proof (tr_surface_balance _ _ _ _ _ _ _ Eu) as Hs.
  pose proof (tr_loop_balance _ _ _ _ _ p2 _ _ _ _ _ _ _ El) as Hb. rewrite <- Hp2 in Hb.
  assert (Hd : Forall (fun x => c_dz (pl_comp x) <> 0) plan).
  { assert (Hall : Forall (fun c => c_dz c <> 0) (map pl_comp plan ++ p2)).
    { rewrite <- Hp2. eapply Forall_impl; [|exact Hw]. intros c [Hdz _ _ _ _ _ _]. lra. }
    apply Forall_app in Hall. destruct Hall as [Hall _]. rewrite Forall_map in Hall. exact Hall. }
  pose proof (tr_tail_balance _ _ _ _ _ _ _ _ _ _ _ _ _ _ p2 Hp2 Hd Et) as Ht.
  rnum. lra.
Qed.

(* 4. bounds (C03): water contents stay between air dry and saturation, the pond does not grow and stays
   non-negative.  The net-irrigation part needs the target fraction in [0,100] and consistent layers. *)
Theorem transpiration_bounds p ztop k m smt s et0 co2c co2r gs gdd o :
  tr_wf p k s -> (m = 4%Z -> 0 <= smt <= 100 /\ layers_ok p) ->
  in_bounds p (s_th s) ->
  transpiration p ztop k m smt s et0 co2c co2r gs gdd = Some o ->
  in_bounds p (s_th (o_state o)) /\
  (0 <= o_TrPot0 o -> 0 <= s_surf s -> 0 <= s_surf (o_state o) <= s_surf s).
Proof.
  intros Hwf Hm4 Hb. destruct gs; [|unfold transpiration; intros [= <-]; cbn; split; [exact Hb|lra]].
  pose proof (tr_wf_plan p k s m Hwf) as Hplan. destruct Hwf as [Hw Hg HT HB Hr Hz Hl Ha Hds Hdi].
  tr_inv.
  destruct (tr_plan_prefix k m (s_r_cor s) (tr_rootdepth (s_z_root s) (k_Zmin k))
              (tr_comp_sto p (tr_rootdepth (s_z_root s) (k_Zmin k))) p (k_SxTop k)) as [p2 Hp2].
  set (plan := tr_plan _ _ _ _ _ _ _) in *.
  assert (Hua : Forall (fun a => 0 <= a) (u_aer u)) by (eapply tr_surface_aer; [| |exact Eu]; [lra|exact Ha]).
  pose proof (tr_loop_spec k m _ _ Hl _ Hplan p2 _ _ _ _ _ _ _ Hua El) as [_ [_ L3]]. rewrite <- Hp2 in L3.
  specialize (L3 Hb). split.
  - destruct (Z.eq_dec m 4) as [E4|N4].
    + destruct (Hm4 E4) as [Hs Hly]. eapply tr_tail_bounds; [exact Hp2|exact Hplan|exact Hs|exact Hly|exact Et|exact L3].
    + revert Et. unfold tr_tail. apply Z.eqb_neq in N4. rewrite N4. cbn [andb]. intros [= <- _ _ _ _]. exact L3.
  - intros HT0 Hs0. pose proof (tr_surface_spec _ _ _ _ _ _ _ HT0 Hds Hdi Eu) as [Hu0 [Hu1 [_ [_ Hu4]]]].
    specialize (Hu4 Hs0). lra.
Qed.

(* ------------------------------------------------------------------------------------------------ *)
(* definedness: the model returns a value (the Python does not raise) as soon as the two flags are in range,
   the state arrays are as long as the profile and the root zone lies inside the profile *)
Lemma aeration_defined a l S A Ae : exists kd, aeration_stress a l S A Ae = Some kd.
Proof.
  unfold aeration_stress. rnum. destruct (Rltb Ae A); [|eexists; reflexivity].
  destruct (Rltb_spec a l); [eexists; reflexivity|]. destruct (Rleb_spec l a); [eexists; reflexivity|lra].
Qed.

Lemma tr_sub_aer_defined lag p : forall aer, (length p <= length aer)%nat ->
  exists r, tr_sub_aer lag p aer = Some r /\ length r = length aer.
Proof.
  induction p as [|c p IH]; intros aer Hl; cbn [tr_sub_aer]; [eexists; split; reflexivity|].
  destruct aer as [|a aer]; [simpl in Hl; lia|]. destruct (IH aer) as [r [Hr Hlen]]; [simpl in Hl; lia|].
  rewrite Hr. eexists; split; [reflexivity|]. simpl. congruence.
Qed.

Lemma tr_surface_defined lag p surf ds aer T : (length p <= length aer)%nat ->
  exists u, tr_surface lag p surf ds aer T = Some u /\ length (u_aer u) = length aer.
Proof.
  intros Hl. unfold tr_surface. destruct (_ && _); [|eexists; split; reflexivity].
  destruct (tr_sub_aer_defined lag p aer Hl) as [r [Hr Hlen]]. rewrite Hr. eexists; split; [reflexivity|exact Hlen].
Qed.

Lemma tr_loop_defined k m pu ds plan : forall th aer te tr,
  (length plan <= length th)%nat -> (length plan <= length aer)%nat ->
  exists th' aer' tr', tr_loop k m (Some pu) ds plan th aer te tr = Some (th', aer', tr') /\ length th' = length th.
Proof.
  induction plan as [|x plan IH]; intros th aer te tr H1 H2; cbn [tr_loop]; [do 3 eexists; split; reflexivity|].
  destruct (_ >? _)%num; [|do 3 eexists; split; reflexivity].
  destruct th as [|t th]; [simpl in H1; lia|]. destruct aer as [|a aer]; [simpl in H2; lia|].
  match goal with |- context [tr_loop k m (Some pu) ds plan th aer ?te' ?tr'] =>
    destruct (IH th aer te' tr') as [th' [aer' [tr1 [E Hlen]]]]; [simpl in H1; lia | simpl in H2; lia |]; rewrite E end.
  do 3 eexists; split; [reflexivity|]. simpl. congruence.
Qed.

Lemma tr_netirr_defined smt plan : forall th thc pl irr, (length plan <= length th)%nat ->
  exists r, tr_netirr smt plan th thc pl irr = Some r.
Proof.
  induction plan as [|x plan IH]; intros th thc pl irr H1; cbn [tr_netirr]; [eexists; reflexivity|].
  destruct th as [|t th]; [simpl in H1; lia|].
  match goal with |- context [tr_netirr smt plan th ?a ?b ?c] =>
    destruct (IH th a b c) as [[ths i] E]; [simpl in H1; lia|]; rewrite E end.
  eexists; reflexivity.
Qed.

Lemma tr_plan_length k m rc rd n p sx : (length (tr_plan k m rc rd n p sx) <= length p)%nat.
Proof.
  destruct (tr_plan_prefix k m rc rd n p sx) as [p2 H]. rewrite H at 2. rewrite app_length, map_length. lia.
Qed.

Lemma rz_loop_defined_len rd aer p : forall th th' a a', length th = length th' ->
  rz_loop rd aer p th a <> None -> rz_loop rd aer p th' a' <> None.
Proof.
  induction p as [|c p IH]; intros th th' a a' Hl; cbn [rz_loop]; [auto|].
  destruct th as [|t th]; [auto|]. destruct th' as [|t' th']; [discriminate|].
  destruct (_ <=? _)%num; [discriminate|]. apply IH. simpl in Hl. congruence.
Qed.

Lemma rz_defined_len p zr th th' ztop zmin aer : length th = length th' ->
  root_zone_water p zr th ztop zmin aer <> None -> root_zone_water p zr th' ztop zmin aer <> None.
Proof.
  intros Hl. unfold root_zone_water.
  destruct (rz_loop _ _ p th _) as [a|] eqn:E1; [|congruence].
  destruct (rz_loop _ _ p th' _) as [a'|] eqn:E2.
  - destruct (_ <? _)%num; [|discriminate]. destruct (_ <=? 0)%Z; [congruence|].
    do 2 destruct (top_loop _ _ _ _ _ _) as [[? ?] ?]. discriminate.
  - exfalso. eapply (rz_loop_defined_len _ _ p th th'); [exact Hl| |exact E2]. rewrite E1. discriminate.
Qed.

Theorem transpiration_defined p ztop k m smt s et0 co2c co2r gs gdd :
  (k_TrColdStress k = 0 \/ k_TrColdStress k = 1)%Z -> k_ETadj k = 1%Z ->
  length (s_th s) = length p -> length (s_aer_comp s) = length p ->
  root_zone_water p (s_z_root s) (s_th s) ztop (k_Zmin k) (k_Aer k) <> None ->
  exists o, transpiration p ztop k m smt s et0 co2c co2r gs gdd = Some o.
Proof.
  intros Hc He Hlt Hla Hrz. destruct gs; [|eexists; reflexivity].
  unfold transpiration. cbv zeta.
  assert (Hkc : exists kc, tr_kscold k gdd = Some kc).
  { unfold tr_kscold. destruct Hc as [-> | ->]; cbn [Z.eqb Pos.eqb]; [eexists; reflexivity|].
    destruct (_ >=? _)%num; [eexists; reflexivity|]. destruct (_ <=? _)%num; eexists; reflexivity. }
  destruct Hkc as [kc ->].
  match goal with |- context [tr_surface ?a ?b ?c ?d ?e ?f] =>
    destruct (tr_surface_defined a b c d e f) as [u [-> Hlu]]; [lia|] end.
  destruct (root_zone_water p _ (s_th s) _ _ _) as [r|] eqn:Er; [|congruence].
  match goal with |- context [aeration_stress ?a ?b ?c ?d ?e] => destruct (aeration_defined a b c d e) as [[ksa ad] ->] end.
  rewrite He. cbn [Z.eqb Pos.eqb].
  set (plan := tr_plan _ _ _ _ _ _ _).
  assert (Hpl : (length plan <= length p)%nat) by apply tr_plan_length.
  match goal with |- context [tr_loop k m (Some ?pu) ?ds plan ?th ?ae ?te ?tr] =>
    destruct (tr_loop_defined k m pu ds plan th ae te tr) as [th1 [aer1 [tract [-> Hl1]]]]; [lia | lia |] end.
  assert (Ht : exists x, tr_tail p ztop k m smt s plan th1 (if (m =? 4)%Z then u_TrPot u else (u_TrPot u * pmin (Ksw_StoLin (tr_ksw k (s_t_early_sen s) (fst (tr_dr_taw r)) (snd (tr_dr_taw r)) et0)) ksa)%num) = Some x).
  { unfold tr_tail. destruct (_ && _).
    - destruct (root_zone_water p _ th1 _ _ _) as [r2|] eqn:Er2.
      + destruct (_ <? _)%num; [|eexists; reflexivity].
        match goal with |- context [tr_netirr ?a ?b ?c ?d ?e ?f] =>
          destruct (tr_netirr_defined a b c d e f) as [[t2 i2] ->]; [lia|] end. eexists; reflexivity.
      + exfalso. eapply (rz_defined_len p _ (s_th s) th1); [congruence| |exact Er2]. rewrite Er. discriminate.
    - destruct (_ && _); eexists; reflexivity. }
  destruct Ht as [[[[[th2 irrnet] cum] depl] taw] ->]. eexists; reflexivity.
Qed.

(* ------------------------------------------------------------------------------------------------ *)
(* a concrete instance: two-layer soil, four 0.1 m compartments, roots at 0.25 m (third compartment partly
   covered), wheat-like crop constants, net-irrigation mode with an 80 % target *)
Definition ex_comp (dzsum : R) (layer : Z) (wp fc sat : R) : Comp R :=
  {| c_dz := 10/100; c_dzsum := dzsum; c_zmid := dzsum - 5/100; c_layer := layer;
     c_th_dry := wp / 2; c_th_wp := wp; c_th_fc := fc; c_th_s := sat;
     c_ksat := 500; c_tau := 76/100; c_pen := 100; c_acr := 0; c_bcr := 0 |}.
Definition ex_p : list (Comp R) :=
  [ex_comp (10/100) 1 (10/100) (22/100) (41/100); ex_comp (20/100) 1 (10/100) (22/100) (41/100);
   ex_comp (30/100) 2 (23/100) (39/100) (50/100); ex_comp (40/100) 2 (23/100) (39/100) (50/100)].
Definition ex_k : TrCrop :=
  {| k_MaxCanopyCD := 119; k_Kcb := 11/10; k_fage := 15/100; k_a_Tr := 1; k_TrColdStress := 1; k_GDD_up := 14; k_GDD_lo := 0;
     k_LagAer := 3; k_Zmin := 20/100; k_Aer := 5;
     k_pu0 := 20/100; k_pu1 := 65/100; k_pu2 := 70/100; k_pu3 := 85/100;
     k_pl0 := 65/100; k_pl1 := 1; k_pl2 := 1; k_pl3 := 1;
     k_ETadj := 1; k_beta := 12; k_fs0 := 5; k_fs1 := 25/10; k_fs2 := 25/10;
     k_SxTop := 48/1000; k_SxBot := 12/1000 |}.
Definition ex_s : TrState :=
  {| s_dap := 130; s_delayed_cds := 0; s_age_days_ns := 10; s_age_days := 10;
     s_ccx_w_ns := 96/100; s_ccx_w := 90/100; s_cc_adj_ns := 1; s_cc_adj := 98/100; s_cc_ns := 96/100; s_cc := 80/100;
     s_cc_prev := 81/100; s_surf := 4; s_day_sub := 1; s_aer_comp := [0; 1; 0; 2];
     s_z_root := 25/100; s_th := [15/100; 22/100; 45/100; 39/100]; s_t_early_sen := 0; s_aer_days := 1; s_r_cor := 1;
     s_irr_net_cum := 12; s_depletion := 3; s_taw := 40; s_tr_ratio := 1; s_t_pot := 2 |}.

Ltac rdecide :=
  match goal with
  | |- context [Rleb ?a ?b] => no_if a; no_if b; first [rewrite (Rleb_true a b) by lra | rewrite (Rleb_false a b) by lra]
  | |- context [Rltb ?a ?b] => no_if a; no_if b; first [rewrite (Rltb_true a b) by lra | rewrite (Rltb_false a b) by lra]
  end.

Lemma ex_wf : tr_wf ex_p ex_k ex_s.
Proof.
  constructor; cbn [ex_k ex_s k_SxTop k_SxBot s_r_cor k_Zmin k_LagAer s_aer_comp s_day_sub]; try lra.
  - repeat constructor; cbn [ex_comp c_dz c_th_dry c_th_wp c_th_fc c_th_s c_tau c_ksat]; lra.
  - cbn [geom ex_p ex_comp c_dzsum c_dz]. repeat split; lra.
  - repeat constructor; lra.
Qed.

Lemma ex_layers : layers_ok ex_p.
Proof.
  unfold layers_ok. cbn [layers_from ex_p ex_comp c_layer c_th_wp c_th_fc].
  repeat split; try (left; lia); right; repeat split; reflexivity.
Qed.

Lemma ex_bounds : in_bounds ex_p (s_th ex_s).
Proof. repeat constructor; cbn [ex_comp c_th_dry c_th_s]; lra. Qed.

Lemma rz_loop_defined rd aer p : forall th a, (length p <= length th)%nat ->
  Exists (fun c => rd <= c_dzsum c) p -> rz_loop rd aer p th a <> None.
Proof.
  induction p as [|c p IH]; intros th a Hl Hex; [inversion Hex|].
  destruct th as [|t th]; [simpl in Hl; lia|]. cbn [rz_loop]. rnum.
  destruct (Rleb_spec rd (c_dzsum c)); [discriminate|].
  apply IH; [simpl in Hl; lia|]. inversion Hex; subst; [lra|assumption].
Qed.

(* root_zone_water is defined when the (rounded) root depth lies inside the profile and, if the top soil is
   shallower than the roots, the first compartment lies inside the (rounded) top soil *)
Lemma rz_defined p zr th ztop zmin aer : (length p <= length th)%nat ->
  Exists (fun c => tr_rootdepth zr zmin <= c_dzsum c) p ->
  (ztop < tr_rootdepth zr zmin -> exists c p', p = c :: p' /\ c_dzsum c <= Rround 2 ztop) ->
  root_zone_water p zr th ztop zmin aer <> None.
Proof.
  intros Hl Hex Htop. unfold root_zone_water.
  change (nround_np num_ops 2 (npmax zr zmin)) with (tr_rootdepth zr zmin).
  destruct (rz_loop _ _ _ _ _) as [a|] eqn:E; [|exfalso; eapply rz_loop_defined; eauto].
  rnum. match goal with |- context [Rltb ztop ?x] => destruct (Rltb_spec ztop x) as [Hlt|] end; cbv beta iota; [|discriminate].
  destruct (Htop Hlt) as [c [p' [-> Hc]]]. cbn [count_if]. rnum.
  rewrite (Rleb_true _ _ Hc). pose proof (count_if_nonneg (fun c0 : Comp R => Rleb (c_dzsum c0) (Rround 2 ztop)) p') as Hn.
  destruct (_ <=? 0)%Z eqn:Ez; [apply Z.leb_le in Ez; lia|].
  destruct (top_loop _ _ _ _ _ _) as [[? ?] ?]. discriminate.
Qed.

Lemma ex_rd : tr_rootdepth (s_z_root ex_s) (k_Zmin ex_k) = 25/100.
Proof.
  unfold tr_rootdepth, pmax. cbn [ex_s ex_k s_z_root k_Zmin]. rnum. rdecide.
  replace (25/100) with (IZR 25 / pow10 2) by (unfold pow10; simpl; lra). apply Rround_IZR.
Qed.

Lemma ex_rz_defined : root_zone_water ex_p (s_z_root ex_s) (s_th ex_s) (10/100) (k_Zmin ex_k) (k_Aer ex_k) <> None.
Proof.
  apply rz_defined; rewrite ?ex_rd.
  - simpl. lia.
  - apply Exists_cons_tl, Exists_cons_tl, Exists_cons_hd. cbn [ex_comp c_dzsum]. lra.
  - intros _. eexists _, _. split; [reflexivity|]. cbn [ex_comp c_dzsum].
    replace (10/100) with (IZR 10 / pow10 2) by (unfold pow10; simpl; lra). rewrite Rround_IZR. lra.
Qed.

(* the hypotheses of all the theorems above hold together on this instance, and so do their conclusions *)
Example transpiration_example :
  exists o, transpiration ex_p (10/100) ex_k 4 80 ex_s 5 410 (36941/100) true 9 = Some o /\
    0 <= o_TrAct o <= o_TrPot0 o /\
    storage ex_p (s_th (o_state o)) + s_surf (o_state o) + o_TrAct o = storage ex_p (s_th ex_s) + s_surf ex_s + o_IrrNet o /\
    in_bounds ex_p (s_th (o_state o)) /\ 0 <= s_surf (o_state o) <= s_surf ex_s.
Proof.
  destruct (transpiration_defined ex_p (10/100) ex_k 4 80 ex_s 5 410 (36941/100) true 9) as [o Ho];
    [right; reflexivity | reflexivity | reflexivity | reflexivity | exact ex_rz_defined |].
  exists o. split; [exact Ho|].
  assert (Hpot : 0 <= o_TrPot0 o /\ 0 <= o_TrPot_NS o).
  { eapply (trpot_nonneg ex_p (10/100) ex_k 4 80 ex_s 5 410 (36941/100) true 9 o); try exact Ho;
      cbn [ex_s s_cc_adj s_cc_adj_ns]; try lra.
    - apply tr_kcb_nonneg; cbn [ex_k ex_s k_Kcb k_fage k_MaxCanopyCD s_dap s_delayed_cds s_age_days s_ccx_w]; try lra.
      unfold tr_age. rnum. rdecide. intros _. lra.
    - apply tr_kcb_nonneg; cbn [ex_k ex_s k_Kcb k_fage k_MaxCanopyCD s_dap s_delayed_cds s_age_days_ns s_ccx_w_ns]; try lra.
      unfold tr_age. rnum. rdecide. intros _. lra. }
  destruct Hpot as [Hpot _].
  split; [apply (tr_le_pot _ _ _ _ _ _ _ _ _ _ _ ex_wf Ho Hpot)|].
  split; [apply (transpiration_balance _ _ _ _ _ _ _ _ _ _ _ _ (tw_prof _ _ _ ex_wf) Ho)|].
  destruct (transpiration_bounds ex_p (10/100) ex_k 4 80 ex_s 5 410 (36941/100) true 9 o ex_wf) as [B1 B2];
    [intros _; split; [lra|exact ex_layers] | exact ex_bounds | exact Ho |].
  split; [exact B1|]. apply B2; [exact Hpot|]. cbn [ex_s s_surf]. lra.
Qed.

(* ------------------------------------------------------------------------------------------------ *)
(* 5. lower bound of the net-irrigation requirement (C04 carve-out).
   The trigger compares root-zone totals that root_zone_water rounds to 0.01 mm per compartment, whereas the
   amount added is computed from the unrounded contents; hence IrrNet can be slightly negative, but never by
   more than 0.01 mm per compartment of the root zone. *)
Fixpoint plan_sum (g : @Plan R -> R -> R) (plan : list (@Plan R)) (th : list R) : R :=
  match plan, th with x :: pl, t :: th' => g x t + plan_sum g pl th' | _, _ => 0 end.

Definition g_act (x : @Plan R) (t : R) : R := pl_rf x * 1000 * t * c_dz (pl_comp x).
Definition g_fc (x : @Plan R) (_ : R) : R := pl_rf x * 1000 * c_th_fc (pl_comp x) * c_dz (pl_comp x).
Definition g_wp (x : @Plan R) (_ : R) : R := pl_rf x * 1000 * c_th_wp (pl_comp x) * c_dz (pl_comp x).
Definition rnd (g : @Plan R -> R -> R) (x : @Plan R) (t : R) : R := Rround 2 (g x t).
Definition g_irr (smt : R) (x : @Plan R) (t : R) : R :=
  pl_rf x * ((c_th_wp (pl_comp x) + smt / 100 * (c_th_fc (pl_comp x) - c_th_wp (pl_comp x))) - t) * 1000 * c_dz (pl_comp x).

Lemma rround2_err x : - (5/1000) <= Rround 2 x - x <= 5/1000.
Proof.
  pose proof (Rround_err 2 x) as H. replace (/ 2 / pow10 2) with (5/1000) in H by (unfold pow10; simpl; lra).
  unfold Rabs in H. destruct (Rcase_abs (Rround 2 x - x)); lra.
Qed.

Lemma plan_sum_le g1 g2 e plan : (forall x t, g1 x t <= g2 x t + e) -> 0 <= e ->
  forall th, plan_sum g1 plan th <= plan_sum g2 plan th + e * INR (length plan).
Proof.
  intros Hg He. induction plan as [|x plan IH]; intros th; [simpl; lra|].
  destruct th as [|t th].
  - cbn [plan_sum]. pose proof (pos_INR (length (x :: plan))). nra.
  - cbn [plan_sum length]. rewrite S_INR. specialize (IH th). specialize (Hg x t). lra.
Qed.

Lemma plan_sum_irr smt plan : forall th,
  plan_sum (g_irr smt) plan th =
  (1 - smt / 100) * plan_sum g_wp plan th + smt / 100 * plan_sum g_fc plan th - plan_sum g_act plan th.
Proof.
  induction plan as [|x plan IH]; intros th; [simpl; ring|]. destruct th as [|t th]; [simpl; ring|].
  cbn [plan_sum]. rewrite IH. unfold g_irr, g_wp, g_fc, g_act. ring.
Qed.

Lemma rz_loop_sums k m rc rd aer : forall p z0 sxbot th acc a', wf_prof p -> geom z0 p ->
  rz_loop rd aer p th acc = Some a' ->
  let plan := tr_plan k m rc rd (tr_comp_sto p rd) p sxbot in
  a_act a' = a_act acc + plan_sum (rnd g_act) plan th /\
  a_fc a' = a_fc acc + plan_sum (rnd g_fc) plan th /\
  a_wp a' = a_wp acc + plan_sum (rnd g_wp) plan th.
Proof.
  induction p as [|c p IH]; intros z0 sxbot th acc a' Hw Hg; [discriminate|].
  destruct th as [|t th]; [discriminate|]. inversion Hw as [|? ? Hc Hw']; subst. destruct Hg as [Hs Hg].
  pose proof Hc as [Hdz _ _ _ _ _ _]. cbn [rz_loop]. rnum.
  destruct (Rleb_spec rd (c_dzsum c)) as [Hle|Hgt].
  - intros [= <-]. cbn [a_act a_fc a_wp].
    rewrite comp_sto_cons_false; [|apply Rltb_false; lra | apply (count_zero_below (c_dzsum c)); [assumption..|lra]].
    cbn [tr_plan]. replace (tr_plan k m rc rd 0 p (tr_sxbot k rc rd c)) with (@nil (@Plan R)) by (destruct p; reflexivity).
    cbn [plan_sum]. unfold rnd, g_act, g_fc, g_wp, pl_rf, pl_comp, rz_term, tr_rootfact. cbn [fst snd]. rnum.
    repeat split; lra.
  - intros H. rewrite comp_sto_cons_true by (apply Rltb_true; lra). cbn [tr_plan plan_sum].
    apply (IH (c_dzsum c) (tr_sxbot k rc rd c)) in H; [|assumption..]. cbv zeta in H. cbn [a_act a_fc a_wp] in H.
    destruct H as [H1 [H2 H3]]. rewrite H1, H2, H3.
    unfold rnd, g_act, g_fc, g_wp, pl_rf, pl_comp, rz_term, tr_rootfact. cbn [fst snd]. rnum.
    repeat split; lra.
Qed.

Lemma tr_netirr_sum smt plan : Forall plan_ok plan ->
  forall th thc pl wp fc irr th' irr',
  layers_from pl wp fc (map pl_comp plan) -> (thc = wp + smt / 100 * (fc - wp) \/ wp = 0) ->
  tr_netirr smt plan th thc pl irr = Some (th', irr') ->
  irr' = irr + plan_sum (g_irr smt) plan th.
Proof.
  induction plan as [|x plan IH]; intros Hok th thc pl wp fc irr th' irr' Hl Hinv; cbn [tr_netirr].
  - intros [= _ <-]. simpl. lra.
  - destruct th as [|t th]; [discriminate|]. inversion Hok as [|? ? Hx Hok']; subst.
    destruct Hx as [Hc _]. pose proof Hc as [_ Hdry Hdw _ _ _ _].
    cbn [map layers_from] in Hl. destruct Hl as [Hl1 Hl2]. rnum.
    set (c := pl_comp x) in *.
    set (own := c_th_wp c + smt / 100 * (c_th_fc c - c_th_wp c)).
    set (thc' := if (pl <? c_layer c)%Z then own else thc).
    assert (Hthc : thc' = own).
    { unfold thc'. destruct (pl <? c_layer c)%Z eqn:El; [reflexivity|].
      apply Z.ltb_ge in El. destruct Hl1 as [Hl1|[_ [Hw Hf]]]; [lia|].
      destruct Hinv as [Hinv|Hinv]; [|lra]. unfold own. rewrite Hw, Hf. exact Hinv. }
    destruct (tr_netirr _ _ _ _ _ _) as [[ths irr1]|] eqn:E; [|discriminate].
    intros [= _ <-].
    apply (IH Hok' th thc' _ (c_th_wp c) (c_th_fc c)) in E.
    + assert (Hgi : g_irr smt x t = pl_rf x * (own - t) * 1000 * c_dz c) by reflexivity.
      rewrite E, Hthc. cbn [plan_sum]. rewrite Hgi. lra.
    + destruct (pl <? c_layer c)%Z eqn:El; [exact Hl2|].
      apply Z.ltb_ge in El. destruct Hl1 as [Hl1|[Hq _]]; [lia|]. rewrite <- Hq. exact Hl2.
    + left. exact Hthc.
Qed.

Lemma rz_fields p zr th ztop zmin aer r :
  root_zone_water p zr th ztop zmin aer = Some r ->
  exists a, rz_loop (tr_rootdepth zr zmin) aer p th
                    {| a_act := 0; a_s := 0; a_fc := 0; a_wp := 0; a_dry := 0; a_aer := 0 |} = Some a /\
    rz_Act r = (if Rltb (a_act a) 0 then 0 else a_act a) / (tr_rootdepth zr zmin * 1000) /\
    rz_FC r = a_fc a / (tr_rootdepth zr zmin * 1000) /\ rz_WP r = a_wp a / (tr_rootdepth zr zmin * 1000).
Proof.
  unfold root_zone_water.
  change (nround_np num_ops 2 (npmax zr zmin)) with (tr_rootdepth zr zmin).
  change (nofZ num_ops 0) with 0.
  destruct (rz_loop _ _ _ _ _) as [a|]; [|discriminate]. exists a. split; [reflexivity|].
  destruct (_ <? _)%num.
  - destruct (_ <=? 0)%Z; [discriminate|]. destruct (top_loop _ _ _ _ _ _) as [[act fc] wp].
    revert H. intros [= <-]. cbn. rnum. repeat split; reflexivity.
  - revert H. intros [= <-]. cbn. rnum. repeat split; reflexivity.
Qed.

Lemma tr_rootdepth_ge zr zmin : 1/100 <= zmin -> 1/100 <= tr_rootdepth zr zmin.
Proof.
  intros H. unfold tr_rootdepth. rnum.
  assert (H1 : Rround 2 (1/100) = 1/100).
  { replace (1/100) with (IZR 1 / pow10 2) by (unfold pow10; simpl; lra). apply Rround_IZR. }
  rewrite <- H1 at 1. apply Rround_mono. unfold pmax. rnum. destruct (Rltb_spec zr zmin); lra.
Qed.

Lemma tr_plan_length_n k m rc rd n : forall p sx, (length (tr_plan k m rc rd n p sx) <= n)%nat.
Proof.
  induction n as [|n IH]; intros p sx; [destruct p; simpl; lia|]. destruct p as [|c p]; [simpl; lia|].
  cbn [tr_plan length]. specialize (IH p (tr_sxbot k rc rd c)). lia.
Qed.

Theorem irrnet_lower p ztop k m smt s et0 co2c co2r gs gdd o :
  tr_wf p k s -> 1/100 <= k_Zmin k -> (m = 4%Z -> 0 <= smt <= 100 /\ layers_ok p) ->
  transpiration p ztop k m smt s et0 co2c co2r gs gdd = Some o ->
  - (1/100) * INR (tr_comp_sto p (tr_rootdepth (s_z_root s) (k_Zmin k))) <= o_IrrNet o.
Proof.
  intros Hwf Hzm Hm4.
  set (rd := tr_rootdepth (s_z_root s) (k_Zmin k)).
  assert (Hn : - (1/100) * INR (tr_comp_sto p rd) <= 0) by (pose proof (pos_INR (tr_comp_sto p rd)); nra).
  destruct gs; [|unfold transpiration; intros [= <-]; cbn; rnum; exact Hn].
  pose proof (tr_wf_plan p k s m Hwf) as Hplan. destruct Hwf as [Hw Hg HT HB Hr Hz Hl Ha Hds Hdi].
  tr_inv. fold rd in Et, Hplan, El.
  destruct (tr_plan_prefix k m (s_r_cor s) rd (tr_comp_sto p rd) p (k_SxTop k)) as [p2 Hp2].
  set (plan := tr_plan _ _ _ _ _ _ _) in *.
  revert Et. unfold tr_tail. rnum.
  destruct (Z.eq_dec m 4) as [E4|N4]; [|apply Z.eqb_neq in N4; rewrite N4; cbn [andb]; intros [= _ <- _ _ _]; exact Hn].
  destruct (Hm4 E4) as [Hs Hly].
  destruct ((m =? 4)%Z && Rltb 0 _); [|destruct (_ && _); intros [= _ <- _ _ _]; exact Hn].
  destruct (root_zone_water p (s_z_root s) th1 ztop (k_Zmin k) (k_Aer k)) as [r2|] eqn:Er2; [|discriminate].
  destruct (Rltb_spec (rz_Act r2) (rz_WP r2 + smt / 100 * (rz_FC r2 - rz_WP r2))) as [Hlt|_]; cbv beta iota;
    [|intros [= _ <- _ _ _]; exact Hn].
  destruct (tr_netirr _ _ _ _ _ _) as [[t2 i2]|] eqn:En; [|discriminate]. intros [= _ <- _ _ _].
  (* the amount added *)
  assert (Hly' : layers_from 0 0 0 (map pl_comp plan)) by (unfold layers_ok in Hly; rewrite Hp2 in Hly; eapply layers_from_app; exact Hly).
  pose proof (tr_netirr_sum smt plan Hplan _ _ _ 0 0 _ _ _ Hly' (or_intror eq_refl) En) as Hsum.
  rewrite plan_sum_irr in Hsum.
  (* the trigger, in terms of the rounded sums *)
  destruct (rz_fields _ _ _ _ _ _ _ Er2) as [a [Hloop [HA [HF HW]]]].
  change (tr_rootdepth (s_z_root s) (k_Zmin k)) with rd in Hloop, HA, HF, HW.
  pose proof (rz_loop_sums k m (s_r_cor s) rd (k_Aer k) p 0 (k_SxTop k) _ _ _ Hw Hg Hloop) as Hsums.
  cbv zeta in Hsums. change (tr_plan k m (s_r_cor s) rd (tr_comp_sto p rd) p (k_SxTop k)) with plan in Hsums.
  cbn [a_act a_fc a_wp] in Hsums. destruct Hsums as [S1 [S2 S3]].
  pose proof (tr_rootdepth_ge (s_z_root s) _ Hzm) as Hrd. change (1/100 <= rd) in Hrd.
  assert (Hd : 0 < rd * 1000) by lra.
  rewrite HA, HF, HW in Hlt. set (d := rd * 1000) in *.
  set (Wact := if Rltb (a_act a) 0 then 0 else a_act a) in *.
  assert (Hact : a_act a <= Wact) by (unfold Wact; destruct (Rltb_spec (a_act a) 0); lra).
  assert (Htrig : Wact < a_wp a + smt / 100 * (a_fc a - a_wp a)).
  { apply (Rmult_lt_compat_r d) in Hlt; [|exact Hd].
    replace (Wact / d * d) with Wact in Hlt by (field; lra).
    replace ((a_wp a / d + smt / 100 * (a_fc a / d - a_wp a / d)) * d) with (a_wp a + smt / 100 * (a_fc a - a_wp a)) in Hlt by (field; lra).
    exact Hlt. }
  (* rounding errors: 0.005 mm per term *)
  assert (He : 0 <= 5/1000) by lra.
  assert (B1 : plan_sum (rnd g_wp) plan th1 <= plan_sum g_wp plan th1 + 5/1000 * INR (length plan)).
  { apply plan_sum_le; [|exact He]. intros x t. unfold rnd. pose proof (rround2_err (g_wp x t)). lra. }
  assert (B2 : plan_sum (rnd g_fc) plan th1 <= plan_sum g_fc plan th1 + 5/1000 * INR (length plan)).
  { apply plan_sum_le; [|exact He]. intros x t. unfold rnd. pose proof (rround2_err (g_fc x t)). lra. }
  assert (B3 : plan_sum g_act plan th1 <= plan_sum (rnd g_act) plan th1 + 5/1000 * INR (length plan)).
  { apply plan_sum_le; [|exact He]. intros x t. unfold rnd. pose proof (rround2_err (g_act x t)). lra. }
  assert (Hlen : INR (length plan) <= INR (tr_comp_sto p rd)).
  { apply le_INR. apply tr_plan_length_n. }
  set (f := smt / 100) in *. assert (Hf : 0 <= f <= 1) by (unfold f; lra).
  set (Swp := plan_sum (rnd g_wp) plan th1) in *. set (Sfc := plan_sum (rnd g_fc) plan th1) in *.
  set (Sact := plan_sum (rnd g_act) plan th1) in *.
  set (Twp := plan_sum g_wp plan th1) in *. set (Tfc := plan_sum g_fc plan th1) in *. set (Tact := plan_sum g_act plan th1) in *.
  set (n := INR (length plan)) in *. set (N := INR (tr_comp_sto p rd)) in *.
  assert (P1 : (1 - f) * (Swp - 5/1000 * n) <= (1 - f) * Twp) by (apply Rmult_le_compat_l; lra).
  assert (P2 : f * (Sfc - 5/1000 * n) <= f * Tfc) by (apply Rmult_le_compat_l; lra).
  rewrite S1, S2, S3 in *. rewrite Hsum. lra.
Qed.

(* ------------------------------------------------------------------------------------------------ *)
(* IrrNet >= 0 is false for the model (and for the code): a witness *)
From Flocq Require Import Core.

Lemma Rround_near d x n : Rabs (x * pow10 d - IZR n) < /2 -> Rround d x = IZR n / pow10 d.
Proof. intros H. unfold Rround. f_equal. f_equal. apply Znearest_imp. exact H. Qed.

Lemma Rround2_near x n : - (1/2) < x * 100 - IZR n < 1/2 -> Rround 2 x = IZR n / 100.
Proof.
  intros H. rewrite (Rround_near 2 x n); [unfold pow10; simpl; reflexivity|].
  unfold pow10; simpl. unfold Rabs. destruct (Rcase_abs _); lra.
Qed.

Definition rf_c : Comp R :=
  {| c_dz := 10/100; c_dzsum := 10/100; c_zmid := 5/100; c_layer := 1;
     c_th_dry := 5/100; c_th_wp := 10006/100000; c_th_fc := 30/100; c_th_s := 50/100;
     c_ksat := 500; c_tau := 76/100; c_pen := 100; c_acr := 0; c_bcr := 0 |}.
Definition rf_k : TrCrop :=
  {| k_MaxCanopyCD := 119; k_Kcb := 11/10; k_fage := 15/100; k_a_Tr := 1; k_TrColdStress := 1; k_GDD_up := 14; k_GDD_lo := 0;
     k_LagAer := 3; k_Zmin := 10/100; k_Aer := 5;
     k_pu0 := 20/100; k_pu1 := 65/100; k_pu2 := 70/100; k_pu3 := 85/100;
     k_pl0 := 65/100; k_pl1 := 1; k_pl2 := 1; k_pl3 := 1;
     k_ETadj := 1; k_beta := 12; k_fs0 := 5; k_fs1 := 25/10; k_fs2 := 25/10;
     k_SxTop := 48/1000; k_SxBot := 12/1000 |}.
Definition rf_s : TrState :=
  {| s_dap := 50; s_delayed_cds := 0; s_age_days_ns := 0; s_age_days := 0;
     s_ccx_w_ns := 9/10; s_ccx_w := 9/10; s_cc_adj_ns := 1; s_cc_adj := 1; s_cc_ns := 9/10; s_cc := 9/10;
     s_cc_prev := 9/10; s_surf := 0; s_day_sub := 0; s_aer_comp := [0];
     s_z_root := 10/100; s_th := [20004/100000]; s_t_early_sen := 0; s_aer_days := 0; s_r_cor := 1;
     s_irr_net_cum := 0; s_depletion := 0; s_taw := 0; s_tr_ratio := 1; s_t_pot := 0 |}.

Lemma rf_rd : tr_rootdepth (s_z_root rf_s) (k_Zmin rf_k) = 10/100.
Proof.
  unfold tr_rootdepth, pmax. cbn [rf_s rf_k s_z_root k_Zmin]. rnum. rdecide.
  rewrite (Rround2_near (10/100) 10) by (simpl; lra). reflexivity.
Qed.

Lemma rf_plan : tr_plan rf_k 4 (s_r_cor rf_s) (10/100) (tr_comp_sto [rf_c] (10/100)) [rf_c] (k_SxTop rf_k) =
                [(rf_c, 1, (48/1000 + 12/1000) / 2)].
Proof.
  unfold tr_comp_sto. cbn [count_if length rf_c c_dzsum]. rnum. rdecide.
  cbn [Z.add Z.of_nat Z.min Z.compare Z.to_nat Pos.to_nat Pos.iter_op Pos.of_succ_nat Pos.compare Pos.compare_cont Init.Nat.add].
  change (Pos.to_nat 1) with 1%nat. cbn [tr_plan Z.eqb Pos.eqb]. unfold tr_rootfact. cbn [rf_c c_dzsum rf_k k_SxTop k_SxBot]. rnum. rdecide. reflexivity.
Qed.

(* the lower bound cannot be improved to 0: one 0.1 m compartment, th_wp = 0.10006, th = 0.20004, 50 % target.
   root_zone_water rounds 10.006 mm up to 10.01 and 20.004 mm down to 20.00, the trigger 20.00 < 20.005 fires,
   and the unrounded requirement is (0.20003 - 0.20004) * 100 mm = -0.001 mm.
   Replayed on the Python (day_submerged = LagAer so that nothing is extracted): IrrNet = -0.001000000000001. *)
Theorem irrnet_nonneg_refuted :
  let rd := tr_rootdepth (s_z_root rf_s) (k_Zmin rf_k) in
  let plan := tr_plan rf_k 4 (s_r_cor rf_s) rd (tr_comp_sto [rf_c] rd) [rf_c] (k_SxTop rf_k) in
  wf_prof [rf_c] /\ in_bounds [rf_c] (s_th rf_s) /\ layers_ok [rf_c] /\
  exists th2 irrnet cum d t,
    tr_tail [rf_c] (10/100) rf_k 4 50 rf_s plan (s_th rf_s) 1 = Some (th2, irrnet, cum, d, t) /\ irrnet < 0.
Proof.
  cbv zeta. rewrite rf_rd, rf_plan. cbn [rf_s s_th].
  split; [repeat constructor; cbn [rf_c c_dz c_th_dry c_th_wp c_th_fc c_th_s c_tau c_ksat]; lra|].
  split; [repeat constructor; cbn [rf_c c_th_dry c_th_s]; lra|].
  split; [unfold layers_ok; cbn [layers_from rf_c c_layer]; split; [left; lia|exact I]|].
  do 5 eexists. split.
  - unfold tr_tail. cbn [Z.eqb Pos.eqb andb]. rnum. rdecide.
    unfold root_zone_water. cbn [rf_s rf_k s_z_root k_Zmin k_Aer s_irr_net_cum]. rnum.
    unfold npmax. rnum. repeat rdecide.
    rewrite (Rround2_near (10/100) 10) by (simpl; lra).
    cbn [rz_loop rf_c c_dz c_dzsum c_th_dry c_th_wp c_th_fc c_th_s]. unfold rz_term. rnum. cbn [a_act a_s a_fc a_wp a_dry a_aer].
    rewrite !(Rltb_false (10/100) (10/100)) by lra. rewrite (Rleb_true (10/100) (10/100)) by lra.
    rewrite (Rround2_near (1 * 1000 * (20004 / 100000) * (10 / 100)) 2000) by (simpl; lra).
    rewrite (Rround2_near (1 * 1000 * (50 / 100) * (10 / 100)) 5000) by (simpl; lra).
    rewrite (Rround2_near (1 * 1000 * (30 / 100) * (10 / 100)) 3000) by (simpl; lra).
    rewrite (Rround2_near (1 * 1000 * (10006 / 100000) * (10 / 100)) 1001) by (simpl; lra).
    rewrite (Rround2_near (1 * 1000 * (5 / 100) * (10 / 100)) 500) by (simpl; lra).
    rewrite (Rround2_near (1 * 1000 * (50 / 100 - 5 / 100) * (10 / 100)) 4500) by (simpl; lra).
    cbn [a_act a_s a_fc a_wp a_dry a_aer]. repeat rdecide. cbn [rz_Act rz_WP rz_FC rz_Dr_Rz rz_TAW_Rz]. repeat rdecide.
    cbn [tr_netirr pl_comp pl_rf fst snd rf_c c_layer c_th_wp c_th_fc c_dz Z.ltb Z.compare]. rnum.
    reflexivity.
  - cbn. lra.
Qed.

(* Print Assumptions tr_le_pot transpiration_balance transpiration_bounds irrnet_lower: only the axioms of Coq's Reals. *)
