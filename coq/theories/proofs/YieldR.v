(* YieldR.v — theorems over R about Crop/Yield.v (properties C05, C06: biomass gain, reference and adjusted
   harvest index, yield identities, definedness). *)
From AC Require Import Num RInst Params Kernels.
From AC.Water Require Import RootZone.
From AC.Crop Require Import Yield.
From AC.gen Require Import CropCatalogue.
From AC.proofs Require Import KernelsR CatalogueR.
From Coq Require Import QArith Qreals List String.
Local Open Scope R_scope.

#[export] Instance RTrig : TrigOps R := {| tsin := sin; tpi := PI |}.

Ltac yunfold := unfold pmin, pmax, npmin, npmax, nabs in *; rnum.

Lemma Reqb_refl x : Reqb x x = true.
Proof. destruct (Reqb_spec x x); [reflexivity | contradiction]. Qed.

(* ================================================================== 1. biomass (C05, C06) *)

(* the blend factor k = 1 - (1 - WPy/100) fswitch applied to WP during yield formation *)
Definition blend (c : YCrop (F:=R)) (fs : R) : R := 1 - (1 - y_WPy c / 100) * fs.

Lemma hit_R c dap dcds : hit c dap dcds = IZR (dap - dcds) - y_HIstartCD c - 1.
Proof. reflexivity. Qed.

(* 0 <= fswitch <= 1 from the code's own clamps: pct_lag_phase in [0,100] (determinate crops),
   0 <= HIt < YldFormCD/3 on the division branch, the constant 1 otherwise *)
Lemma fswitch_range c t pct fs :
  fswitch c t pct = Some fs -> 0 <= pct <= 100 -> 0 <= t -> 0 <= fs <= 1.
Proof.
  unfold fswitch. rnum. intros H Hp Ht. revert H. rcases; intros [= <-]; try lra.
  apply frac_range; lra.
Qed.

Lemma blend_range c fs : y_WPy c <= 100 -> 0 <= fs <= 1 -> y_WPy c / 100 <= blend c fs <= 1.
Proof. intros Hw Hf. unfold blend. nra. Qed.

Lemma blend_nonneg c fs : 0 <= y_WPy c -> 0 <= fs <= 1 -> 0 <= blend c fs.
Proof. intros Hw Hf. unfold blend. nra. Qed.

(* wp_adj = WP * k with k = 1 (no switch) or the blend *)
Lemma wp_adj_factor c t hiref pct w :
  wp_adj c t hiref pct = Some w -> 0 <= pct <= 100 -> (0 < hiref -> 0 <= t) ->
  exists fs, 0 <= fs <= 1 /\ w = y_WP c * blend c fs.
Proof.
  unfold wp_adj. intros H Hp Ht. revert H. rnum.
  destruct (is23 c); cbn [andb].
  - destruct (Rltb_spec 0 hiref) as [Hh|Hh].
    + destruct (fswitch c t pct) as [fs|] eqn:E; [|discriminate]. intros [= <-].
      exists fs. split; [eapply fswitch_range; eauto | reflexivity].
    + intros [= <-]. exists 0. split; [lra | unfold blend; ring].
  - intros [= <-]. exists 0. split; [lra | unfold blend; ring].
Qed.

Theorem biomass_gain c dap dcds hiref pct B Bns Tr TrPot et0 B' Bns' :
  biomass_accumulation c dap dcds hiref pct B Bns Tr TrPot et0 true = Some (B', Bns') ->
  0 <= pct <= 100 -> (0 < hiref -> 0 <= hit c dap dcds) -> y_WPy c <= 100 ->
  exists k, y_WPy c / 100 <= k <= 1 /\
            B' - B = y_WP c * y_fCO2 c * (Tr / et0) * k /\
            Bns' - Bns = y_WP c * y_fCO2 c * (TrPot / et0) * k.
Proof.
  unfold biomass_accumulation. intros H Hp Ht Hw.
  destruct (wp_adj c (hit c dap dcds) hiref pct) as [w|] eqn:E; [|discriminate].
  destruct (wp_adj_factor _ _ _ _ _ E Hp Ht) as [fs [Hfs ->]].
  revert H. rnum. destruct (Reqb_spec et0 0); [discriminate|]. rewrite Reqb_refl. intros [= <- <-].
  exists (blend c fs). split; [apply blend_range; assumption|]. split; ring.
Qed.

Theorem biomass_monotone c dap dcds hiref pct B Bns Tr TrPot et0 B' Bns' :
  biomass_accumulation c dap dcds hiref pct B Bns Tr TrPot et0 true = Some (B', Bns') ->
  0 <= pct <= 100 -> (0 < hiref -> 0 <= hit c dap dcds) ->
  0 <= Tr -> 0 <= TrPot -> 0 < et0 -> 0 <= y_WP c -> 0 <= y_fCO2 c -> 0 <= y_WPy c ->
  B <= B' /\ Bns <= Bns'.
Proof.
  unfold biomass_accumulation. intros H Hp Ht HTr HTp He HW Hf Hy.
  destruct (wp_adj c (hit c dap dcds) hiref pct) as [w|] eqn:E; [|discriminate].
  destruct (wp_adj_factor _ _ _ _ _ E Hp Ht) as [fs [Hfs ->]].
  revert H. rnum. destruct (Reqb_spec et0 0); [lra|]. rewrite Reqb_refl. intros [= <- <-].
  pose proof (blend_nonneg c fs Hy Hfs) as Hk.
  assert (0 <= Tr / et0) by (apply Rmult_le_pos; [lra | left; apply Rinv_0_lt_compat; lra]).
  assert (0 <= TrPot / et0) by (apply Rmult_le_pos; [lra | left; apply Rinv_0_lt_compat; lra]).
  assert (0 <= y_WP c * blend c fs * y_fCO2 c) by (apply Rmult_le_pos; [apply Rmult_le_pos|]; lra).
  split; [assert (0 <= y_WP c * blend c fs * y_fCO2 c * (Tr / et0)) by (apply Rmult_le_pos; lra)
         |assert (0 <= y_WP c * blend c fs * y_fCO2 c * (TrPot / et0)) by (apply Rmult_le_pos; lra)]; lra.
Qed.

(* no cold-stress factor (Kst_Bio) exists in this implementation's biomass_accumulation: the only
   multiplicative factors are WP, the blend k, fCO2 and Tr/ET0 (biomass_gain is the identity as coded). *)

Theorem biomass_off_season c dap dcds hiref pct B Bns Tr TrPot et0 :
  biomass_accumulation c dap dcds hiref pct B Bns Tr TrPot et0 false = Some (0, 0).
Proof. reflexivity. Qed.

(* definedness: ET0 <> 0 and, for indeterminate crops before a third of a zero-length yield formation, YldFormCD <> 0 *)
Theorem biomass_defined c dap dcds hiref pct B Bns Tr TrPot et0 gs :
  et0 <> 0 -> (y_Determinant c = 1 \/ y_YldFormCD c <> 0) ->
  exists r, biomass_accumulation c dap dcds hiref pct B Bns Tr TrPot et0 gs = Some r.
Proof.
  intros He Hy. unfold biomass_accumulation. destruct gs; [|eexists; reflexivity].
  assert (Hw : exists w, wp_adj c (hit c dap dcds) hiref pct = Some w).
  { generalize (hit c dap dcds) as t. intros t. unfold wp_adj, fswitch. rnum.
    destruct (is23 c && Rltb 0 hiref); [|eexists; reflexivity].
    destruct (Reqb_spec (y_Determinant c) 1); [eexists; reflexivity|].
    destruct (Rltb_spec t (y_YldFormCD c / 3)); [|eexists; reflexivity].
    destruct (Reqb_spec (y_YldFormCD c / 3) 0); [|eexists; reflexivity].
    exfalso. destruct Hy; [contradiction | lra]. }
  destruct Hw as [w ->]. rnum. destruct (Reqb_spec et0 0); [contradiction|]. eexists; reflexivity.
Qed.

(* ================================================================== 3. adjusted harvest index (C05) *)
(* ---- ranges of the three adjustment factors *)
Lemma half_sin_scale s d : -1 <= s <= 1 -> 0 <= d -> 0 <= ((1 + s) / 2) * (d / 100) <= d / 100.
Proof. intros Hs Hd. split; nra. Qed.

Ltac rcases_b := repeat (rcase_goal; cbn [andb]).

Lemma pre_anthesis_range B Bns cc d :
  0 <= HIadj_pre_anthesis B Bns cc d /\ (0 <= d -> HIadj_pre_anthesis B Bns cc d <= 1 + d / 100).
Proof.
  unfold HIadj_pre_anthesis. rnum. cbn [tsin tpi RTrig].
  repeat match goal with |- context [sin ?x] =>
    let s := fresh "s" in let H := fresh "H" in pose proof (SIN_bound x) as H; set (s := sin x) in *; clearbody s end.
  rcases_b; split; intros; try lra.
  all: try (match goal with |- context [((1 + ?s) / 2) * (?d / 100)] => pose proof (half_sin_scale s d ltac:(assumption) ltac:(lra)) end; lra).
Qed.

Lemma flow_frac_nonneg t flo f : flow_frac t flo = Some f -> 0 <= f.
Proof.
  unfold flow_frac. rnum. destruct (Reqb_spec t 0); [intros [= <-]; lra|].
  destruct (Reqb_spec flo 0); [discriminate|]. intros [= <-]. rcases; lra.
Qed.

Lemma frac_flow_nonneg t flo ff : 0 < flo -> frac_flow t flo = Some (Some ff) -> 0 <= ff.
Proof.
  intros Hf. unfold frac_flow. rnum. destruct (Reqb_spec t 0); [intros [= <-]; lra|].
  destruct (Rltb_spec 0 t); [|discriminate].
  destruct (flow_frac (t - 1) flo) as [F1|] eqn:E1; [|discriminate].
  destruct (flow_frac t flo) as [F2|] eqn:E2; [|discriminate].
  apply flow_frac_nonneg in E1. apply flow_frac_nonneg in E2.
  intros [= <-]. yunfold. rcases; try lra.
  all: apply Rmult_le_pos; [lra | left; apply Rinv_0_lt_compat; lra].
Qed.

Lemma pollination_range cc fpol flo ccmin exc kp pc ph t f :
  HIadj_pollination cc fpol flo ccmin exc kp pc ph t = Some f ->
  0 < flo -> 0 <= fpol <= 1 -> 0 <= kp -> 0 <= pc -> 0 <= ph -> -100 <= exc -> fpol <= f <= 1.
Proof.
  unfold HIadj_pollination. intros H Hflo Hp Hk Hc Hh He.
  destruct (frac_flow t flo) as [[ff|]|] eqn:E; [| |discriminate]; revert H; rnum.
  - apply frac_flow_nonneg in E; [|exact Hflo].
    destruct (Rltb_spec cc ccmin).
    + intros [= <-]. rcases; lra.
    + assert (Hks : 0 <= pmin (pmin kp pc) ph) by (yunfold; rcases; lra).
      set (ks := pmin (pmin kp pc) ph) in *. clearbody ks.
      assert (0 <= ks * ff * (1 + exc / 100)) by (apply Rmult_le_pos; [apply Rmult_le_pos|]; lra).
      intros [= <-]. rcases; lra.
  - destruct (Rltb_spec cc ccmin); [|discriminate]. intros [= <-]. rcases; lra.
Qed.

Lemma Rpow_nonneg x y : 0 <= Rpow x y.
Proof.
  unfold Rpow. destruct (Req_EM_T x 0); [destruct (Req_EM_T y 0); lra|].
  unfold Rpower. left. apply exp_pos.
Qed.

Lemma div_pos a b : 0 <= a -> 0 < b -> 0 <= a / b.
Proof. intros; apply Rmult_le_pos; [lra | left; apply Rinv_0_lt_compat; lra]. Qed.

Lemma post_anthesis_nonneg c dcds s1 s2 dap fpre cc upp dwn ke ks po :
  HIadj_post_anthesis dcds s1 s2 dap fpre cc upp dwn c ke ks = Some po ->
  0 < hit c dap dcds -> y_HIstartCD c <= y_CanopyDevEndCD c -> 0 <= y_YldFormCD c ->
  (0 < y_b_HI c -> 1 <= y_b_HI c) -> ke <= 1 -> 0 <= ks <= 1 ->
  0 <= s1 -> 0 <= s2 -> 0 <= upp -> 0 <= dwn ->
  0 <= p_scor1 po /\ 0 <= p_scor2 po /\ 0 <= p_upp po /\ 0 <= p_dwn po /\ 0 <= p_fpost po.
Proof.
  intros H Ht Hc Hy Hb Hke Hks H1 H2 Hu Hd. revert H. unfold HIadj_post_anthesis.
  rewrite hit_R in Ht. rnum.
  set (tmax1 := y_CanopyDevEndCD c - y_HIstartCD c). assert (0 <= tmax1) by (unfold tmax1; lra).
  set (d := IZR (dap - dcds)) in *.
  set (daycor := d - 1 - y_HIstartCD c). assert (Hdc : 0 < daycor) by (unfold daycor; lra).
  destruct (Reqb_spec daycor 0); [lra|].
  pose proof (Rpow_nonneg ks (1 / 10)) as Hpw. set (pw := Rpow ks (1 / 10)) in *. clearbody pw.
  match goal with |- match ?r1 with _ => _ end = _ -> _ =>
    assert (R1 : exists a b, r1 = Some (a, b) /\ 0 <= a /\ 0 <= b) end.
  { rcases_b; try (do 2 eexists; split; [reflexivity|]; split; lra).
    assert (0 <= (1 - ke) / y_a_HI c) by (apply div_pos; lra).
    assert (0 <= (1 + (1 - ke) / y_a_HI c) / tmax1) by (apply div_pos; lra).
    do 2 eexists; split; [reflexivity|]. split; [lra|].
    apply Rmult_le_pos; [apply div_pos; lra | lra]. }
  destruct R1 as [a1 [b1 [-> [Ha1 Hb1]]]].
  match goal with |- match ?r2 with _ => _ end = _ -> _ =>
    assert (R2 : exists a b, r2 = Some (a, b) /\ 0 <= a /\ 0 <= b) end.
  { rcases_b; try (do 2 eexists; split; [reflexivity|]; split; lra).
    assert (1 <= y_b_HI c) by (apply Hb; lra).
    assert ((1 - ks) / y_b_HI c <= 1).
    { apply (Rmult_le_reg_r (y_b_HI c)); [lra|]. unfold Rdiv. rewrite Rmult_assoc, Rinv_l; lra. }
    assert (0 <= pw * (1 - (1 - ks) / y_b_HI c)) by (apply Rmult_le_pos; lra).
    assert (0 <= pw * (1 - (1 - ks) / y_b_HI c) / y_YldFormCD c) by (apply div_pos; lra).
    do 2 eexists; split; [reflexivity|]. split; [lra|].
    apply Rmult_le_pos; [apply div_pos; lra | lra]. }
  destruct R2 as [a2 [b2 [-> [Ha2 Hb2]]]].
  intros [= <-]. cbn [p_scor1 p_scor2 p_upp p_dwn p_fpost]. repeat split; try lra.
  rcases_b; try lra.
  - apply Rmult_le_pos; [lra|]. apply div_pos; [|lra]. assert (0 <= tmax1 * b1) by (apply Rmult_le_pos; lra). lra.
  - apply Rmult_le_pos; [lra|]. apply div_pos; [|lra]. assert (0 <= y_YldFormCD c * b2) by (apply Rmult_le_pos; lra). lra.
Qed.

(* ---- the invariant of harvest_index's state and the cap on HIadj *)
Record hi_crop_ok (c : YCrop (F:=R)) : Prop := {
  hc_type : (y_CropType c = 1 \/ y_CropType c = 2 \/ y_CropType c = 3)%Z;
  hc_HI0 : 0 <= y_HI0 c;
  hc_dHI0 : -100 <= y_dHI0 c;                               (* the cap 1 + dHI0/100 is not negative *)
  hc_leafy : y_CropType c = 1%Z -> 0 <= y_dHI0 c;           (* leafy crops: HIadj = HIref, needs cap >= 1 *)
  hc_exc : -100 <= y_exc c;
  hc_bHI : 0 < y_b_HI c -> 1 <= y_b_HI c;
  hc_cde : y_HIstartCD c <= y_CanopyDevEndCD c;
  hc_yld : 0 <= y_YldFormCD c }.

Definition hi_cap (c : YCrop (F:=R)) : R := (1 + y_dHI0 c / 100) * y_HI0 c.

Record hs_ok (c : YCrop (F:=R)) (s : HState (F:=R)) : Prop := {
  ok_fpre : 0 <= h_fpre s;
  ok_fpol : 0 <= h_fpol s <= 1;
  ok_s1 : 0 <= h_scor1 s; ok_s2 : 0 <= h_scor2 s;
  ok_upp : 0 <= h_upp s; ok_dwn : 0 <= h_dwn s; ok_fpost : 0 <= h_fpost s;
  ok_hiadj : 0 <= h_hiadj s <= hi_cap c;
  ok_hi : 0 <= h_hi s <= y_HI0 c }.

Lemma hi_mult_range c fpre fpost : 0 <= fpre -> 0 <= fpost -> -100 <= y_dHI0 c ->
  0 <= hi_mult c fpre fpost <= 1 + y_dHI0 c / 100.
Proof.
  intros. unfold hi_mult. rnum. assert (0 <= fpre * fpost) by (apply Rmult_le_pos; lra). rcases; lra.
Qed.

Lemma cap_ge_HI0 c : 0 <= y_HI0 c -> 0 <= y_dHI0 c -> y_HI0 c <= hi_cap c.
Proof. intros. unfold hi_cap. nra. Qed.

Theorem hi_core_invariant c s hiref dap dcds yf B Bns cc ke ks kp pH pC s' :
  hi_core c s hiref dap dcds yf B Bns cc ke ks kp pH pC = Some s' ->
  hi_crop_ok c -> hs_ok c s -> 0 <= hiref <= y_HI0 c ->
  ke <= 1 -> 0 <= ks <= 1 -> 0 <= kp -> 0 <= pH -> 0 <= pC ->
  hs_ok c s'.
Proof.
  intros H [Ty H0 Hd Hl He Hb Hc Hy] Hs Hr Hke Hks Hkp HpH HpC. revert H. unfold hi_core.
  set (t := hit c dap dcds). rnum.
  destruct (yf && Rleb 0 t); [|intros [= <-]; exact Hs].
  destruct Hs as [S1 S2 S3 S4 S5 S6 S7 S8 S9].
  destruct (is23 c).
  - (* root/tuber or fruit/grain *)
    match goal with |- (let '(_, _) := ?pf in _) = _ -> _ => assert (Hpf : 0 <= snd pf) end.
    { destruct (negb (h_preadj s)); cbn [snd]; [apply pre_anthesis_range | exact S1]. }
    match goal with |- (let '(_, _) := ?pf in _) = _ -> _ => destruct pf as [pa fpre] end. cbn [snd] in Hpf.
    match goal with |- match ?fp with _ => _ end = _ -> _ =>
      assert (Hfp : forall f, fp = Some f -> 0 <= f <= 1); [|destruct fp as [fpol|]; [|discriminate]] end.
    { intros f. destruct ((y_CropType c =? 3)%Z); cbn [andb]; [|intros [= <-]; exact S2].
      destruct (Rltb_spec 0 t); cbn [andb]; [|intros [= <-]; exact S2].
      destruct (Rleb_spec t (y_FloweringCD c)); [|intros [= <-]; exact S2].
      intros E. apply pollination_range in E; try lra. }
    specialize (Hfp fpol eq_refl).
    match goal with |- match ?po with _ => _ end = _ -> _ =>
      assert (Hpo : forall p, po = Some p ->
                0 <= p_scor1 p /\ 0 <= p_scor2 p /\ 0 <= p_upp p /\ 0 <= p_dwn p /\ 0 <= p_fpost p);
      [|destruct po as [po'|]; [|discriminate]] end.
    { intros p. destruct (Rltb_spec 0 t).
      - intros E. eapply post_anthesis_nonneg; eauto.
      - intros [= <-]. cbn. repeat split; assumption. }
    destruct (Hpo po' eq_refl) as [P1 [P2 [P3 [P4 P5]]]].
    intros [= <-]. pose proof (hi_mult_range c fpre (p_fpost po') Hpf P5 Hd) as Hm.
    set (m := hi_mult c fpre (p_fpost po')) in *. clearbody m.
    constructor; cbn; try assumption; try lra.
    assert (Hx : forall x, 0 <= x <= y_HI0 c -> 0 <= m * x <= hi_cap c).
    { intros x Hx. unfold hi_cap. split; [apply Rmult_le_pos; lra|].
      apply Rle_trans with ((1 + y_dHI0 c / 100) * x); [apply Rmult_le_compat_r; lra | apply Rmult_le_compat_l; lra]. }
    assert (0 <= fpol * y_HI0 c <= y_HI0 c) by nra.
    destruct ((y_CropType c =? 3)%Z); rcases; apply Hx; lra.
  - destruct (Z.eqb_spec (y_CropType c) 1); [|discriminate].
    pose proof (cap_ge_HI0 c H0 (Hl e)) as Hcap.
    intros [= <-]. constructor; cbn; try assumption; lra.
Qed.

Corollary hi_adj_le c s hiref dap dcds yf B Bns cc ke ks kp pH pC s' :
  hi_core c s hiref dap dcds yf B Bns cc ke ks kp pH pC = Some s' ->
  hi_crop_ok c -> hs_ok c s -> 0 <= hiref <= y_HI0 c ->
  ke <= 1 -> 0 <= ks <= 1 -> 0 <= kp -> 0 <= pH -> 0 <= pC ->
  h_hiadj s' <= (1 + y_dHI0 c / 100) * y_HI0 c.
Proof. intros. eapply hi_core_invariant in H; eauto. destruct H. unfold hi_cap in *. lra. Qed.

Corollary hi_adj_nonneg c s hiref dap dcds yf B Bns cc ke ks kp pH pC s' :
  hi_core c s hiref dap dcds yf B Bns cc ke ks kp pH pC = Some s' ->
  hi_crop_ok c -> hs_ok c s -> 0 <= hiref <= y_HI0 c ->
  ke <= 1 -> 0 <= ks <= 1 -> 0 <= kp -> 0 <= pH -> 0 <= pC ->
  0 <= h_hiadj s'.
Proof. intros. eapply hi_core_invariant in H; eauto. destruct H. lra. Qed.

(* ================================================================== 2. reference harvest index (C05) *)
Record hiref_crop_ok (c : YCrop (F:=R)) : Prop := {
  hr_type : (y_CropType c = 1 \/ y_CropType c = 2 \/ y_CropType c = 3)%Z;
  hr_ini : 0 < y_HIini c;
  hr_HI0 : y_HIini c <= y_HI0 c;
  hr_gc : 0 <= y_HIGC c;
  hr_lin : 0 <= y_dHILinear c }.

Lemma hi_logistic_R c t :
  hi_logistic c t = (y_HIini c * y_HI0 c) / (y_HIini c + (y_HI0 c - y_HIini c) * exp (- y_HIGC c * t)).
Proof. reflexivity. Qed.

Lemma logistic_den c t : hiref_crop_ok c -> y_HIini c <= y_HIini c + (y_HI0 c - y_HIini c) * exp (- y_HIGC c * t).
Proof.
  intros [_ Hi H0 _ _]. pose proof (exp_pos (- y_HIGC c * t)).
  assert (0 <= (y_HI0 c - y_HIini c) * exp (- y_HIGC c * t)) by (apply Rmult_le_pos; lra). lra.
Qed.

Lemma logistic_range c t : hiref_crop_ok c -> 0 <= hi_logistic c t <= y_HI0 c.
Proof.
  intros Hc. pose proof (logistic_den c t Hc) as Hd. destruct Hc as [_ Hi H0 _ _].
  rewrite hi_logistic_R. set (D := y_HIini c + _) in *. clearbody D. split.
  - apply div_pos; [apply Rmult_le_pos; lra | lra].
  - apply (Rmult_le_reg_r D); [lra|]. unfold Rdiv. rewrite Rmult_assoc, Rinv_l by lra. nra.
Qed.

Lemma logistic_mono c t1 t2 : hiref_crop_ok c -> t1 <= t2 -> hi_logistic c t1 <= hi_logistic c t2.
Proof.
  intros Hc Ht. pose proof (logistic_den c t1 Hc) as Hd1. pose proof (logistic_den c t2 Hc) as Hd2.
  destruct Hc as [_ Hi H0 Hg _]. rewrite !hi_logistic_R.
  assert (He : exp (- y_HIGC c * t2) <= exp (- y_HIGC c * t1)) by (apply exp_mono; nra).
  assert (HD : y_HIini c + (y_HI0 c - y_HIini c) * exp (- y_HIGC c * t2)
            <= y_HIini c + (y_HI0 c - y_HIini c) * exp (- y_HIGC c * t1)).
  { apply Rplus_le_compat_l. apply Rmult_le_compat_l; lra. }
  unfold Rdiv. apply Rmult_le_compat_l; [apply Rmult_le_pos; lra|].
  apply Rinv_le_contravar; lra.
Qed.

(* the reference curve before limiting, as a function of HIt (crop types 1,2,3: independent of the incoming values) *)
Definition hi_val (c : YCrop (F:=R)) (t : R) : R := snd (hi_curve c t 0 0).

Lemma hi_curve_val c t pct hiref : hiref_crop_ok c -> snd (hi_curve c t pct hiref) = hi_val c t.
Proof.
  intros [Ty _ _ _ _]. unfold hi_val, hi_curve, is12.
  destruct Ty as [E|[E|E]]; rewrite E; cbn; try reflexivity.
Qed.

Lemma hi_val_mono c t1 t2 : hiref_crop_ok c -> t1 <= t2 -> hi_val c t1 <= hi_val c t2.
Proof.
  intros Hc Ht. pose proof (logistic_mono c t1 t2 Hc Ht) as HL.
  pose proof (logistic_range c t1 Hc) as R1. pose proof (logistic_range c t2 Hc) as R2.
  pose proof (logistic_range c (y_tLinSwitch c) Hc) as R3.
  assert (Hlin : 0 <= y_dHILinear c) by (destruct Hc; assumption).
  unfold hi_val, hi_curve. destruct (is12 c); cbn [snd].
  - rnum. set (L1 := hi_logistic c t1) in *. set (L2 := hi_logistic c t2) in *. clearbody L1 L2. rcases; lra.
  - destruct ((y_CropType c =? 3)%Z); cbn [snd]; [|lra].
    rnum. destruct (Rltb_spec t1 (y_tLinSwitch c)), (Rltb_spec t2 (y_tLinSwitch c)); cbn [snd]; try lra.
    + assert (Hle : t1 <= y_tLinSwitch c) by lra. pose proof (logistic_mono c t1 (y_tLinSwitch c) Hc Hle).
      assert (0 <= y_dHILinear c * (t2 - y_tLinSwitch c)). { apply Rmult_le_pos; lra. } rnum. lra.
    + assert (y_dHILinear c * (t1 - y_tLinSwitch c) <= y_dHILinear c * (t2 - y_tLinSwitch c))
        by (apply Rmult_le_compat_l; lra). lra.
Qed.

Lemma hi_limit_range c h : 0 <= y_HI0 c -> -(4/1000) <= y_HIini c -> 0 <= hi_limit c h <= y_HI0 c.
Proof. intros. unfold hi_limit. rnum. rcases; lra. Qed.

Lemma hi_limit_mono c h1 h2 : 0 <= y_HI0 c -> -(4/1000) <= y_HIini c -> h1 <= h2 -> hi_limit c h1 <= hi_limit c h2.
Proof. intros. unfold hi_limit. rnum. rcases; lra. Qed.

(* the last step: the locally computed HIfinal caps the value *)
Definition hi_out (c : YCrop (F:=R)) (hifinal t cc ccxw h : R) : R :=
  let hf := hi_final_local c hifinal t cc ccxw h in if Rltb hf h then hf else h.

Lemma hi_out_le c hifinal t cc ccxw h : hi_out c hifinal t cc ccxw h <= h.
Proof. unfold hi_out. cbv zeta. rcases; lra. Qed.

Lemma hi_out_nonneg c hifinal t cc ccxw h : 0 <= h -> 0 <= hifinal -> 0 <= hi_out c hifinal t cc ccxw h.
Proof.
  intros. unfold hi_out, hi_final_local. cbv zeta.
  match goal with |- context [if ?b then h else hifinal] => destruct b end; rcases; lra.
Qed.

(* with HIfinal = HI0 (what the caller always passes) the cap is void; otherwise it is min(h, HIfinal) *)
Lemma hi_out_eq c hifinal t cc ccxw h : h <= y_HI0 c ->
  hi_out c hifinal t cc ccxw h = if Req_EM_T hifinal (y_HI0 c) then h else Rmin h hifinal.
Proof.
  intros Hh. unfold hi_out, hi_final_local. cbv zeta. rnum.
  destruct (Reqb_spec hifinal (y_HI0 c)) as [E|E]; cbn [andb]; destruct (Req_EM_T hifinal (y_HI0 c)); try contradiction.
  - match goal with |- context [if ?b then h else hifinal] => destruct b end; rcases; lra.
  - unfold Rmin. destruct (Rle_dec h hifinal); rcases; lra.
Qed.

Lemma hi_out_mono c hifinal t1 t2 cc1 cc2 x1 x2 h1 h2 : h1 <= h2 -> h2 <= y_HI0 c ->
  hi_out c hifinal t1 cc1 x1 h1 <= hi_out c hifinal t2 cc2 x2 h2.
Proof.
  intros H12 H2. rewrite !hi_out_eq by lra. destruct (Req_EM_T hifinal (y_HI0 c)); [lra|].
  apply Rle_min_compat_r. exact H12.
Qed.

Lemma HIref_value c hiref hifinal dap dcds yf pct cc ccxw :
  fst (fst (HIref_current_day c hiref hifinal dap dcds yf pct cc ccxw true)) =
  let t := hit c dap dcds in
  if Rleb t 0 then 0 else hi_out c hifinal t cc ccxw (hi_limit c (snd (hi_curve c t pct hiref))).
Proof.
  unfold HIref_current_day. cbv zeta. rnum. destruct (Rleb (hit c dap dcds) 0); [reflexivity|].
  destruct (hi_curve c (hit c dap dcds) pct hiref) as [p h]. reflexivity.
Qed.

Theorem hi_ref_le_HI0 c hiref hifinal dap dcds yf pct cc ccxw gs :
  0 <= y_HI0 c -> -(4/1000) <= y_HIini c ->
  fst (fst (HIref_current_day c hiref hifinal dap dcds yf pct cc ccxw gs)) <= y_HI0 c.
Proof.
  intros H0 Hi. destruct gs; [|cbn; lra]. rewrite HIref_value. cbv zeta.
  destruct (Rleb (hit c dap dcds) 0); [lra|].
  eapply Rle_trans; [apply hi_out_le | apply hi_limit_range; assumption].
Qed.

Theorem hi_ref_nonneg c hiref hifinal dap dcds yf pct cc ccxw gs :
  0 <= y_HI0 c -> -(4/1000) <= y_HIini c -> 0 <= hifinal ->
  0 <= fst (fst (HIref_current_day c hiref hifinal dap dcds yf pct cc ccxw gs)).
Proof.
  intros H0 Hi Hf. destruct gs; [|cbn; lra]. rewrite HIref_value. cbv zeta.
  destruct (Rleb (hit c dap dcds) 0); [lra|].
  apply hi_out_nonneg; [apply hi_limit_range; assumption | exact Hf].
Qed.

(* HIref is a function of HIt alone (for a given crop and HIfinal) and it is non-decreasing in HIt:
   as DAP - DelayedCDs never decreases within a season, neither does HIref *)
Theorem hi_ref_monotone c hifinal hiref1 hiref2 dap1 dap2 dcds1 dcds2 yf1 yf2 pct1 pct2 cc1 cc2 ccxw1 ccxw2 :
  hiref_crop_ok c -> 0 <= hifinal ->
  hit c dap1 dcds1 <= hit c dap2 dcds2 ->
  fst (fst (HIref_current_day c hiref1 hifinal dap1 dcds1 yf1 pct1 cc1 ccxw1 true)) <=
  fst (fst (HIref_current_day c hiref2 hifinal dap2 dcds2 yf2 pct2 cc2 ccxw2 true)).
Proof.
  intros Hc Hf Ht. rewrite !HIref_value. cbv zeta.
  set (t1 := hit c dap1 dcds1) in *. set (t2 := hit c dap2 dcds2) in *. clearbody t1 t2.
  assert (H0 : 0 <= y_HI0 c) by (destruct Hc; lra). assert (Hi : -(4/1000) <= y_HIini c) by (destruct Hc; lra).
  rewrite !hi_curve_val by exact Hc.
  destruct (Rleb_spec t1 0), (Rleb_spec t2 0); try lra.
  - apply hi_out_nonneg; [apply hi_limit_range; assumption | exact Hf].
  - apply hi_out_mono; [|apply hi_limit_range; assumption].
    apply hi_limit_mono; try assumption. apply hi_val_mono; assumption.
Qed.

(* PctLagPhase stays in [0,100] and HIref > 0 only after the start of yield formation:
   the two side conditions of biomass_gain / biomass_monotone *)
Lemma pct_lag_range c hiref hifinal dap dcds yf pct cc ccxw gs :
  0 <= pct <= 100 -> 0 <= snd (HIref_current_day c hiref hifinal dap dcds yf pct cc ccxw gs) <= 100.
Proof.
  intros Hp. unfold HIref_current_day. destruct gs; [|cbn; exact Hp]. cbv zeta. rnum.
  set (t := hit c dap dcds). destruct (Rleb_spec t 0); [cbn; lra|].
  assert (Hq : 0 <= fst (hi_curve c t pct hiref) <= 100).
  { unfold hi_curve. destruct (is12 c); [cbn; lra|]. destruct ((y_CropType c =? 3)%Z); [|cbn; lra].
    rnum. destruct (Rltb_spec t (y_tLinSwitch c)); cbn [fst]; [|lra].
    assert (Ha : 0 <= t <= y_tLinSwitch c) by lra. assert (Hb : 0 < y_tLinSwitch c) by lra.
    pose proof (frac_range t (y_tLinSwitch c) Ha Hb). lra. }
  destruct (hi_curve c t pct hiref) as [p h]. cbn in *. exact Hq.
Qed.

Lemma hiref_pos_hit c hiref hifinal dap dcds yf pct cc ccxw gs :
  0 < fst (fst (HIref_current_day c hiref hifinal dap dcds yf pct cc ccxw gs)) -> 0 < hit c dap dcds.
Proof.
  destruct gs; [|cbn; lra]. rewrite HIref_value. cbv zeta.
  destruct (Rleb_spec (hit c dap dcds) 0); lra.
Qed.

(* with HIfinal = HI0 -- the only value run_single_timestep ever passes, because the function does not return
   the HIfinal it computes -- the "inadequate photosynthesis" adjustment has no effect: HIref does not depend
   on the canopy arguments at all. *)
Theorem HIfinal_cap_is_void c hiref dap dcds yf pct cc ccxw cc' ccxw' gs :
  0 <= y_HI0 c -> -(4/1000) <= y_HIini c ->
  fst (fst (HIref_current_day c hiref (y_HI0 c) dap dcds yf pct cc ccxw gs)) =
  fst (fst (HIref_current_day c hiref (y_HI0 c) dap dcds yf pct cc' ccxw' gs)).
Proof.
  intros H0 Hi. destruct gs; [|reflexivity]. rewrite !HIref_value. cbv zeta.
  destruct (Rleb (hit c dap dcds) 0); [reflexivity|].
  set (h := hi_limit c _). assert (h <= y_HI0 c) by (apply hi_limit_range; assumption).
  rewrite !hi_out_eq by assumption. destruct (Req_EM_T (y_HI0 c) (y_HI0 c)); [reflexivity | contradiction].
Qed.

(* ---------------------------------------------------------------- explicit form of HIadj *)
Lemma hi_adj_explicit c s hiref dap dcds yf B Bns cc ke ks kp pH pC s' :
  hi_core c s hiref dap dcds yf B Bns cc ke ks kp pH pC = Some s' ->
  yf = true -> 0 <= hit c dap dcds -> is23 c = true ->
  let himax := if (y_CropType c =? 3)%Z then h_fpol s' * y_HI0 c else y_HI0 c in
  h_hi s' = hiref /\
  h_hiadj s' = hi_mult c (h_fpre s') (h_fpost s') * Rmin hiref himax.
Proof.
  intros H -> Ht T23. revert H. unfold hi_core. set (t := hit c dap dcds) in *. rnum. rewrite T23.
  destruct (Rleb_spec 0 t); [|contradiction]. cbn [andb].
  match goal with |- (let '(_, _) := ?pf in _) = _ -> _ => destruct pf as [pa fpre] end.
  match goal with |- match ?fp with _ => _ end = _ -> _ => destruct fp as [fpol|]; [|discriminate] end.
  match goal with |- match ?pp with _ => _ end = _ -> _ => destruct pp as [po|]; [|discriminate] end.
  intros [= <-]. cbn. split; [reflexivity|]. unfold Rmin.
  destruct ((y_CropType c =? 3)%Z).
  - destruct (Rleb_spec hiref (fpol * y_HI0 c)), (Rle_dec hiref (fpol * y_HI0 c)); try contradiction; reflexivity.
  - destruct (Rleb_spec hiref (y_HI0 c)), (Rle_dec hiref (y_HI0 c)); try contradiction; reflexivity.
Qed.

(* ---------------------------------------------------------------- definedness *)
Lemma flow_frac_defined t flo : (t = 0 \/ flo <> 0) -> exists f, flow_frac t flo = Some f.
Proof.
  intros H. unfold flow_frac. rnum. destruct (Reqb_spec t 0); [eexists; reflexivity|].
  destruct (Reqb_spec flo 0); [destruct H; contradiction | eexists; reflexivity].
Qed.

Lemma pollination_defined cc fpol flo ccmin exc kp pc ph t :
  0 < t <= flo -> exists f, HIadj_pollination cc fpol flo ccmin exc kp pc ph t = Some f.
Proof.
  intros Ht.
  destruct (flow_frac_defined (t - 1) flo) as [F1 E1]; [right; lra|].
  destruct (flow_frac_defined t flo) as [F2 E2]; [right; lra|].
  unfold HIadj_pollination, frac_flow. rnum. rewrite E1, E2.
  destruct (Reqb_spec t 0); [lra|]. destruct (Rltb_spec 0 t); [|lra].
  destruct (Rltb cc ccmin); eexists; reflexivity.
Qed.

Lemma post_anthesis_defined c dcds s1 s2 dap fpre cc upp dwn ke ks :
  hit c dap dcds <> 0 -> exists po, HIadj_post_anthesis dcds s1 s2 dap fpre cc upp dwn c ke ks = Some po.
Proof.
  intros Ht. rewrite hit_R in Ht. unfold HIadj_post_anthesis. rnum.
  destruct (Reqb_spec (IZR (dap - dcds) - 1 - y_HIstartCD c) 0); [lra|].
  match goal with |- context [if ?b then Some (?x, ?y) else Some (s1, upp)] => destruct b end;
  match goal with |- context [if ?b then Some (?x, ?y) else Some (s2, dwn)] => destruct b end;
  eexists; reflexivity.
Qed.

(* inside a growing season hi_core is defined for every known crop type: the divisions by FloweringCD and by
   DayCor (= HIt) are guarded by 0 < HIt <= FloweringCD and 0 < HIt in the code *)
Theorem hi_core_defined c s hiref dap dcds yf B Bns cc ke ks kp pH pC :
  (y_CropType c = 1 \/ y_CropType c = 2 \/ y_CropType c = 3)%Z ->
  exists s', hi_core c s hiref dap dcds yf B Bns cc ke ks kp pH pC = Some s'.
Proof.
  intros Ty. unfold hi_core. set (t := hit c dap dcds). rnum.
  destruct (yf && Rleb 0 t); [|eexists; reflexivity].
  destruct (is23 c) eqn:T23.
  - match goal with |- exists _, (let '(_, _) := ?pf in _) = _ => destruct pf as [pa fpre] end.
    match goal with |- exists _, match ?fp with _ => _ end = _ => assert (Hfp : exists f, fp = Some f) end.
    { destruct ((y_CropType c =? 3)%Z); cbn [andb]; [|eexists; reflexivity].
      destruct (Rltb_spec 0 t); cbn [andb]; [|eexists; reflexivity].
      destruct (Rleb_spec t (y_FloweringCD c)); [|eexists; reflexivity].
      apply pollination_defined; lra. }
    destruct Hfp as [f ->].
    match goal with |- exists _, match ?po with _ => _ end = _ => assert (Hpo : exists p, po = Some p) end.
    { destruct (Rltb_spec 0 t); [|eexists; reflexivity]. apply post_anthesis_defined. change (t <> 0). lra. }
    destruct Hpo as [po ->]. eexists; reflexivity.
  - unfold is23 in T23. destruct Ty as [E|[E|E]]; rewrite E in *; try discriminate. cbn. eexists; reflexivity.
Qed.

Theorem harvest_index_defined p ztop c sc s zroot th tes hiref dap dcds yf B Bns cc et0 tmax tmin gs rz :
  root_zone_water p zroot th ztop (s_Zmin sc) (s_Aer sc) = Some rz ->
  (s_PolHeat sc = 0 \/ s_PolHeat sc = 1)%Z -> (s_PolCold sc = 0 \/ s_PolCold sc = 1)%Z ->
  (y_CropType c = 1 \/ y_CropType c = 2 \/ y_CropType c = 3)%Z ->
  exists s', harvest_index p ztop c sc s zroot th tes hiref dap dcds yf B Bns cc et0 tmax tmin gs = Some s'.
Proof.
  intros Hrz Hh Hc Ty. unfold harvest_index. destruct gs; [|eexists; reflexivity]. rewrite Hrz.
  match goal with |- exists _, (let '(_, _) := ?pf in _) = _ => destruct pf as [dr taw] end.
  destruct (kst_defined (s_PolHeat sc) (s_Tmax_lo sc) (s_Tmax_up sc) (s_fshape_b sc) tmax Hh) as [[kh ->] _].
  destruct (kst_defined (s_PolCold sc) (s_Tmin_lo sc) (s_Tmin_up sc) (s_fshape_b sc) tmin Hc) as [_ [kc ->]].
  apply hi_core_defined. exact Ty.
Qed.

(* ---------------------------------------------------------------- harvest_index (the whole function) *)
Theorem harvest_index_invariant p ztop c sc s zroot th tes hiref dap dcds yf B Bns cc et0 tmax tmin gs s' :
  harvest_index p ztop c sc s zroot th tes hiref dap dcds yf B Bns cc et0 tmax tmin gs = Some s' ->
  hi_crop_ok c -> hs_ok c s -> 0 <= hiref <= y_HI0 c ->
  s_fs0 sc <> 0 -> s_fs1 sc <> 0 -> s_fs2 sc <> 0 ->
  (forall rz, root_zone_water p zroot th ztop (s_Zmin sc) (s_Aer sc) = Some rz -> 0 < rz_TAW_Rz rz /\ 0 < rz_TAW_Zt rz) ->
  hs_ok c s'.
Proof.
  intros H Hc Hs Hr F0 F1 F2 Htaw. revert H. unfold harvest_index. destruct gs.
  - destruct (root_zone_water p zroot th ztop (s_Zmin sc) (s_Aer sc)) as [rz|] eqn:E; [|discriminate].
    destruct (Htaw rz eq_refl) as [T1 T2].
    match goal with |- (let '(_, _) := ?pf in _) = _ -> _ => assert (Hp : 0 < snd pf) end.
    { match goal with |- context [if ?b then _ else _] => destruct b end; cbn; assumption. }
    match goal with |- (let '(_, _) := ?pf in _) = _ -> _ => destruct pf as [dr taw] end. cbn [snd] in Hp.
    destruct (kst_heat _ _ _ _ _) as [kh|] eqn:Eh; [|discriminate].
    destruct (kst_cold _ _ _ _ _) as [kc|] eqn:Ec; [|discriminate].
    apply kst_heat_range in Eh. apply kst_cold_range in Ec.
    match goal with |- context [water_stress ?a0 ?a1 ?a2 ?a3 ?b0 ?b1 ?b2 ?b3 ?e ?be ?f0 ?f1 ?f2 ?bo ?d ?tw ?et] =>
      pose proof (water_stress_range a0 a1 a2 a3 b0 b1 b2 b3 e be f0 f1 f2 bo d tw et Hp F0 F1 F2) as [K1 [K2 [K3 [K4 K5]]]] end.
    intros H. eapply hi_core_invariant; eauto; lra.
  - intros [= <-]. destruct Hs. destruct Hc.
    constructor; cbn; try assumption; lra.
Qed.

(* C05: the stress-adjusted harvest index never exceeds the reference by more than the allowed increase,
   the (unadjusted) harvest index never exceeds HI0, and both are non-negative *)
Corollary harvest_index_bounds p ztop c sc s zroot th tes hiref dap dcds yf B Bns cc et0 tmax tmin gs s' :
  harvest_index p ztop c sc s zroot th tes hiref dap dcds yf B Bns cc et0 tmax tmin gs = Some s' ->
  hi_crop_ok c -> hs_ok c s -> 0 <= hiref <= y_HI0 c ->
  s_fs0 sc <> 0 -> s_fs1 sc <> 0 -> s_fs2 sc <> 0 ->
  (forall rz, root_zone_water p zroot th ztop (s_Zmin sc) (s_Aer sc) = Some rz -> 0 < rz_TAW_Rz rz /\ 0 < rz_TAW_Zt rz) ->
  0 <= h_hiadj s' <= (1 + y_dHI0 c / 100) * y_HI0 c /\ 0 <= h_hi s' <= y_HI0 c.
Proof. intros. eapply harvest_index_invariant in H; eauto. destruct H. unfold hi_cap in *. split; assumption. Qed.

(* ---------------------------------------------------------------- 4. yield identities (C06) *)
Theorem yield_identities B Bns hi hiadj w :
  yields B Bns hi hiadj w true = (B / 100 * hiadj, B / 100 * hiadj / (w / 100), Bns / 100 * hi) /\
  yields B Bns hi hiadj w false = (0, 0, Bns / 100 * hi).
Proof. split; reflexivity. Qed.

Definition dry_yield (B Bns hi hiadj w : R) (gs : bool) : R := fst (fst (yields B Bns hi hiadj w gs)).
Definition fresh_yield (B Bns hi hiadj w : R) (gs : bool) : R := snd (fst (yields B Bns hi hiadj w gs)).
Definition yield_pot (B Bns hi hiadj w : R) (gs : bool) : R := snd (yields B Bns hi hiadj w gs).

(* definedness of the fresh yield: YldWC <> 0 (four catalogue crops have YldWC = 0) *)
Lemma fresh_times_dry_matter B Bns hi hiadj w gs : w <> 0 ->
  fresh_yield B Bns hi hiadj w gs * (w / 100) = dry_yield B Bns hi hiadj w gs.
Proof. intros Hw. unfold fresh_yield, dry_yield, yields. destruct gs; cbn; rnum; [field; lra | lra]. Qed.

Lemma dry_yield_range B Bns hi hiadj w gs cap : 0 <= B -> 0 <= hiadj <= cap ->
  0 <= dry_yield B Bns hi hiadj w gs <= B / 100 * cap.
Proof. intros HB Hh. unfold dry_yield, yields. destruct gs; cbn; rnum; nra. Qed.

Lemma yield_pot_range B Bns hi hiadj w gs HI0 : 0 <= Bns -> 0 <= hi <= HI0 ->
  0 <= yield_pot B Bns hi hiadj w gs <= Bns / 100 * HI0.
Proof. intros HB Hh. unfold yield_pot, yields. destruct gs; cbn; rnum; nra. Qed.

Lemma yields_off_season B Bns hi hiadj w :
  dry_yield B Bns hi hiadj w false = 0 /\ fresh_yield B Bns hi hiadj w false = 0.
Proof. split; reflexivity. Qed.

(* ================================================================== catalogue obligations of this unit *)
(* the static crop parameters the theorems above assume, checked on every row of the generated catalogue *)
Definition yield_row_okb (r : CropRow) : bool :=
  Qleb 0 (c_WPy r) && Qleb (c_WPy r) 100 && Qleb 0 (c_WP r) &&
  Qltb 0 (c_HIini r) && Qltb (c_HIini r) (c_HI0 r) &&
  Qleb (-100) (c_dHI0 r) && Qleb (-100) (c_exc r) && (Qleb (c_b_HI r) 0 || Qleb 1 (c_b_HI r)) &&
  (Qeq_bool (c_CropType r) 1 || Qeq_bool (c_CropType r) 2 || Qeq_bool (c_CropType r) 3).

Lemma catalogue_yield_ok : forallb yield_row_okb crop_catalogue = true.
Proof. vm_compute. reflexivity. Qed.

Lemma yield_row_ok_sound r : In r crop_catalogue ->
  0 <= Q2R (c_WPy r) <= 100 /\ 0 <= Q2R (c_WP r) /\ 0 < Q2R (c_HIini r) < Q2R (c_HI0 r) /\ -100 <= Q2R (c_dHI0 r) /\
  -100 <= Q2R (c_exc r) /\ (0 < Q2R (c_b_HI r) -> 1 <= Q2R (c_b_HI r)).
Proof.
  intros H. pose proof (proj1 (forallb_forall _ _) catalogue_yield_ok r H) as K.
  unfold yield_row_okb in K. rewrite !andb_true_iff in K.
  destruct K as [[[[[[[[K1 K2] K3] K4] K5] K6] K7] K8] _].
  apply Qleb_R in K1, K2, K3, K6, K7. apply Qltb_R in K4, K5.
  assert (E100 : Q2R 100 = 100) by (unfold Q2R; simpl; lra).
  assert (Em100 : Q2R (-100) = -100) by (unfold Q2R; simpl; lra).
  rewrite ?Q2R_0, ?E100, ?Em100 in *.
  repeat split; try lra.
  intros Hb. apply orb_true_iff in K8. destruct K8 as [K8|K8]; apply Qleb_R in K8; rewrite ?Q2R_0, ?Q2R_1 in K8; lra.
Qed.

(* dHI0 >= 0 is NOT satisfied by the catalogue: -9 ("not applicable") is used as a number by harvest_index.
   AlfalfaGDD (fruit/grain type): HImult is capped at 1 - 9/100, i.e. HIadj <= 0.91 HIref on every day;
   SugarCane (leafy): HIadj = HIref exceeds (1 + dHI0/100) HI0, see hi_adj_le_refuted below. *)
Lemma catalogue_dHI0_negative :
  map c_name (filter (fun r => Qltb (c_dHI0 r) 0) crop_catalogue) = ["SugarCane"; "AlfalfaGDD"]%string.
Proof. vm_compute. reflexivity. Qed.

(* YldWC > 0 (the denominator of the fresh yield) is NOT satisfied by the catalogue: finding 16 of DESIGN.md *)
Lemma catalogue_YldWC_refuted :
  map c_name (filter (fun r => Qleb (c_YldWC r) 0) crop_catalogue) =
  ["PotatoLocalGDD"; "localpaddy"; "MaizeChampionGDD"; "Cassava"]%string.
Proof. vm_compute. reflexivity. Qed.

(* ================================================================== Examples: the hypotheses are satisfiable *)
(* Maize of the catalogue (calendar-day values of an initialised model; dHILinear, fCO2 rounded to 3 digits) *)
Definition maize : YCrop (F:=R) := {|
  y_CropType := 3; y_Determinant := 1; y_HIstartCD := 66; y_YldFormCD := 61; y_HIendCD := 127; y_FloweringCD := 13;
  y_CanopyDevEndCD := 72; y_tLinSwitch := 19; y_dHILinear := 923 / 100000; y_HIGC := 127 / 1000; y_HI0 := 48 / 100;
  y_HIini := 1 / 100; y_WP := 337 / 10; y_WPy := 100; y_fCO2 := 977 / 1000; y_dHI_pre := 0; y_dHI0 := 15; y_a_HI := 7;
  y_b_HI := 3; y_exc := 50; y_CCmin := 5 / 100; y_YldWC := 90 |}.
(* Soybean: WPy = 60, the blend factor is active *)
Definition soybean : YCrop (F:=R) := {|
  y_CropType := 3; y_Determinant := 1; y_HIstartCD := 71; y_YldFormCD := 59; y_HIendCD := 130; y_FloweringCD := 29;
  y_CanopyDevEndCD := 86; y_tLinSwitch := 17; y_dHILinear := 774 / 100000; y_HIGC := 129 / 1000; y_HI0 := 40 / 100;
  y_HIini := 1 / 100; y_WP := 15; y_WPy := 60; y_fCO2 := 927 / 1000; y_dHI_pre := 3; y_dHI0 := 10; y_a_HI := -9;
  y_b_HI := 3; y_exc := 50; y_CCmin := 5 / 100; y_YldWC := 85 |}.
(* the state at the start of a season (reset_initial_conditions) *)
Definition hstate0 : HState (F:=R) := {|
  h_hi := 0; h_hiadj := 0; h_preadj := false; h_fpre := 1; h_fpol := 0; h_scor1 := 0; h_scor2 := 0;
  h_upp := 1; h_dwn := 1; h_fpost := 1 |}.

Example maize_hiref_ok : hiref_crop_ok maize.
Proof. constructor; cbn; try lra. right; right; reflexivity. Qed.
Example maize_hi_ok : hi_crop_ok maize.
Proof. constructor; cbn; try lra. right; right; reflexivity. Qed.
Example soybean_hi_ok : hi_crop_ok soybean.
Proof. constructor; cbn; try lra. right; right; reflexivity. Qed.
Example hstate0_ok c : 0 <= y_HI0 c -> 0 <= y_dHI0 c -> hs_ok c hstate0.
Proof. intros. constructor; cbn; try lra. unfold hi_cap. split; [lra | nra]. Qed.

(* soybean, day 100 (HIt = 28), pct_lag_phase = 100, Tr = 4, TrPot = 5, ET0 = 6 *)
Example biomass_gain_ex :
  exists B' Bns' k, biomass_accumulation soybean 100 0 (3 / 10) 100 1000 1200 4 5 6 true = Some (B', Bns') /\
    60 / 100 <= k <= 1 /\ B' - 1000 = 15 * (927 / 1000) * (4 / 6) * k /\ 1000 <= B' /\ 1200 <= Bns'.
Proof.
  assert (E : exists r, biomass_accumulation soybean 100 0 (3 / 10) 100 1000 1200 4 5 6 true = Some r)
    by (apply biomass_defined; [lra | left; reflexivity]).
  destruct E as [[B' Bns'] E].
  assert (Hh : 0 < 3 / 10 -> 0 <= hit soybean 100 0) by (intros _; rewrite hit_R; cbn; lra).
  assert (G := biomass_gain _ _ _ _ _ _ _ _ _ _ _ _ E ltac:(lra) Hh ltac:(cbn; lra)).
  destruct G as [k [Hk [HB _]]].
  assert (M : 1000 <= B' /\ 1200 <= Bns') by (apply (biomass_monotone _ _ _ _ _ _ _ _ _ _ _ _ E); try exact Hh; cbn; lra).
  destruct M as [M1 M2].
  exists B', Bns', k. cbn in Hk, HB. repeat split; try assumption; lra.
Qed.

(* maize, day 97 (HIt = 30), first call in yield formation with mild stress *)
Example hi_adj_ex :
  exists s', hi_core maize hstate0 (3 / 10) 97 0 true 1000 1200 (9 / 10) (8 / 10) (9 / 10) 1 1 1 = Some s' /\
    0 <= h_hiadj s' <= (1 + 15 / 100) * (48 / 100) /\ h_hi s' = 3 / 10.
Proof.
  assert (E : exists s', hi_core maize hstate0 (3 / 10) 97 0 true 1000 1200 (9 / 10) (8 / 10) (9 / 10) 1 1 1 = Some s')
    by (apply hi_core_defined; right; right; reflexivity).
  destruct E as [s' E]. exists s'. split; [exact E|].
  assert (H0 : hs_ok maize hstate0) by (apply hstate0_ok; cbn; lra).
  assert (Hinv : hs_ok maize s') by (apply (hi_core_invariant _ _ _ _ _ _ _ _ _ _ _ _ _ _ _ E maize_hi_ok H0); cbn; lra).
  destruct Hinv as [_ _ _ _ _ _ _ Ha _]. unfold hi_cap in Ha. cbn in Ha.
  split; [exact Ha|].
  assert (Ht : 0 <= hit maize 97 0) by (rewrite hit_R; cbn; lra).
  destruct (hi_adj_explicit _ _ _ _ _ _ _ _ _ _ _ _ _ _ _ E eq_refl Ht eq_refl) as [Hhi _]. exact Hhi.
Qed.

(* maize: HIref on day 90 (HIt = 23) is at most HIref on day 100 (HIt = 33), whatever the canopy does *)
Example hi_ref_monotone_ex hr1 hr2 yf1 yf2 p1 p2 cc1 cc2 x1 x2 :
  fst (fst (HIref_current_day maize hr1 (48 / 100) 90 0 yf1 p1 cc1 x1 true)) <=
  fst (fst (HIref_current_day maize hr2 (48 / 100) 100 0 yf2 p2 cc2 x2 true)) <= 48 / 100.
Proof.
  split.
  - apply hi_ref_monotone; [exact maize_hiref_ok | lra | rewrite !hit_R; cbn; lra].
  - apply (hi_ref_le_HI0 maize); cbn; lra.
Qed.

Example yields_ex : yields 1500 1800 (48 / 100) (45 / 100) 90 true = (1500 / 100 * (45 / 100), 1500 / 100 * (45 / 100) / (90 / 100), 1800 / 100 * (48 / 100)).
Proof. reflexivity. Qed.

(* hi_adj_le needs 0 <= dHI0 for leafy crops: SugarCane of the catalogue has dHI0 = -9 and CropType = 1, and its
   adjusted harvest index (= HIref, here HI0 = 0.35) exceeds (1 + dHI0/100) HI0 = 0.3185 *)
Definition sugarcane : YCrop (F:=R) := {|
  y_CropType := 1; y_Determinant := 0; y_HIstartCD := 0; y_YldFormCD := 73; y_HIendCD := 73; y_FloweringCD := -999;
  y_CanopyDevEndCD := 330; y_tLinSwitch := 0; y_dHILinear := 0; y_HIGC := 102 / 1000; y_HI0 := 35 / 100;
  y_HIini := 1 / 100; y_WP := 30; y_WPy := 100; y_fCO2 := 1; y_dHI_pre := -9; y_dHI0 := -9; y_a_HI := -9;
  y_b_HI := -9; y_exc := 20; y_CCmin := 5 / 100; y_YldWC := 30 |}.

Theorem hi_adj_le_refuted :
  exists s', hi_core sugarcane hstate0 (35 / 100) 100 0 true 1000 1000 (9 / 10) 1 1 1 1 1 = Some s' /\
             (1 + y_dHI0 sugarcane / 100) * y_HI0 sugarcane < h_hiadj s'.
Proof.
  eexists. split.
  - unfold hi_core. set (t := hit sugarcane 100 0).
    assert (Ht : Rleb 0 t = true) by (apply Rleb_true; unfold t; rewrite hit_R; cbn; lra).
    rnum. rewrite Ht. cbn. reflexivity.
  - cbn. lra.
Qed.
