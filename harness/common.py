"""common.py — paths, libm proxy, hex float protocol, OCaml driver access, evidence/replay writers.
Every random choice in the harness derives from one random.Random(VERIF_SEED)."""
import os, sys, struct, subprocess, json, time, math, random, importlib, pkgutil, hashlib, warnings

VERIF = os.path.dirname(os.path.dirname(os.path.abspath(__file__)))
REPO = os.environ.get("VERIF_REPO", "/repo")
if sys.path[0] != REPO:
    sys.path.insert(0, REPO)
os.environ["DEVELOPMENT"] = "True"
warnings.filterwarnings("ignore")

COQDIR = os.path.join(VERIF, "coq")
DRIVER = os.environ.get("VERIF_DRIVER") or os.path.join(COQDIR, "ocaml", "driver")
SEED = int(os.environ.get("VERIF_SEED", "20260926"))
TIER = os.environ.get("VERIF_TIER", "quick")
NPROC = min(16, os.cpu_count() or 4)


def rng_for(*names):
    h = hashlib.sha256(("%d|" % SEED + "|".join(map(str, names))).encode()).digest()
    return random.Random(int.from_bytes(h[:8], "big"))


# ---------------------------------------------------------------------------------------
# hex protocol
def hx(x):
    return struct.pack(">d", float(x)).hex()


def unhx(s):
    return struct.unpack(">d", bytes.fromhex(s))[0]


def canon(tok):
    """canonical form of one output token: -0.0 == 0.0, all NaNs equal."""
    if len(tok) == 16:
        if tok == "8000000000000000":
            return "0000000000000000"
        try:
            v = unhx(tok)
        except Exception:
            return tok
        if v != v:
            return "nan"
    return tok


def tb(b):
    return "T" if b else "F"


def tl(xs):
    xs = list(xs)
    return "%d %s" % (len(xs), " ".join(hx(x) for x in xs)) if xs else "0"


def topt(x):
    return "N" if x is None else "S " + hx(x)


def driver_path(unit=None):
    if os.environ.get("VERIF_DRIVER"):
        return os.environ["VERIF_DRIVER"]
    return os.path.join(COQDIR, "ocaml", "driver_" + unit if unit else "driver")


def run_driver(lines, chunk=20000, unit=None):
    """feed lines to the extracted model; returns list of output lines (token lists)."""
    DRIVER = driver_path(unit)
    if not os.path.exists(DRIVER):
        raise RuntimeError("driver not built: " + DRIVER)
    out = []
    for i in range(0, len(lines), chunk):
        p = subprocess.run([DRIVER], input="\n".join(lines[i:i + chunk]) + "\n", capture_output=True,
                           text=True, timeout=600)
        if p.returncode != 0:
            raise RuntimeError("driver failed: " + p.stderr[-2000:])
        res = p.stdout.split("\n")
        if res and res[-1] == "":
            res.pop()
        out.extend(res)
    if len(out) != len(lines):
        raise RuntimeError("driver returned %d lines for %d inputs" % (len(out), len(lines)))
    return [o.split() for o in out]


# ---------------------------------------------------------------------------------------
# libm proxy: numpy's scalar exp/log/log10/power differ from libm by 1 ulp on a few % of
# arguments; the OCaml side calls libm.  For bit-exact comparison the aquacrop modules see
# a proxy `np` whose scalar transcendental functions go to math.* (libm).
_np = None


class NpProxy:
    def __init__(self, np):
        object.__setattr__(self, "_np", np)

    def __getattr__(self, n):
        return getattr(object.__getattribute__(self, "_np"), n)

    def exp(self, x, *a, **k):
        np = object.__getattribute__(self, "_np")
        if np.ndim(x) == 0 and not a and not k:
            try:
                return np.float64(math.exp(float(x)))
            except OverflowError:
                return np.float64(math.inf)
        return np.exp(x, *a, **k)

    def log(self, x, *a, **k):
        np = object.__getattribute__(self, "_np")
        if np.ndim(x) == 0 and not a and not k:
            x = float(x)
            if x > 0:
                return np.float64(math.log(x))
            return np.log(np.float64(x))
        return np.log(x, *a, **k)

    def log10(self, x, *a, **k):
        np = object.__getattribute__(self, "_np")
        if np.ndim(x) == 0 and not a and not k:
            x = float(x)
            if x > 0:
                return np.float64(math.log10(x))
            return np.log10(np.float64(x))
        return np.log10(x, *a, **k)

    def power(self, x, y, *a, **k):
        np = object.__getattribute__(self, "_np")
        if np.ndim(x) == 0 and np.ndim(y) == 0 and not a and not k:
            try:
                return np.float64(math.pow(float(x), float(y)))
            except (OverflowError, ValueError):
                return np.power(np.float64(x), np.float64(y))
        return np.power(x, y, *a, **k)


_proxied = []


def aquacrop_modules():
    import aquacrop.solution, aquacrop.timestep, aquacrop.initialize  # noqa
    mods = []
    for pkg in (aquacrop.solution, aquacrop.timestep, aquacrop.initialize):
        for m in pkgutil.iter_modules(pkg.__path__):
            if m.name in ("test",):
                continue
            mods.append(importlib.import_module(pkg.__name__ + "." + m.name))
    return mods


def install_libm_proxy():
    import numpy as np
    if _proxied:
        return
    proxy = NpProxy(np)
    for mod in aquacrop_modules():
        if getattr(mod, "np", None) is np:
            mod.np = proxy
            _proxied.append(mod)


def remove_libm_proxy():
    import numpy as np
    for mod in _proxied:
        mod.np = np
    _proxied.clear()


# ---------------------------------------------------------------------------------------
def write_json(path, obj):
    os.makedirs(os.path.dirname(path), exist_ok=True)
    tmp = path + ".tmp%d" % os.getpid()
    with open(tmp, "w") as f:
        json.dump(obj, f, indent=1, default=_jd)
    os.replace(tmp, path)


def _jd(o):
    try:
        import numpy as np
        if isinstance(o, (np.integer,)):
            return int(o)
        if isinstance(o, (np.floating,)):
            return float(o)
        if isinstance(o, np.ndarray):
            return o.tolist()
        if isinstance(o, np.bool_):
            return bool(o)
    except Exception:
        pass
    return repr(o)


def short_hash(obj):
    return hashlib.sha256(json.dumps(obj, sort_keys=True, default=_jd).encode()).hexdigest()[:12]


def flagtype(rng, b):
    """a boolean option as a user may hand it over: mostly the Python bool, sometimes numpy.bool_ (a value taken from a numpy /
    pandas settings table) or 0 / 1 — the solution functions compare such flags with `== True` / `== False`, so the meaning is the
    truth value"""
    import numpy as _np
    r = rng.random()
    if r < 0.7:
        return bool(b)
    if r < 0.85:
        return _np.bool_(b)
    return int(bool(b))
