#!/venv/bin/python
"""gen_facts.py — fail-closed translator: regenerates, from /repo's *source text* (ast only, the
package is not imported), the finite tables the theorems quantify over.  Output: coq/theories/gen/*.v.
A construct the patterns below do not recognise is an error (exit 2), never silently skipped.
Files are rewritten only when their content changes (so make does not rebuild needlessly)."""
import ast, os, sys, decimal, json

VERIF = os.path.dirname(os.path.dirname(os.path.abspath(__file__)))
REPO = os.environ.get("VERIF_REPO", "/repo")
OUT = os.path.join(VERIF, "coq", "theories", "gen")


class TranslatorError(Exception):
    pass


def src(rel):
    with open(os.path.join(REPO, rel)) as f:
        return f.read()


def qlit(v):
    """exact rational of a Python numeric literal as a Coq Q literal"""
    if isinstance(v, bool):
        raise TranslatorError("bool where number expected")
    d = decimal.Decimal(repr(v))
    sign, digits, exp = d.as_tuple()
    m = int("".join(map(str, digits)))
    if sign:
        m = -m
    if exp >= 0:
        m *= 10 ** exp
        den = 1
    else:
        den = 10 ** (-exp)
    # reduce trailing zeros for readability
    while den > 1 and m % 10 == 0:
        m //= 10
        den //= 10
    return "(%s # %d)" % (("(%d)" % m) if m < 0 else str(m), den)


def const_value(node):
    """numeric / string constant, allowing unary minus and 75_000 style ints"""
    if isinstance(node, ast.Constant) and isinstance(node.value, (int, float, str)) and not isinstance(node.value, bool):
        return node.value
    if isinstance(node, ast.UnaryOp) and isinstance(node.op, ast.USub):
        v = const_value(node.operand)
        if isinstance(v, (int, float)):
            return -v
    raise TranslatorError("not a constant: " + ast.dump(node)[:80])


# -----------------------------------------------------------------------------------------
def crop_catalogue():
    tree = ast.parse(src("aquacrop/entities/crops/crop_params.py"))
    table = None
    for st in tree.body:
        if isinstance(st, ast.Assign) and len(st.targets) == 1 and isinstance(st.targets[0], ast.Name) \
                and st.targets[0].id == "crop_params":
            if table is not None:
                raise TranslatorError("crop_params assigned twice")
            table = st.value
        elif isinstance(st, (ast.Import, ast.ImportFrom)) or (isinstance(st, ast.Expr) and isinstance(st.value, ast.Constant)):
            continue
        else:
            raise TranslatorError("crop_params.py: unexpected top-level statement " + type(st).__name__)
    if not isinstance(table, ast.Dict):
        raise TranslatorError("crop_params is not a dict literal")
    crops = {}
    for k, v in zip(table.keys, table.values):
        name = const_value(k)
        if not isinstance(v, ast.Dict):
            raise TranslatorError("crop %s: not a dict literal" % name)
        row = {}
        for kk, vv in zip(v.keys, v.values):
            key = const_value(kk)
            if key in row:
                raise TranslatorError("crop %s: duplicate key %s" % (name, key))
            row[key] = const_value(vv)
        if name in crops:
            raise TranslatorError("duplicate crop " + name)
        crops[name] = row

    # defaults: `self.X = <const>` statements of Crop.__init__ that precede the catalogue update
    tree = ast.parse(src("aquacrop/entities/crop.py"))
    cls = [n for n in tree.body if isinstance(n, ast.ClassDef) and n.name == "Crop"]
    if len(cls) != 1:
        raise TranslatorError("class Crop not found")
    init = [n for n in cls[0].body if isinstance(n, ast.FunctionDef) and n.name == "__init__"]
    if len(init) != 1:
        raise TranslatorError("Crop.__init__ not found")
    defaults = {}
    for st in init[0].body:
        if isinstance(st, ast.Assign) and len(st.targets) == 1 and isinstance(st.targets[0], ast.Attribute) \
                and isinstance(st.targets[0].value, ast.Name) and st.targets[0].value.id == "self":
            try:
                defaults[st.targets[0].attr] = const_value(st.value)
            except TranslatorError:
                pass  # non-constant default (arrays, c_name): not a catalogue parameter
        elif isinstance(st, ast.If):
            break     # the catalogue update starts here
    # CO2 reference concentration default
    tree = ast.parse(src("aquacrop/entities/co2.py"))
    ref = None
    for n in ast.walk(tree):
        if isinstance(n, ast.FunctionDef) and n.name == "__init__":
            names = [a.arg for a in n.args.args]
            dflt = n.args.defaults
            off = len(names) - len(dflt)
            if "ref_concentration" in names:
                ref = const_value(dflt[names.index("ref_concentration") - off])
    if ref is None:
        raise TranslatorError("CO2 ref_concentration default not found")

    numeric = sorted({k for r in crops.values() for k, v in r.items() if isinstance(v, (int, float))}
                     | {k for k, v in defaults.items() if isinstance(v, (int, float))})
    out = ["(* GENERATED by harness/gen_facts.py from aquacrop/entities/crops/crop_params.py,",
           "   aquacrop/entities/crop.py (defaults of Crop.__init__) and aquacrop/entities/co2.py. DO NOT EDIT. *)",
           "From Coq Require Import QArith List String.", "Import ListNotations.", "Local Open Scope string_scope.", "",
           "Record CropRow := {", "  c_name : string;"]
    out += ["  c_%s : Q;" % k for k in numeric]
    out[-1] = out[-1][:-1]
    out += ["}.", "", "Definition co2_ref : Q := %s." % qlit(ref), "", "Definition crop_catalogue : list CropRow := ["]
    rows = []
    for name in crops:
        r = crops[name]
        fs = ['c_name := "%s"' % name]
        for k in numeric:
            if k in r and isinstance(r[k], (int, float)):
                v = r[k]
            elif k in defaults:
                v = defaults[k]
            else:
                raise TranslatorError("crop %s: no value and no default for %s" % (name, k))
            fs.append("c_%s := %s" % (k, qlit(v)))
        rows.append("  {| " + ";\n     ".join(fs) + " |}")
    out.append(";\n".join(rows))
    out += ["].", "", "Definition crop_count : nat := %d." % len(crops), ""]
    return "\n".join(out), {"crops": len(crops), "fields": len(numeric)}


GENERATORS = {"CropCatalogue.v": crop_catalogue}


def main():
    os.makedirs(OUT, exist_ok=True)
    stats = {}
    try:
        for fn, g in GENERATORS.items():
            text, st = g()
            stats[fn] = st
            p = os.path.join(OUT, fn)
            old = open(p).read() if os.path.exists(p) else None
            if old != text:
                with open(p, "w") as f:
                    f.write(text)
                stats[fn]["rewritten"] = True
    except (TranslatorError, SyntaxError, OSError) as e:
        print("TRANSLATOR-ERROR: %s" % e)
        sys.exit(2)
    print(json.dumps(stats))


if __name__ == "__main__":
    main()
