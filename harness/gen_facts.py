#!/venv/bin/python
"""gen_facts.py — fail-closed translator: regenerates, from /repo's *source text* (ast only, the
package is not imported), the finite tables the theorems quantify over.  Output: coq/theories/gen/*.v.
A construct the patterns below do not recognise is an error (exit 2), never silently skipped.
Files are rewritten only when their content changes (so make does not rebuild needlessly), and nothing is
written unless every table translated.

  CropCatalogue.v  crop_params dict + Crop.__init__ defaults + CO2 reference concentration
  StateFields.v    fields of InitialCondition, what reset_initial_conditions / read_model_initial_conditions assign
  StoreSites.v     every syntactic store whose root is a parameter / module-level name (alias rules: see `Store sites`)

usage: gen_facts.py [--out DIR] [--only File.v,File.v]     env VERIF_REPO=<root of the source tree> (default /repo)
self-test: harness/tests_gen_facts.py [--coq]"""
import ast, os, sys, decimal, json

VERIF = os.path.dirname(os.path.dirname(os.path.abspath(__file__)))
REPO = os.environ.get("VERIF_REPO", "/repo")
OUT = os.path.join(VERIF, "coq", "theories", "gen")


class TranslatorError(Exception):
    pass


def src(rel):
    with open(os.path.join(REPO, rel)) as f:
        return f.read()


def qlit(v):
    """exact rational of a Python numeric literal as a Coq Q literal"""
    if isinstance(v, bool):
        raise TranslatorError("bool where number expected")
    d = decimal.Decimal(repr(v))
    sign, digits, exp = d.as_tuple()
    m = int("".join(map(str, digits)))
    if sign:
        m = -m
    if exp >= 0:
        m *= 10 ** exp
        den = 1
    else:
        den = 10 ** (-exp)
    # reduce trailing zeros for readability
    while den > 1 and m % 10 == 0:
        m //= 10
        den //= 10
    return "(%s # %d)" % (("(%d)" % m) if m < 0 else str(m), den)


def const_value(node):
    """numeric / string constant, allowing unary minus and 75_000 style ints"""
    if isinstance(node, ast.Constant) and isinstance(node.value, (int, float, str)) and not isinstance(node.value, bool):
        return node.value
    if isinstance(node, ast.UnaryOp) and isinstance(node.op, ast.USub):
        v = const_value(node.operand)
        if isinstance(v, (int, float)):
            return -v
    raise TranslatorError("not a constant: " + ast.dump(node)[:80])


# -----------------------------------------------------------------------------------------
def crop_catalogue():
    tree = ast.parse(src("aquacrop/entities/crops/crop_params.py"))
    table = None
    for st in tree.body:
        if isinstance(st, ast.Assign) and len(st.targets) == 1 and isinstance(st.targets[0], ast.Name) \
                and st.targets[0].id == "crop_params":
            if table is not None:
                raise TranslatorError("crop_params assigned twice")
            table = st.value
        elif isinstance(st, (ast.Import, ast.ImportFrom)) or (isinstance(st, ast.Expr) and isinstance(st.value, ast.Constant)):
            continue
        else:
            raise TranslatorError("crop_params.py: unexpected top-level statement " + type(st).__name__)
    if not isinstance(table, ast.Dict):
        raise TranslatorError("crop_params is not a dict literal")
    crops = {}
    for k, v in zip(table.keys, table.values):
        name = const_value(k)
        if not isinstance(v, ast.Dict):
            raise TranslatorError("crop %s: not a dict literal" % name)
        row = {}
        for kk, vv in zip(v.keys, v.values):
            key = const_value(kk)
            if key in row:
                raise TranslatorError("crop %s: duplicate key %s" % (name, key))
            row[key] = const_value(vv)
        if name in crops:
            raise TranslatorError("duplicate crop " + name)
        crops[name] = row

    # defaults: `self.X = <const>` statements of Crop.__init__ that precede the catalogue update
    tree = ast.parse(src("aquacrop/entities/crop.py"))
    cls = [n for n in tree.body if isinstance(n, ast.ClassDef) and n.name == "Crop"]
    if len(cls) != 1:
        raise TranslatorError("class Crop not found")
    init = [n for n in cls[0].body if isinstance(n, ast.FunctionDef) and n.name == "__init__"]
    if len(init) != 1:
        raise TranslatorError("Crop.__init__ not found")
    defaults = {}
    for st in init[0].body:
        if isinstance(st, ast.Assign) and len(st.targets) == 1 and isinstance(st.targets[0], ast.Attribute) \
                and isinstance(st.targets[0].value, ast.Name) and st.targets[0].value.id == "self":
            try:
                defaults[st.targets[0].attr] = const_value(st.value)
            except TranslatorError:
                pass  # non-constant default (arrays, c_name): not a catalogue parameter
        elif isinstance(st, ast.If):
            break     # the catalogue update starts here
    # CO2 reference concentration default
    tree = ast.parse(src("aquacrop/entities/co2.py"))
    ref = None
    for n in ast.walk(tree):
        if isinstance(n, ast.FunctionDef) and n.name == "__init__":
            names = [a.arg for a in n.args.args]
            dflt = n.args.defaults
            off = len(names) - len(dflt)
            if "ref_concentration" in names:
                ref = const_value(dflt[names.index("ref_concentration") - off])
    if ref is None:
        raise TranslatorError("CO2 ref_concentration default not found")

    numeric = sorted({k for r in crops.values() for k, v in r.items() if isinstance(v, (int, float))}
                     | {k for k, v in defaults.items() if isinstance(v, (int, float))})
    out = ["(* GENERATED by harness/gen_facts.py from aquacrop/entities/crops/crop_params.py,",
           "   aquacrop/entities/crop.py (defaults of Crop.__init__) and aquacrop/entities/co2.py. DO NOT EDIT. *)",
           "From Coq Require Import QArith List String.", "Import ListNotations.", "Local Open Scope string_scope.", "",
           "Record CropRow := {", "  c_name : string;"]
    out += ["  c_%s : Q;" % k for k in numeric]
    out[-1] = out[-1][:-1]
    out += ["}.", "", "Definition co2_ref : Q := %s." % qlit(ref), "", "Definition crop_catalogue : list CropRow := ["]
    rows = []
    for name in crops:
        r = crops[name]
        fs = ['c_name := "%s"' % name]
        for k in numeric:
            if k in r and isinstance(r[k], (int, float)):
                v = r[k]
            elif k in defaults:
                v = defaults[k]
            else:
                raise TranslatorError("crop %s: no value and no default for %s" % (name, k))
            fs.append("c_%s := %s" % (k, qlit(v)))
        rows.append("  {| " + ";\n     ".join(fs) + " |}")
    out.append(";\n".join(rows))
    out += ["].", "", "Definition crop_count : nat := %d." % len(crops), ""]
    return "\n".join(out), {"crops": len(crops), "fields": len(numeric)}


# =========================================================================================
#  StateFields.v  /  StoreSites.v
# =========================================================================================
import builtins as _builtins
import glob as _glob

import warnings as _warnings

PY_BUILTINS = set(dir(_builtins))


def _parse(text):
    with _warnings.catch_warnings():
        _warnings.simplefilter("ignore")      # e.g. invalid escape sequences in the package's string literals
        return ast.parse(text)


def coq_str(s):
    if not isinstance(s, str):
        raise TranslatorError("coq_str: not a string")
    if any(ord(c) < 32 or ord(c) > 126 for c in s):
        raise TranslatorError("non-printable / non-ASCII character in generated string: %r" % s)
    return '"' + s.replace('"', '""') + '"'


def coq_str_list(name, items, comment=None):
    out = []
    if comment:
        out.append("(* %s *)" % comment)
    if not items:
        out.append("Definition %s : list string := []." % name)
    else:
        out.append("Definition %s : list string := [" % name)
        out.append(";\n".join("  " + coq_str(i) for i in items))
        out.append("].")
    return out


def comment_safe(s):
    s = " ".join(s.split())
    s = s.replace("(*", "( *").replace("*)", "* )").replace('"', "'")
    return s if len(s) <= 110 else s[:107] + "..."


def find_class(tree, name, where):
    cls = [n for n in tree.body if isinstance(n, ast.ClassDef) and n.name == name]
    if len(cls) != 1:
        raise TranslatorError("%s: expected exactly one class %s, found %d" % (where, name, len(cls)))
    return cls[0]


def find_function(body, name, where):
    fs = [n for n in body if isinstance(n, ast.FunctionDef) and n.name == name]
    if len(fs) != 1:
        raise TranslatorError("%s: expected exactly one def %s, found %d" % (where, name, len(fs)))
    return fs[0]


def _no_dynamic(node, where):
    """global / nonlocal / exec / eval / globals() anywhere below node -> error"""
    for n in ast.walk(node):
        if isinstance(n, (ast.Global, ast.Nonlocal)):
            raise TranslatorError("%s: `%s` statement (line %d)" % (where, type(n).__name__.lower(), n.lineno))
        if isinstance(n, ast.Call) and isinstance(n.func, ast.Name) and n.func.id in FORBIDDEN_CALLS:
            raise TranslatorError("%s: call of %s() (line %d)" % (where, n.func.id, n.lineno))


FORBIDDEN_CALLS = {"exec", "eval", "compile", "globals", "locals", "vars", "__import__", "breakpoint"}


def attr_targets_on(node, roots, where):
    """Names of attributes assigned (plain, augmented, annotated, tuple/for/with targets, setattr with a
    literal name) on an object called one of `roots`, anywhere below `node`, in source order.
    Stores *below* an attribute (x.a[i] = .., x.a.b = ..) are not assignments of x.a and are skipped here
    (they are StoreSites rows).  setattr with a computed name on one of the roots is an error."""
    found = []

    def tgt(t):
        if isinstance(t, ast.Attribute):
            if isinstance(t.value, ast.Name) and t.value.id in roots:
                found.append((t.lineno, t.col_offset, t.attr))
        elif isinstance(t, (ast.Tuple, ast.List)):
            for e in t.elts:
                tgt(e)
        elif isinstance(t, ast.Starred):
            tgt(t.value)
        elif isinstance(t, (ast.Name, ast.Subscript)):
            pass
        else:
            raise TranslatorError("%s: unrecognised assignment target %s (line %d)" % (where, type(t).__name__, t.lineno))

    for n in ast.walk(node):
        if isinstance(n, ast.Assign):
            for t in n.targets:
                tgt(t)
        elif isinstance(n, (ast.AugAssign, ast.AnnAssign)):
            tgt(n.target)
        elif isinstance(n, (ast.For, ast.comprehension)):
            tgt(n.target)
        elif isinstance(n, ast.With):
            for it in n.items:
                if it.optional_vars is not None:
                    tgt(it.optional_vars)
        elif isinstance(n, ast.NamedExpr):
            tgt(n.target)
        elif isinstance(n, ast.Call):
            f = n.func
            is_setattr = isinstance(f, ast.Name) and f.id in ("setattr", "delattr")
            is_dunder = isinstance(f, ast.Attribute) and f.attr in ("__setattr__", "__delattr__")
            obj = None
            if is_setattr and n.args:
                obj, rest = n.args[0], n.args[1:]
            elif is_dunder:
                obj, rest = f.value, n.args
            if obj is not None and isinstance(obj, ast.Name) and obj.id in roots:
                if rest and isinstance(rest[0], ast.Constant) and isinstance(rest[0].value, str):
                    found.append((n.lineno, n.col_offset, rest[0].value))
                else:
                    raise TranslatorError("%s: setattr on %s with a computed attribute name (line %d)" % (where, obj.id, n.lineno))
            if isinstance(f, ast.Attribute) and f.attr == "update" and isinstance(f.value, ast.Attribute) \
                    and f.value.attr == "__dict__" and isinstance(f.value.value, ast.Name) and f.value.value.id in roots:
                raise TranslatorError("%s: %s.__dict__.update (line %d)" % (where, f.value.value.id, n.lineno))
    found.sort()
    return [a for (_, _, a) in found]


def uniq(xs):
    seen, out = set(), []
    for x in xs:
        if x not in seen:
            seen.add(x)
            out.append(x)
    return out


def name_reads(node, name):
    """Load occurrences of Name `name` below node"""
    return [n for n in ast.walk(node) if isinstance(n, ast.Name) and n.id == name and isinstance(n.ctx, ast.Load)]


def state_fields():
    # --- InitialCondition.__init__ -------------------------------------------------------
    rel = "aquacrop/entities/initParamVariables.py"
    text = src(rel)
    tree = _parse(text)
    cls = find_class(tree, "InitialCondition", rel)
    for st in cls.body:
        if isinstance(st, ast.FunctionDef) or (isinstance(st, ast.Expr) and isinstance(st.value, ast.Constant)):
            continue
        raise TranslatorError("%s: class InitialCondition: unexpected class-level statement %s (line %d)"
                              % (rel, type(st).__name__, st.lineno))
    meths = [n.name for n in cls.body if isinstance(n, ast.FunctionDef)]
    if meths != ["__init__"]:
        raise TranslatorError("%s: class InitialCondition has methods other than __init__: %s" % (rel, meths))
    if cls.bases or cls.keywords or cls.decorator_list:
        raise TranslatorError("%s: class InitialCondition has bases/decorators" % rel)
    init = find_function(cls.body, "__init__", rel)
    _no_dynamic(init, rel)
    if not init.args.args or init.args.args[0].arg != "self":
        raise TranslatorError("%s: InitialCondition.__init__ has no self" % rel)
    fields = []
    for st in init.body:
        if isinstance(st, ast.Expr) and isinstance(st.value, ast.Constant):
            continue
        if isinstance(st, ast.Assign) and len(st.targets) == 1 and isinstance(st.targets[0], ast.Attribute) \
                and isinstance(st.targets[0].value, ast.Name) and st.targets[0].value.id == "self":
            fields.append(st.targets[0].attr)
        elif isinstance(st, ast.AnnAssign) and isinstance(st.target, ast.Attribute) \
                and isinstance(st.target.value, ast.Name) and st.target.value.id == "self" and st.value is not None:
            fields.append(st.target.attr)
        else:
            raise TranslatorError("%s: InitialCondition.__init__: statement is not `self.<name> = <expr>`: %s (line %d)"
                                  % (rel, type(st).__name__, st.lineno))
    # (duplicates are kept: state_fields_nodup is an obligation, not a translator decision)

    # --- reset_initial_conditions ---------------------------------------------------------
    rel2 = "aquacrop/timestep/reset_initial_conditions.py"
    text2 = src(rel2)
    tree2 = _parse(text2)
    fn = find_function(tree2.body, "reset_initial_conditions", rel2)
    _no_dynamic(fn, rel2)
    params = [a.arg for a in fn.args.args]
    if fn.args.vararg or fn.args.kwarg or fn.args.kwonlyargs or fn.args.posonlyargs:
        raise TranslatorError("%s: reset_initial_conditions: unexpected parameter kinds" % rel2)
    for need in ("InitCond", "weather", "crop"):
        if need not in params:
            raise TranslatorError("%s: reset_initial_conditions has no parameter `%s` (parameters: %s)" % (rel2, need, params))
    # the state object must not be reachable under another local name, nor be rebound
    for n in ast.walk(fn):
        if isinstance(n, (ast.Assign, ast.AnnAssign, ast.NamedExpr)):
            v = n.value
            if isinstance(v, ast.Name) and v.id == "InitCond":
                raise TranslatorError("%s: InitCond is aliased by a local (line %d)" % (rel2, n.lineno))
        if isinstance(n, ast.Name) and n.id == "InitCond" and isinstance(n.ctx, (ast.Store, ast.Del)):
            raise TranslatorError("%s: InitCond is rebound (line %d)" % (rel2, n.lineno))
    reset = uniq(attr_targets_on(fn, {"InitCond"}, rel2))
    reset_crop = uniq(attr_targets_on(fn, {"crop"}, rel2))

    # weather reads + guard
    reads = name_reads(fn, "weather")
    guards = []

    def walk_guard(body, stack):
        for st in body:
            if isinstance(st, ast.If):
                if name_reads(st.test, "weather"):
                    guards.append(" && ".join(stack) if stack else "")
                g = ast.get_source_segment(text2, st.test)
                walk_guard(st.body, stack + [g])
                walk_guard(st.orelse, stack + ["not (%s)" % g])
            elif isinstance(st, (ast.For, ast.While)):
                hdr = st.iter if isinstance(st, ast.For) else st.test
                if name_reads(hdr, "weather"):
                    guards.append(" && ".join(stack) if stack else "")
                walk_guard(st.body, stack)
                walk_guard(st.orelse, stack)
            elif isinstance(st, (ast.With, ast.Try)):
                raise TranslatorError("%s: reset_initial_conditions: with/try not recognised (line %d)" % (rel2, st.lineno))
            elif isinstance(st, (ast.FunctionDef, ast.ClassDef, ast.Lambda)):
                raise TranslatorError("%s: reset_initial_conditions: nested def/class (line %d)" % (rel2, st.lineno))
            else:
                if name_reads(st, "weather"):
                    guards.append(" && ".join(stack) if stack else "")

    walk_guard(fn.body, [])

    # which state fields are assigned on EVERY path through the function, and which only under a top-level `if`
    for n in ast.walk(fn):
        if isinstance(n, ast.Return) and n is not fn.body[-1]:
            raise TranslatorError("%s: reset_initial_conditions: return before the end of the function (line %d)" % (rel2, n.lineno))
        if isinstance(n, (ast.Break, ast.Continue, ast.Raise, ast.Try)):
            raise TranslatorError("%s: reset_initial_conditions: %s not recognised (line %d)" % (rel2, type(n).__name__, n.lineno))

    def definite(body):
        got = []
        for st in body:
            if isinstance(st, ast.If):
                a, b = definite(st.body), definite(st.orelse)
                got += [x for x in a if x in b]
            elif isinstance(st, (ast.For, ast.While, ast.With)):
                pass       # body may run zero times / not recognised: nothing definite
            else:
                got += attr_targets_on(st, {"InitCond"}, rel2)
        return uniq(got)

    uncond = definite(fn.body)
    guarded = []
    for st in fn.body:
        if isinstance(st, ast.If):
            g = " ".join(ast.get_source_segment(text2, st.test).split())
            for x in definite(st.body):
                if x not in uncond:
                    guarded.append((x, g))
            for x in definite(st.orelse):
                if x not in uncond:
                    guarded.append((x, "not (%s)" % g))
    covered = set(uncond) | {x for (x, _) in guarded}
    guards = uniq(guards)
    if len(guards) != len(uniq(guards)) or (reads and not guards):
        raise TranslatorError("%s: weather reads not located" % rel2)
    if len(guards) > 1:
        raise TranslatorError("%s: reset_initial_conditions reads `weather` under %d different guards: %s"
                              % (rel2, len(guards), guards))
    guard = guards[0] if guards else ""

    # --- read_model_initial_conditions ----------------------------------------------------
    rel3 = "aquacrop/initialize/read_model_initial_conditions.py"
    tree3 = _parse(src(rel3))
    fn3 = find_function(tree3.body, "read_model_initial_conditions", rel3)
    _no_dynamic(fn3, rel3)
    # the state object there is the local bound to InitialCondition(...)
    state_names = []
    for n in ast.walk(fn3):
        if isinstance(n, ast.Assign) and isinstance(n.value, ast.Call) and isinstance(n.value.func, ast.Name) \
                and n.value.func.id == "InitialCondition":
            if len(n.targets) != 1 or not isinstance(n.targets[0], ast.Name):
                raise TranslatorError("%s: InitialCondition(...) not bound to a plain name (line %d)" % (rel3, n.lineno))
            state_names.append(n.targets[0].id)
    calls = [n for n in ast.walk(fn3) if isinstance(n, ast.Call) and isinstance(n.func, ast.Name) and n.func.id == "InitialCondition"]
    if len(calls) != 1 or len(state_names) != 1:
        raise TranslatorError("%s: expected exactly one `<name> = InitialCondition(...)`" % rel3)
    sname = state_names[0]
    for n in ast.walk(fn3):
        if isinstance(n, ast.Assign) and isinstance(n.value, ast.Name) and n.value.id == sname:
            raise TranslatorError("%s: state object %s aliased by a local (line %d)" % (rel3, sname, n.lineno))
    init_set = uniq(attr_targets_on(fn3, {sname}, rel3))

    out = ["(* GENERATED by harness/gen_facts.py from aquacrop/entities/initParamVariables.py,",
           "   aquacrop/timestep/reset_initial_conditions.py and aquacrop/initialize/read_model_initial_conditions.py.",
           "   DO NOT EDIT. *)",
           "From Coq Require Import String List Bool.", "Import ListNotations.", "Local Open Scope string_scope.", ""]
    out += coq_str_list("state_fields", fields, "names assigned on self in InitialCondition.__init__, source order")
    out.append("")
    out += coq_str_list("reset_fields", reset,
                        "attributes assigned on InitCond anywhere in reset_initial_conditions (first occurrence order)")
    out.append("")
    out += coq_str_list("reset_fields_unconditional", uncond,
                        "... of which assigned on every path through the function (if/else: in both branches)")
    out.append("")
    out.append("(* ... and (field, test) for fields assigned on every path through the body of a top-level `if test:` only *)")
    out.append("Definition reset_fields_guarded : list (string * string) := [")
    out.append(";\n".join("  (%s, %s)" % (coq_str(a), coq_str(b)) for (a, b) in guarded))
    out += ["].", ""]
    out += coq_str_list("reset_fields_maybe", [x for x in reset if x not in covered],
                        "... and the rest: assigned on some paths only (deeper conditionals, loops)")
    out.append("")
    out += coq_str_list("reset_crop_fields", reset_crop, "attributes assigned on crop in reset_initial_conditions")
    out.append("")
    out.append("(* does reset_initial_conditions read its `weather` argument, and under which syntactic guard *)")
    out.append("Definition reset_reads_weather : bool := %s." % ("true" if reads else "false"))
    out.append("Definition reset_weather_read_count : nat := %d." % len(reads))
    out.append("Definition reset_weather_guard : string := %s." % coq_str(" ".join(guard.split())))
    out.append("")
    out += coq_str_list("init_fields_set_by_read_model_initial_conditions", init_set,
                        "attributes assigned on the state object (%s) in read_model_initial_conditions" % sname)
    out.append("")
    return "\n".join(out), {"state_fields": len(fields), "reset_fields": len(reset), "reset_crop_fields": len(reset_crop),
                            "reset_reads_weather": bool(reads), "init_fields": len(init_set)}


# -----------------------------------------------------------------------------------------
#  Store sites
#
#  Alias rules (trusted; conservative, flow-insensitive within a function):
#    * a local is bound to everything ever assigned to it (plain / annotated / walrus / for / with /
#      comprehension targets, tuple unpacking);
#    * x.a, x[i] (basic indexing), x[i:j], *x, (a if c else b), (a or b) alias what x / a / b alias;
#      x[<comparison>] (boolean mask = numpy/pandas advanced indexing) is a copy;
#    * a display [a, b] / {k: a} / comprehension, and list(x), tuple(x), sorted(x), zip(..), enumerate(..) are
#      FRESH containers holding what their parts alias (tag prefix "@"): a store into the container itself is
#      not reported, a store through one of its elements (c[0].f = .., for e in c: e.f = ..) is;
#    * arithmetic, comparisons, constants, f-strings are fresh;
#    * a call of a function/class defined in the scanned package aliases those arguments that the
#      callee's return value may alias (summary computed with these same rules, fixpoint over the package;
#      per tuple position when every `return` of the callee is a tuple of one length); a package class
#      constructor returns a fresh object HOLDING those arguments that its __init__ may store below self
#      (all arguments when there is no unique __init__); an unresolvable callee (callable held in a local)
#      aliases all arguments; library calls are fresh except the view-returning ones listed below;
#    * heap-mediated aliasing (x.a = y; ...; x.a[0] = v mutates y) is NOT tracked: the row is rooted at x.
#  Reported roots: function parameters (incl. self; a default-argument object is reached through its
#  parameter), module-level names (incl. imported names), and - for nested functions - the enclosing
#  function's parameters.  Stores whose root expression aliases none of these are not reported
#  (objects created in the function).
# -----------------------------------------------------------------------------------------
SCAN_GLOBS = ["aquacrop/core.py", "aquacrop/entities/*.py", "aquacrop/entities/crops/*.py", "aquacrop/initialize/*.py",
              "aquacrop/solution/*.py", "aquacrop/timestep/*.py", "aquacrop/utils/*.py"]
PACKAGE_TOPS = {"aquacrop"}

MUTATING_METHODS = {
    # list / dict / set / bytearray / deque
    "append", "extend", "insert", "update", "pop", "popitem", "remove", "clear", "sort", "reverse", "setdefault",
    "add", "discard", "difference_update", "intersection_update", "symmetric_difference_update",
    "appendleft", "extendleft", "popleft", "rotate",
    # numpy
    "fill", "put", "itemset", "resize", "setflags", "partition", "setfield", "byteswap",
    # dunder forms
    "__setitem__", "__delitem__", "__iadd__", "__isub__", "__imul__", "__itruediv__", "__ifloordiv__",
    "__imod__", "__ipow__", "__iand__", "__ior__", "__ixor__",
}
SETATTR_METHODS = {"__setattr__", "__delattr__"}
LOC_ATTRS = {"loc", "iloc", "at", "iat"}
# library *functions* that write into their first argument
FUNC_MUTATORS = {"put", "place", "putmask", "copyto", "fill_diagonal", "put_along_axis", "shuffle",
                 "heappush", "heappop", "heapify", "insort", "insort_left", "insort_right"}
# library functions that change process-global state
GLOBAL_STATE_FUNCS = {"seed", "set_state", "setrecursionlimit", "seterr", "set_printoptions", "set_option",
                      "putenv", "chdir", "setlocale", "filterwarnings", "simplefilter"}
VIEW_METHODS = {"reshape", "ravel", "view", "transpose", "squeeze", "swapaxes", "to_numpy", "get", "setdefault",
                "items", "values", "keys", "iterrows", "itertuples", "pop", "popitem", "__getitem__", "diagonal",
                "__iter__", "__next__"}
VIEW_FUNCS = {"asarray", "asanyarray", "ascontiguousarray", "asfortranarray", "atleast_1d", "atleast_2d", "atleast_3d",
              "reshape", "ravel", "transpose", "squeeze", "swapaxes", "moveaxis", "expand_dims", "broadcast_to",
              "diagonal", "nditer", "copy_"}  # np.array(x, copy=False) handled separately
CONTAINER_BUILTINS = {"enumerate", "zip", "reversed", "iter", "list", "tuple", "sorted", "dict", "set", "frozenset",
                      "filter", "map"}            # fresh container / iterator over (parts of) the arguments
DIRECT_BUILTINS = {"getattr", "min", "max", "next", "type", "super"}   # may return (a part of) an argument itself
ALIAS_BUILTINS = CONTAINER_BUILTINS | DIRECT_BUILTINS


def strip_tag(t):
    return t.lstrip("@")


def box(tags):
    return {"@" + strip_tag(t) for t in tags}


def unbox(tags):
    return {strip_tag(t) for t in tags}
STMT_SIMPLE = (ast.Pass, ast.Break, ast.Continue)
EXPR_LEAF = (ast.Constant,)
KIND_ORDER = ["Attr", "Index", "AttrIndex", "AugAttr", "AugIndex", "LocIndex", "SetAttr", "MutCall"]


class Mod:
    def __init__(self, rel, name, text):
        self.rel, self.name, self.text = rel, name, text
        self.tree = _parse(text)
        self.imports = {}      # name -> ("mod", fullname) | ("from", module, orig, level)
        self.stars = []        # (module, level)
        self.defs = {}         # top-level functions
        self.classes = {}      # top-level classes
        self.assigned = []     # (name, value node or None)
        self.names = set()     # every module-level name
        self.fns = []          # Fn objects (incl. <module>, methods, nested)


class Fn:
    def __init__(self, mod, qual, node, encl, cls):
        self.mod, self.qual, self.node, self.encl, self.cls = mod, qual, node, encl, cls
        if isinstance(node, ast.Module) or isinstance(node, ast.ClassDef):
            self.params, self.pos_params, self.vararg, self.kwarg = [], [], None, None
        else:
            a = node.args
            self.pos_params = [x.arg for x in a.posonlyargs + a.args]
            self.vararg = a.vararg.arg if a.vararg else None
            self.kwarg = a.kwarg.arg if a.kwarg else None
            self.params = self.pos_params + ([self.vararg] if self.vararg else []) + [x.arg for x in a.kwonlyargs] \
                + ([self.kwarg] if self.kwarg else [])
        self.is_module = isinstance(node, ast.Module)
        self.is_classbody = isinstance(node, ast.ClassDef)
        self.locals = set(self.params)
        self.bindings = []     # (name, value expr, how)   how: "v" | ("pos", i, n)
        self.stores = []       # (target node, aug, assigned value expr or None)
        self.ctor_holds = set()  # __init__ only: own params whose objects may end up stored below self
        self.augnames = []     # (Name node)  x += ...
        self.calls = []        # Call nodes
        self.returns = []      # value exprs (None for bare return)
        self.origins = {}      # local name -> set of tags
        self.ret_whole = set() # tags the return value may alias  ("P:x" own params, others verbatim)
        self.ret_pos = None    # list of sets when all returns are tuples of one length
        self.mut_params = set()  # own params (names) that may be written through, here or in callees

    def where(self):
        return "%s:%s" % (self.mod.rel, self.qual)


def unparse(n):
    try:
        return ast.unparse(n)
    except Exception:
        return type(n).__name__


class Collector:
    """fail-closed walk of one function body: bindings, stores, calls, returns, nested defs"""

    def __init__(self, fn, make_fn):
        self.fn, self.make_fn = fn, make_fn
        self.comp = 0     # > 0 inside a comprehension / lambda (their variables are never module-level names)

    def err(self, node, what):
        raise TranslatorError("%s: %s (line %d): %s" % (self.fn.where(), what, getattr(node, "lineno", 0),
                                                       comment_safe(unparse(node))))

    # ---- statements
    def stmts(self, body):
        for s in body:
            self.stmt(s)

    def stmt(self, s):
        fn = self.fn
        if isinstance(s, (ast.Global, ast.Nonlocal)):
            self.err(s, "`%s` statement" % type(s).__name__.lower())
        elif isinstance(s, ast.Assign):
            self.expr(s.value)
            for t in s.targets:
                self.target(t, s.value, False)
        elif isinstance(s, ast.AugAssign):
            self.expr(s.value)
            if isinstance(s.target, ast.Name):
                if not fn.is_module:
                    fn.locals.add(s.target.id)
                fn.augnames.append(s.target)
            elif isinstance(s.target, (ast.Attribute, ast.Subscript)):
                self.target(s.target, None, True)
            else:
                self.err(s, "augmented assignment target not recognised")
        elif isinstance(s, ast.AnnAssign):
            if s.value is not None:
                self.expr(s.value)
                self.target(s.target, s.value, False)
            elif not isinstance(s.target, ast.Name):
                self.err(s, "bare annotation on a non-name")
        elif isinstance(s, ast.Expr):
            self.expr(s.value)
        elif isinstance(s, (ast.If, ast.While)):
            self.expr(s.test)
            self.stmts(s.body)
            self.stmts(s.orelse)
        elif isinstance(s, ast.For):
            self.expr(s.iter)
            self.target(s.target, s.iter, False, elem=True)
            self.stmts(s.body)
            self.stmts(s.orelse)
        elif isinstance(s, ast.Return):
            if s.value is not None:
                self.expr(s.value)
            fn.returns.append(s.value)
        elif isinstance(s, ast.Assert):
            self.expr(s.test)
            if s.msg is not None:
                self.expr(s.msg)
        elif isinstance(s, ast.Raise):
            if s.exc is not None:
                self.expr(s.exc)
            if s.cause is not None:
                self.expr(s.cause)
        elif isinstance(s, STMT_SIMPLE):
            pass
        elif isinstance(s, ast.Try):
            self.stmts(s.body)
            for h in s.handlers:
                if h.type is not None:
                    self.expr(h.type)
                if h.name and not fn.is_module:
                    fn.locals.add(h.name)
                self.stmts(h.body)
            self.stmts(s.orelse)
            self.stmts(s.finalbody)
        elif isinstance(s, ast.With):
            for it in s.items:
                self.expr(it.context_expr)
                if it.optional_vars is not None:
                    self.target(it.optional_vars, it.context_expr, False)
            self.stmts(s.body)
        elif isinstance(s, (ast.Import, ast.ImportFrom)):
            if fn.is_module:
                return  # recorded by the module pass
            if isinstance(s, ast.ImportFrom) and any(a.name == "*" for a in s.names):
                self.err(s, "star import inside a function")
            for a in s.names:
                fn.locals.add((a.asname or a.name).split(".")[0])
        elif isinstance(s, ast.FunctionDef):
            if s.decorator_list and not all(self.ok_decorator(d) for d in s.decorator_list):
                self.err(s, "decorator not recognised")
            for d in s.args.defaults + [d for d in s.args.kw_defaults if d is not None]:
                self.expr(d)
            if not fn.is_module and not fn.is_classbody:
                fn.locals.add(s.name)
            self.make_fn(s, fn)
        elif isinstance(s, ast.ClassDef):
            if not fn.is_module:
                self.err(s, "class definition inside a function/class")
            if s.decorator_list or s.keywords:
                self.err(s, "class decorator / metaclass keyword")
            for b in s.bases:
                self.expr(b)
            self.make_fn(s, fn)
        elif isinstance(s, ast.Delete):
            for t in s.targets:
                if isinstance(t, ast.Name):
                    continue
                if isinstance(t, (ast.Attribute, ast.Subscript)):
                    self.target(t, None, False)
                else:
                    self.err(s, "del target not recognised")
        else:
            self.err(s, "statement kind %s not recognised" % type(s).__name__)

    @staticmethod
    def ok_decorator(d):
        if isinstance(d, ast.Name) and d.id in ("property", "staticmethod"):
            return True
        if isinstance(d, ast.Attribute) and d.attr in ("setter", "getter", "deleter") and isinstance(d.value, ast.Name):
            return True
        return False

    # ---- assignment targets
    def target(self, t, value, aug, elem=False):
        fn = self.fn
        if isinstance(t, ast.Name):
            if not fn.is_module or self.comp:
                fn.locals.add(t.id)
            if value is not None:
                fn.bindings.append((t.id, value, "e" if elem else "v"))
        elif isinstance(t, (ast.Tuple, ast.List)):
            n = len(t.elts)
            starred = any(isinstance(e, ast.Starred) for e in t.elts)
            if value is not None and not elem and isinstance(value, (ast.Tuple, ast.List)) and len(value.elts) == n \
                    and not starred and not any(isinstance(e, ast.Starred) for e in value.elts):
                for ti, vi in zip(t.elts, value.elts):
                    self.target(ti, vi, aug)
            elif value is not None and not elem and isinstance(value, ast.Call) and not starred:
                for i, ti in enumerate(t.elts):
                    if isinstance(ti, ast.Name):
                        if not fn.is_module or self.comp:
                            fn.locals.add(ti.id)
                        fn.bindings.append((ti.id, value, ("pos", i, n)))
                    else:
                        self.target(ti, value, aug, elem=True)
            else:
                for ti in t.elts:
                    self.target(ti, value, aug, elem=True)
        elif isinstance(t, ast.Starred):
            self.target(t.value, value, aug, elem=True)
        elif isinstance(t, (ast.Attribute, ast.Subscript)):
            fn.stores.append((t, aug, value))
            self.expr(t.value)
            if isinstance(t, ast.Subscript):
                self.expr(t.slice)
        else:
            self.err(t, "assignment target kind %s not recognised" % type(t).__name__)

    # ---- expressions
    def expr(self, e):
        fn = self.fn
        if e is None or isinstance(e, EXPR_LEAF):
            return
        if isinstance(e, ast.Name):
            return
        if isinstance(e, ast.Attribute):
            if e.attr == "__class__" or e.attr == "__globals__" or e.attr == "__builtins__":
                self.err(e, "access to %s" % e.attr)
            self.expr(e.value)
        elif isinstance(e, ast.Subscript):
            self.expr(e.value)
            self.expr(e.slice)
        elif isinstance(e, ast.Slice):
            self.expr(e.lower), self.expr(e.upper), self.expr(e.step)
        elif isinstance(e, ast.Call):
            if isinstance(e.func, ast.Name) and e.func.id in FORBIDDEN_CALLS and e.func.id not in fn.locals:
                self.err(e, "call of %s()" % e.func.id)
            fn.calls.append(e)
            self.expr(e.func)
            for a in e.args:
                self.expr(a)
            for k in e.keywords:
                self.expr(k.value)
        elif isinstance(e, (ast.BoolOp,)):
            for v in e.values:
                self.expr(v)
        elif isinstance(e, ast.BinOp):
            self.expr(e.left), self.expr(e.right)
        elif isinstance(e, ast.UnaryOp):
            self.expr(e.operand)
        elif isinstance(e, ast.Compare):
            self.expr(e.left)
            for c in e.comparators:
                self.expr(c)
        elif isinstance(e, ast.IfExp):
            self.expr(e.test), self.expr(e.body), self.expr(e.orelse)
        elif isinstance(e, (ast.Tuple, ast.List, ast.Set)):
            for x in e.elts:
                self.expr(x)
        elif isinstance(e, ast.Dict):
            for k in e.keys:
                self.expr(k)
            for v in e.values:
                self.expr(v)
        elif isinstance(e, ast.Starred):
            self.expr(e.value)
        elif isinstance(e, ast.JoinedStr):
            for v in e.values:
                self.expr(v)
        elif isinstance(e, ast.FormattedValue):
            self.expr(e.value)
            self.expr(e.format_spec)
        elif isinstance(e, (ast.ListComp, ast.SetComp, ast.GeneratorExp, ast.DictComp)):
            self.comp += 1
            for g in e.generators:
                if g.is_async:
                    self.err(e, "async comprehension")
                self.expr(g.iter)
                self.target(g.target, g.iter, False, elem=True)
                for c in g.ifs:
                    self.expr(c)
            if isinstance(e, ast.DictComp):
                self.expr(e.key), self.expr(e.value)
            else:
                self.expr(e.elt)
            self.comp -= 1
        elif isinstance(e, ast.NamedExpr):
            self.expr(e.value)
            self.target(e.target, e.value, False)
        elif isinstance(e, ast.Lambda):
            a = e.args
            for x in a.posonlyargs + a.args + a.kwonlyargs + ([a.vararg] if a.vararg else []) + ([a.kwarg] if a.kwarg else []):
                fn.locals.add(x.arg)         # fresh local (shadowing makes the analysis coarser, not unsound:
                # a lambda parameter named like an aliased local keeps that local's aliases)
            for d in a.defaults + [d for d in a.kw_defaults if d is not None]:
                self.expr(d)
            self.expr(e.body)
        else:
            self.err(e, "expression kind %s not recognised" % type(e).__name__)


class Package:
    def __init__(self):
        self.mods = {}       # module name -> Mod
        self.fns = []        # all Fn
        self.by_simple = {}  # simple function name -> [Fn]  (top-level functions)
        self.cls_by_simple = {}  # class name -> [(Mod, ClassDef)]
        self.methods = {}    # method name -> [Fn]
        self.load()

    # ---- loading
    def load(self):
        rels = []
        for g in SCAN_GLOBS:
            hits = sorted(_glob.glob(os.path.join(REPO, g)))
            if not hits:
                raise TranslatorError("no source file matches %s" % g)
            rels += [os.path.relpath(h, REPO) for h in hits]
        for rel in rels:
            name = rel[:-3].replace(os.sep, ".")
            m = Mod(rel, name, src(rel))
            self.mods[name] = m
        for m in self.mods.values():
            self.module_pass(m)
        self.resolve_stars()
        for m in self.mods.values():
            self.collect_module(m)

    def module_pass(self, m):
        """module-level names (any nesting of if/try at module level)"""
        def walk(body):
            for s in body:
                if isinstance(s, ast.Import):
                    for a in s.names:
                        if a.asname:
                            m.imports[a.asname] = ("mod", a.name)
                        else:
                            m.imports[a.name.split(".")[0]] = ("mod", a.name.split(".")[0])
                elif isinstance(s, ast.ImportFrom):
                    for a in s.names:
                        if a.name == "*":
                            m.stars.append((s.module or "", s.level, s.lineno))
                        else:
                            m.imports[a.asname or a.name] = ("from", s.module or "", a.name, s.level)
                elif isinstance(s, ast.FunctionDef):
                    if s.name in m.defs or s.name in m.classes:
                        raise TranslatorError("%s: %s defined twice at module level" % (m.rel, s.name))
                    m.defs[s.name] = s
                elif isinstance(s, ast.ClassDef):
                    if s.name in m.defs or s.name in m.classes:
                        raise TranslatorError("%s: %s defined twice at module level" % (m.rel, s.name))
                    m.classes[s.name] = s
                elif isinstance(s, (ast.Assign, ast.AnnAssign, ast.AugAssign)):
                    tg = s.targets if isinstance(s, ast.Assign) else [s.target]
                    for t in tg:
                        for n in ast.walk(t):
                            if isinstance(n, ast.Name) and isinstance(n.ctx, ast.Store):
                                simple = isinstance(t, ast.Name)
                                m.assigned.append((n.id, s.value if simple else None, s.lineno))
                elif isinstance(s, (ast.If, ast.While)):
                    walk(s.body), walk(s.orelse)
                elif isinstance(s, ast.For):
                    for n in ast.walk(s.target):
                        if isinstance(n, ast.Name):
                            m.assigned.append((n.id, None, s.lineno))
                    walk(s.body), walk(s.orelse)
                elif isinstance(s, ast.Try):
                    walk(s.body)
                    for h in s.handlers:
                        walk(h.body)
                    walk(s.orelse), walk(s.finalbody)
                elif isinstance(s, ast.With):
                    for it in s.items:
                        if it.optional_vars is not None:
                            for n in ast.walk(it.optional_vars):
                                if isinstance(n, ast.Name):
                                    m.assigned.append((n.id, None, s.lineno))
                    walk(s.body)
                elif isinstance(s, (ast.Expr, ast.Assert, ast.Raise, ast.Pass, ast.Delete, ast.Global, ast.Nonlocal)):
                    pass      # no binding; examined by the collector
                else:
                    raise TranslatorError("%s: module-level statement kind %s not recognised (line %d)"
                                          % (m.rel, type(s).__name__, s.lineno))
        walk(m.tree.body)
        # names bound by comprehension / walrus at module level are module-level names too
        for s in m.tree.body:
            if not isinstance(s, (ast.FunctionDef, ast.ClassDef)):
                for n in ast.walk(s):
                    if isinstance(n, ast.NamedExpr) and isinstance(n.target, ast.Name):
                        m.assigned.append((n.target.id, None, n.lineno))
        m.names = set(m.imports) | set(m.defs) | set(m.classes) | {a for (a, _, _) in m.assigned}

    def import_target(self, m, module, level):
        """scanned module a (relative or absolute) import refers to, or None"""
        if level > 0:
            base = m.name.split(".")[:-level]
            full = ".".join(base + ([module] if module else []))
        else:
            full = module
        if full in self.mods:
            return self.mods[full]
        if full + ".__init__" in self.mods:
            return self.mods[full + ".__init__"]
        return None

    def is_package_import(self, module, level):
        return level > 0 or (module.split(".")[0] in PACKAGE_TOPS)

    def resolve_stars(self):
        changed = True
        rounds = 0
        while changed:
            changed = False
            rounds += 1
            if rounds > 50:
                raise TranslatorError("star-import resolution does not terminate")
            for m in self.mods.values():
                for (module, level, lineno) in m.stars:
                    t = self.import_target(m, module, level)
                    if t is None:
                        raise TranslatorError("%s: star import from a module outside the scanned package: %s (line %d)"
                                              % (m.rel, module, lineno))
                    for n in t.names:
                        if n.startswith("_"):
                            continue
                        if n not in m.names:
                            m.names.add(n)
                            # resolve like an explicit from-import of the name
                            if n in t.imports:
                                m.imports[n] = t.imports[n] if t.imports[n][0] == "mod" else \
                                    ("from_abs", t, n)
                            else:
                                m.imports[n] = ("from_abs", t, n)
                            changed = True

    def collect_module(self, m):
        def make_fn(node, encl):
            if isinstance(node, ast.ClassDef):
                f = Fn(m, node.name, node, None, node.name)
                f.is_classbody = True
            else:
                if encl.is_module:
                    qual, cls, enc = node.name, None, None
                elif encl.is_classbody:
                    qual, cls, enc = encl.qual + "." + node.name, encl.qual, None
                else:
                    qual, cls, enc = encl.qual + "." + node.name, encl.cls, encl
                f = Fn(m, qual, node, enc, cls)
                if cls is not None and enc is None and not any(
                        isinstance(d, ast.Name) and d.id == "staticmethod" for d in node.decorator_list):
                    f.is_method = True
                    self.methods.setdefault(node.name, []).append(f)
                else:
                    f.is_method = False
                if encl.is_module:
                    self.by_simple.setdefault(node.name, []).append(f)
            if isinstance(node, ast.ClassDef):
                self.cls_by_simple.setdefault(node.name, []).append(f)
                f.is_method = False
            m.fns.append(f)
            self.fns.append(f)
            c = Collector(f, make_fn)
            c.stmts(node.body)
            return f
        top = Fn(m, "<module>", m.tree, None, None)
        top.is_method = False
        m.fns.append(top)
        self.fns.append(top)
        Collector(top, make_fn).stmts(m.tree.body)

    # ---- name resolution
    def scope_of(self, fn, name):
        """('local', Fn) | ('global', None) | ('builtin', None) | error"""
        f = fn
        while f is not None:
            if name in f.locals:      # (<module> has only comprehension / lambda variables here)
                return ("local", f)
            f = f.encl
        if name in fn.mod.names:
            return ("global", None)
        if name in PY_BUILTINS or name in ("__file__", "__name__", "__doc__"):
            return ("builtin", None)
        raise TranslatorError("%s: name `%s` is neither a local, a module-level name nor a builtin" % (fn.where(), name))

    def external_module_root(self, fn, e):
        """True when expression e is a Name (or attribute chain on a Name) that denotes an imported
        non-package module / object, e.g. np, np.random, os.path"""
        while isinstance(e, ast.Attribute):
            e = e.value
        if not isinstance(e, ast.Name):
            return False
        kind, _ = self.scope_of(fn, e.id)
        if kind != "global":
            return False
        imp = fn.mod.imports.get(e.id)
        if imp is None:
            return False
        if imp[0] == "mod":
            return imp[1].split(".")[0] not in PACKAGE_TOPS
        if imp[0] == "from":
            return not self.is_package_import(imp[1], imp[3])
        return False

    def callee(self, fn, call):
        """-> ('pkg', [Fn], recv or None) | ('ctor', [Fn class bodies]) | ('view', recv_or_None) | ('alias_all',)
              | ('fresh',)"""
        f = call.func
        if isinstance(f, ast.Name):
            kind, _ = self.scope_of(fn, f.id)
            if kind == "local":
                return ("alias_all",)
            if kind == "builtin":
                if f.id in CONTAINER_BUILTINS:
                    return ("box_all",)
                return ("alias_all",) if f.id in DIRECT_BUILTINS else ("fresh",)
            m = fn.mod
            if f.id in m.defs:
                return ("pkg", [x for x in m.fns if x.qual == f.id and x.encl is None and x.cls is None], None)
            if f.id in m.classes:
                return ("ctor", [x for x in m.fns if x.is_classbody and x.qual == f.id])
            imp = m.imports.get(f.id)
            if imp is None:
                return ("alias_all",)   # module-level variable holding a callable
            if imp[0] == "mod":
                return ("fresh",) if imp[1].split(".")[0] not in PACKAGE_TOPS else ("alias_all",)
            if imp[0] == "from_abs":
                t, orig = imp[1], imp[2]
                return self.lookup_in(t, orig)
            _, module, orig, level = imp
            if self.is_package_import(module, level):
                t = self.import_target(m, module, level)
                if t is not None:
                    return self.lookup_in(t, orig)
                return self.lookup_simple(orig)
            # imported from outside the package; a name collision with a package function is treated as that function
            if orig in self.by_simple or orig in self.cls_by_simple:
                return self.lookup_simple(orig)
            if orig in VIEW_FUNCS:
                return ("view", None)
            if orig == "array" and any(k.arg == "copy" for k in call.keywords):
                return ("view", None)
            return ("fresh",)
        if isinstance(f, ast.Attribute):
            if self.external_module_root(fn, f.value):
                if f.attr in VIEW_FUNCS:
                    return ("view", None)
                if f.attr == "array" and any(k.arg == "copy" and not (isinstance(k.value, ast.Constant) and k.value.value is True)
                                             for k in call.keywords):
                    return ("view", None)
                return ("fresh",)
            if f.attr in VIEW_METHODS:
                return ("view", f.value)
            if f.attr in self.methods:
                return ("pkg", self.methods[f.attr], f.value)
            return ("fresh",)
        # call of a call result / subscript: unknown callable
        return ("alias_all",)

    def lookup_in(self, t, orig, depth=0):
        if depth > 20:
            return ("alias_all",)
        if orig in t.defs:
            return ("pkg", [x for x in t.fns if x.qual == orig and x.encl is None and x.cls is None], None)
        if orig in t.classes:
            return ("ctor", [x for x in t.fns if x.is_classbody and x.qual == orig])
        imp = t.imports.get(orig)
        if imp is not None and imp[0] == "from_abs":
            return self.lookup_in(imp[1], imp[2], depth + 1)
        if imp is not None and imp[0] == "from" and self.is_package_import(imp[1], imp[3]):
            t2 = self.import_target(t, imp[1], imp[3])
            if t2 is not None:
                return self.lookup_in(t2, imp[2], depth + 1)
        return self.lookup_simple(orig)

    def lookup_simple(self, orig):
        if orig in self.by_simple:
            return ("pkg", self.by_simple[orig], None)
        if orig in self.cls_by_simple:
            return ("ctor", self.cls_by_simple[orig])
        return ("alias_all",)

    # ---- alias sources of an expression
    def src_expr(self, fn, e):
        if e is None or isinstance(e, (ast.Constant, ast.BinOp, ast.UnaryOp, ast.Compare, ast.JoinedStr, ast.FormattedValue,
                                       ast.Lambda, ast.Slice)):
            return set()
        if isinstance(e, ast.Name):
            kind, owner = self.scope_of(fn, e.id)
            if kind == "local":
                s = set(owner.origins.get(e.id, ()))
                if e.id in owner.params:
                    s.add("P:" + e.id)
                return s
            if kind == "global":
                return {"G:" + e.id}
            return set()
        if isinstance(e, ast.Attribute):
            return unbox(self.src_expr(fn, e.value))
        if isinstance(e, ast.Subscript):
            if is_mask_index(e.slice):
                return set()
            if isinstance(e.slice, ast.Slice):
                return self.src_expr(fn, e.value)     # c[i:j] of a fresh container is a fresh container
            return unbox(self.src_expr(fn, e.value))
        if isinstance(e, ast.Starred):
            return self.src_expr(fn, e.value)
        if isinstance(e, ast.NamedExpr):
            return self.src_expr(fn, e.value)
        if isinstance(e, ast.IfExp):
            return self.src_expr(fn, e.body) | self.src_expr(fn, e.orelse)
        if isinstance(e, ast.BoolOp):
            s = set()
            for v in e.values:
                s |= self.src_expr(fn, v)
            return s
        if isinstance(e, (ast.Tuple, ast.List, ast.Set)):
            s = set()
            for v in e.elts:
                s |= self.src_expr(fn, v)
            return box(s)
        if isinstance(e, ast.Dict):
            s = set()
            for v in e.values:
                s |= self.src_expr(fn, v)
            return box(s)
        if isinstance(e, (ast.ListComp, ast.SetComp, ast.GeneratorExp)):
            return box(self.src_expr(fn, e.elt))
        if isinstance(e, ast.DictComp):
            return box(self.src_expr(fn, e.value))
        if isinstance(e, ast.Call):
            return self.src_call(fn, e, None)
        raise TranslatorError("%s: alias rule missing for expression kind %s (line %d)" % (fn.where(), type(e).__name__, e.lineno))

    def all_arg_src(self, fn, call, recv=None):
        s = set()
        for a in call.args:
            s |= self.src_expr(fn, a)
        for k in call.keywords:
            s |= self.src_expr(fn, k.value)
        if recv is not None:
            s |= self.src_expr(fn, recv)
        return s

    def arg_map(self, fn, call, callee, recv):
        """callee parameter name -> list of argument expressions; None when the call shape is not positional/keyword"""
        if any(isinstance(a, ast.Starred) for a in call.args) or any(k.arg is None for k in call.keywords):
            return None
        pos = list(callee.pos_params)
        out = {}
        if callee.is_method:
            if not pos:
                return None
            if recv is not None:
                out.setdefault(pos[0], []).append(recv)
            pos = pos[1:]
        for i, a in enumerate(call.args):
            if i < len(pos):
                out.setdefault(pos[i], []).append(a)
            elif callee.vararg:
                out.setdefault(callee.vararg, []).append(a)
            else:
                return None
        for k in call.keywords:
            if k.arg in callee.params and k.arg not in (callee.vararg, callee.kwarg):
                out.setdefault(k.arg, []).append(k.value)
            elif callee.kwarg:
                out.setdefault(callee.kwarg, []).append(k.value)
            else:
                return None
        return out

    def src_call(self, fn, call, pos):
        """pos = (i, n): the i-th of n names the call result is unpacked into (else None)"""
        s = self._src_call(fn, call, pos)
        return unbox(s) if pos is not None else s

    def _src_call(self, fn, call, pos):
        r = self.callee(fn, call)
        if r[0] == "fresh":
            return set()
        if r[0] == "alias_all":
            recv = call.func.value if isinstance(call.func, ast.Attribute) else None
            return self.all_arg_src(fn, call, recv)
        if r[0] == "box_all":
            return box(self.all_arg_src(fn, call))
        if r[0] == "view":
            s = self.all_arg_src(fn, call, r[1]) if r[1] is None else self.src_expr(fn, r[1])
            return s
        if r[0] == "ctor":
            s = set()
            for cb in r[1]:
                inits = [x for x in cb.mod.fns if x.qual == cb.qual + ".__init__" and x.is_method]
                if len(inits) != 1:
                    if cb.node.bases or inits:
                        s |= self.all_arg_src(fn, call)     # inherited / ambiguous __init__
                    continue
                am = self.arg_map(fn, call, inits[0], None)
                if am is None:
                    s |= self.all_arg_src(fn, call)
                    continue
                for p in inits[0].ctor_holds:
                    for a in am.get(p, []):
                        s |= self.src_expr(fn, a)
            if not r[1]:
                s |= self.all_arg_src(fn, call)
            return box(s)
        # package function(s)
        _, cands, recv = r
        if not cands:
            return self.all_arg_src(fn, call, recv)
        s = set()
        for c in cands:
            am = self.arg_map(fn, call, c, recv)
            if am is None:
                s |= self.all_arg_src(fn, call, recv)
                continue
            tags = c.ret_whole
            if pos is not None and c.ret_pos is not None and len(c.ret_pos) == pos[1]:
                tags = c.ret_pos[pos[0]]      # (src_call unboxes: coarser than needed for `return [a], b`, still sound)
            for t in tags:
                boxed = t.startswith("@")
                u = strip_tag(t)
                if u.startswith("P:") and u[2:] in c.params:
                    for a in am.get(u[2:], []):
                        x = self.src_expr(fn, a)
                        s |= box(x) if boxed else x
                else:
                    s.add(t)     # module-level object (or enclosing function's parameter) returned as such
        return s

    # ---- per-function fixpoint
    def solve_fn(self, fn):
        changed_any = False
        while True:
            changed = False
            for (name, value, how) in fn.bindings:
                if name not in fn.locals:
                    continue          # module-level name: a root by itself
                if how == "v":
                    s = self.src_expr(fn, value)
                elif how == "e":
                    s = unbox(self.src_expr(fn, value))      # element of / unpacked from the value
                else:
                    s = self.src_call(fn, value, (how[1], how[2]))
                cur = fn.origins.setdefault(name, set())
                if not s <= cur:
                    cur |= s
                    changed = True
            if not changed:
                break
            changed_any = True
        return changed_any

    def summarise(self, fn):
        """returns True when a summary changed"""
        ch = False
        if fn.is_module or fn.is_classbody:
            return False
        whole = set()
        pos = None
        shapes = set()
        for r in fn.returns:
            if r is None:
                shapes.add(None)
                continue
            whole |= self.src_expr(fn, r)
            if isinstance(r, ast.Tuple) and not any(isinstance(x, ast.Starred) for x in r.elts):
                shapes.add(len(r.elts))
            else:
                shapes.add(None)
        if len(shapes) == 1 and None not in shapes:
            n = next(iter(shapes))
            pos = [set() for _ in range(n)]
            for r in fn.returns:
                for i, x in enumerate(r.elts):
                    pos[i] |= self.src_expr(fn, x)
        if fn.qual.endswith(".__init__") and fn.is_method and fn.pos_params:
            me = "P:" + fn.pos_params[0]
            held = set()
            for (t, _aug, value) in fn.stores:
                if value is not None and me in self.src_expr(fn, t.value):
                    held |= unbox(self.src_expr(fn, value))
            for c in fn.calls:
                args = list(c.args) + [k.value for k in c.keywords]
                recv = c.func.value if isinstance(c.func, ast.Attribute) else None
                touches_self = any(me in unbox(self.src_expr(fn, a)) for a in args) or \
                    (recv is not None and me in unbox(self.src_expr(fn, recv)))
                if touches_self:
                    for a in args:
                        held |= unbox(self.src_expr(fn, a))
            held = {h[2:] for h in held if h.startswith("P:") and h[2:] in fn.params and h != me}
            if held != fn.ctor_holds:
                fn.ctor_holds = held
                ch = True
        if whole != fn.ret_whole:
            fn.ret_whole = whole
            ch = True
        if pos != fn.ret_pos:
            fn.ret_pos = pos
            ch = True
        # parameters written through
        mp = set()
        for (root, _attr, _kind, _txt, prov) in self.sites_of(fn, interproc=True):
            if prov == "P" and root in fn.params:
                mp.add(root)
        if mp != fn.mut_params:
            fn.mut_params = mp
            ch = True
        return ch

    def solve(self):
        # order: enclosing functions before nested ones (list order guarantees it)
        for rounds in range(200):
            ch = False
            for fn in self.fns:
                if self.solve_fn(fn):
                    ch = True
            for fn in self.fns:
                if self.summarise(fn):
                    ch = True
            if not ch:
                return rounds + 1
        raise TranslatorError("alias fixpoint did not converge in 200 rounds")

    # ---- sites
    def roots_of(self, fn, e):
        tags = self.src_expr(fn, e)
        return sorted({(t[0], t[2:]) for t in tags if not t.startswith("@")}, key=lambda x: (x[1], x[0]))

    def check_dict_write(self, fn, e, node):
        """__dict__ in a written path: only below self"""
        x = e
        has = False
        while isinstance(x, (ast.Attribute, ast.Subscript, ast.Call)):
            if isinstance(x, ast.Attribute) and x.attr == "__dict__":
                has = True
            x = x.value if not isinstance(x, ast.Call) else x.func
        if has:
            if not (isinstance(x, ast.Name) and x.id == "self" and fn.params and fn.params[0] == "self"):
                raise TranslatorError("%s: write through __dict__ of a non-self object (line %d): %s"
                                      % (fn.where(), node.lineno, comment_safe(unparse(node))))
        return has

    def sites_of(self, fn, interproc=True):
        """[(root, attr, kind, source text)] in source order"""
        rows = []

        def emit(node, base, attr, kind, text):
            for (prov, r) in self.roots_of(fn, base):
                rows.append((node.lineno, node.col_offset, r, attr, kind, text, prov))

        for (t, aug, _value) in fn.stores:
            text = unparse(t) + (" (aug)=" if aug else " =")
            self.check_dict_write(fn, t, t)
            if isinstance(t, ast.Attribute):
                emit(t, t.value, t.attr, "AugAttr" if aug else "Attr", text)
            else:
                b = t.value
                if isinstance(b, ast.Attribute) and b.attr in LOC_ATTRS:
                    obj = b.value
                    emit(t, obj, obj.attr if isinstance(obj, ast.Attribute) else "", "LocIndex", text)
                elif isinstance(b, ast.Attribute):
                    emit(t, b, b.attr, "AugIndex" if aug else "AttrIndex", text)
                else:
                    x, attr = b, ""
                    while isinstance(x, ast.Subscript):
                        x = x.value
                    if isinstance(x, ast.Attribute):
                        attr = x.attr
                    emit(t, b, attr, "AugIndex" if aug else ("AttrIndex" if attr else "Index"), text)
        for n in fn.augnames:
            # x += v on a local that aliases a reported root: in-place for lists / arrays
            kind, owner = self.scope_of(fn, n.id)
            if kind == "global" or kind == "local":
                emit(n, n, "", "MutCall", n.id + " (aug)=")
        for c in fn.calls:
            f = c.func
            text = unparse(c)
            if isinstance(f, ast.Name) and f.id in ("setattr", "delattr") and self.scope_of(fn, f.id)[0] == "builtin":
                if not c.args:
                    raise TranslatorError("%s: %s() without arguments (line %d)" % (fn.where(), f.id, c.lineno))
                self.check_dict_write(fn, c.args[0], c)
                a = c.args[1] if len(c.args) > 1 else None
                attr = a.value if isinstance(a, ast.Constant) and isinstance(a.value, str) else ""
                emit(c, c.args[0], attr, "SetAttr", text)
                continue
            for k in c.keywords:
                if k.arg == "out":
                    emit(c, k.value, last_attr(k.value), "MutCall", text)
            if isinstance(f, ast.Attribute):
                recv = f.value
                if self.external_module_root(fn, recv) and isinstance(recv, ast.Name):
                    # library function np.f(x, ...)
                    if f.attr in FUNC_MUTATORS and c.args:
                        emit(c, c.args[0], last_attr(c.args[0]), "MutCall", text)
                    if f.attr in GLOBAL_STATE_FUNCS:
                        emit(c, recv, f.attr, "MutCall", text)
                    continue
                if self.external_module_root(fn, recv):
                    # np.random.shuffle(x), sys.path.append(x), os.environ.update(...)
                    if f.attr in FUNC_MUTATORS and c.args:
                        emit(c, c.args[0], last_attr(c.args[0]), "MutCall", text)
                    if f.attr in GLOBAL_STATE_FUNCS or f.attr in MUTATING_METHODS or f.attr in SETATTR_METHODS:
                        emit(c, recv, recv.attr if isinstance(recv, ast.Attribute) else "", "MutCall", text)
                    continue
                inplace = any(k.arg == "inplace" and not (isinstance(k.value, ast.Constant) and k.value.value is False)
                              for k in c.keywords)
                if f.attr in SETATTR_METHODS:
                    self.check_dict_write(fn, recv, c)
                    a = c.args[0] if c.args else None
                    attr = a.value if isinstance(a, ast.Constant) and isinstance(a.value, str) else ""
                    emit(c, recv, attr, "SetAttr", text)
                elif f.attr in MUTATING_METHODS or inplace:
                    self.check_dict_write(fn, recv, c)
                    x = recv
                    while isinstance(x, ast.Subscript) or (isinstance(x, ast.Attribute) and x.attr in LOC_ATTRS):
                        x = x.value
                    emit(c, recv, x.attr if isinstance(x, ast.Attribute) else "", "MutCall", text)
                elif interproc and f.attr in self.methods:
                    # package method that writes through self
                    if any(m.pos_params and m.pos_params[0] in m.mut_params and not m.qual.endswith(".__init__")
                           for m in self.methods[f.attr]):
                        x = recv
                        emit(c, recv, x.attr if isinstance(x, ast.Attribute) else "", "MutCall", text)
            if interproc:
                r = self.callee(fn, c)
                if r[0] == "pkg":
                    _, cands, recv = r
                    for cal in cands:
                        am = self.arg_map(fn, c, cal, recv)
                        if am is None:
                            if cal.mut_params:
                                for a in list(c.args) + [k.value for k in c.keywords]:
                                    emit(c, a, "", "MutCall", text)
                            continue
                        for p in sorted(cal.mut_params):
                            if cal.is_method and cal.pos_params and p == cal.pos_params[0]:
                                continue   # receiver handled above
                            for a in am.get(p, []):
                                emit(c, a, "", "MutCall", text)
                elif r[0] == "ctor":
                    for cb in r[1]:
                        for ini in [x for x in cb.mod.fns if x.qual == cb.qual + ".__init__" and x.is_method]:
                            am = self.arg_map(fn, c, ini, None)
                            if am is None:
                                if ini.mut_params - {ini.pos_params[0]}:
                                    for a in list(c.args) + [k.value for k in c.keywords]:
                                        emit(c, a, "", "MutCall", text)
                                continue
                            for p in sorted(ini.mut_params):
                                if p == ini.pos_params[0]:
                                    continue
                                for a in am.get(p, []):
                                    emit(c, a, "", "MutCall", text)
                # a callable held in a variable: nothing is known about its effects (documented limitation)
        rows.sort(key=lambda r: (r[0], r[1], KIND_ORDER.index(r[4]), r[2], r[3], r[6]))
        seen, out = set(), []
        for (ln, col, root, attr, kind, text, prov) in rows:
            key = (ln, col, root, attr, kind, prov)
            if key in seen:
                continue
            seen.add(key)
            out.append((root, attr, kind, text, prov))
        return out


def last_attr(e):
    """attribute that names the object e (x.a, x.a[i], x.a.loc[..] -> "a"; x, x[i] -> "")"""
    while isinstance(e, ast.Subscript) or (isinstance(e, ast.Attribute) and e.attr in LOC_ATTRS):
        e = e.value
    return e.attr if isinstance(e, ast.Attribute) else ""


def is_mask_index(s):
    """x[<comparison>] / x[(a > b) & (c < d)] / x[~(a > b)]: boolean-mask (advanced) indexing yields a copy"""
    if isinstance(s, ast.Compare):
        return True
    if isinstance(s, ast.BoolOp):
        return all(is_mask_index(v) for v in s.values)
    if isinstance(s, ast.BinOp) and isinstance(s.op, (ast.BitAnd, ast.BitOr, ast.BitXor)):
        return is_mask_index(s.left) and is_mask_index(s.right)
    if isinstance(s, ast.UnaryOp) and isinstance(s.op, (ast.Invert, ast.Not)):
        return is_mask_index(s.operand)
    return False


def is_mutable_value(v):
    """list/dict/set display, comprehension or call - also below an arithmetic operator ([0.1] * 12)"""
    if isinstance(v, (ast.List, ast.Dict, ast.Set, ast.ListComp, ast.DictComp, ast.SetComp, ast.Call)):
        return True
    if isinstance(v, ast.BinOp):
        return is_mutable_value(v.left) or is_mutable_value(v.right)
    if isinstance(v, ast.IfExp):
        return is_mutable_value(v.body) or is_mutable_value(v.orelse)
    return False


def is_immutable_default(v):
    """provably immutable default value: constants, signed constants, arithmetic on them, tuples of them"""
    if isinstance(v, ast.Constant):
        return True
    if isinstance(v, ast.UnaryOp) and isinstance(v.op, (ast.USub, ast.UAdd, ast.Not)):
        return is_immutable_default(v.operand)
    if isinstance(v, ast.Tuple):
        return all(is_immutable_default(x) for x in v.elts)
    if isinstance(v, ast.BinOp):
        return is_immutable_default(v.left) and is_immutable_default(v.right)
    return False


_PKG_CACHE = {}


def package():
    if "p" not in _PKG_CACHE:
        p = Package()
        p.rounds = p.solve()
        _PKG_CACHE["p"] = p
    return _PKG_CACHE["p"]


def store_sites():
    p = package()
    rows = []
    for mname in sorted(p.mods):
        m = p.mods[mname]
        for fn in m.fns:
            for (root, attr, kind, text, prov) in p.sites_of(fn):
                rows.append((m.name, fn.qual, root, attr, kind, text, prov))
    mlm = []
    for mname in sorted(p.mods):
        m = p.mods[mname]
        seen = set()
        for (name, value, _ln) in m.assigned:
            if value is not None and is_mutable_value(value) and name not in seen:
                seen.add(name)
                mlm.append((m.name, name))
        # class-level attributes bound to displays / calls are process-global objects too
        for fn in m.fns:
            if fn.is_classbody:
                for st in fn.node.body:
                    if isinstance(st, (ast.Assign, ast.AnnAssign)) and st.value is not None and is_mutable_value(st.value):
                        for t in (st.targets if isinstance(st, ast.Assign) else [st.target]):
                            if isinstance(t, ast.Name):
                                mlm.append((m.name, fn.qual + "." + t.id))
    mdef = []
    esc = []
    for mname in sorted(p.mods):
        m = p.mods[mname]
        for fn in m.fns:
            if fn.is_module or fn.is_classbody:
                continue
            a = fn.node.args
            pos = a.posonlyargs + a.args
            mine = []
            for arg, d in zip(pos[len(pos) - len(a.defaults):], a.defaults):
                if not is_immutable_default(d):
                    mine.append(arg.arg)
            for arg, d in zip(a.kwonlyargs, a.kw_defaults):
                if d is not None and not is_immutable_default(d):
                    mine.append(arg.arg)
            for x in mine:
                mdef.append((m.name, fn.qual, x))
            # where does such a parameter's object escape to (x.attr = <param or part/alias of it>)
            for (t, _aug, value) in fn.stores:
                if value is None or not isinstance(t, ast.Attribute):
                    continue
                direct = {u[2:] for u in p.src_expr(fn, value) if u.startswith("P:")}
                for x in mine:
                    if x in direct:
                        esc.append((m.name, fn.qual, x, t.attr))
    # every module-level name of every scanned module (for no_store_on_module_globals)
    mnames = []
    for mname in sorted(p.mods):
        for n in sorted(p.mods[mname].names):
            mnames.append((mname, n))

    out = ["(* GENERATED by harness/gen_facts.py from the source text of aquacrop/core.py and",
           "   aquacrop/{entities,entities/crops,initialize,solution,timestep,utils}/*.py. DO NOT EDIT.",
           "   One row per syntactic store and per reported root: (module, function, root, attribute, kind).",
           "   The alias rules are documented in gen_facts.py (section `Store sites`). *)",
           "From Coq Require Import String List Bool.", "Import ListNotations.", "Local Open Scope string_scope.", "",
           "Inductive store_kind := Attr | Index | AttrIndex | AugAttr | AugIndex | LocIndex | SetAttr | MutCall.", "",
           "Definition store_sites : list (string * string * string * string * store_kind) := ["]
    body = []
    for i, (mn, fq, root, attr, kind, text, prov) in enumerate(rows):
        sep = ";" if i + 1 < len(rows) else ""
        body.append("  (%s, %s, %s, %s, %s)%s (* %s *)" % (coq_str(mn), coq_str(fq), coq_str(root), coq_str(attr), kind, sep,
                                                          comment_safe(text)))
    out += body
    out += ["].", "", "Definition store_site_count : nat := %d." % len(rows), ""]
    grows = [r for r in rows if r[6] == "G"]
    out.append("(* the rows of store_sites whose root is a MODULE-LEVEL name (not a parameter / alias of a parameter) *)")
    out.append("Definition global_store_sites : list (string * string * string * string * store_kind) := [")
    out.append(";\n".join("  (%s, %s, %s, %s, %s) (* %s *)" % (coq_str(mn), coq_str(fq), coq_str(root), coq_str(attr), kind,
                                                              comment_safe(text))
                          for (mn, fq, root, attr, kind, text, prov) in grows))
    out += ["].", ""]
    out.append("(* module-level names (and Class.attribute for class-level attributes) bound to list/dict/set displays,")
    out.append("   comprehensions or calls *)")
    out.append("Definition module_level_mutables : list (string * string) := [")
    out.append(";\n".join("  (%s, %s)" % (coq_str(a), coq_str(b)) for (a, b) in mlm))
    out += ["].", ""]
    out.append("(* (module, function, parameter) whose default value is not provably immutable (i.e. anything but constants,")
    out.append("   signed constants, arithmetic on constants and tuples of those): displays, [x] * n, calls, names, attributes *)")
    out.append("Definition mutable_defaults : list (string * string * string) := [")
    out.append(";\n".join("  (%s, %s, %s)" % (coq_str(a), coq_str(b), coq_str(c)) for (a, b, c) in mdef))
    out += ["].", ""]
    out.append("(* (module, function, parameter, attribute): `<obj>.attribute = <the parameter's object>` for a parameter of")
    out.append("   mutable_defaults, i.e. the attribute under which a default-argument object can be reached afterwards *)")
    out.append("Definition default_escapes : list (string * string * string * string) := [")
    out.append(";\n".join("  (%s, %s, %s, %s)" % (coq_str(a), coq_str(b), coq_str(c), coq_str(d)) for (a, b, c, d) in uniq(esc)))
    out += ["].", ""]
    out.append("(* every module-level name (imports, defs, classes, assigned names) of every scanned module *)")
    out.append("Definition module_level_names : list (string * string) := [")
    out.append(";\n".join("  (%s, %s)" % (coq_str(a), coq_str(b)) for (a, b) in mnames))
    out += ["].", ""]
    out.append("Definition scanned_modules : list string := [")
    out.append(";\n".join("  " + coq_str(mn) for mn in sorted(p.mods)))
    out += ["].", ""]
    return "\n".join(out), {"store_sites": len(rows), "module_level_mutables": len(mlm), "mutable_defaults": len(mdef), "default_escapes": len(uniq(esc)),
                            "module_level_names": len(mnames), "global_store_sites": len(grows), "modules": len(p.mods), "functions": len(p.fns),
                            "fixpoint_rounds": p.rounds}


# ---------------------------------------------------------------------------------------------------------------
# Sources of run-to-run variation (C10): constructs whose value or iteration order can depend on the hash seed, the
# process, the clock or the environment.  Purely syntactic, over every scanned module:
#   set displays / comprehensions, calls of set / frozenset (iteration order of str- and float-keyed sets follows the
#   hash seed), hash(), id(), anything reached through the modules random / secrets / uuid / time / glob, numpy.random,
#   datetime.now/today/utcnow, os.environ / os.getenv / os.getpid / os.listdir / os.scandir / os.walk / os.urandom.
# dicts keep insertion order (language guarantee since 3.7) and are not listed.
ORDER_MODULES = {"random", "secrets", "uuid", "time", "glob"}
OS_ATTRS = {"environ", "getenv", "getpid", "listdir", "scandir", "walk", "urandom", "getcwd"}
NOW_ATTRS = {"now", "today", "utcnow"}


def order_sources():
    p = package()
    rows = []
    for mname in sorted(p.mods):
        m = p.mods[mname]
        # names bound to the modules of interest in this module (import random as rnd; from time import time)
        alias = {}
        for name, imp in m.imports.items():
            if imp[0] == "mod":
                alias[name] = imp[1]
            elif imp[0] == "from":
                alias[name] = "%s.%s" % (imp[1], imp[2])

        def visit(node, qual):
            for ch in ast.iter_child_nodes(node):
                q = qual
                if isinstance(ch, (ast.FunctionDef, ast.AsyncFunctionDef, ast.ClassDef)):
                    q = ch.name if qual == "<module>" else qual + "." + ch.name
                if isinstance(ch, ast.Set):
                    rows.append((m.name, q, "set-display"))
                elif isinstance(ch, ast.SetComp):
                    rows.append((m.name, q, "set-comprehension"))
                elif isinstance(ch, ast.Call) and isinstance(ch.func, ast.Name) and ch.func.id in ("set", "frozenset", "hash", "id") \
                        and ch.func.id not in m.names - {"set", "frozenset", "hash", "id"}:
                    rows.append((m.name, q, ch.func.id + "()"))
                elif isinstance(ch, ast.Name) and isinstance(ch.ctx, ast.Load) and ch.id in alias:
                    full = alias[ch.id]; top = full.split(".")[0]
                    if top in ORDER_MODULES or full.startswith("numpy.random") or (top == "os" and full.split(".")[-1] in OS_ATTRS):
                        rows.append((m.name, q, full))
                elif isinstance(ch, ast.Attribute):
                    root = ch
                    chain = []
                    while isinstance(root, ast.Attribute):
                        chain.append(root.attr); root = root.value
                    if isinstance(root, ast.Name) and root.id in alias:
                        full = ".".join([alias[root.id]] + chain[::-1])
                        parts = full.split(".")
                        if (parts[0] == "os" and len(parts) > 1 and parts[1] in OS_ATTRS) or (parts[0] == "numpy" and len(parts) > 1 and parts[1] == "random") \
                                or (parts[0] == "datetime" and parts[-1] in NOW_ATTRS):
                            rows.append((m.name, q, full))
                visit(ch, q)
        visit(m.tree, "<module>")
    rows = uniq(rows)
    out = ["(* GENERATED by harness/gen_facts.py from the source text of every scanned module of /repo (see `order_sources`).",
           "   (module, function, construct): every syntactic occurrence of a construct whose value or iteration order can",
           "   depend on the hash seed, the process, the clock or the environment. *)",
           "From Coq Require Import String List.", "Import ListNotations.", "Local Open Scope string_scope.", "",
           "Definition order_sources : list (string * string * string) := ["]
    out.append(";\n".join("  (%s, %s, %s)" % (coq_str(a), coq_str(b), coq_str(c)) for (a, b, c) in rows))
    out += ["].", ""]
    return "\n".join(out), {"order_sources": len(rows)}


def kernels_src():
    """gen/KernelsSrc.v: the kernel FUNCTIONS themselves, translated from their Python source text into Gallina definitions by
    harness/gen_kernels.py (fail-closed); proofs/KernelsSrcOK.v proves each equal to the hand model for every number type"""
    import gen_kernels
    try:
        text, st = gen_kernels.generate(None)
    except (gen_kernels.TranslatorError, SyntaxError, RecursionError) as e:
        # fail closed, but only for what depends on this file (the properties whose pinned theorems import KernelsSrcOK): the generated
        # file is replaced by one that does not compile, so proofs/KernelsSrcOK.v and Properties/C17_src.v / C05_src.v stop checking
        msg = str(e).replace("*)", "* )")
        return ("(* TRANSLATOR-ERROR (harness/gen_kernels.py refused the current source): %s *)\n"
                "Definition kernels_src_translator_refused_the_source : False := I.\n" % msg), {"translator_error": msg[:300]}
    return text, {"functions": len(st) if isinstance(st, dict) else None}


def procs_src():
    """gen/ProcsSrc.v: the daily-process functions without a compartment loop (irrigation, growth_stage, biomass_accumulation,
    HIref_current_day, HIadj_*, the yield block of run_single_timestep), translated like the kernels; proofs/ProcsSrcOK.v"""
    import gen_kernels
    try:
        text, st = gen_kernels.generate_procs(None)
    except (gen_kernels.TranslatorError, SyntaxError, RecursionError) as e:
        msg = str(e).replace("*)", "* )")
        return ("(* TRANSLATOR-ERROR (harness/gen_kernels.py refused the current source): %s *)\n"
                "Definition procs_src_translator_refused_the_source : False := I.\n" % msg), {"translator_error": msg[:300]}
    return text, {"functions": len(st) if isinstance(st, dict) else None}


def crop_src():
    """gen/CropSrc.v: harvest_index and canopy_cover (long, loop-free crop processes) translated like the kernels; proofs/CropSrcOK.v"""
    import gen_kernels
    try:
        text, st = gen_kernels.generate_crop(None)
    except (gen_kernels.TranslatorError, SyntaxError, RecursionError) as e:
        msg = str(e).replace("*)", "* )")
        return ("(* TRANSLATOR-ERROR (harness/gen_kernels.py refused the current source): %s *)\n"
                "Definition crop_src_translator_refused_the_source : False := I.\n" % msg), {"translator_error": msg[:300]}
    return text, {"functions": len(st) if isinstance(st, dict) else None}


GENERATORS = {"CropCatalogue.v": crop_catalogue, "StateFields.v": state_fields, "StoreSites.v": store_sites, "OrderSources.v": order_sources,
              "KernelsSrc.v": kernels_src, "ProcsSrc.v": procs_src, "CropSrc.v": crop_src}


def main(argv=None):
    argv = list(sys.argv[1:] if argv is None else argv)
    out_dir = OUT
    only = None
    while argv:
        a = argv.pop(0)
        if a == "--out":
            if not argv:
                print("TRANSLATOR-ERROR: --out needs a directory")
                sys.exit(2)
            out_dir = argv.pop(0)
        elif a == "--only":
            only = argv.pop(0).split(",")
        else:
            print("TRANSLATOR-ERROR: unknown argument %s" % a)
            sys.exit(2)
    os.makedirs(out_dir, exist_ok=True)
    stats = {}
    try:
        texts = {}
        for fn, g in GENERATORS.items():
            if only is not None and fn not in only:
                continue
            text, st = g()
            stats[fn] = st
            texts[fn] = text
        # nothing is written unless every table translated
        for fn, text in texts.items():
            p = os.path.join(out_dir, fn)
            old = open(p).read() if os.path.exists(p) else None
            if old != text:
                with open(p, "w") as f:
                    f.write(text)
                stats[fn]["rewritten"] = True
    except (TranslatorError, SyntaxError, OSError, RecursionError) as e:
        print("TRANSLATOR-ERROR: %s" % e)
        sys.exit(2)
    print(json.dumps(stats))


if __name__ == "__main__":
    main()
