#!/venv/bin/python
r"""gen_kernels.py — fail-closed translator: regenerates, from /repo's *source text* (ast only, the package is
never imported), Gallina definitions `<name>_src` of the small pure "kernel" functions of aquacrop/solution/.
Output: coq/theories/gen/KernelsSrc.v (generated, never edited by hand).  theories/proofs/KernelsSrcOK.v proves
every `<name>_src` equal to the hand model of theories/Kernels.v for EVERY number type, so an edit of the Python
function that changes its meaning changes the generated text and breaks a proof.

A construct outside the supported subset is an error
    TRANSLATOR-ERROR: <file>:<line>: unsupported <construct>
with exit status 2 and nothing written (fail closed).  The file is rewritten only when its content changes.

Phase 2: the daily-process functions without a loop over soil compartments (irrigation, growth_stage,
biomass_accumulation, HIref_current_day, HIadj_*, the yield lines of run_single_timestep.py) go to a second file,
coq/theories/gen/ProcsSrc.v (proofs: theories/proofs/ProcsSrcOK.v); see the tables PROCS, EXTERNALS, DIV_RAISES,
ROUND_OPS below for what had to be decided by hand and is therefore written down explicitly.

Phase 3: harvest_index and canopy_cover go to a third file, coq/theories/gen/CropSrc.v (proofs:
theories/proofs/CropSrcOK.v); they call the definitions of the two other files (tables CROPS, OPTJOIN, RECORD_CLASSES).

usage: gen_kernels.py [--out DIR] [--only fn,fn]      env VERIF_REPO=<root of the source tree> (default /repo)
       writes KernelsSrc.v, ProcsSrc.v and CropSrc.v (nothing unless all translate); from Python: generate(only) /
       generate_procs(only) / generate_crop(only) -> (text, statistics), TranslatorError on a refusal
self-test: harness/tools/tests_gen_kernels.py

Supported subset (everything else is refused)
  def f(positional parameters only):  optional docstring;
  x = e | x op= e | a[i] = e (a: a local array of <= 4 elements, i a compile-time constant)
  if / elif / else;  for v in range(k) with compile-time k (unrolled);  return e | return e1, e2, ...
  e ::= numeric / boolean constant | name | P.attr (P a parameter: becomes the extra parameter P_attr)
      | e + e | e - e | e * e | e / e | e ** <numeric constant> | -e | a[i]
      | e < e | <= | > | >= | == | != (one comparison, no chains) | e and e | e or e | not e | b is True | b == True
      | min(e,e) max(e,e) abs(e) | np.exp np.log np.log10 np.power np.minimum np.maximum (np.sqrt: refused)
      | np.zeros(k) np.ones(k) [e, ...] len(a)   (arrays: element-wise + - * / and np.minimum/np.maximum, broadcasting scalars)
      | "text" only in (in)equality tests against a parameter of kind S
      | g(args) as the whole right-hand side of an assignment, g an earlier translated function imported by name
  Phase 2 additions
      integer-kind values as locals: + - * on them is Python int arithmetic (Z), `%` is Z.modulo behind a
        ZeroDivisionError guard, int(<integer>) is the identity, an int meeting a float is injected with nofZ (`#z`)
      L[i] on a list parameter with a run-time integer index: py_index_src (negative wrap-around, IndexError -> None)
      assert e (AssertionError -> None); float(e); np.isnan(e) (= negb (e =? e)); np.sin / np.pi (class TrigSrc);
        min([a, b, c]) / max([...]) (left fold of pmin / pmax); int(...) / round(...) only through ROUND_OPS
      a division listed in DIV_RAISES raises ZeroDivisionError (-> None) when its denominator =? 0
      `t1, ..., tn = g(args)` for g in EXTERNALS: the results read become parameters, the argument texts are recorded
      Obj.attr = e : the attribute becomes a slot (see PROCS); `return Obj` returns the slots; `X = Obj` is an alias
      an operation that can raise inside an operand that and/or may skip is refused
  Phase 3 additions
      `x = C()` for a class C of RECORD_CLASSES imported from aquacrop/entities: a local record; `x.a = e`, `x.a` (a read
        of an attribute this function has not assigned is refused); rebinding x drops the record
      `t1, ..., tn = (e1, ..., en)`; targets of a call / external call may be names, `_`, slots, record attributes
      a call `g(args)` of an earlier translated function may pass objects (parameter objects or local records): the
        callee's attribute reads are handed over one by one, and become attribute parameters of the caller; arrays
        (Crop.p_up: kind A4) are passed element-wise; callees may live in the other generated files
      OPTJOIN functions: an `if` whose branches can raise (None leaves, option-valued callees) is still joined:
        `match (if c then .. Some (x, y) .. else .. None ..) with None => None | Some (x, y) => .. end`
      round(<int>) is the identity; `**` on a base that may be the int 0 / 1 (exact either way) is accepted
  Blocks (see BLOCKS below): a run of consecutive top-level statements of a larger function, delimited by its first
  `if <test>:` and its only store to a given attribute, is translated like a function body whose parameters are the
  names it reads and the enclosing function binds earlier; assumptions a block needs are printed in its header.
Semantics
  * every Python float operation is one operation of theories/Num.v, same order and association; Python ints that
    take part in arithmetic are injected with `#k` (the translator tracks a bound of every possibly-int value and
    refuses when an int-int operation could leave the range where doubles are exact);
  * min/max = Python's builtin (pmin/pmax), np.minimum/np.maximum = npmin/npmax;
  * a name read before it is assigned on some path (Python: UnboundLocalError) makes the function return `option`,
    `None` on exactly those paths (per-path definite-assignment analysis).  A possibly-unbound name in an operand that
    and/or may skip: if the and/or is the test of an `if`, the `if` is first rewritten into nested ifs (Python's own
    evaluation order: `if a and b: X else: Y` = `if a: (if b: X else: Y) else: Y`); anywhere else it is refused;
  * SSA: a re-assigned name gets a fresh suffix; an `if` whose two branches leave the same live names bound is
    joined through a (tuple of) `let x := if c then .. else ..`; otherwise the continuation is duplicated.
"""
import ast, os, sys, json, hashlib, decimal, copy

VERIF = os.path.dirname(os.path.dirname(os.path.abspath(__file__)))
REPO = os.environ.get("VERIF_REPO", "/repo")
OUT = os.path.join(VERIF, "coq", "theories", "gen")
OUT_FILE = "KernelsSrc.v"

# ------------------------------------------------------------------------------------------------------------------
#  what is translated (priority order) and the kinds of the parameters.  Kinds: F number (default), Z integer that is
#  only compared with integer constants, B bool, S string mode, A<k> array of k numbers, O object (inferred from
#  attribute reads).  Keys: (function, parameter) or (function, "Param.attr").
# ------------------------------------------------------------------------------------------------------------------
FUNCTIONS = [
    ("aquacrop/solution/growing_degree_day.py", "growing_degree_day"),
    ("aquacrop/solution/cc_development.py", "cc_development"),
    ("aquacrop/solution/cc_required_time.py", "cc_required_time"),
    ("aquacrop/solution/temperature_stress.py", "temperature_stress"),
    ("aquacrop/solution/aeration_stress.py", "aeration_stress"),
    ("aquacrop/solution/water_stress.py", "water_stress"),
    ("aquacrop/solution/adjust_CCx.py", "adjust_CCx"),
    ("aquacrop/solution/update_CCx_CDC.py", "update_CCx_CDC"),
    ("aquacrop/initialize/compute_variables.py", "fco2_block"),
    ("aquacrop/timestep/reset_initial_conditions.py", "fco2_reset_block"),
]
# blocks: a run of consecutive top-level statements of a larger function, translated like a function body.  The block
# starts at the first top-level `if <first_if>:` and ends at the only top-level assignment to <last_store>, whose
# right-hand side is the block's result.  Its parameters are the names the block reads before writing them, in the order
# of their first occurrence.  Extra kinds for a block: C1 = an attribute ASSUMED to be the integer 1 (stated in the
# generated header), OL = an attribute holding a list of objects: `x = P.attr[i]` (allowed once, before every read of an
# attribute of x) makes x denote that element, and the parameters x_<attr> are the attributes of that element.
BLOCKS = {
    "fco2_block": dict(func="compute_variables", first_if="CO2conc <= CO2ref", last_store="crop.fCO2"),
    "fco2_reset_block": dict(func="reset_initial_conditions", first_if="CO2conc <= CO2ref", last_store="crop.fCO2"),
}
KINDS = {
    ("growing_degree_day", "GDDmethod"): "Z",
    ("cc_development", "Mode"): "S",
    ("cc_required_time", "Mode"): "S",
    ("temperature_stress", "Crop.PolHeatStress"): "Z",
    ("temperature_stress", "Crop.PolColdStress"): "Z",
    ("water_stress", "Crop_p_up"): "A4",
    ("water_stress", "Crop_p_lo"): "A4",
    ("water_stress", "Crop_fshape_w"): "A3",
    ("water_stress", "Crop_ETadj"): "Z",
    ("water_stress", "beta"): "B",
    ("fco2_block", "param_struct.NCrops"): "C1",
    ("fco2_block", "param_struct.CropList"): "OL",
}
# ------------------------------------------------------------------------------------------------------------------
#  phase 2: daily-process functions without a loop over soil compartments -> coq/theories/gen/ProcsSrc.v
#  Further kinds: L list of numbers indexed with a run-time integer (IndexError -> None), X opaque value that is only
#  passed on to an external call.  Z values may now be locals and take part in integer arithmetic (+ - * %).
#  An attribute that the function WRITES (`Obj.x = e`) is a slot: it starts as the parameter Obj_x (kept only if the
#  generated body uses it), later reads see the last value written, and `return Obj` returns the tuple of the slots in
#  the order of their first store in the source text.  `X = Obj` at the top of the body makes X another name of Obj.
# ------------------------------------------------------------------------------------------------------------------
PROCS_FILE = "ProcsSrc.v"
PROCS = [
    ("aquacrop/solution/irrigation.py", "irrigation"),
    ("aquacrop/solution/growth_stage.py", "growth_stage"),
    ("aquacrop/solution/biomass_accumulation.py", "biomass_accumulation"),
    ("aquacrop/solution/HIref_current_day.py", "HIref_current_day"),
    ("aquacrop/solution/HIadj_pre_anthesis.py", "HIadj_pre_anthesis"),
    ("aquacrop/solution/HIadj_pollination.py", "HIadj_pollination"),
    ("aquacrop/solution/HIadj_post_anthesis.py", "HIadj_post_anthesis"),
    ("aquacrop/timestep/run_single_timestep.py", "yield_block"),
]
BLOCKS["yield_block"] = dict(func="solution_single_time_step", first_store="NewCond.YieldPot", last_if="growing_season is True",
                             returns="NewCond")
KINDS.update({
    ("irrigation", "IrrMngt_IrrMethod"): "Z",
    ("irrigation", "IrrMngt_SMT"): "L",
    ("irrigation", "IrrMngt_IrrInterval"): "Z",
    ("irrigation", "IrrMngt_Schedule"): "L",
    ("irrigation", "NewCond_GrowthStage"): "Z",
    ("irrigation", "NewCond_DAP"): "Z",
    ("irrigation", "NewCond_TimeStepCounter"): "Z",
    ("irrigation", "NewCond_th"): "X",
    ("irrigation", "prof"): "X",
    ("irrigation", "growing_season"): "B",
    ("growth_stage", "Crop.CalendarType"): "Z",
    ("growth_stage", "InitCond.dap"): "Z",
    ("growth_stage", "InitCond.delayed_cds"): "Z",
    ("growth_stage", "InitCond.growth_stage"): "Z",
    ("growth_stage", "growing_season"): "B",
    ("biomass_accumulation", "Crop.CropType"): "Z",
    ("biomass_accumulation", "NewCond_DAP"): "Z",
    ("biomass_accumulation", "NewCond_DelayedCDs"): "Z",
    ("biomass_accumulation", "growing_season"): "B",
    ("HIref_current_day", "Crop.CropType"): "Z",
    ("HIref_current_day", "NewCond_DAP"): "Z",
    ("HIref_current_day", "NewCond_DelayedCDs"): "Z",
    ("HIref_current_day", "NewCond_YieldForm"): "B",
    ("HIref_current_day", "growing_season"): "B",
    ("HIadj_post_anthesis", "NewCond_DAP"): "Z",
    ("HIadj_post_anthesis", "NewCond_DelayedCDs"): "Z",
    ("yield_block", "growing_season"): "B",
    ("yield_block", "crop.CalendarType"): "Z",
    ("yield_block", "NewCond.dap"): "Z",
    ("yield_block", "NewCond.crop_mature"): "B",
})
# external calls: (function, callee) -> number of results.  The call must be `t1, ..., tn = callee(args)`; the results
# that the function reads become parameters named like the targets (appended to the signature in target order); the
# source text of the arguments is recorded in the generated `<function>_src_calls` so that the proofs can pin it.
EXTERNALS = {
    ("irrigation", "root_zone_water"): 11,
}
# divisions that raise ZeroDivisionError (both operands are Python numbers at run time; decided by the dynamic types
# observed in real runs, exactly as in the hand models): (function, source text of the division).  Every other
# division is a total IEEE division (numpy scalar involved).
DIV_RAISES = {
    ("biomass_accumulation", "HIt / (Crop.YldFormCD / 3)"),
    ("biomass_accumulation", "TrPot / et0"),
    ("biomass_accumulation", "Tr / et0"),
    ("HIadj_pollination", "t1 / Crop_FloweringCD"),
    ("HIadj_pollination", "t2 / Crop_FloweringCD"),
    ("HIadj_post_anthesis", "tmax1 / DayCor"),
    ("HIadj_post_anthesis", "tmax2 / DayCor"),
}
# int(...) / round(...) of a number: (function, source text of the call) -> Num.v operation.  int() of an integer-kind
# value is the identity and needs no entry; anything else that is not listed here is refused.
ROUND_OPS = {
}
# ------------------------------------------------------------------------------------------------------------------
#  phase 3: the two long loop-free crop processes -> coq/theories/gen/CropSrc.v.  They call definitions of the two
#  other generated files (`g(args)` / `t1, ..., tn = g(args)` with g translated earlier: objects are passed by handing
#  over the attributes the callee reads, arrays element-wise) and use small local record objects (`x = Ksw()`,
#  `x.a = e`, `x.a`).  In these functions an `if` whose branches can raise is still joined, through an option:
#  `match (if c then .. Some (x, y) .. None ..) with None => None | Some (x, y) => .. end` (OPTJOIN).
# ------------------------------------------------------------------------------------------------------------------
CROP_FILE = "CropSrc.v"
CROPS = [
    ("aquacrop/solution/harvest_index.py", "harvest_index"),
    ("aquacrop/solution/canopy_cover.py", "canopy_cover"),
]
OPTJOIN = {"harvest_index", "canopy_cover"}
RECORD_CLASSES = {"TAW", "Dr", "Ksw", "Kst"}      # classes of aquacrop/entities whose instances are used as plain records
for _f in ("harvest_index", "canopy_cover"):
    KINDS.update({
        (_f, "prof"): "X", (_f, "growing_season"): "B",
        (_f, "InitCond.th"): "X",
        (_f, "Crop.p_up"): "A4", (_f, "Crop.p_lo"): "A4", (_f, "Crop.fshape_w"): "A3", (_f, "Crop.ETadj"): "Z",
        (_f, "InitCond.dap"): "Z", (_f, "InitCond.delayed_cds"): "Z",
    })
KINDS.update({
    ("harvest_index", "Crop.CropType"): "Z",
    ("harvest_index", "Crop.PolHeatStress"): "Z", ("harvest_index", "Crop.PolColdStress"): "Z",
    ("harvest_index", "InitCond.pre_adj"): "B", ("harvest_index", "InitCond.yield_form"): "B",
    ("canopy_cover", "Crop.CalendarType"): "Z",
    ("canopy_cover", "InitCond.protected_seed"): "B", ("canopy_cover", "InitCond.crop_dead"): "B",
    ("canopy_cover", "InitCond.premat_senes"): "B",
})
EXTERNALS[("harvest_index", "root_zone_water")] = 11
EXTERNALS[("canopy_cover", "root_zone_water")] = 11
# round(tCCadj): tCCadj is the Python int dap - delayed_cds (calendar days: round is the identity, no entry needed) or
# the np.float64 gdd_cum - delayed_gdds (thermal time): Python round of a float -> int, half even = nrint, as
# Canopy.v models this very line (cc_outside)
ROUND_OPS[("canopy_cover", "round(tCCadj)")] = "nrint"
MAX_ARRAY = 4
EXACT = 2 ** 53          # Python ints below this bound are exact doubles
RESERVED = set("""F N Type Prop Set if then else let in fun match with end as return forall exists fix cofix struct where at
    Some None option true false bool negb andb orb Z nat list pair fst snd
    num_ops Num NumOps nopp nadd nsub nmul ndiv nleb nltb neqb nofZ nexp nln nlog10 npow nrint nround_np nround_py ntrunc nfloor
    pmin pmax npmin npmax nabs sum_seq pystr pystr_eqb py_index_src TrigSrc ssin spi""".split())


class TranslatorError(Exception):
    pass


class Ctx:
    """per-function translation context"""
    def __init__(self, rel, fname):
        self.rel, self.fname = rel, fname
        self.used = set()          # every Coq identifier taken
        self.counter = {}          # base name -> last suffix
        self.params = {}           # python parameter name -> kind
        self.attr_params = {}      # "P.attr" -> (coq name, kind), first-use order
        self.locals = set()
        self.strings = None        # shared list of string constants
        self.translated = {}       # earlier translated functions: name -> info
        self.imported = {}         # module-level `from .x import g` names -> g
        self.alias = {}            # local name -> object parameter it is another name of
        self.alias_stmts = set()
        self.slots = {}            # "Obj.attr" written by the function -> kind
        self.pre = []              # pending partial operations of the statement being translated
        self.ext_stmts = {}        # id(assign statement of an external call) -> {target: coq parameter}
        self.calls = []            # (callee, [argument source texts])
        self.uses_trig = False
        self.calls_opt = False
        self.optjoin = fname in OPTJOIN
        self.entities = set()      # names imported from aquacrop/entities


def bad(ctx, node, what):
    line = getattr(node, "lineno", 0) if not isinstance(node, int) else node
    raise TranslatorError("%s:%d: unsupported %s" % (ctx.rel, line, what))


class UnboundRead(Exception):
    def __init__(self, name, line):
        self.name, self.line = name, line


class NotJoinable(Exception):
    pass


class ShortCircuit(TranslatorError):
    """a possibly-unbound name in an operand Python may skip"""
    pass


# ------------------------------------------------------------------------------------------------------------------
#  values
# ------------------------------------------------------------------------------------------------------------------
class V:
    """scalar value: Coq text t with printing precedence prec; kind F/Z/B/S; ib = bound on |value| on the paths where
    the Python value is an int (None: always a float); const = the Python int when it is a compile-time constant"""
    __slots__ = ("t", "prec", "kind", "ib", "const")

    def __init__(self, t, prec=0, kind="F", ib=None, const=None):
        self.t, self.prec, self.kind, self.ib, self.const = t, prec, kind, ib, const


class A:
    """array value: list of scalar V of kind F"""
    __slots__ = ("elems",)

    def __init__(self, elems):
        self.elems = elems


def par(v, maxprec):
    return "(%s)" % v.t if v.prec > maxprec else v.t


def zable(v):
    """a Python int: integer-kind value or integer constant"""
    return not isinstance(v, A) and (v.kind == "Z" or (v.kind == "F" and v.const is not None))


def to_Z(v):
    """integer-kind view (text valid inside Z scope)"""
    if v.kind == "Z":
        return v
    return V(str(v.const) if v.const >= 0 else "(%d)" % v.const, 0, "Z", None, v.const)


def zwrap(v):
    """text of an integer-kind value for a position outside Z scope"""
    if v.prec == 0 and v.t.isidentifier():
        return v.t
    if v.prec == 0 and v.t.isdigit():
        return v.t + "%Z"
    return "(%s)%%Z" % v.t


def to_F(v):
    """a Python int used where a float operation takes place: injected with nofZ"""
    if v.kind != "Z":
        return v
    if v.const is not None and v.const >= 0:
        return V("#%d" % v.const, 0, "F", v.const, v.const)
    return V("#" + zwrap(v), 0, "F")


def vtext(v):
    return zwrap(v) if v.kind == "Z" else v.t


def float_literal(ctx, node, x):
    if x != x or x in (float("inf"), float("-inf")):
        bad(ctx, node, "non-finite float constant")
    d = decimal.Decimal(repr(x))
    sign, digits, exp = d.as_tuple()
    m = int("".join(map(str, digits)))
    if sign:
        bad(ctx, node, "negative float constant node")
    if exp >= 0:
        m *= 10 ** exp
        den = 1
    else:
        den = 10 ** (-exp)
    while den > 1 and m % 10 == 0:
        m //= 10
        den //= 10
    # m/den correctly rounded is the double nearest to the decimal only if m and den are exact doubles
    if m >= EXACT or den > 10 ** 22:
        bad(ctx, node, "float constant %r (numerator/denominator not exactly representable)" % x)
    if float(m) / float(den) != x:
        bad(ctx, node, "float constant %r (decimal form does not round back)" % x)
    if den == 1:
        return V("#%d" % m, 0, "F")
    return V("%d#/%d" % (m, den), 0, "F")


# ------------------------------------------------------------------------------------------------------------------
#  environment: key -> binding.  key = name (scalar) | (name, i) (array element); arrays also have name -> ("arr", n)
# ------------------------------------------------------------------------------------------------------------------
def fresh(ctx, base):
    if base in RESERVED:
        base = "py_" + base
    if base not in ctx.used:
        ctx.used.add(base)
        return base
    k = ctx.counter.get(base, 0)
    while True:
        k += 1
        cand = "%s_%d" % (base, k)
        if cand not in ctx.used:
            ctx.counter[base] = k
            ctx.used.add(cand)
            return cand


def snapshot(ctx):
    return (set(ctx.used), dict(ctx.counter))


def restore(ctx, snap):
    ctx.used, ctx.counter = set(snap[0]), dict(snap[1])


POISON = object()


def env_del(env, name):
    b = env.pop(name, None)
    if isinstance(b, tuple) and b and b[0] == "arr":
        for i in range(b[1]):
            env.pop((name, i), None)
    if isinstance(b, tuple) and b and b[0] == "obj":
        for key in [k for k in env if isinstance(k, str) and k.startswith(name + ".")]:
            env.pop(key)


def base_of(key):
    return key if isinstance(key, str) else key[0]


# ------------------------------------------------------------------------------------------------------------------
#  expressions
# ------------------------------------------------------------------------------------------------------------------
NP_UNARY = {"exp": "nexp num_ops", "log": "nln num_ops", "log10": "nlog10 num_ops"}
CMP = {ast.Lt: "<?", ast.LtE: "<=?", ast.Gt: ">?", ast.GtE: ">=?", ast.Eq: "=?"}


def need_F(ctx, node, v, what):
    if isinstance(v, A) or v.kind != "F":
        bad(ctx, node, "%s of a non-number" % what)
    return v


def arith(ctx, node, op, a, b):
    """one scalar arithmetic operation on F values (integer-kind operands: integer arithmetic, or injected)"""
    if not isinstance(a, A) and not isinstance(b, A) and (a.kind == "Z" or b.kind == "Z"):
        if zable(a) and zable(b) and not isinstance(op, ast.Div):
            return zarith(ctx, node, op, to_Z(a), to_Z(b))
        if a.kind in ("Z", "F") and b.kind in ("Z", "F"):
            a, b = to_F(a), to_F(b)
    need_F(ctx, node, a, "arithmetic")
    need_F(ctx, node, b, "arithmetic")
    both_int = a.ib is not None and b.ib is not None
    ib = None
    const = None
    if isinstance(op, (ast.Add, ast.Sub)):
        sym, lp, rp, prec = ("+" if isinstance(op, ast.Add) else "-"), 50, 49, 50
        if both_int:
            ib = a.ib + b.ib
    elif isinstance(op, ast.Mult):
        sym, lp, rp, prec = "*", 40, 39, 40
        if both_int:
            ib = a.ib * b.ib
    elif isinstance(op, ast.Div):
        sym, lp, rp, prec = "/", 40, 39, 40
        if both_int and (a.ib >= EXACT or b.ib >= EXACT):
            bad(ctx, node, "integer division beyond 2**53")
        if (ctx.fname, ast.unparse(node)) in DIV_RAISES:
            ctx.pre.append(("guard", "%s =? #0" % par(b, 50), "ZeroDivisionError", getattr(node, "lineno", 0)))
    else:
        bad(ctx, node, "operator %s" % type(op).__name__)
    if ib is not None and ib >= EXACT:
        bad(ctx, node, "integer arithmetic beyond 2**53")
    if a.const is not None and b.const is not None and not isinstance(op, ast.Div):
        const = {ast.Add: a.const + b.const, ast.Sub: a.const - b.const, ast.Mult: a.const * b.const}[type(op)]
    return V("%s %s %s" % (par(a, lp), sym, par(b, rp)), prec, "F", ib, const)


def zarith(ctx, node, op, a, b):
    """Python int arithmetic on integer-kind values (texts are in Z scope)"""
    const = None
    if isinstance(op, (ast.Add, ast.Sub)):
        sym, lp, rp, prec = ("+" if isinstance(op, ast.Add) else "-"), 50, 49, 50
        if a.const is not None and b.const is not None:
            const = a.const + b.const if isinstance(op, ast.Add) else a.const - b.const
    elif isinstance(op, ast.Mult):
        sym, lp, rp, prec = "*", 40, 39, 40
        if a.const is not None and b.const is not None:
            const = a.const * b.const
    elif isinstance(op, ast.Mod):
        sym, lp, rp, prec = "mod", 40, 39, 40
        if b.const is None or b.const == 0:
            ctx.pre.append(("guard", "(%s =? 0)%%Z" % par(b, 50), "ZeroDivisionError", getattr(node, "lineno", 0)))
        if a.const is not None and b.const:
            const = a.const % b.const
    else:
        bad(ctx, node, "integer operator %s" % type(op).__name__)
    return V("%s %s %s" % (par(a, lp), sym, par(b, rp)), prec, "Z", None, const)


def lift2(ctx, node, f, a, b):
    """apply the scalar operation f element-wise, broadcasting scalars"""
    if isinstance(a, A) or isinstance(b, A):
        n = len(a.elems) if isinstance(a, A) else len(b.elems)
        if isinstance(a, A) and isinstance(b, A) and len(a.elems) != len(b.elems):
            bad(ctx, node, "element-wise operation on arrays of different length")
        return A([f(a.elems[i] if isinstance(a, A) else a, b.elems[i] if isinstance(b, A) else b) for i in range(n)])
    return f(a, b)


def const_int(ctx, node, v, what):
    if isinstance(v, A) or v.kind != "F" or v.const is None:
        bad(ctx, node, "%s that is not a compile-time integer constant" % what)
    return v.const


def ex(ctx, node, env):
    """expression -> V | A.  Raises UnboundRead for a read of a local that is unbound on this path."""
    if isinstance(node, ast.Constant):
        v = node.value
        if isinstance(v, bool):
            return V("true" if v else "false", 0, "B")
        if isinstance(v, int):
            if v < 0 or v >= EXACT:
                bad(ctx, node, "integer constant out of range")
            return V("#%d" % v, 0, "F", ib=v, const=v)
        if isinstance(v, float):
            return float_literal(ctx, node, v)
        if isinstance(v, str):
            if not v.isidentifier():
                bad(ctx, node, "string constant %r" % v)
            if v not in ctx.strings:
                ctx.strings.append(v)
            return V("Str_" + v, 0, "S")
        bad(ctx, node, "constant %r" % (v,))
    if isinstance(node, ast.Name):
        if not isinstance(node.ctx, ast.Load):
            bad(ctx, node, "name in store position")
        n = node.id
        if ctx.params.get(n) == "X":
            bad(ctx, node, "use of the opaque parameter %s other than as an argument of an external call" % n)
        if n in env:
            b = env[n]
            if b is POISON:
                raise TranslatorError("%s:%d: internal error: read of %s after a join that dropped it" % (ctx.rel, node.lineno, n))
            if isinstance(b, tuple) and b[0] == "obj":
                bad(ctx, node, "use of the record object %s as a value" % n)
            if isinstance(b, tuple):      # ("arr", k)
                elems = []
                for i in range(b[1]):
                    e = env[(n, i)]
                    if e is POISON:
                        raise TranslatorError("%s:%d: internal error: read of %s[%d] after a join that dropped it" % (ctx.rel, node.lineno, n, i))
                    elems.append(e)
                return A(elems)
            return b
        if n in ctx.locals:
            raise UnboundRead(n, node.lineno)
        bad(ctx, node, "global name %s" % n)
    if isinstance(node, ast.Attribute):
        if isinstance(node.value, ast.Name) and node.value.id == "np" and node.attr == "pi" and isinstance(node.ctx, ast.Load):
            if "np" in ctx.locals or ctx.imported.get("np") != "numpy":
                bad(ctx, node, "np that is not `import numpy as np`")
            ctx.uses_trig = True
            return V("spi", 0, "F")
        root = ctx.alias.get(node.value.id, node.value.id) if isinstance(node.value, ast.Name) else None
        if root is not None and isinstance(env.get(root), tuple) and env[root][0] == "obj" and isinstance(node.ctx, ast.Load):
            b = env.get("%s.%s" % (root, node.attr))
            if b is None or b is POISON:
                bad(ctx, node, "read of the attribute %s.%s that this function has not assigned on this path" % (root, node.attr))
            return b
        if root is not None and root in ctx.locals and root not in ctx.params and root not in env and isinstance(node.ctx, ast.Load):
            raise UnboundRead(root, node.lineno)
        if root is not None and ctx.params.get(root) == "O" and isinstance(node.ctx, ast.Load):
            key = "%s.%s" % (root, node.attr)
            if key in ctx.slots:
                b = env.get(key)
                if b is None or b is POISON:
                    raise TranslatorError("%s:%d: internal error: slot %s lost" % (ctx.rel, node.lineno, key))
                return b
            cn, kind = ctx.attr_params[key]
            if kind == "C1":
                return V("#1", 0, "F", ib=1, const=1)
            if kind == "OL":
                bad(ctx, node, "use of the object list %s other than `x = %s[i]`" % (key, key))
            if kind.startswith("A"):
                return A([V("%s_%d" % (cn, i), 0, "F") for i in range(int(kind[1:]))])
            if kind == "X":
                bad(ctx, node, "use of the opaque attribute %s other than as an argument of an external call" % key)
            return V(cn, 0, kind)
        bad(ctx, node, "attribute access %s" % ast.unparse(node))
    if isinstance(node, ast.UnaryOp):
        if isinstance(node.op, ast.USub):
            a = ex(ctx, node.operand, env)
            if isinstance(a, A):
                return A([V("- " + par(need_F(ctx, node, e, "negation"), 0), 45, "F", e.ib, None) for e in a.elems])
            need_F(ctx, node, a, "negation")
            return V("- " + par(a, 0), 45, "F", a.ib, None if a.const is None else -a.const)
        if isinstance(node.op, ast.Not):
            a = ex(ctx, node.operand, env)
            if isinstance(a, A) or a.kind != "B":
                bad(ctx, node, "'not' of a non-boolean")
            return V("negb " + par(a, 0), 10, "B")
        bad(ctx, node, "unary operator %s" % type(node.op).__name__)
    if isinstance(node, ast.BinOp):
        if isinstance(node.op, ast.Pow):
            a = ex(ctx, node.left, env)
            e = node.right
            neg = False
            if isinstance(e, ast.UnaryOp) and isinstance(e.op, ast.USub):
                neg, e = True, e.operand
            if not (isinstance(e, ast.Constant) and isinstance(e.value, (int, float)) and not isinstance(e.value, bool)):
                bad(ctx, node, "** with a non-constant exponent")
            ev = ex(ctx, e, env)
            et = ("- " + ev.t) if neg else ev.t

            def pw(x, _):
                need_F(ctx, node, x, "**")
                if x.ib is not None and x.ib > 1:
                    bad(ctx, node, "** on a possibly-integer base")
                return V("npow num_ops %s %s" % (par(x, 0), "(%s)" % et if neg else et), 10, "F")
            return lift2(ctx, node, pw, a, a) if isinstance(a, A) else pw(a, None)
        a = ex(ctx, node.left, env)
        b = ex(ctx, node.right, env)
        return lift2(ctx, node, lambda x, y: arith(ctx, node, node.op, x, y), a, b)
    if isinstance(node, ast.Compare):
        if len(node.ops) != 1:
            bad(ctx, node, "chained comparison")
        op = node.ops[0]
        a = ex(ctx, node.left, env)
        b = ex(ctx, node.comparators[0], env)
        if isinstance(a, A) or isinstance(b, A):
            bad(ctx, node, "comparison of arrays")
        if isinstance(op, (ast.Is, ast.IsNot)):
            if not (a.kind == "B" and b.kind == "B" and b.t in ("true", "false")):
                bad(ctx, node, "'is' other than <bool> is True/False")
            t = "Bool.eqb %s %s" % (par(a, 0), b.t)
            return V(t, 10, "B") if isinstance(op, ast.Is) else V("negb (%s)" % t, 10, "B")
        neg = isinstance(op, ast.NotEq)
        if neg:
            op = ast.Eq()
        if type(op) not in CMP:
            bad(ctx, node, "comparison operator %s" % type(op).__name__)
        if "Z" in (a.kind, b.kind) and a.kind in ("Z", "F") and b.kind in ("Z", "F") and not (zable(a) and zable(b)):
            a, b = to_F(a), to_F(b)          # Python compares an int with a float by value
        kinds = (a.kind, b.kind)
        if kinds == ("Z", "Z"):
            t, p = "(%s %s %s)%%Z" % (par(a, 50), CMP[type(op)], par(b, 50)), 0
        elif kinds == ("F", "F"):
            t, p = "%s %s %s" % (par(a, 50), CMP[type(op)], par(b, 50)), 70
        elif kinds in (("Z", "F"), ("F", "Z")):
            z, c = (a, b) if a.kind == "Z" else (b, a)
            if c.const is None:
                bad(ctx, node, "comparison of an integer-kind parameter with a non-constant")
            ct = str(c.const) if c.const >= 0 else "(%d)" % c.const
            t = ("(%s %s %s)%%Z" % (z.t, CMP[type(op)], ct)) if a.kind == "Z" else ("(%s %s %s)%%Z" % (ct, CMP[type(op)], z.t))
            p = 0
        elif kinds == ("S", "S"):
            if not isinstance(op, ast.Eq):
                bad(ctx, node, "ordering of strings")
            t, p = "pystr_eqb %s %s" % (a.t, b.t), 10
        elif kinds == ("B", "B"):
            if not isinstance(op, ast.Eq):
                bad(ctx, node, "ordering of booleans")
            t, p = "Bool.eqb %s %s" % (par(a, 0), par(b, 0)), 10
        else:
            bad(ctx, node, "comparison between kinds %s and %s (see KINDS in gen_kernels.py)" % kinds)
        if neg:
            return V("negb (%s)" % t, 10, "B")
        return V(t, p, "B")
    if isinstance(node, ast.BoolOp):
        vals = []
        for i, e in enumerate(node.values):
            v = ex(ctx, e, env) if i == 0 else ex_guarded(ctx, e, env)
            if isinstance(v, A) or v.kind != "B":
                bad(ctx, e, "and/or on a non-boolean")
            vals.append(v)
        sym = " && " if isinstance(node.op, ast.And) else " || "
        return V(sym.join("(%s)" % v.t if v.prec > 10 else v.t for v in vals), 45, "B")
    if isinstance(node, ast.Subscript):
        if not isinstance(node.ctx, ast.Load):
            bad(ctx, node, "subscript in store position")
        a = ex(ctx, node.value, env)
        if not isinstance(a, A) and a.kind == "L":
            i = ex(ctx, node.slice, env)
            if not zable(i):
                bad(ctx, node, "list index that is not an integer")
            cn = fresh(ctx, a.t + "_at")
            ctx.pre.append(("bind", cn, "py_index_src %s %s" % (a.t, zwrap(to_Z(i))), "IndexError", node.lineno))
            return V(cn, 0, "F")
        if not isinstance(a, A):
            bad(ctx, node, "subscript of a non-array")
        i = const_int(ctx, node, ex(ctx, node.slice, env), "array index")
        if not 0 <= i < len(a.elems):
            bad(ctx, node, "array index %d out of range (IndexError / negative index)" % i)
        return a.elems[i]
    if isinstance(node, ast.List):
        if not 1 <= len(node.elts) <= MAX_ARRAY:
            bad(ctx, node, "list literal of %d elements" % len(node.elts))
        return A([need_F(ctx, e, ex(ctx, e, env), "list element") for e in node.elts])
    if isinstance(node, ast.Call):
        return call(ctx, node, env)
    bad(ctx, node, type(node).__name__)


def ex_guarded(ctx, node, env):
    """operand that Python may skip (short-circuit): an unbound read inside cannot be modelled by `None`"""
    n_pre = len(ctx.pre)
    try:
        v = ex(ctx, node, env)
        if len(ctx.pre) != n_pre:
            bad(ctx, node, "operation that can raise (%s) in a short-circuited operand" % ctx.pre[-1][-2])
        return v
    except UnboundRead as u:
        raise ShortCircuit("%s:%d: unsupported possibly-unbound name %s in a short-circuited operand" % (ctx.rel, u.line, u.name))


def call(ctx, node, env):
    if node.keywords:
        bad(ctx, node, "keyword arguments")
    f = node.func
    args = node.args
    if any(isinstance(a, ast.Starred) for a in args):
        bad(ctx, node, "starred argument")
    if isinstance(f, ast.Attribute) and isinstance(f.value, ast.Name) and f.value.id == "np":
        if "np" in ctx.locals or ctx.imported.get("np") != "numpy":
            bad(ctx, node, "np that is not `import numpy as np`")
        if f.attr in NP_UNARY and len(args) == 1:
            a = ex(ctx, args[0], env)
            g = lambda x, _=None: V("%s %s" % (NP_UNARY[f.attr], par(need_F(ctx, node, x, "np." + f.attr), 0)), 10, "F")
            return A([g(e) for e in a.elems]) if isinstance(a, A) else g(a)
        if f.attr in ("minimum", "maximum", "power") and len(args) == 2:
            fn = {"minimum": "npmin", "maximum": "npmax", "power": "npow num_ops"}[f.attr]
            a, b = ex(ctx, args[0], env), ex(ctx, args[1], env)

            def g(x, y):
                need_F(ctx, node, x, "np." + f.attr)
                need_F(ctx, node, y, "np." + f.attr)
                return V("%s %s %s" % (fn, par(x, 0), par(y, 0)), 10, "F")
            return lift2(ctx, node, g, a, b)
        if f.attr == "isnan" and len(args) == 1:
            a = need_F(ctx, node, ex(ctx, args[0], env), "np.isnan")
            return V("negb (%s =? %s)" % (par(a, 50), par(a, 50)), 10, "B")
        if f.attr == "sin" and len(args) == 1:
            a = need_F(ctx, node, ex(ctx, args[0], env), "np.sin")
            ctx.uses_trig = True
            return V("ssin %s" % par(a, 0), 10, "F")
        if f.attr in ("zeros", "ones") and len(args) == 1:
            k = const_int(ctx, node, ex(ctx, args[0], env), "array size")
            if not 1 <= k <= MAX_ARRAY:
                bad(ctx, node, "array of %d elements" % k)
            return A([V("#0" if f.attr == "zeros" else "#1", 0, "F") for _ in range(k)])
        bad(ctx, node, "call np.%s/%d" % (f.attr, len(args)))
    if isinstance(f, ast.Name):
        if f.id in ctx.locals:
            bad(ctx, node, "call of a local name %s" % f.id)
        if f.id in ("min", "max") and (len(args) == 2 or (len(args) == 1 and isinstance(args[0], ast.List)
                                                           and 2 <= len(args[0].elts) <= MAX_ARRAY)):
            # min(a, b); min([a, b, c]) keeps the first minimal element: pmin (pmin a b) c
            elts = args if len(args) == 2 else args[0].elts
            acc = to_F(ex(ctx, elts[0], env))
            need_F(ctx, node, acc, f.id)
            for e in elts[1:]:
                b = to_F(ex(ctx, e, env))
                need_F(ctx, node, b, f.id)
                ib = None if (acc.ib is None and b.ib is None) else max(acc.ib or 0, b.ib or 0)
                acc = V("%s %s %s" % ("p" + f.id, par(acc, 0), par(b, 0)), 10, "F", ib)
            return acc
        if f.id == "float" and len(args) == 1:
            a = ex(ctx, args[0], env)
            if isinstance(a, A) or a.kind not in ("F", "Z"):
                bad(ctx, node, "float of a non-number")
            a = to_F(a)
            return V(a.t, a.prec, "F")
        if f.id in ("int", "round") and 1 <= len(args) <= 2:
            a = ex(ctx, args[0], env)
            if len(args) == 1 and zable(a):
                return to_Z(a)
            opn = ROUND_OPS.get((ctx.fname, ast.unparse(node)))
            if opn is None or isinstance(a, A) or a.kind != "F":
                bad(ctx, node, "%s(...) that is not listed in ROUND_OPS" % f.id)
            if opn in ("ntrunc", "nrint"):
                return V("%s num_ops (%s)%%num" % (opn, a.t), 10, "Z")
            d = const_int(ctx, node, ex(ctx, args[1], env), "number of digits")
            if opn not in ("nround_np", "nround_py"):
                bad(ctx, node, "ROUND_OPS entry %s" % opn)
            return V("%s num_ops %d %s" % (opn, d, par(a, 0)), 10, "F")
        if f.id == "abs" and len(args) == 1:
            a = need_F(ctx, node, to_F(ex(ctx, args[0], env)), "abs")
            return V("nabs %s" % par(a, 0), 10, "F", a.ib)
        if f.id == "len" and len(args) == 1:
            a = ex(ctx, args[0], env)
            if not isinstance(a, A):
                bad(ctx, node, "len of a non-array")
            n = len(a.elems)
            return V("#%d" % n, 0, "F", ib=n, const=n)
        bad(ctx, node, "call %s/%d" % (f.id, len(args)))
    bad(ctx, node, "call of %s" % ast.unparse(f))


# ------------------------------------------------------------------------------------------------------------------
#  liveness (names that may be read before being written)
# ------------------------------------------------------------------------------------------------------------------
def loads(node):
    return {n.id for n in ast.walk(node) if isinstance(n, ast.Name) and isinstance(n.ctx, ast.Load)}


def live_in(stmts, live_out):
    live = set(live_out)
    for s in reversed(stmts):
        live = live_stmt(s, live)
    return live


def live_stmt(s, live):
    if isinstance(s, ast.Assign):
        t = s.targets[0]
        if isinstance(t, ast.Name):
            return (live - {t.id}) | loads(s.value)
        if isinstance(t, ast.Tuple):
            kill = {e.id for e in t.elts if isinstance(e, ast.Name)}
            keep = {n.id for e in t.elts if not isinstance(e, ast.Name) for n in ast.walk(e) if isinstance(n, ast.Name)}
            return (live - kill) | keep | loads(s.value)
        return live | loads(t) | loads(s.value) | {n.id for n in ast.walk(t) if isinstance(n, ast.Name)}
    if isinstance(s, ast.AugAssign):
        return live | loads(s.value) | {n.id for n in ast.walk(s.target) if isinstance(n, ast.Name)}
    if isinstance(s, ast.If):
        return loads(s.test) | live_in(s.body, live) | live_in(s.orelse, live)
    if isinstance(s, ast.For):
        cur = set(live)
        while True:
            new = live | (live_in(s.body, cur) - ({s.target.id} if isinstance(s.target, ast.Name) else set()))
            if new == cur:
                break
            cur = new
        return cur | loads(s.iter)
    if isinstance(s, ast.Return):
        return loads(s.value) if s.value is not None else set()
    return live | loads(s)


# ------------------------------------------------------------------------------------------------------------------
#  statement trees.  ("let", [names], rhs, body) rhs = text | tree with "val" leaves; ("if", c, a, b);
#  ("ret", text) ; ("unb", name, line) ; ("val", text) ; ("hole",) ; ("bind", [names], calltext, body)
# ------------------------------------------------------------------------------------------------------------------
def leaves(t, acc, deep=False):
    k = t[0]
    if deep and k == "bind" and isinstance(t[2][0], tuple):
        leaves(t[2][0], acc, True)
    if deep and k == "let" and isinstance(t[2], tuple):
        leaves(t[2], acc, True)
    if deep and k in ("let", "bind", "if"):
        for sub in (t[3:] if k != "if" else t[2:]):
            leaves(sub, acc, True)
        return acc
    if k in ("let", "bind"):
        leaves(t[3], acc)
    elif k == "if":
        leaves(t[2], acc)
        leaves(t[3], acc)
    else:
        acc.append(t)
    return acc


def subst_hole(t, new):
    k = t[0]
    if k in ("let", "bind"):
        return (k, t[1], t[2], subst_hole(t[3], new))
    if k == "if":
        return ("if", t[1], subst_hole(t[2], new), subst_hole(t[3], new))
    if k == "hole":
        return new
    return t


def has_opt_bind(t):
    """a call of an option-valued function: its None cannot live inside a joined value"""
    k = t[0]
    if k == "bind":
        return t[2][1] or has_opt_bind(t[3])
    if k == "let":
        return (isinstance(t[2], tuple) and has_opt_bind(t[2])) or has_opt_bind(t[3])
    if k == "if":
        return has_opt_bind(t[2]) or has_opt_bind(t[3])
    return False


def tuple_text(names):
    return names[0] if len(names) == 1 else "(" + ", ".join(names) + ")"


def simplify(t):
    k = t[0]
    if k == "let":
        rhs = simplify(t[2]) if isinstance(t[2], tuple) else t[2]
        body = simplify(t[3])
        if body[0] in ("unb", "exc"):
            return body
        if body[0] == "val" and body[1] == tuple_text(t[1]):
            return rhs if isinstance(rhs, tuple) else ("val", rhs)
        return ("let", t[1], rhs, body)
    if k == "bind":
        scrut = (simplify(t[2][0]), t[2][1]) if isinstance(t[2][0], tuple) else t[2]
        return ("bind", t[1], scrut, simplify(t[3]))
    if k == "if":
        a, b = simplify(t[2]), simplify(t[3])
        if a[0] in ("unb", "exc") and b[0] in ("unb", "exc"):
            return a
        return ("if", t[1], a, b)
    return t


def size(t):
    k = t[0]
    if k == "bind":
        return 1 + (size(t[2][0]) if isinstance(t[2][0], tuple) else 0) + size(t[3])
    if k == "let":
        return 1 + (size(t[2]) if isinstance(t[2], tuple) else 0) + size(t[3])
    if k == "if":
        return 1 + size(t[2]) + size(t[3])
    return 1


def render(t, opt, ind):
    """-> list of lines"""
    pad = " " * ind
    k = t[0]
    if k == "let":
        pat = t[1][0] if len(t[1]) == 1 else "'(" + ", ".join(t[1]) + ")"
        if isinstance(t[2], tuple):
            if t[2][0] == "val":
                lines = ["%slet %s := %s in" % (pad, pat, t[2][1])]
            else:
                sub = render(t[2], False, ind + 4)
                lines = ["%slet %s :=" % (pad, pat)] + sub
                lines[-1] += " in"
        else:
            lines = ["%slet %s := %s in" % (pad, pat, t[2])]
        return lines + render(t[3], opt, ind)
    if k == "bind" and isinstance(t[2][0], tuple):      # option-join: the scrutinee is a tree with Some/None leaves
        pat = "_" if not t[1] else (t[1][0] if len(t[1]) == 1 else "(" + ", ".join(t[1]) + ")")
        sub = render(t[2][0], True, ind + 4)
        sub[0] = " " * (ind + 3) + "(" + sub[0].lstrip()
        sub[-1] += ")"
        return (["%smatch" % pad] + sub + ["%swith" % pad, "%s| None => None" % pad,
                "%s| Some %s =>" % (pad, pat)] + render(t[3], opt, ind + 4) + ["%send" % pad])
    if k == "bind":
        pat = t[1][0] if len(t[1]) == 1 else "(" + ", ".join(t[1]) + ")"
        if t[2][1]:      # callee returns option
            return (["%smatch %s with" % (pad, t[2][0]), "%s| None => None" % pad, "%s| Some %s =>" % (pad, pat)]
                    + render(t[3], opt, ind + 4) + ["%send" % pad])
        return ["%slet %s := %s in" % (pad, ("'" + pat) if len(t[1]) > 1 else pat, t[2][0])] + render(t[3], opt, ind)
    if k == "if":
        a = render(t[2], opt, ind + 2)
        b = render(t[3], opt, ind + 2)
        head = "%sif %s then" % (pad, t[1])
        if len(a) == 1:
            out = [head + " " + a[0].strip()]
        else:
            out = [head] + a
        if t[3][0] == "if":          # else if chain
            b = render(t[3], opt, ind)
            out.append("%selse %s" % (pad, b[0].strip()))
            out += b[1:]
        elif len(b) == 1:
            out.append("%selse %s" % (pad, b[0].strip()))
        else:
            out.append("%selse" % pad)
            out += b
        return out
    if k == "ret":
        return ["%s%s" % (pad, ("Some %s" % t[1]) if opt else t[1])]
    if k in ("unb", "exc"):
        return ["%sNone" % pad]
    if k == "val":
        return ["%s%s" % (pad, t[1])]
    raise TranslatorError("internal error: render %s" % k)


# ------------------------------------------------------------------------------------------------------------------
#  statements
# ------------------------------------------------------------------------------------------------------------------
def bind_value(ctx, env, name, val):
    """bind python name to a value; -> list of (names, rhs-text) lets"""
    lets = []
    env_del(env, name)
    if isinstance(val, A):
        env[name] = ("arr", len(val.elems))
        for i, e in enumerate(val.elems):
            cn = fresh(ctx, "%s_%d" % (name, i))
            lets.append(([cn], e.t))
            env[(name, i)] = V(cn, 0, "F", e.ib, e.const)
    else:
        if val.kind not in ("F", "Z", "B"):
            return None
        cn = fresh(ctx, name)
        lets.append(([cn], vtext(val)))
        env[name] = V(cn, 0, val.kind, val.ib, val.const)
    return lets


def coerce(ctx, node, val, kind, what):
    """value stored into a parameter / slot of a declared kind"""
    if isinstance(val, A):
        bad(ctx, node, "array stored into %s" % what)
    if kind == "Z":
        if not zable(val):
            bad(ctx, node, "non-integer stored into the integer %s" % what)
        return to_Z(val)
    if kind == "F":
        if val.kind not in ("F", "Z"):
            bad(ctx, node, "non-number stored into %s" % what)
        return to_F(val)
    if kind == "B":
        if val.kind != "B":
            bad(ctx, node, "non-boolean stored into the boolean %s" % what)
        return val
    bad(ctx, node, "store into %s of kind %s" % (what, kind))


def wrap_pre(pre, t):
    """partial operations of a statement, first one outermost"""
    for act in reversed(pre):
        if act[0] == "guard":
            t = ("if", act[1], ("exc", act[2], act[3]), t)
        else:
            t = ("bind", [act[1]], (act[2], True), t)
    return t



def wrap_lets(lets, body):
    for item in reversed(lets):
        if len(item) == 3:       # option-join
            body = ("bind", item[0], (item[1], True), body)
        else:
            body = ("let", item[0], item[1], body)
    return body


def block(ctx, stmts, env, k, live_out):
    """translate the statement list in environment env (mutated copy is passed on), continuation k : env -> tree"""
    if not stmts:
        return k(env)
    s, rest = stmts[0], stmts[1:]
    try:
        return stmt(ctx, s, rest, env, k, live_out)
    except UnboundRead as u:
        return ("unb", u.name, u.line)


def stmt(ctx, s, rest, env, k, live_out):
    saved, mine = ctx.pre, []
    ctx.pre = mine
    try:
        t = stmt_inner(ctx, s, rest, env, k, live_out)
    finally:
        ctx.pre = saved
    if mine:
        ctx.calls_opt = True
    return wrap_pre(mine, t)


def stmt_inner(ctx, s, rest, env, k, live_out):
    if id(s) in ctx.alias_stmts:
        return block(ctx, rest, env, k, live_out)
    if isinstance(s, ast.Assert):
        if s.msg is not None and not isinstance(s.msg, ast.Constant):
            bad(ctx, s, "assert with a computed message")
        c = ex(ctx, s.test, env)
        if isinstance(c, A) or c.kind != "B":
            bad(ctx, s, "assert of a non-boolean")
        return ("if", c.t, block(ctx, rest, env, k, live_out), ("exc", "AssertionError", s.lineno))
    if isinstance(s, ast.Expr) and isinstance(s.value, ast.Constant) and isinstance(s.value.value, str):
        return block(ctx, rest, env, k, live_out)        # docstring / string statement
    if isinstance(s, ast.Pass):
        return block(ctx, rest, env, k, live_out)
    if isinstance(s, ast.Return):
        if rest:
            bad(ctx, rest[0], "statement after return")
        if s.value is None:
            bad(ctx, s, "return without a value")
        elts = s.value.elts if isinstance(s.value, ast.Tuple) else [s.value]
        vals = []
        if (len(elts) == 1 and isinstance(elts[0], ast.Name) and ctx.params.get(ctx.alias.get(elts[0].id, elts[0].id)) == "O"
                and ctx.slots):
            root = ctx.alias.get(elts[0].id, elts[0].id)
            for key in ctx.slots:            # first-store order
                if not key.startswith(root + "."):
                    bad(ctx, s, "return of %s while a slot of another object is written" % root)
                vals.append(env[key])
        else:
            for e in elts:
                v = ex(ctx, e, env)
                if isinstance(v, A) or v.kind not in ("F", "Z", "B"):
                    bad(ctx, e, "return of a non-number")
                vals.append(v)
        ctx.arity.add(tuple(v.kind for v in vals))
        if len(vals) == 1:
            return ("ret", par(vals[0], 0) if vals[0].kind != "Z" else zwrap(vals[0]))
        return ("ret", "(" + ", ".join(vtext(v) for v in vals) + ")")
    if isinstance(s, (ast.Assign, ast.AugAssign)):
        if isinstance(s, ast.Assign):
            if len(s.targets) != 1:
                bad(ctx, s, "multiple assignment targets")
            tgt, value = s.targets[0], s.value
        else:
            tgt = s.target
            load = copy.deepcopy(tgt)
            for n in ast.walk(load):
                if hasattr(n, "ctx"):
                    n.ctx = ast.Load()
            value = ast.copy_location(ast.BinOp(left=load, op=s.op, right=s.value), s)
            ast.fix_missing_locations(value)
        env = dict(env)
        if id(s) in ctx.ext_stmts:
            for a in value.args:
                opaque = (isinstance(a, ast.Name) and ctx.params.get(a.id) == "X") or (
                    isinstance(a, ast.Attribute) and isinstance(a.value, ast.Name)
                    and ctx.attr_params.get("%s.%s" % (ctx.alias.get(a.value.id, a.value.id), a.attr), (0, 0))[1] == "X")
                if not opaque:
                    v = ex(ctx, a, env)          # definedness of the argument on this path
                    if isinstance(v, A) or v.kind not in ("F", "Z"):
                        bad(ctx, a, "argument of an external call")
            for t in tgt.elts:
                if isinstance(t, ast.Name):
                    if t.id == "_":
                        continue
                    env_del(env, t.id)
                    cn = ctx.ext_stmts[id(s)].get(t.id)
                    if cn is not None:
                        env[t.id] = V(cn, 0, "F")
                else:
                    root = t.value.id
                    if root not in env and root in ctx.locals:
                        raise UnboundRead(root, s.lineno)
                    if not (isinstance(env.get(root), tuple) and env[root][0] == "obj"):
                        bad(ctx, s, "result of an external call stored into %s" % ast.unparse(t))
                    env["%s.%s" % (root, t.attr)] = V(ctx.ext_stmts[id(s)]["%s.%s" % (root, t.attr)], 0, "F")
            return block(ctx, rest, env, k, live_out)
        if id(s) in ctx.rebinds:
            i = const_int(ctx, s, ex(ctx, value.slice, env), "list index")
            if i < 0:
                bad(ctx, s, "negative list index")
            key = "#rebound:" + tgt.id
            if key in env:
                bad(ctx, s, "second execution of `%s = ...` on one path" % tgt.id)
            env[key] = POISON
            return block(ctx, rest, env, k, live_out)
        # call of an earlier translated function as the whole right-hand side
        if isinstance(value, ast.Call) and isinstance(value.func, ast.Name) and value.func.id in ctx.translated \
                and value.func.id not in ctx.locals:
            return call_stmt(ctx, s, tgt, value, rest, env, k, live_out)
        # x = C(): a fresh record object of one of the entity classes
        if (isinstance(value, ast.Call) and isinstance(value.func, ast.Name) and value.func.id in RECORD_CLASSES
                and value.func.id in ctx.entities and value.func.id not in ctx.locals and not value.args and not value.keywords
                and isinstance(tgt, ast.Name) and tgt.id not in ctx.params):
            env_del(env, tgt.id)
            env[tgt.id] = ("obj", value.func.id)
            return block(ctx, rest, env, k, live_out)
        # t1, ..., tn = (e1, ..., en): all right-hand sides first
        if isinstance(tgt, ast.Tuple) and isinstance(value, ast.Tuple):
            if len(tgt.elts) != len(value.elts) or any(isinstance(e, ast.Starred) for e in tgt.elts + value.elts):
                bad(ctx, s, "tuple assignment of different lengths")
            vals = [ex(ctx, e, env) for e in value.elts]
            lets = []
            for t, v in zip(tgt.elts, vals):
                lets += assign_value(ctx, s, env, t, v)
            return wrap_lets(lets, block(ctx, rest, env, k, live_out))
        val = ex(ctx, value, env)
        lets = assign_value(ctx, s, env, tgt, val)
        return wrap_lets(lets, block(ctx, rest, env, k, live_out))
    if isinstance(s, ast.For):
        if s.orelse:
            bad(ctx, s, "for-else")
        it = s.iter
        if not (isinstance(it, ast.Call) and isinstance(it.func, ast.Name) and it.func.id == "range" and "range" not in ctx.locals
                and len(it.args) == 1 and not it.keywords and isinstance(s.target, ast.Name)):
            bad(ctx, s, "for loop other than `for v in range(k)`")
        n = const_int(ctx, s, ex(ctx, it.args[0], env), "range bound")
        if not 0 <= n <= 8:
            bad(ctx, s, "range(%d)" % n)
        if any(isinstance(x, (ast.Break, ast.Continue, ast.Return)) for b in s.body for x in ast.walk(b)):
            bad(ctx, s, "break/continue/return inside for")
        if any(isinstance(x, ast.Name) and isinstance(x.ctx, ast.Store) and x.id == s.target.id for b in s.body for x in ast.walk(b)):
            bad(ctx, s, "assignment to the loop variable")
        live_after = live_in(rest, live_out)
        live_head = live_stmt(s, live_after)

        def iteration(i, env):
            if i == n:
                return block(ctx, rest, env, k, live_out)
            env = dict(env)
            env_del(env, s.target.id)
            env[s.target.id] = V("#%d" % i, 0, "F", ib=i, const=i)
            later = live_head if i + 1 < n else live_after
            return block(ctx, s.body, env, lambda e: iteration(i + 1, e), later)
        return iteration(0, env)
    if isinstance(s, ast.If):
        try:
            c = ex(ctx, s.test, env)
        except ShortCircuit:
            t = s.test
            if not isinstance(t, ast.BoolOp):
                raise
            first = t.values[0]
            others = t.values[1] if len(t.values) == 2 else ast.copy_location(ast.BoolOp(op=t.op, values=t.values[1:]), t)
            inner = ast.copy_location(ast.If(test=others, body=s.body, orelse=s.orelse), s)
            if isinstance(t.op, ast.And):      # if a and b: X else: Y  ==  if a: (if b: X else: Y) else: Y
                outer = ast.If(test=first, body=[inner], orelse=s.orelse)
            else:                              # if a or b: X else: Y   ==  if a: X else: (if b: X else: Y)
                outer = ast.If(test=first, body=s.body, orelse=[inner])
            return stmt(ctx, ast.copy_location(outer, s), rest, env, k, live_out)
        if isinstance(c, A) or c.kind != "B":
            bad(ctx, s, "truth value of a non-boolean expression")
        live_after = live_in(rest, live_out)
        snap = snapshot(ctx)
        arity = set(ctx.arity)
        try:
            lets, env2 = join(ctx, c, s, env, live_after)
            return wrap_lets(lets, block(ctx, rest, env2, k, live_out))
        except NotJoinable:
            restore(ctx, snap)
            ctx.arity = arity
        kk = lambda e: block(ctx, rest, e, k, live_out)
        a = block(ctx, s.body, dict(env), kk, live_after)
        b = block(ctx, s.orelse, dict(env), kk, live_after)
        return ("if", c.t, a, b)
    bad(ctx, s, type(s).__name__)


def straight(ctx, stmts, env, live_out):
    """translate a branch that must end in exactly one environment; -> (tree with one hole, env)"""
    got = []

    def capture(e):
        got.append(e)
        return ("hole",)
    t = block(ctx, stmts, dict(env), capture, live_out)
    lv = leaves(t, [])
    if ctx.optjoin:
        # branches that can raise are joined through an option: exactly one ordinary end, any number of None leaves
        if len(got) != 1 or sum(1 for l in lv if l[0] == "hole") != 1 or any(l[0] not in ("hole", "exc", "unb") for l in lv):
            raise NotJoinable()
        return t, got[0], (len(lv) != 1 or has_opt_bind(t))
    if len(got) != 1 or len(lv) != 1 or lv[0][0] != "hole" or has_opt_bind(t):
        raise NotJoinable()
    return t, got[0], False


def join(ctx, c, s, env, live_after):
    t1, e1, p1 = straight(ctx, s.body, env, live_after)
    t2, e2, p2 = straight(ctx, s.orelse, env, live_after)
    env2 = {}
    changed = []
    for key in list(e1.keys()) + [k for k in e2.keys() if k not in e1]:
        b1, b2 = e1.get(key), e2.get(key)
        is_live = base_of(key) in live_after or (isinstance(key, str) and "." in key and (
            ctx.params.get(key.split(".")[0]) == "O" or key.split(".")[0] in live_after))
        if b1 is None or b2 is None or b1 is POISON or b2 is POISON:
            if is_live:
                raise NotJoinable()
            env2[key] = POISON
            continue
        if isinstance(b1, tuple) or isinstance(b2, tuple):
            if b1 != b2:
                if is_live:
                    raise NotJoinable()
                env2[key] = POISON
            else:
                env2[key] = b1
            continue
        if b1.t == b2.t and b1.kind == b2.kind:
            env2[key] = b1
        elif is_live:
            if b1.kind != b2.kind:
                raise NotJoinable()
            changed.append(key)
        else:
            env2[key] = POISON
    # an element of a poisoned/retyped array must not survive
    for key in list(env2.keys()):
        if not isinstance(key, str) and not (isinstance(env2.get(key[0]), tuple)):
            env2[key] = POISON
    if not changed and not (p1 or p2):
        return [], env2
    names = []
    for key in changed:
        b1, b2 = e1[key], e2[key]
        cn = fresh(ctx, key.replace(".", "_") if isinstance(key, str) else "%s_%d" % key)
        names.append(cn)
        ib = None if (b1.ib is None and b2.ib is None) else max(b1.ib or 0, b2.ib or 0)
        env2[key] = V(cn, 0, b1.kind, ib, b1.const if (b1.const is not None and b1.const == b2.const and isinstance(key, str)) else None)
    if p1 or p2:
        ctx.calls_opt = True
        v1 = ("ret", tuple_text([e1[k].t for k in changed]) if changed else "tt")
        v2 = ("ret", tuple_text([e2[k].t for k in changed]) if changed else "tt")
        return [(names, ("if", c.t, subst_hole(t1, v1), subst_hole(t2, v2)), "opt")], env2
    v1 = ("val", tuple_text([e1[k].t for k in changed]))
    v2 = ("val", tuple_text([e2[k].t for k in changed]))
    rhs = ("if", c.t, subst_hole(t1, v1), subst_hole(t2, v2))
    return [(names, rhs)], env2


def assign_value(ctx, s, env, tgt, val):
    """store an evaluated value into a name / slot / record attribute / array element; -> lets"""
    if isinstance(tgt, ast.Attribute) and isinstance(tgt.value, ast.Name) \
            and "%s.%s" % (ctx.alias.get(tgt.value.id, tgt.value.id), tgt.attr) in ctx.slots:
        key = "%s.%s" % (ctx.alias.get(tgt.value.id, tgt.value.id), tgt.attr)
        val = coerce(ctx, s, val, ctx.slots[key], "attribute " + key)
        cn = fresh(ctx, key.replace(".", "_"))
        lets = [([cn], vtext(val))]
        env[key] = V(cn, 0, val.kind, val.ib, val.const)
    elif isinstance(tgt, ast.Attribute) and isinstance(tgt.value, ast.Name) and tgt.value.id in ctx.locals \
            and tgt.value.id not in ctx.params and tgt.value.id not in ctx.alias:
        root = tgt.value.id
        if root not in env:
            raise UnboundRead(root, s.lineno)
        if not (isinstance(env[root], tuple) and env[root][0] == "obj"):
            bad(ctx, s, "attribute store into %s, which is not a record object" % root)
        if isinstance(val, A) or val.kind not in ("F", "Z", "B"):
            bad(ctx, s, "store of a non-number into %s.%s" % (root, tgt.attr))
        cn = fresh(ctx, "%s_%s" % (root, tgt.attr))
        lets = [([cn], vtext(val))]
        env["%s.%s" % (root, tgt.attr)] = V(cn, 0, val.kind, val.ib, val.const)
    elif isinstance(tgt, ast.Name):
        if tgt.id in ctx.params and ctx.params[tgt.id] not in ("F", "Z", "B"):
            bad(ctx, s, "assignment to the non-number parameter %s" % tgt.id)
        if tgt.id in ctx.params and ctx.params[tgt.id] != "F":
            val = coerce(ctx, s, val, ctx.params[tgt.id], "parameter " + tgt.id)
        lets = bind_value(ctx, env, tgt.id, val)
        if lets is None:
            bad(ctx, s, "assignment of a non-number to %s" % tgt.id)
    elif isinstance(tgt, ast.Subscript) and isinstance(tgt.value, ast.Name):
        a = env.get(tgt.value.id)
        if a is None and tgt.value.id in ctx.locals:
            raise UnboundRead(tgt.value.id, s.lineno)
        if not (isinstance(a, tuple) and a[0] == "arr"):
            bad(ctx, s, "subscript store into a non-array")
        i = const_int(ctx, s, ex(ctx, tgt.slice, env), "array index")
        if not 0 <= i < a[1]:
            bad(ctx, s, "array index %d out of range" % i)
        need_F(ctx, s, val, "array element store")
        cn = fresh(ctx, "%s_%d" % (tgt.value.id, i))
        lets = [([cn], val.t)]
        env[(tgt.value.id, i)] = V(cn, 0, "F", val.ib, None)
    else:
        bad(ctx, s, "assignment target %s" % type(tgt).__name__)
    return lets


def call_stmt(ctx, s, tgt, value, rest, env, k, live_out):
    info = ctx.translated[value.func.id]
    if ctx.imported.get(value.func.id) != value.func.id:
        bad(ctx, s, "call of %s that is not imported by `from .%s import %s`" % ((value.func.id,) * 3))
    if value.keywords or len(value.args) != len(info["pyparams"]):
        bad(ctx, s, "call of %s with other than its positional parameters" % value.func.id)
    if not info.get("callable", True):
        bad(ctx, s, "call of %s, which has external calls / written attributes / is a block" % value.func.id)
    args = []

    def arg_text(v, kind, what):
        if isinstance(v, A) or kind.startswith("A"):
            if not isinstance(v, A) or not kind.startswith("A") or len(v.elems) != int(kind[1:]):
                bad(ctx, s, "array argument of the wrong shape (%s)" % what)
            return [par(e, 0) for e in v.elems]
        if kind == "F" and v.kind == "Z":
            v = to_F(v)
        if kind == "Z" and zable(v):
            return [zwrap(to_Z(v))]
        if v.kind != kind:
            bad(ctx, s, "argument of kind %s where %s is expected (%s)" % (v.kind, kind, what))
        return [par(v, 0)]
    for (pn, kind), a in zip(info["pyparams"], value.args):
        if kind == "O":
            # an object is handed over as the attributes the callee reads
            if not isinstance(a, ast.Name):
                bad(ctx, s, "object argument that is not a name")
            root = ctx.alias.get(a.id, a.id)
            local = isinstance(env.get(root), tuple) and env[root][0] == "obj"
            if not local and ctx.params.get(root) != "O":
                if root in ctx.locals and root not in ctx.params and root not in env:
                    raise UnboundRead(root, a.lineno)
                bad(ctx, s, "object argument %s that is neither an object parameter nor a record object" % a.id)
            for attr, k2 in info["objattrs"][pn]:
                node = ast.copy_location(ast.Attribute(value=ast.copy_location(ast.Name(id=root, ctx=ast.Load()), a),
                                                       attr=attr, ctx=ast.Load()), a)
                args += arg_text(ex(ctx, node, env), k2, "%s.%s" % (a.id, attr))
            continue
        args += arg_text(ex(ctx, a, env), kind, pn)
    text = "%s_src %s" % (value.func.id, " ".join(args))
    if info["arity"] == 1:
        targets = [tgt]
    else:
        if not (isinstance(tgt, ast.Tuple) and len(tgt.elts) == info["arity"]):
            bad(ctx, s, "call result not unpacked into %d targets" % info["arity"])
        targets = tgt.elts
    kinds = info.get("ret_kinds", ("F",) * info["arity"])
    names = []
    for t, rk in zip(targets, kinds):
        if isinstance(t, ast.Name):
            if t.id == "_":
                names.append("_")
                continue
            if t.id in ctx.params and ctx.params[t.id] != rk:
                bad(ctx, s, "assignment to the parameter %s of another kind" % t.id)
            env_del(env, t.id)
            cn = fresh(ctx, t.id)
            names.append(cn)
            env[t.id] = V(cn, 0, rk, None, None)
        elif isinstance(t, ast.Attribute) and isinstance(t.value, ast.Name):
            root = ctx.alias.get(t.value.id, t.value.id)
            key = "%s.%s" % (root, t.attr)
            if key in ctx.slots:
                if ctx.slots[key] != rk:
                    bad(ctx, s, "call result of kind %s stored into the slot %s of kind %s" % (rk, key, ctx.slots[key]))
            elif isinstance(env.get(root), tuple) and env[root][0] == "obj":
                pass
            elif root in ctx.locals and root not in ctx.params and root not in env:
                raise UnboundRead(root, s.lineno)
            else:
                bad(ctx, s, "call result stored into %s" % ast.unparse(t))
            cn = fresh(ctx, key.replace(".", "_"))
            names.append(cn)
            env[key] = V(cn, 0, rk, None, None)
        else:
            bad(ctx, s, "call result stored into %s" % type(t).__name__)
    if info["opt"]:
        ctx.calls_opt = True
    return ("bind", names, (text, info["opt"]), block(ctx, rest, env, k, live_out))


# ------------------------------------------------------------------------------------------------------------------
#  functions
# ------------------------------------------------------------------------------------------------------------------
def translate_function(rel, fname, text, strings, translated):
    ctx = Ctx(rel, fname)
    ctx.strings = strings
    ctx.translated = translated
    try:
        mod = ast.parse(text, filename=rel)
    except SyntaxError as e:
        raise TranslatorError("%s:%d: unsupported syntax (%s)" % (rel, e.lineno or 0, e.msg))
    blk = BLOCKS.get(fname)
    defname = blk["func"] if blk else fname
    defs = [n for n in mod.body if isinstance(n, ast.FunctionDef) and n.name == defname]
    if len(defs) != 1:
        raise TranslatorError("%s:0: unsupported module: %d top-level definitions of %s" % (rel, len(defs), defname))
    fn = defs[0]
    for n in mod.body:
        if isinstance(n, ast.Import):
            for a in n.names:
                ctx.imported[a.asname or a.name] = a.name
        elif isinstance(n, ast.ImportFrom):
            for a in n.names:
                ctx.imported[a.asname or a.name] = a.name if (n.module or "").split(".")[-1] == a.name else "?"
                if "entities" in (n.module or "").split(".") and a.asname is None:
                    ctx.entities.add(a.name)
        elif isinstance(n, (ast.Assign, ast.AugAssign, ast.AnnAssign)):
            for x in ast.walk(n):
                if isinstance(x, ast.Name) and isinstance(x.ctx, ast.Store):
                    ctx.imported[x.id] = "?"
        elif isinstance(n, (ast.FunctionDef, ast.ClassDef)) and n is not fn:
            ctx.imported[n.name] = "?"
    for b in ("min", "max", "abs", "len", "range"):
        if b in ctx.imported:
            bad(ctx, fn, "module that rebinds the builtin %s" % b)
    if blk:
        def is_store(st, target):
            return isinstance(st, ast.Assign) and len(st.targets) == 1 and ast.unparse(st.targets[0]) == target

        def is_if(st, test):
            return isinstance(st, ast.If) and ast.unparse(st.test) == test
        if "first_if" in blk:
            starts = [i for i, st in enumerate(fn.body) if is_if(st, blk["first_if"])]
            first_txt = "if %s:" % blk["first_if"]
        else:
            starts = [i for i, st in enumerate(fn.body) if is_store(st, blk["first_store"])]
            first_txt = "%s = ..." % blk["first_store"]
        if "last_store" in blk:
            ends = [i for i, st in enumerate(fn.body) if is_store(st, blk["last_store"])]
            last_txt = "%s = ..." % blk["last_store"]
        else:
            ends = [i for i, st in enumerate(fn.body) if is_if(st, blk["last_if"]) and (not starts or i > starts[0])][:1]
            last_txt = "if %s:" % blk["last_if"]
        if not starts or len(ends) != 1 or ends[0] <= starts[0] or ("first_store" in blk and len(starts) != 1):
            bad(ctx, fn, "function %s: block `%s` ... `%s` not found exactly once at top level" % (defname, first_txt, last_txt))
        last = fn.body[ends[0]]
        if "last_store" in blk:
            # the right-hand side of the closing store is the result
            body = list(fn.body[starts[0]:ends[0]])
            body.append(ast.copy_location(ast.Return(value=last.value), last))
        else:
            # the block ends with the closing `if`; its result is the object <returns> (the attributes written)
            body = list(fn.body[starts[0]:ends[0] + 1])
            ret = ast.Return(value=ast.Name(id=blk["returns"], ctx=ast.Load()))
            ret.lineno = ret.end_lineno = ret.value.lineno = ret.value.end_lineno = last.end_lineno
            ret.col_offset = ret.end_col_offset = ret.value.col_offset = ret.value.end_col_offset = 0
            body.append(ret)
        scope = ast.Module(body=body, type_ignores=[])
        seg = "\n".join(text.splitlines()[body[0].lineno - 1:last.end_lineno])
        hidden = set(ctx.imported) | {"min", "max", "abs", "len", "range"}
        # a name the block may read before writing it is a parameter if the function binds it before the block
        # (parameter, or assigned / loop variable / with-target above); otherwise it is an unbound local at block entry
        before = {a.arg for a in fn.args.args}
        for st in fn.body[:starts[0]]:
            for n in ast.walk(st):
                if isinstance(n, ast.Name) and isinstance(n.ctx, ast.Store):
                    before.add(n.id)
        free = (live_in(body, set()) - hidden) & before
        pynames = []

        class FirstUse(ast.NodeVisitor):
            def visit_Name(self, n):
                if n.id in free and n.id not in pynames:
                    pynames.append(n.id)
        for st in body:
            FirstUse().visit(st)
    else:
        if fn.decorator_list:
            bad(ctx, fn, "decorator")
        a = fn.args
        if a.vararg or a.kwarg or a.kwonlyargs or a.defaults or a.kw_defaults or getattr(a, "posonlyargs", []):
            bad(ctx, fn, "parameter list (defaults / * / ** / keyword-only)")
        pynames = [p.arg for p in a.args]
        if len(set(pynames)) != len(pynames):
            bad(ctx, fn, "duplicate parameter")
        body = list(fn.body)
        scope = fn
        seg = ast.get_source_segment(text, fn)
    # the statements this translator knows; anything else is refused before looking further
    for n in ast.walk(scope):
        if isinstance(n, (ast.FunctionDef, ast.AsyncFunctionDef, ast.ClassDef, ast.Lambda)) and n is not fn:
            bad(ctx, n, "nested definition")
        if isinstance(n, (ast.Global, ast.Nonlocal, ast.While, ast.Try, ast.With, ast.Raise, ast.Delete,
                          ast.Import, ast.ImportFrom, ast.Yield, ast.YieldFrom, ast.Await, ast.NamedExpr,
                          ast.ListComp, ast.SetComp, ast.DictComp, ast.GeneratorExp, ast.IfExp, ast.Starred)):
            bad(ctx, n, type(n).__name__.lower())
    stores = set()
    for n in ast.walk(scope):
        if isinstance(n, ast.Name) and isinstance(n.ctx, (ast.Store, ast.Del)):
            stores.add(n.id)
    ctx.locals = set(pynames) | stores
    for b in ("min", "max", "abs", "len", "range", "np", "True", "False"):
        if b in ctx.locals:
            bad(ctx, fn, "local name that shadows %s" % b)
    # parameter kinds; objects are inferred from attribute reads
    attr_roots = []
    attr_root_nodes = {id(n.value) for n in ast.walk(scope) if isinstance(n, ast.Attribute) and isinstance(n.value, ast.Name)}
    returned_bare = {id(n.value) for n in ast.walk(scope) if isinstance(n, ast.Return) and isinstance(n.value, ast.Name)}
    # `X = P` directly in the body, P a parameter, X otherwise only used as X.attr / `return X`, later in the text:
    # X is another name of the object P
    for st in body:
        if (isinstance(st, ast.Assign) and len(st.targets) == 1 and isinstance(st.targets[0], ast.Name)
                and isinstance(st.value, ast.Name) and st.value.id in pynames and st.targets[0].id not in pynames
                and KINDS.get((fname, st.value.id), "O") == "O"):
            x = st.targets[0].id
            occ = [n for n in ast.walk(scope) if isinstance(n, ast.Name) and n.id == x and n is not st.targets[0]]
            if occ and all((id(n) in attr_root_nodes or id(n) in returned_bare) and n.lineno > st.end_lineno for n in occ) \
                    and any(id(n) in attr_root_nodes for n in occ) and x not in ctx.alias:
                ctx.alias[x] = st.value.id
                ctx.alias_stmts.add(id(st))

    passed_bare = set()       # Name nodes that hand an object parameter over to a callee

    class Scan(ast.NodeVisitor):
        def visit_Attribute(self, n):
            if isinstance(n.value, ast.Name) and ctx.alias.get(n.value.id, n.value.id) in pynames:
                attr_roots.append((ctx.alias.get(n.value.id, n.value.id), n.attr, n))
            self.generic_visit(n)

        def visit_Call(self, n):
            info = translated.get(n.func.id) if isinstance(n.func, ast.Name) and n.func.id not in ctx.locals else None
            if info is None or n.keywords or len(n.args) != len(info["pyparams"]):
                return self.generic_visit(n)
            for (pn, kind), a in zip(info["pyparams"], n.args):
                if kind == "O" and isinstance(a, ast.Name) and ctx.alias.get(a.id, a.id) in pynames:
                    root = ctx.alias.get(a.id, a.id)
                    passed_bare.add(id(a))
                    for attr, k2 in info["objattrs"][pn]:
                        node = ast.copy_location(ast.Attribute(value=a, attr=attr, ctx=ast.Load()), a)
                        attr_roots.append((root, attr, node))
                        callee_kinds.setdefault("%s.%s" % (root, attr), k2)
                        synthetic.add(id(node))
                else:
                    self.visit(a)
    callee_kinds = {}
    synthetic = set()
    for st in body:
        Scan().visit(st)
    objs = {r for r, _, _ in attr_roots}
    for p in pynames:
        if p in objs:
            if (fname, p) in KINDS and KINDS[(fname, p)] != "O":
                bad(ctx, fn, "attribute read of the parameter %s declared %s" % (p, KINDS[(fname, p)]))
            ctx.params[p] = "O"
        else:
            ctx.params[p] = KINDS.get((fname, p), "F")
    # an object parameter may only occur as P.attr in load position
    # (blocks: also `p = Q.attr[i]` with Q.attr of kind OL, once, textually before every attribute read of p)
    ctx.rebinds = set()
    for p in pynames:
        if p not in objs and any(v == p for v in ctx.alias.values()):
            bad(ctx, fn, "alias of the parameter %s that is not an object" % p)
    for p in objs:
        family = {p} | {x for x, q in ctx.alias.items() if q == p}
        n_alias = sum(1 for x, q in ctx.alias.items() if q == p)
        rebinds = []
        for n in ast.walk(scope):
            if isinstance(n, ast.Assign) and len(n.targets) == 1 and isinstance(n.targets[0], ast.Name) and n.targets[0].id == p:
                v = n.value
                if (isinstance(v, ast.Subscript) and isinstance(v.value, ast.Attribute) and isinstance(v.value.value, ast.Name)
                        and v.value.value.id in objs and v.value.value.id != p
                        and KINDS.get((fname, "%s.%s" % (v.value.value.id, v.value.attr))) == "OL"):
                    rebinds.append(n)
        uses = sum(1 for n in ast.walk(scope) if isinstance(n, ast.Name) and n.id in family and id(n) not in passed_bare)
        attrs = sum(1 for r, _, n in attr_roots if r == p and id(n) not in synthetic)
        bare_ret = sum(1 for n in ast.walk(scope) if isinstance(n, ast.Name) and n.id in family and id(n) in returned_bare)
        nstores = sum(1 for n in ast.walk(scope) if isinstance(n, ast.Name) and n.id in family and isinstance(n.ctx, ast.Store))
        first_read = min([n.lineno for r, _, n in attr_roots if r == p] or [10 ** 9])
        if (uses != attrs + len(rebinds) + 2 * n_alias + bare_ret or nstores != len(rebinds) + n_alias or len(rebinds) > 1
                or any(n.end_lineno >= first_read for n in rebinds)):
            bad(ctx, rebinds[0] if rebinds else fn, "use of the object parameter %s other than reading an attribute" % p)
        for n in rebinds:
            ctx.rebinds.add(id(n))
    # attributes the function writes: slots, in the order of their first store in the text
    for r, attr, n in sorted([x for x in attr_roots if isinstance(x[2].ctx, ast.Store)], key=lambda x: (x[2].lineno, x[2].col_offset)):
        key = "%s.%s" % (r, attr)
        if key not in ctx.slots:
            k2 = KINDS.get((fname, key), "F")
            if k2 not in ("F", "Z", "B"):
                bad(ctx, n, "store into %s of kind %s" % (key, k2))
            ctx.slots[key] = k2
    # external calls
    ext = []
    for n in ast.walk(scope):
        if (isinstance(n, ast.Assign) and isinstance(n.value, ast.Call) and isinstance(n.value.func, ast.Name)
                and (fname, n.value.func.id) in EXTERNALS):
            callee = n.value.func.id
            tg = n.targets[0] if len(n.targets) == 1 else None
            def tname(e):
                if isinstance(e, ast.Name):
                    return e.id
                if isinstance(e, ast.Attribute) and isinstance(e.value, ast.Name) and e.value.id not in pynames \
                        and e.value.id not in ctx.alias:
                    return "%s.%s" % (e.value.id, e.attr)
                return None
            tnames = [tname(e) for e in tg.elts] if isinstance(tg, ast.Tuple) else [None]
            real = [t for t in tnames if t != "_"]
            if not (isinstance(tg, ast.Tuple) and len(tg.elts) == EXTERNALS[(fname, callee)]
                    and None not in tnames and len(set(real)) == len(real)
                    and not n.value.keywords and not any(isinstance(a, ast.Starred) for a in n.value.args)):
                bad(ctx, n, "call of %s that is not `t1, ..., t%d = %s(positional arguments)`" % (callee, EXTERNALS[(fname, callee)], callee))
            imps = [(m.module or "", m.level) for m in ast.walk(mod) if isinstance(m, ast.ImportFrom)
                    for a in m.names if (a.asname or a.name) == callee]
            if not imps or any(mo.split(".")[-1] != callee for mo, _ in imps) or callee in ctx.locals:
                bad(ctx, n, "call of %s that is not imported by `from .%s import %s`" % (callee, callee, callee))
            if any(e[0] == callee for e in ext):
                bad(ctx, n, "second call of %s" % callee)
            ext.append((callee, n))
    # Coq parameter list
    assumptions = []
    droppable = set()   # initial values of written attributes: kept only if the body uses them
    coq_params = []     # (coq name, type)
    pyparams = []       # (python name, kind) for callers
    env = {}
    ctx.used = set()
    taken = set(pynames) | stores
    for p in pynames:
        kind = ctx.params[p]
        pyparams.append((p, kind))
        if kind == "O":
            for r, attr, n in attr_roots:
                key = "%s.%s" % (r, attr)
                if r != p or key in ctx.attr_params:
                    continue
                cn = "%s_%s" % (r, attr)
                if cn in taken or cn in ctx.used or cn in RESERVED:
                    bad(ctx, n, "attribute parameter name clash %s" % cn)
                ctx.used.add(cn)
                k2 = KINDS.get((fname, key), callee_kinds.get(key, "F"))
                if k2 == "X":
                    ctx.attr_params[key] = (None, "X")
                    continue
                if k2.startswith("A") and k2[1:].isdigit() and 1 <= int(k2[1:]) <= MAX_ARRAY and key not in ctx.slots:
                    ctx.attr_params[key] = (cn, k2)
                    for i in range(int(k2[1:])):
                        ctx.used.add("%s_%d" % (cn, i))
                        coq_params.append(("%s_%d" % (cn, i), "F"))
                    continue
                if k2 in ("C1", "OL") and blk:
                    ctx.used.discard(cn)
                    ctx.attr_params[key] = (None, k2)
                    assumptions.append("%s == 1" % key if k2 == "C1" else "%s is a list of objects" % key)
                    continue
                if k2 not in ("F", "Z", "B", "S"):
                    bad(ctx, n, "kind %s of %s" % (k2, key))
                ctx.attr_params[key] = (cn, k2)
                coq_params.append((cn, k2))
                if key in ctx.slots:
                    env[key] = V(cn, 0, k2)
                    droppable.add(cn)
        elif kind.startswith("A"):
            n_el = int(kind[1:])
            if not 1 <= n_el <= MAX_ARRAY:
                bad(ctx, fn, "array parameter of %d elements" % n_el)
            env[p] = ("arr", n_el)
            for i in range(n_el):
                cn = fresh(ctx, "%s_%d" % (p, i))
                env[(p, i)] = V(cn, 0, "F")
                coq_params.append((cn, "F"))
        elif kind in ("F", "Z", "B", "S", "L"):
            cn = fresh(ctx, p)
            env[p] = V(cn, 0, kind)
            coq_params.append((cn, kind))
        elif kind == "X":
            pass
        else:
            bad(ctx, fn, "parameter kind %s" % kind)
    all_loads = loads(scope)
    for callee, n in ext:
        m = {}
        for e in n.targets[0].elts:
            if isinstance(e, ast.Attribute):
                cn = fresh(ctx, "%s_%s" % (e.value.id, e.attr))
                m["%s.%s" % (e.value.id, e.attr)] = cn
                coq_params.append((cn, "F"))
            elif e.id in all_loads and e.id != "_":
                if e.id in ctx.params:
                    bad(ctx, n, "result of %s stored into the parameter %s" % (callee, e.id))
                cn = fresh(ctx, e.id)
                m[e.id] = cn
                coq_params.append((cn, "F"))
        ctx.ext_stmts[id(n)] = m
        ctx.calls.append((callee, [ast.unparse(a) for a in n.value.args]))
    ctx.arity = set()
    ctx.calls_opt = False

    def fell_off(e):
        bad(ctx, body[-1], "path that reaches the end of the function without return")
    tree = simplify(block(ctx, body, env, fell_off, set()))
    lv = leaves(tree, [])
    if not any(l[0] == "ret" for l in lv):
        bad(ctx, fn, "function without a defined return")
    if len(ctx.arity) != 1:
        bad(ctx, fn, "returns of different arity / kinds")
    ret_kinds = ctx.arity.pop()
    if not isinstance(ret_kinds, tuple):
        ret_kinds = ("F",) * ret_kinds
    arity = len(ret_kinds)
    opt = any(l[0] in ("unb", "exc") for l in lv) or ctx.calls_opt
    lvd = leaves(tree, [], True) if ctx.optjoin else lv
    unb = sorted({(l[2], l[1]) for l in lvd if l[0] == "unb"})
    exc = sorted({(l[2], l[1]) for l in lvd if l[0] == "exc"})
    TY = {"F": "F", "Z": "Z", "B": "bool", "S": "pystr", "L": "list F"}
    rt = " * ".join(TY[k] for k in ret_kinds)
    if opt:
        rt = "option %s" % ("(%s)" % rt if arity > 1 else rt)
    body = render(tree, opt, 4)
    if droppable:
        import re
        words = set(re.findall(r"[A-Za-z_][A-Za-z_0-9']*", "\n".join(body)))
        coq_params = [(cn, kind) for cn, kind in coq_params if cn not in droppable or cn in words]
    # signature
    groups = []
    for cn, kind in coq_params:
        ty = TY[kind]
        if groups and groups[-1][1] == ty:
            groups[-1][0].append(cn)
        else:
            groups.append(([cn], ty))
    sig = " ".join("(%s : %s)" % (" ".join(ns), ty) for ns, ty in groups)
    sha = hashlib.sha256(seg.encode("utf-8")).hexdigest()
    lines = []
    lines.append("  (* %s :: %s   sha256 %s" % (rel, fname, sha))
    if blk:
        lines.append("     block of function %s: from the first top-level `%s` to `%s`; parameters = free names"
                     % (defname, "if %s:" % blk["first_if"] if "first_if" in blk else blk["first_store"] + " = ...",
                        blk["last_store"] + " = <result>" if "last_store" in blk else "if %s:" % blk["last_if"] + " (result: the attributes written)"))
        if assumptions:
            lines.append("     ASSUMED: %s" % "; ".join(assumptions))
    lines.append("     python parameters: %s" % ", ".join("%s:%s" % pk for pk in pyparams))
    if ctx.alias:
        lines.append("     other names of a parameter: %s" % ", ".join("%s = %s" % kv for kv in ctx.alias.items()))
    if ctx.slots:
        lines.append("     attributes written (slots; `return <object>` returns them in this order): %s"
                     % ", ".join("%s:%s" % kv for kv in ctx.slots.items()))
    for callee, n in ext:
        lines.append("     external call %s(%s): results read = parameters %s" % (
            callee, ", ".join(ast.unparse(a) for a in n.value.args), " ".join(ctx.ext_stmts[id(n)].values()) or "-"))
    if exc:
        lines.append("     None = %s" % "; ".join("%s at line %d" % (nm, ln) for ln, nm in exc))
    if unb:
        lines.append("     None = UnboundLocalError: %s *)" % "; ".join("%s read at line %d" % (nm, ln) for ln, nm in unb))
    else:
        lines[-1] += " *)"
    lines.append("  Definition %s_src %s : %s :=" % (fname, sig, rt))
    lines += body
    lines[-1] += "."
    stats = {"nodes": sum(1 for _ in ast.walk(scope)), "term": size(tree), "option": opt, "params": len(coq_params), "sha256": sha}
    info = {"pyparams": pyparams, "arity": arity, "opt": opt, "calls": ctx.calls, "trig": ctx.uses_trig,
            "ret_kinds": ret_kinds,
            "objattrs": {pn: [(key.split(".", 1)[1], k2) for key, (cn, k2) in ctx.attr_params.items()
                              if key.split(".", 1)[0] == pn] for pn, kd in pyparams if kd == "O"},
            "callable": not ext and not ctx.slots and not blk and not ctx.alias
                        and all(k2 in ("F", "Z", "B", "S") or (k2.startswith("A") and k2[1:].isdigit())
                                for cn, k2 in ctx.attr_params.values())}
    return "\n".join(lines), stats, info


HEADER = r"""(* GENERATED by harness/gen_kernels.py from the source text of the functions listed below.  DO NOT EDIT.
   Each [<name>_src] is the mechanical translation of the Python function body (see the translator's docstring for
   the supported subset and the semantics); theories/proofs/KernelsSrcOK.v proves it equal to the hand model of
   theories/Kernels.v for every number type.
%s *)
From AC Require Import Num.

(* the string constants the translated functions compare a mode parameter with; [Str_other]: any other string *)
Inductive pystr : Type := %s.
Definition pystr_eqb (a b : pystr) : bool :=
  match a, b with
%s  | _, _ => false
  end.

Section KernelsSrc.
  Context {F : Type} {N : NumOps F}.
  Local Open Scope num_scope.

"""

FOOTER = r"""
End KernelsSrc.
"""


def generate(only=None):
    strings = []
    translated = {}
    parts = []
    stats = {}
    shas = []
    for rel, fname in FUNCTIONS:
        if only is not None and fname not in only:
            continue
        path = os.path.join(REPO, rel)
        try:
            with open(path) as f:
                text = f.read()
        except OSError as e:
            raise TranslatorError("%s:0: unsupported source file (%s)" % (rel, e.strerror))
        body, st, info = translate_function(rel, fname, text, strings, translated)
        translated[fname] = info
        parts.append(body)
        stats[fname] = st
        shas.append("     %s  %s :: %s" % (st["sha256"], rel, fname))
    ctors = ["Str_" + s for s in strings] + ["Str_other"]
    out = HEADER % ("\n".join(shas), " | ".join(ctors), "".join("  | Str_%s, Str_%s => true\n" % (s, s) for s in strings))
    out += "\n\n".join(parts) + "\n" + FOOTER
    return out, {"functions": len(parts), "per_function": stats, "strings": strings}


HEADER_PROCS = r"""(* GENERATED by harness/gen_kernels.py from the source text of the functions listed below.  DO NOT EDIT.
   Each [<name>_src] is the mechanical translation of the Python function body (see the translator's docstring and the
   comment in front of each definition: parameters, slots, external calls, which exception each None stands for);
   theories/proofs/ProcsSrcOK.v proves it equal to the hand model (Water/RainIrr.v, Crop/Yield.v) for every number type.
%s *)
From Coq Require Import String.
From AC Require Import Num.

(* Python sequence indexing with negative wrap-around; None = IndexError *)
Definition py_index_src {A} (l : list A) (i : Z) : option A :=
  let n := Z.of_nat (length l) in
  let j := if (i <? 0)%%Z then (i + n)%%Z else i in
  if ((j <? 0) || (n <=? j))%%Z then None else nth_error l (Z.to_nat j).

(* np.sin / np.pi are not operations of Num.v *)
Class TrigSrc (F : Type) := { ssin : F -> F; spi : F }.

Section ProcsSrc.
  Context {F : Type} {N : NumOps F} {T : TrigSrc F}.
  Local Open Scope num_scope.

"""


def coq_string(t):
    return '"%s"%%string' % t.replace('"', '""')


def generate_procs(only=None):
    strings = []
    translated = {}
    parts = []
    calls = []
    stats = {}
    shas = []
    for rel, fname in PROCS:
        if only is not None and fname not in only:
            continue
        path = os.path.join(REPO, rel)
        try:
            with open(path) as f:
                text = f.read()
        except OSError as e:
            raise TranslatorError("%s:0: unsupported source file (%s)" % (rel, e.strerror))
        body, st, info = translate_function(rel, fname, text, strings, translated)
        translated[fname] = info
        parts.append(body)
        stats[fname] = st
        shas.append("     %s  %s :: %s" % (st["sha256"], rel, fname))
        if info["calls"]:
            calls.append("(* the external calls of %s: callee, source text of the arguments *)\n"
                         "Definition %s_src_calls : list (string * list string) :=\n  [%s]." % (
                             fname, fname, "; ".join("(%s, [%s])" % (coq_string(c), "; ".join(coq_string(a) for a in args))
                                                     for c, args in info["calls"])))
    if strings:
        raise TranslatorError("%s:0: unsupported string constant in a process function" % PROCS[0][0])
    out = HEADER_PROCS % "\n".join(shas)
    out += "\n\n".join(parts) + "\n\nEnd ProcsSrc.\n"
    if calls:
        out += "\n" + "\n\n".join(calls) + "\n"
    return out, {"functions": len(parts), "per_function": stats}


HEADER_CROP = r"""(* GENERATED by harness/gen_kernels.py from the source text of the functions listed below.  DO NOT EDIT.
   The two long loop-free crop processes; they call the definitions of gen/KernelsSrc.v and gen/ProcsSrc.v.
   theories/proofs/CropSrcOK.v proves them equal to the hand models of Crop/Yield.v and Crop/Canopy.v.
%s *)
From Coq Require Import String.
From AC Require Import Num.
From AC.gen Require Import KernelsSrc ProcsSrc.

Section CropSrc.
  Context {F : Type} {N : NumOps F} {T : TrigSrc F}.
  Local Open Scope num_scope.

"""


def generate_crop(only=None):
    strings = []
    translated = {}
    # the callees: translated again (text discarded) so that their signatures are known
    for lst in (FUNCTIONS, PROCS):
        for rel, fname in lst:
            try:
                with open(os.path.join(REPO, rel)) as f:
                    text = f.read()
            except OSError as e:
                raise TranslatorError("%s:0: unsupported source file (%s)" % (rel, e.strerror))
            _, _, info = translate_function(rel, fname, text, strings, translated)
            translated[fname] = info
    known = list(strings)
    parts, calls, stats, shas = [], [], {}, []
    for rel, fname in CROPS:
        if only is not None and fname not in only:
            continue
        try:
            with open(os.path.join(REPO, rel)) as f:
                text = f.read()
        except OSError as e:
            raise TranslatorError("%s:0: unsupported source file (%s)" % (rel, e.strerror))
        body, st, info = translate_function(rel, fname, text, strings, translated)
        if strings != known:
            raise TranslatorError("%s:0: unsupported string constant %r (not a mode string of a callee)" % (rel, strings[-1]))
        translated[fname] = info
        parts.append(body)
        stats[fname] = st
        shas.append("     %s  %s :: %s" % (st["sha256"], rel, fname))
        if info["calls"]:
            calls.append("(* the external calls of %s: callee, source text of the arguments *)\n"
                         "Definition %s_src_calls : list (string * list string) :=\n  [%s]." % (
                             fname, fname, "; ".join("(%s, [%s])" % (coq_string(c), "; ".join(coq_string(a) for a in args))
                                                     for c, args in info["calls"])))
    out = HEADER_CROP % "\n".join(shas)
    out += "\n\n".join(parts) + "\n\nEnd CropSrc.\n"
    if calls:
        out += "\n" + "\n\n".join(calls) + "\n"
    return out, {"functions": len(parts), "per_function": stats}


def main(argv=None):
    argv = list(sys.argv[1:] if argv is None else argv)
    out_dir = OUT
    only = None
    while argv:
        a = argv.pop(0)
        if a == "--out":
            if not argv:
                print("TRANSLATOR-ERROR: --out needs a directory")
                sys.exit(2)
            out_dir = argv.pop(0)
        elif a == "--only":
            if not argv:
                print("TRANSLATOR-ERROR: --only needs a list")
                sys.exit(2)
            only = argv.pop(0).split(",")
        else:
            print("TRANSLATOR-ERROR: unknown argument %s" % a)
            sys.exit(2)
    try:
        # nothing is written unless all files translated
        results = [(OUT_FILE,) + generate(only), (PROCS_FILE,) + generate_procs(only), (CROP_FILE,) + generate_crop(only)]
        os.makedirs(out_dir, exist_ok=True)
        allstats = {}
        for fn, text, stats in results:
            p = os.path.join(out_dir, fn)
            old = open(p).read() if os.path.exists(p) else None
            if old != text and stats["functions"]:
                with open(p, "w") as f:
                    f.write(text)
                stats["rewritten"] = True
            allstats[fn] = stats
    except (TranslatorError, OSError, RecursionError) as e:
        print("TRANSLATOR-ERROR: %s" % e)
        sys.exit(2)
    print(json.dumps(allstats))


if __name__ == "__main__":
    main()
