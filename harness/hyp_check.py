"""hyp_check.py — are the HYPOTHESES of the whole-run theorems met by real configurations?

The whole-run theorems of Properties/C01_run.v / C03_run.v (DaySideRun.run_till_strong[_no_table]) assume, besides the
run itself, only STATIC facts about the initialised parameter structures (DaySideP.ParOK / CropOK), a well-formed clock,
ET0 >= 0 in every weather record (WOK), a window-length bound on the canopy ageing term (HDap) and the invariant StrongInv on
the INITIAL state.  This module evaluates exactly those hypotheses, field by field, on an initialised real
`AquaCropModel` (after `_initialize()`), so that the evidence can say on how many of the simulated configurations the
theorems' premises actually hold (a theorem whose premises no real configuration meets would mean nothing), and which
premise fails where they do not.  Pure reading; floating-point evaluation with a small tolerance where a premise is an
inequality between computed quantities."""
import math
import numpy as np

EPS = 1e-12


def _crop_ok(c, fallow, co2c, co2r, out, tag):
    zmin = 0.3 if fallow else float(c.Zmin)
    def bad(name): out.append("%s.%s" % (tag, name))
    if not (0 < c.CC0 <= c.CCx <= 1 and c.CGC > 0 and c.CDC >= 0): bad("co_can")
    dt = 1.0 if int(c.CalendarType) == 1 else float(c.Tupp - c.Tbase)
    try:
        if not c.CC0 * math.exp(c.CGC * dt) <= c.CCx + EPS: bad("co_step")
    except OverflowError:
        bad("co_step")
    if not c.Tbase <= c.Tupp: bad("co_temp")
    zini = zmin * (c.PctZmin / 100.0)
    if not (0 < zmin <= c.Zmax and zini <= c.Zmax and c.fshape_r > 0 and 0 <= c.p_up[1] < 1 and c.fshape_w[1] != 0): bad("co_root")
    if abs(zmin * 100 - round(zmin * 100)) > 1e-9: bad("co_zmin_cm")
    if not (c.SxTop >= 0 and c.SxBot >= 0): bad("co_sx")
    if not (c.LagAer > 1 and float(c.LagAer) == int(c.LagAer)): bad("co_lag")
    if not (c.Kcb >= 0 and c.fage >= 0): bad("co_kcb_fage")
    if not co2c - co2r <= 20 * (550 - co2r) + EPS: bad("co_co2")


def check(m):
    """list of the names of the premises that FAIL on this initialised model (empty list: all premises hold)"""
    ps = m._param_struct; cs = m._clock_struct; ic = m._init_cond
    P = ps.Soil.Profile; soil = ps.Soil
    out = []
    n = len(P.dz)
    # ---- ParOK
    if not all(P.dz[i] > 0 and 0 < P.th_dry[i] < P.th_wp[i] < P.th_fc[i] < P.th_s[i] and 0 < P.tau[i] <= 1 and P.Ksat[i] > 0 for i in range(n)):
        out.append("po_wf")
    z = 0.0; geom = True
    for i in range(n):
        geom = geom and abs(P.dzsum[i] - (z + P.dz[i])) < 1e-9; z = float(P.dzsum[i])
    if not geom: out.append("po_geom")
    lay = True; pl, wp, fc = 0, 0.0, 0.0
    for i in range(n):
        li = int(P.Layer[i])
        lay = lay and (pl < li or (li == pl and P.th_wp[i] == wp and P.th_fc[i] == fc))
        pl, wp, fc = li, P.th_wp[i], P.th_fc[i]
    if not lay: out.append("po_layers")
    if not all(0 <= P.Penetrability[i] <= 100 for i in range(n)): out.append("po_pen")
    if not soil.kex >= 0: out.append("po_kex")
    if not 0 <= soil.fwcc <= 100: out.append("po_fwcc")
    for f, tag in ((ps.FieldMngt, "po_mulch"), (ps.FallowFieldMngt, "po_mulch_f")):
        if not (0 <= f.f_mulch <= 1 and 0 <= f.mulch_pct <= 100): out.append(tag)
    if not ps.IrrMngt.WetSurf >= 0: out.append("po_wet")
    if not ps.FallowIrrMngt.WetSurf >= 0: out.append("po_wet_f")
    co2r = float(ps.CO2.ref_concentration)
    if not co2r < 550: out.append("po_co2r")
    co2c = float(ps.CO2.current_concentration)     # season 0; later seasons: the processed table
    table = getattr(ps.CO2, "co2_data_processed", None)
    cmax = co2c if table is None or len(table) == 0 else max(co2c, float(np.max(np.asarray(table, dtype=float))))
    for k, c in enumerate(ps.Seasonal_Crop_List):
        _crop_ok(c, False, cmax, co2r, out, "crop%d" % k)
    _crop_ok(ps.Fallow_Crop, True, cmax, co2r, out, "fallow")
    # ---- WOK2: ET0 >= 0 and rain >= 0 in every record of the window
    w = np.asarray(m._weather)
    if not np.all(w[:, 3].astype(float) >= 0): out.append("WOK.et0")
    if not np.all(w[:, 2].astype(float) >= 0): out.append("WOK2.rain")
    # ---- premises of the row theorems (DaySideRows): effective curve numbers in (0,100], MaxIrrSeason >= 0, RInv2 at the start
    for f, tag in ((ps.FieldMngt, "cn_ok.field"), (ps.FallowFieldMngt, "cn_ok.fallow")):
        cn = float(soil.cn) * (1 + (float(f.curve_number_adj_pct) if f.curve_number_adj else 0.0) / 100.0)
        if not 0 < cn <= 100: out.append(tag)
    if not ps.IrrMngt.MaxIrrSeason >= 0: out.append("MaxIrrSeason")
    if not (0 <= ic.pct_lag_phase <= 100 and ic.irr_cum <= ps.IrrMngt.MaxIrrSeason): out.append("RInv2")
    nst = len(cs.time_span)
    start = np.datetime64(cs.simulation_start_date)
    pl_ = [int((np.datetime64(d) - start) / np.timedelta64(1, "D")) for d in cs.planting_dates]
    hv_ = [int((np.datetime64(d) - start) / np.timedelta64(1, "D")) for d in cs.harvest_dates]
    # ---- HDap: the bound on the canopy-ageing term.  `window`: premise of DaySideRun.run_till_strong (window length);
    #      `season`: premise of the refined theorems (length of each season, planting to latest harvest date)
    for k, c in enumerate(ps.Seasonal_Crop_List):
        if k < len(pl_) and not (hv_[k] - pl_[k] + 1 - float(c.MaxCanopyCD) - 5) * (float(c.fage) / 100.0) <= float(c.Kcb) + EPS:
            out.append("HDap_season.crop%d" % k)
    if any(not (nst - 1 - float(c.MaxCanopyCD) - 5) * (float(c.fage) / 100.0) <= float(c.Kcb) + EPS for c in ps.Seasonal_Crop_List):
        out.append("HDap_window")
    # ---- wf_clock
    ok = len(pl_) == len(hv_) and all(p < h for p, h in zip(pl_, hv_)) and all(hv_[i] <= pl_[i + 1] for i in range(len(pl_) - 1)) \
        and all(0 <= p and p + 1 < nst for p in pl_)
    if not ok: out.append("wf_clock")
    # ---- StrongInv on the initial state (dap = 0, season -1 or 0)
    th = np.asarray(ic.th, dtype=float); thini = np.asarray(ic.thini, dtype=float); fa = np.asarray(ic.th_fc_Adj, dtype=float)
    if not (len(th) == n and all(P.th_dry[i] - EPS <= th[i] <= P.th_s[i] + EPS for i in range(n))): out.append("si_day.inv_th")
    if not (len(thini) == n and all(P.th_dry[i] - EPS <= thini[i] <= P.th_s[i] + EPS for i in range(n))): out.append("si_day.inv_thini")
    if not (len(fa) == n and all(P.th_fc[i] - EPS <= fa[i] <= P.th_s[i] + EPS for i in range(n))): out.append("si_day.inv_fc")
    if not ic.surface_storage >= 0: out.append("si_day.inv_surf")
    if not (0 <= ps.IrrMngt.NetIrrSMT <= 100 and 0 <= ps.FallowIrrMngt.NetIrrSMT <= 100): out.append("si_day.inv_smt")
    if not (ps.FieldMngt.bund_water >= 0 and ps.FieldMngt.z_bund >= 0): out.append("si_day.inv_bund")
    c0 = ps.Seasonal_Crop_List[0]
    if not (0 <= ic.canopy_cover <= c0.CCx and 0 <= ic.canopy_cover_ns <= c0.CCx and 0 <= ic.ccx_act_ns <= c0.CCx and 0 <= ic.cc0_adj <= c0.CC0 + EPS
            and ic.ccx_act <= c0.CCx and 0 <= ic.ccx_w <= c0.CCx and 0 <= ic.ccx_w_ns <= c0.CCx): out.append("si_can")
    if not ((ic.age_days - 5) * (c0.fage / 100.0) <= c0.Kcb and (ic.age_days_ns - 5) * (c0.fage / 100.0) <= c0.Kcb): out.append("si_age")
    if not (ic.delayed_cds >= 0 and ic.r_cor >= 0 and 0 <= ic.tr_ratio <= 1): out.append("si_counters")
    if not all(a >= 0 for a in np.asarray(ic.aer_days_comp, dtype=float)): out.append("si_aer")
    if not (ic.day_submerged >= 0 and float(ic.day_submerged) == int(ic.day_submerged)): out.append("si_daysub")
    return out


def _taw_samples(ps, c, zmin):
    """TawOK (DayCropRowsP): root-zone and top-soil TAW > 0 — a statement over every rooting depth and water content; evaluated
    here on a sample of rooting depths (TAW does not depend on the water content): Zmin, Zmax and 9 depths in between"""
    from aquacrop.solution.root_zone_water import root_zone_water
    P = ps.Soil.Profile
    th = np.asarray(P.th_fc, float).copy()
    for j in range(11):
        z = zmin + (float(c.Zmax) - zmin) * j / 10.0
        try:
            r = root_zone_water(P, float(z), th, float(ps.Soil.z_top), float(zmin), float(c.Aer))
        except Exception:
            return False
        if not (float(r[3]) > 0 and float(r[4]) > 0): return False
    return True


def check_crop_hi(m):
    """the additional static premises of the crop-state run theorems (DayCropRowsP.ParHIOK = CropHIOK for every season's crop):
    names of those that FAIL on this initialised model"""
    ps = m._param_struct
    out = []
    for k, c in enumerate(ps.Seasonal_Crop_List):
        def bad(name): out.append("crop%d.%s" % (k, name))
        if int(c.CropType) not in (1, 2, 3): bad("type")
        if not (0 < c.HIini <= c.HI0): bad("hr_ini_HI0")
        if not c.HIGC >= 0: bad("hr_gc")
        if not c.dHILinear >= 0: bad("hr_lin")
        if not c.HI0 >= 0: bad("hc_HI0")
        if not c.dHI0 >= -100: bad("hc_dHI0")
        if int(c.CropType) == 1 and not c.dHI0 >= 0: bad("hc_leafy")
        if not c.exc >= -100: bad("hc_exc")
        if c.b_HI > 0 and not c.b_HI >= 1: bad("hc_bHI")
        if not c.HIstartCD <= c.CanopyDevEndCD: bad("hc_cde")
        if not c.YldFormCD >= 0: bad("hc_yld")
        if any(float(x) == 0 for x in np.asarray(c.fshape_w, float)[:3]): bad("fs")
        if not (c.WP >= 0 and c.fCO2 >= 0 and 0 <= c.WPy <= 100): bad("wp")
        if not _taw_samples(ps, c, float(c.Zmin)): bad("TawOK_sampled")
    return out


def check_def_ok(m):
    """the conditions DefOK of the run-completion theorem (RunCompletesP.run_from_init_completes), evaluated on this initialised model:
    names of those that FAIL (a configuration on which they all hold is one to which the theorem 'the run does not stop at a raising day' applies)"""
    ps = m._param_struct; cs = m._clock_struct
    P = ps.Soil.Profile; soil = ps.Soil
    dzsum = np.asarray(P.dzsum, float); n = len(dzsum)
    out = []
    if int(ps.water_table) != 0: out.append("do_wt")
    zmax_ev = float(soil.evap_z_max); zmin_ev = float(soil.evap_z_min)
    if not (zmin_ev <= zmax_ev and int(np.sum(dzsum < zmax_ev + 0.001)) + 2 <= n): out.append("do_evap")
    if not np.any(dzsum >= float(soil.z_germ)): out.append("do_germ")
    if not dzsum[0] <= round(float(soil.z_top), 2) + 1e-12: out.append("do_top")
    w = np.asarray(m._weather)
    if not np.all(w[:, 2].astype(float) >= 0): out.append("do_rain")
    if not np.all(w[:, 3].astype(float) > 0): out.append("do_et0")
    for k, c in enumerate(ps.Seasonal_Crop_List):
        def bad(name): out.append("crop%d.%s" % (k, name))
        if int(c.GDDmethod) not in (1, 2, 3): bad("do_gdd")
        if int(c.CalendarType) not in (1, 2): bad("do_cal")
        if float(c.SxBot) == 0: bad("do_sxbot")
        if not np.any((dzsum >= float(c.Zmax)) & (dzsum >= round(float(c.Zmax), 2))): bad("do_deep")
        if int(c.TrColdStress) not in (0, 1) or int(c.ETadj) != 1: bad("do_tr")
        if int(c.PolHeatStress) not in (0, 1) or int(c.PolColdStress) not in (0, 1): bad("do_pol")
        if int(c.CropType) not in (1, 2, 3): bad("do_type")
        if not (int(c.Determinant) == 1 or float(c.YldFormCD) != 0): bad("do_yld")
    for irr, tag in ((ps.IrrMngt, "irr"), (ps.FallowIrrMngt, "fallow_irr")):
        meth = int(irr.irrigation_method)
        ok = 0 <= meth <= 5 and (meth != 1 or len(np.atleast_1d(irr.SMT)) == 4) and (meth != 2 or float(irr.IrrInterval) != 0)
        if meth == 3:
            sch = np.asarray(irr.Schedule, float)
            ok = ok and len(sch) >= len(cs.time_span) - 1 and bool(np.all(sch >= 0))
        if not ok: out.append("do_irr." + tag)
        if not float(irr.AppEff) >= 0: out.append("do_eff." + tag)
    layers = sorted(set(int(x) for x in np.asarray(P.Layer)))
    if layers != list(range(1, len(layers) + 1)): out.append("do_restrict")
    return out
