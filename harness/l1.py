"""l1.py — function-level correspondence: run the real Python function and the extracted
model on the same generated arguments and compare every output bit-for-bit.

A suite is a function  gen(rng, n) -> iterable of Case.  The implementation side is run
in-process under the libm proxy; the model side through the OCaml driver."""
import time, traceback, collections
from common import *


class Case:
    __slots__ = ("fn", "line", "expect", "info", "kind")

    def __init__(self, fn, line, expect, info=None, kind="valid"):
        self.fn = fn          # driver entry point
        self.line = line      # argument tokens (string)
        self.expect = expect  # list of tokens produced by the implementation
        self.info = info      # json-able description of the input (for replay / samples)
        self.kind = kind      # 'valid' | 'malformed' (malformed: only error-kind compared)


def py_error_tokens(e):
    """map a Python exception of the implementation to the model's error token."""
    return ["N"]


def compare(cases, unit=None):
    """returns (n_ok, mismatches[list of dict])"""
    lines = [c.fn + " " + c.line for c in cases]
    outs = run_driver(lines, unit=unit)
    bad = []
    ok = 0
    for c, o in zip(cases, outs):
        exp = [canon(t) for t in c.expect]
        got = [canon(t) for t in o]
        if c.kind == "malformed":
            # compare only whether both sides signal an error
            e1 = exp[:1] == ["N"]
            e2 = got[:1] == ["N"] or got[:1] == ["ERR"]
            if e1 == e2:
                ok += 1
                continue
        elif exp == got:
            ok += 1
            continue
        bad.append({"fn": c.fn, "info": c.info, "line": c.line, "impl": c.expect, "model": o, "kind": c.kind})
    return ok, bad


def run_suite(name, gen, n, seed_names=(), unit=None):
    """generate n cases, compare; returns a dict with statistics."""
    t0 = time.time()
    # a generator that trips over one of its own draws (a harness slip, not an implementation verdict) is restarted with a
    # derived seed for the remaining cases; persistent failure is reported as an error of the suite
    cases = []; gen_errors = []
    for attempt in range(6):
        rng = rng_for("l1", name, *(tuple(seed_names) + (() if attempt == 0 else ("retry%d" % attempt,))))
        try:
            for c in gen(rng, max(1, n - len(cases))):
                cases.append(c)
            break
        except Exception:
            gen_errors.append(traceback.format_exc()[-700:])
            if len(cases) >= n:
                break
    if len(gen_errors) >= 6 or (gen_errors and not cases):
        raise RuntimeError("generator keeps failing: " + gen_errors[-1])
    t_impl = time.time() - t0
    ok, bad = compare(cases, unit=unit)
    byfn = collections.Counter(c.fn for c in cases)
    distinct = len(set((c.fn, c.line) for c in cases))
    sig = collections.Counter((c.fn, tuple(len(t) for t in c.expect), c.expect[0] if c.expect and len(c.expect[0]) < 3 else "") for c in cases)
    return {
        "suite": name, "cases": len(cases), "distinct": distinct, "agree": ok, "disagree": len(bad),
        "by_function": dict(byfn), "generator_restarts": len(gen_errors), "generator_errors": gen_errors[:2], "impl_s": round(t_impl, 2), "total_s": round(time.time() - t0, 2),
        "mismatches": bad[:20], "mismatches_all": bad[:400], "samples": [{"fn": c.fn, "info": c.info, "impl_out": c.expect} for c in cases[:3]],
    }
