"""local_checks.py — the LOCAL STATEMENT of a property evaluated on the implementation at the inputs on which a
function-level correspondence suite disagrees (DESIGN.md 7.1, directed search, step 1).

When the extracted model and the implementation disagree on a generated input, the theorem about the model no longer
speaks for the implementation on that input.  Here the conclusion of that theorem (water balance of the call, bounds,
signs, partition identity ...) is re-evaluated directly on what the IMPLEMENTATION returned for that very input, after
checking the theorem's hypotheses on the input (well-formed profile, water contents within bounds, adjusted field
capacity within [th_fc, th_s], non-negative fluxes): a failure is a concrete function-level input on which the property's
statement fails — the replay.  Nothing here runs on an unchanged tree (there are no disagreements to look at), so it
cannot raise an alarm there; the evaluators only ever look at `valid` stream cases.

evaluate(pid, suites) -> list of violation dicts (key, what, kind='function', fn, info, impl_out)."""
from common import unhx

TOL = 1e-6          # mm, the property's own closure tolerance
EPS = 1e-9


class Rd:
    def __init__(self, toks):
        self.t = list(toks); self.i = 0

    def nxt(self):
        x = self.t[self.i]; self.i += 1; return x

    def f(self):
        return unhx(self.nxt())

    def fl(self):
        n = int(self.nxt()); return [self.f() for _ in range(n)]

    def b(self):
        return self.nxt() == "T"

    def z(self):
        return int(self.nxt())


def sto(dz, th):
    return sum(t * d for t, d in zip(th, dz)) * 1000.0


def prof_ok(p):
    n = len(p["dz"])
    return n > 0 and all(d > 0 for d in p["dz"]) and all(0 < p["th_wp"][i] < p["th_fc"][i] < p["th_s"][i] for i in range(n)) \
        and all(0 <= t <= 1 for t in p["tau"]) and all(k >= 0 for k in p["Ksat"])


def in_bounds(p, th):
    return len(th) == len(p["dz"]) and all(p["th_wp"][i] / 2 - EPS <= th[i] <= p["th_s"][i] + EPS for i in range(len(th)))


def fc_ok(p, fc):
    return len(fc) == len(p["dz"]) and all(p["th_fc"][i] - EPS <= fc[i] <= p["th_s"][i] + EPS for i in range(len(fc)))


def oob(p, th):
    """indices where th leaves [th_dry, th_s] by more than rounding"""
    return [(i, th[i]) for i in range(min(len(th), len(p["dz"]))) if th[i] < p["th_wp"][i] / 2 - 1e-9 or th[i] > p["th_s"][i] + 1e-9]


def V(pid, fn, rule, what):
    return {"pid": pid, "key": "%s:local:%s:%s" % (pid, fn, rule), "what": what}


# ---- evaluators: (info, impl tokens) -> list of V --------------------------------------------------------------
def ev_infiltration(info, out):
    p = info["prof"]
    if not (prof_ok(p) and in_bounds(p, info["th"]) and fc_ok(p, info["fcadj"]) and info["surf"] >= 0 and info["irr"] >= 0
            and 0 <= info["eff"] <= 100 and info["dp0"] >= 0 and info["ro0"] >= 0 and info["infl"] == info["infl"] and info["zbund"] >= 0):
        return []
    r = Rd(out[1:]); th1 = r.fl(); s1 = r.f(); dp = r.f(); ro = r.f(); inf = r.f()
    dz = p["dz"]; res = []
    offered = max(info["infl"], 0.0) + (info["irr"] * info["eff"] / 100.0 if info["gs"] else 0.0)
    lhs = sto(dz, th1) + s1 + dp + ro; rhs = sto(dz, info["th"]) + info["surf"] + offered + info["dp0"] + info["ro0"]
    if abs(lhs - rhs) > TOL * max(1.0, abs(rhs) / 1000):
        res.append(V("C01", "infiltration", "balance", "storage'+surface'+DeepPerc'+Runoff' = %.9f but storage+surface+offered+DeepPerc0+Runoff0 = %.9f (difference %.6g mm)" % (lhs, rhs, lhs - rhs)))
    if info["infl"] >= 0 and abs(inf + (ro - info["ro0"]) - offered) > TOL:
        res.append(V("C02", "infiltration", "surface_identity", "reported infiltration %.9f + runoff added %.9f != rain part + applied irrigation %.9f" % (inf, ro - info["ro0"], offered)))
    if ro < info["ro0"] - TOL:
        res.append(V("C02", "infiltration", "runoff_lower", "runoff decreased: %.9f -> %.9f" % (info["ro0"], ro)))
    if ro - info["ro0"] > offered + info["surf"] + TOL:
        res.append(V("C02", "infiltration", "runoff_upper", "runoff added %.9f exceeds water offered %.9f + ponded %.9f" % (ro - info["ro0"], offered, info["surf"])))
    if inf < -TOL and (info["bunds"] and info["zbund"] > 0.001 or info["surf"] <= 0 or inf < -info["surf"] - TOL):
        res.append(V("C02", "infiltration", "infl_negative", "negative infiltration %.9f with bunds=%s z_bund=%g ponded=%.9f" % (inf, info["bunds"], info["zbund"], info["surf"])))
    bad = oob(p, th1)
    if bad:
        res.append(V("C03", "infiltration", "bounds", "water content outside [th_dry, th_s] after infiltration: compartment %d = %.9f" % bad[0]))
    zb = info["zbund"] if (info["bunds"] and info["zbund"] > 0.001) else 0.0
    if s1 < -TOL or s1 > max(zb, 0) * 1.0 + TOL and not (info["surf"] > zb):
        res.append(V("C03", "infiltration", "ponding", "ponded water %.9f outside [0, bund height in force %.9f] (bunds=%s, z_bund=%g)" % (s1, zb, info["bunds"], info["zbund"])))
    if dp < info["dp0"] - TOL or dp < -TOL:
        res.append(V("C04", "infiltration", "deep_perc", "deep percolation %.9f (was %.9f)" % (dp, info["dp0"])))
    if ro < -TOL:
        res.append(V("C04", "infiltration", "runoff_sign", "runoff %.9f < 0" % ro))
    return res


def ev_drainage(info, out):
    p = info["prof"]
    if info.get("stream") not in ("valid",) or not (prof_ok(p) and in_bounds(p, info["th"]) and fc_ok(p, info["fcadj"])):
        return []
    r = Rd(out[1:]); th1 = r.fl(); dp = r.f()
    res = []
    lhs = sto(p["dz"], th1) + dp; rhs = sto(p["dz"], info["th"])
    if abs(lhs - rhs) > TOL:
        res.append(V("C01", "drainage", "balance", "storage' + DeepPerc = %.9f but storage = %.9f (difference %.6g mm)" % (lhs, rhs, lhs - rhs)))
    bad = oob(p, th1)
    if bad:
        res.append(V("C03", "drainage", "bounds", "water content outside [th_dry, th_s] after drainage: compartment %d = %.9f" % bad[0]))
    if dp < -TOL:
        res.append(V("C04", "drainage", "deep_perc", "deep percolation %.9f < 0" % dp))
    return res


def ev_gw_inflow(info, out):
    p = info["prof"]
    if not (prof_ok(p) and in_bounds(p, info["th"])):
        return []
    r = Rd(out[1:]); th1 = r.fl(); g = r.f()
    res = []
    d = sto(p["dz"], th1) - sto(p["dz"], info["th"])
    if abs(d - g) > TOL:
        res.append(V("C01", "groundwater_inflow", "balance", "storage rose by %.9f mm but reported groundwater inflow is %.9f mm" % (d, g)))
    if g < -TOL:
        res.append(V("C04", "groundwater_inflow", "sign", "groundwater inflow %.9f < 0" % g))
    if info.get("wt_in_soil"):
        zm = 0.0; top = 0.0
        for i, dzi in enumerate(p["dz"]):
            zm = top + dzi / 2; top += dzi
            if zm >= info["z_gw"] and abs(th1[i] - p["th_s"][i]) > 1e-12:
                res.append(V("C19", "groundwater_inflow", "saturated_below_table", "compartment %d (mid-depth %.3f m) lies below the table at %.3f m but has th %.9f != th_s %.9f" % (i, zm, info["z_gw"], th1[i], p["th_s"][i])))
                break
    bad = oob(p, th1)
    if bad:
        res.append(V("C03", "groundwater_inflow", "bounds", "water content outside [th_dry, th_s]: compartment %d = %.9f" % bad[0]))
    return res


def ev_check_gw(info, out):
    p = info["prof"]
    if not (prof_ok(p) and info.get("wt") == 1 and fc_ok(p, info["fc0"])):
        return []
    r = Rd(out[1:]); fc = r.fl()
    res = []
    for i in range(len(fc)):
        if fc[i] < p["th_fc"][i] - 1e-12 or fc[i] > p["th_s"][i] + 1e-12:
            res.append(V("C19", "check_groundwater_table", "fcadj_range", "adjusted field capacity of compartment %d = %.9f outside [th_fc %.6f, th_s %.6f]" % (i, fc[i], p["th_fc"][i], p["th_s"][i])))
            break
    return res


def ev_capillary(info, out):
    p = info.get("prof")
    if not p or not prof_ok(p) or "th" not in info or not in_bounds(p, info["th"]):
        return []
    r = Rd(out[1:]); th1 = r.fl(); cr = r.f()
    res = []
    d = sto(p["dz"], th1) - sto(p["dz"], info["th"])
    allow = 0.5e-4 * 1000 * sum(p["dz"]) + TOL
    if abs(d - cr) > allow:
        res.append(V("C01", "capillary_rise", "balance", "storage rose by %.9f mm, reported capillary rise %.9f mm (allowance %.6f)" % (d, cr, allow)))
    if cr < -TOL:
        res.append(V("C04", "capillary_rise", "sign", "capillary rise %.9f < 0" % cr))
    if info.get("wt") == 0 and (abs(cr) > 0 or th1 != info["th"]):
        res.append(V("C19", "capillary_rise", "no_table_zero", "capillary rise %.9f without a water table" % cr))
    fc = info.get("th_fc_Adj") or info.get("fcadj")
    if fc and len(fc) == len(th1):
        for i in range(len(th1)):
            if th1[i] > info["th"][i] + 1e-12 and th1[i] > fc[i] + 0.5e-4 + 1e-9:
                res.append(V("C19", "capillary_rise", "cap", "capillary rise lifted compartment %d to %.9f above its adjusted field capacity %.9f" % (i, th1[i], fc[i])))
                break
    return res


def ev_rainfall_partition(info, out):
    P = info.get("rain", info.get("P"))
    if P is None or P < 0:
        return []
    r = Rd(out[1:]); ro = r.f(); infl = r.f()
    res = []
    if abs(ro + infl - P) > TOL:
        res.append(V("C02", "rainfall_partition", "split", "runoff %.9f + infiltration %.9f != rain %.9f" % (ro, infl, P)))
    if ro < -TOL or ro > P + TOL:
        res.append(V("C02", "rainfall_partition", "runoff_range", "runoff %.9f outside [0, rain %.9f]" % (ro, P)))
    return res


def ev_gdd(info, out):
    r = Rd(out[1:] if out and out[0] == "S" else out)
    try:
        g = r.f()
    except Exception:
        return []
    tupp, tbase = info.get("Tupp"), info.get("Tbase")
    if tupp is None or tbase is None or not tbase <= tupp:
        return []
    if g < -1e-12 or g > tupp - tbase + 1e-12:
        return [V("C05", "growing_degree_day", "range", "daily growing degree days %.9f outside [0, Tupp - Tbase = %.6f] (method %s, Tmax %.3f, Tmin %.3f)" % (g, tupp - tbase, info.get("method"), info.get("tmax", float("nan")), info.get("tmin", float("nan"))))]
    return []


def ev_evaporation(info, out):
    p = info["prof"]
    if not (prof_ok(p) and in_bounds(p, info["th"]) and info.get("surf", 0) >= 0 and info.get("et0", 0) >= 0 and "malformed" not in " ".join(info.get("tags", []))):
        return []
    r = Rd(out[1:]); epot = r.f(); th1 = r.fl(); r.b(); r.f(); r.f(); surf1 = r.f(); r.f(); es = r.f(); espot = r.f()
    res = []
    lhs = sto(p["dz"], th1) + surf1 + es; rhs = sto(p["dz"], info["th"]) + info["surf"]
    if abs(lhs - rhs) > TOL:
        res.append(V("C01", "soil_evaporation", "balance", "storage' + ponding' + Es = %.9f but storage + ponding = %.9f (difference %.6g mm)" % (lhs, rhs, lhs - rhs)))
    ranges_ok = info.get("kex", 0) >= 0 and 0 <= info.get("fwcc", 0) <= 100 and 0 <= info.get("ccxw", 0) <= 1 and 0 <= info.get("fmulch", 0) <= 1 \
        and 0 <= info.get("mulchpct", 0) <= 100 and info.get("wetsurf", 0) >= 0
    if ranges_ok and espot < -1e-12:
        res.append(V("C04", "soil_evaporation", "espot_sign", "potential soil evaporation %.9g < 0 (canopy %.4f, adjusted %.4f)" % (espot, info.get("cc", 0), info.get("ccadj", 0))))
    if espot >= 0 and (es < -TOL or es > espot + TOL):
        res.append(V("C04", "soil_evaporation", "es_le_pot", "actual soil evaporation %.9g outside [0, potential %.9g]" % (es, espot)))
    bad = oob(p, th1)
    if bad:
        res.append(V("C03", "soil_evaporation", "bounds", "water content outside [th_dry, th_s] after evaporation: compartment %d = %.9f" % bad[0]))
    if surf1 < -TOL or surf1 > info["surf"] + TOL:
        res.append(V("C03", "soil_evaporation", "ponding", "ponded water %.9g after evaporation (was %.9g)" % (surf1, info["surf"])))
    return res


def ev_transpiration(info, out):
    p = info["prof"]; st = info.get("state", {})
    if info.get("kind") == "malformed" or not (prof_ok(p) and "th" in st and in_bounds(p, st["th"]) and st.get("surface_storage", 0) >= 0):
        return []
    r = Rd(out[1:]); tr = r.f(); trpot_ns = r.f(); trpot = r.f(); irrnet = r.f()
    r.f(); r.f(); r.f(); surf1 = r.f(); r.f(); r.fl(); th1 = r.fl()
    res = []
    lhs = sto(p["dz"], th1) + surf1 + tr; rhs = sto(p["dz"], st["th"]) + st["surface_storage"] + irrnet
    if abs(lhs - rhs) > TOL:
        res.append(V("C01", "transpiration", "balance", "storage' + ponding' + Tr = %.9f but storage + ponding + IrrNet = %.9f (difference %.6g mm)" % (lhs, rhs, lhs - rhs)))
    if not info.get("gs") and (tr != 0 or trpot != 0):
        res.append(V("C04", "transpiration", "off_season", "transpiration %.9g / potential %.9g outside the growing season" % (tr, trpot)))
    if trpot >= 0 and (tr < -TOL or tr > trpot + TOL):
        res.append(V("C04", "transpiration", "tr_le_pot", "actual transpiration %.9g outside [0, potential %.9g]" % (tr, trpot)))
    if info.get("et0", 0) >= 0 and st.get("canopy_cover_adj", 0) >= 0 and info.get("gs") and trpot < -1e-9 and float(info.get("crop", {}).get("fage", 0)) * 0 == 0:
        age = max(float(st.get("dap", 0)) - float(st.get("delayed_cds", 0)) - float(info.get("crop", {}).get("MaxCanopyCD", 0)), 0)
        if (age - 5) * float(info.get("crop", {}).get("fage", 0)) / 100.0 <= float(info.get("crop", {}).get("Kcb", 1)):      # inside the domain of trpot_nonneg
            res.append(V("C04", "transpiration", "trpot_sign", "potential transpiration %.9g < 0" % trpot))
    bad = oob(p, th1)
    if bad and float(info.get("crop", {}).get("LagAer", 3)) > 1:
        res.append(V("C03", "transpiration", "bounds", "water content outside [th_dry, th_s] after transpiration: compartment %d = %.9f" % bad[0]))
    return res


def _dnum(sdate):
    import datetime
    y, m, d = [int(x) for x in sdate.split("/")]
    return datetime.date(y, m, d).toordinal()


def ev_schedule(info, out):
    """C13: the per-day schedule is the scheduled depth on scheduled dates of the window and 0 on every other day"""
    if info.get("method") != 3:
        return []
    dates = [_dnum(d) for d in info["dates"]]; depths = info["depths"]
    if len(set(dates)) != len(dates):
        return []           # duplicate dates: the code rejects them
    s0, e0 = _dnum(info["s"]), _dnum(info["e"])
    r = Rd(out[1:]); got = r.fl()
    want = [0.0] * (e0 - s0 + 1)
    for d, x in zip(dates, depths):
        if s0 <= d <= e0:
            want[d - s0] = float(x)
    if len(got) != len(want):
        return [V("C13", "schedule", "length", "per-day schedule has %d entries for a window of %d days" % (len(got), len(want)))]
    for i, (a, b) in enumerate(zip(got, want)):
        if a != b:
            return [V("C13", "schedule", "exact", "day %d of the window (%s + %d d): scheduled depth %r but the per-day schedule holds %r (schedule %r)" % (i, info["s"], i, b, a, list(zip(info["dates"], depths))[:8]))]
    return []


def ev_gw_series(info, out):
    """C19: the daily water-table depth follows the observations: held constant from each observation on (Constant), linearly
    interpolated by date between observations and held before the first / after the last (Variable)"""
    if not info.get("present") or info.get("method") not in ("Constant", "Variable") or len(info["dates"]) == 0:
        return []
    dates = [_dnum(d) for d in info["dates"]]; vals = [float(v) for v in info["values"]]
    if len(set(dates)) != len(dates) or dates != sorted(dates):
        return []
    s0, e0 = _dnum(info["s"]), _dnum(info["e"])
    r = Rd(out[1:]); z = r.fl()
    if len(z) != e0 - s0 + 1:
        return [V("C19", "gw", "length", "daily water-table series has %d entries for a window of %d days" % (len(z), e0 - s0 + 1))]
    for i in range(len(z)):
        d = s0 + i
        if info["method"] == "Constant":
            prev = [v for dd, v in zip(dates, vals) if dd <= d]
            want = prev[-1] if prev else vals[0]
        else:
            if d <= dates[0]: want = vals[0]
            elif d >= dates[-1]: want = vals[-1]
            else:
                k = max(j for j in range(len(dates)) if dates[j] <= d)
                want = vals[k] + (vals[k + 1] - vals[k]) * (d - dates[k]) / (dates[k + 1] - dates[k])
        if not (abs(z[i] - want) <= 1e-9 * max(1.0, abs(want))):
            return [V("C19", "gw", "series_" + info["method"].lower(), "day %d of the window: water-table depth %.9g, the observations %r (%s) give %.9g" % (i, z[i], list(zip(info["dates"], vals)), info["method"], want))]
    return []


def ev_fco2(info, out):
    """C17: the CO2 productivity factor is 1 at the reference concentration and non-decreasing in concentration, hence
    >= 1 above the reference and <= 1 below it"""
    try:
        f = unhx(out[0] if out[0] != "S" else out[1])
    except Exception:
        return []
    conc, ref = info.get("conc"), info.get("ref")
    if conc is None or ref is None or not (250 <= conc <= 2500):
        return []
    if conc == ref and f != 1.0:
        return [V("C17", "fco2", "one_at_reference", "fCO2 = %.9g at the reference concentration %.3f ppm (crop %s)" % (f, ref, info.get("crop")))]
    if conc > ref and f < 1.0 - 1e-12:
        return [V("C17", "fco2", "monotone", "fCO2 = %.9g < 1 at %.3f ppm, above the reference %.3f ppm where it is 1 (crop %s): not non-decreasing" % (f, conc, ref, info.get("crop")))]
    if conc < ref and f > 1.0 + 1e-12:
        return [V("C17", "fco2", "monotone", "fCO2 = %.9g > 1 at %.3f ppm, below the reference %.3f ppm where it is 1 (crop %s): not non-decreasing" % (f, conc, ref, info.get("crop")))]
    return []


EVAL = {
    "infiltration": ev_infiltration, "drainage": ev_drainage, "groundwater_inflow": ev_gw_inflow,
    "check_groundwater_table": ev_check_gw, "capillary_rise": ev_capillary, "rainfall_partition": ev_rainfall_partition,
    "growing_degree_day": ev_gdd, "schedule": ev_schedule, "gw": ev_gw_series, "fco2": ev_fco2,
    "soil_evaporation": ev_evaporation, "transpiration": ev_transpiration,
}


def evaluate(pid, suites, limit=400):
    """local statements of property pid (and only of pid) on the disagreeing inputs of the function-level suites"""
    viols = []; looked = 0; by_fn = {}
    for s in suites:
        for m in s.get("mismatches_all", s.get("mismatches", []))[:limit]:
            fn = m.get("fn"); info = m.get("info"); impl = m.get("impl")
            if fn not in EVAL or not isinstance(info, dict) or not impl or (impl[0] != "S" and fn != "fco2") or m.get("kind") == "malformed":
                continue
            looked += 1; by_fn[fn] = by_fn.get(fn, 0) + 1
            try:
                vs = EVAL[fn](info, impl)
            except Exception:
                continue
            for v in vs:
                if v["pid"] == pid:
                    viols.append({"key": v["key"], "what": v["what"] + " [implementation output on a generated valid input on which the model and the implementation disagree]",
                                  "kind": "function", "fn": fn, "info": info, "impl_out": impl})
    # one representative per rule
    seen = set(); out = []
    for v in viols:
        if v["key"] not in seen:
            seen.add(v["key"]); out.append(v)
    return {"violations": out, "coverage": {"disagreeing_inputs_examined": looked, "by_function": by_fn, "local_statement_failures": len(viols)}}


# ---- replay of a function-level violation against /repo's current code ---------------------------------------------
def _mkprof(pi, info):
    import numpy as np
    from aquacrop.entities.soilProfile import SoilProfile
    n = len(pi["dz"])
    p = SoilProfile(n)
    p.dz = np.array(pi["dz"], dtype=float)
    p.dzsum = np.array(info["dzsum"], dtype=float) if "dzsum" in info else np.cumsum(p.dz).round(2)
    p.zBot = p.dzsum.copy(); p.z_top = p.zBot - p.dz; p.zMid = (p.z_top + p.zBot) / 2
    p.Comp = np.arange(n, dtype=np.int64); p.Layer = np.array(pi["layer"], dtype=np.int64)
    for i in range(n):
        p.th_wp[i] = pi["th_wp"][i]; p.th_fc[i] = pi["th_fc"][i]; p.th_s[i] = pi["th_s"][i]; p.th_dry[i] = pi["th_wp"][i] / 2
        p.Ksat[i] = pi["Ksat"][i]; p.tau[i] = pi["tau"][i]; p.Penetrability[i] = 100
    p.th_fc_Adj = p.th_fc.copy()
    if "aCR" in info:
        p.aCR = np.array(info["aCR"], dtype=float); p.bCR = np.array(info["bCR"], dtype=float)
    return p


def rerun(fn, info):
    """call /repo's function on the recorded input; returns the implementation's output tokens in the suite's layout"""
    import types
    import numpy as np
    from common import hx, tl, tb, install_libm_proxy
    install_libm_proxy()
    A = lambda x: np.array(x, dtype=float)
    if fn == "infiltration":
        from aquacrop.solution.infiltration import infiltration
        p = _mkprof(info["prof"], info)
        r = infiltration(p, info["surf"], A(info["fcadj"]), A(info["th"]), info["infl"], info["irr"], info["eff"], info["bunds"], info["zbund"],
                         A(info["flux"]), info["dp0"], info["ro0"], info["gs"])
        return ["S"] + tl(r[0]).split() + [hx(r[1]), hx(r[2]), hx(r[3]), hx(r[4])] + tl(r[5]).split()
    if fn == "drainage":
        from aquacrop.solution.drainage import drainage
        p = _mkprof(info["prof"], info)
        r = drainage(p, A(info["th"]), A(info["fcadj"]))
        return ["S"] + tl(r[0]).split() + [hx(r[1])] + tl(r[2]).split()
    if fn == "groundwater_inflow":
        from aquacrop.solution.groundwater_inflow import groundwater_inflow
        p = _mkprof(info["prof"], info)
        nc = types.SimpleNamespace(th=A(info["th"]), wt_in_soil=info["wt_in_soil"], z_gw=np.float64(info["z_gw"]))
        nc2, g = groundwater_inflow(p, nc)
        return ["S"] + tl(nc2.th).split() + [hx(g)]
    if fn == "check_groundwater_table":
        from aquacrop.solution.check_groundwater_table import check_groundwater_table
        p = _mkprof(info["prof"], info)
        fc, wts, z = check_groundwater_table(p, np.float64(0.0), None, A(info["fc0"]), info["wt"], np.float64(info["z_gw"]))
        return ["S"] + tl(fc).split() + (["N"] if wts is None else ["S", tb(wts), hx(z)])
    if fn == "capillary_rise":
        from aquacrop.solution.capillary_rise import capillary_rise
        p = _mkprof(info["prof"], info)
        nc = types.SimpleNamespace(th=A(info["th"]), th_fc_Adj=A(info["th_fc_Adj"]), z_gw=np.float64(info["z_gw"]))
        nc2, cr = capillary_rise(p, info["nLayer"], info["fshape_cr"], nc, A(info["FluxOut"]), info["wt"])
        return ["S"] + tl(nc2.th).split() + [hx(cr)]
    if fn == "rainfall_partition":
        from aquacrop.solution.rainfall_partition import rainfall_partition
        p = _mkprof(info["prof"], info)
        ro, infl, ds = rainfall_partition(info["P"], A(info["th"]), info["daysub"], info["srinhb"], info["bunds"], info["zbund"], info["pct"],
                                          info["cn"], info["adj_cn"], info["z_cn"], info["ncomp"], p)
        return ["S", hx(ro), hx(infl), str(int(ds))]
    if fn == "growing_degree_day":
        from aquacrop.solution.growing_degree_day import growing_degree_day
        return ["S", hx(growing_degree_day(info["method"], info["Tupp"], info["Tbase"], info["tmax"], info["tmin"]))]
    if fn in ("schedule", "gw"):
        import pandas as pd
        from suites import inputs as I
        s0, e0 = I.day(pd.Timestamp(info["s"])), I.day(pd.Timestamp(info["e"]))
        I.set_mode(True)
        if fn == "schedule":
            from aquacrop.entities.irrigationManagement import IrrigationManagement
            mk = lambda dd, xx: pd.DataFrame({"Date": pd.DatetimeIndex([pd.Timestamp(d) for d in dd]), "Depth": np.array(xx, dtype=float)})
            irr = IrrigationManagement(3, Schedule=mk(info["dates"], info["depths"]), MaxIrr=100.0)
            if info.get("prehistory"):
                irr.Schedule = mk(*info["prehistory"])
                try:
                    m0 = I.make_model(s0, e0, I.good_weather(s0, e0), irrigation_management=irr); m0._initialize()
                except Exception:
                    pass
                irr.Schedule = mk(info["dates"], info["depths"])
            m = I.make_model(s0, e0, I.good_weather(s0, e0), irrigation_management=irr); m._initialize()
            return ["S"] + tl(m._param_struct.IrrMngt.Schedule).split()
        from aquacrop.entities.groundWater import GroundWater
        gw = GroundWater("Y", info["method"], list(info["dates"]), list(info["values"]))
        if info.get("prehistory"):
            gw.dates, gw.values = list(info["prehistory"][0]), list(info["prehistory"][1])
            try:
                m0 = I.make_model(s0, e0, I.good_weather(s0, e0), groundwater=gw); m0._initialize()
            except Exception:
                pass
            gw.dates, gw.values = list(info["dates"]), list(info["values"])
        m = I.make_model(s0, e0, I.good_weather(s0, e0), groundwater=gw); m._initialize()
        return ["S"] + tl(np.asarray(m._param_struct.z_gw, dtype=float)).split()
    if fn == "fco2":
        from suites import fco2 as F
        r = F._job((info["crop"], info["conc"], "champion_climate.txt", "1985/05/01", "1986/12/30", info["ref"]))
        return [hx(r["fCO2"])] if r.get("ok") else ["N"]
    raise KeyError(fn)


def replay(pid, v):
    """True iff the local statement still fails on /repo's current code for the recorded input"""
    fn = v.get("fn"); info = v.get("info")
    try:
        out = rerun(fn, info)
    except Exception:
        return True        # the function now raises on a valid input
    return any(x["pid"] == pid and x["key"] == v.get("key") for x in EVAL[fn](info, out))
