#!/venv/bin/python
"""writes MANIFEST.json from the per-property metadata below (kept in one place so it stays valid)."""
import json, os
VERIF = os.path.dirname(os.path.dirname(os.path.abspath(__file__)))
NOTE = ("Trusted: Coq 8.16.1 kernel (coqc; thorough tier adds coqchk); axioms reported by Print Assumptions = Coq's Reals axioms "
        "(ClassicalDedekindReals.sig_not_dec, sig_forall_dec, FunctionalExtensionality.functional_extensionality_dep, Classical_Prop.classic) where a theorem is over R, "
        "FloatAxioms.* (primitive-float specification, Coq stdlib) only through the interval tactic in the texture-box lemmas (C16/C18), none for the Z/list/bool theorems; "
        "hand-written Gallina model generic in the number type, tied to /repo on every run by bit-exact correspondence (extracted OCaml with ExtrOcamlBasic only — no Extract Constant — "
        "float instance and token protocol in coq/ocaml/drvlib.ml, libm proxy for np.exp/log/log10/power installed by the harness) and, for source-level facts, by the fail-closed ast translator harness/gen_facts.py; "
        "theorems over R are about exact real arithmetic (IEEE rounding, NaN/inf outside them). Property theorem statements are pinned in coq/theories/Properties/*.v. See DESIGN.md sections 9 and 14.")
T = "Coq proof (kernel-checked theorems on a Gallina model) + bit-exact extracted-model correspondence + implementation-side monitor for the replay"
CHECKS = {
 "C01": ("Per-process conservation theorems over exact reals for profiles of any length (drainage, infiltration incl. the back-up loop, evaporation, transpiration, capillary rise with its rounding allowance, groundwater inflow, pre-irrigation) and the composition theorem day_balance on the Day.v plumbing model for EVERY choice of processes: the rows written by a day close the balance. Every process model is tied bit-for-bit by its L1 suite, the plumbing by replaying real simulations day by day; carry-over between days and season resets by the reset frame theorems and the monitor.", "8 (C01), 14", T),
 "C02": ("SCS split theorem (Runoff + Infl = P, 0 <= Runoff <= P for effective curve number in (0,100], incl. the rounded antecedent-moisture adjustment cn_adjusted_le_100), surface identity Infl_rep + Runoff = P + applied irrigation for every branch of infiltration, runoff and negative-infiltration bounds (negative only without bunds and with ponded water), dry-day theorem; hypotheses needed from upstream (FluxOut <= Ksat) proved for drainage.", "8 (C02)", T),
 "C03": ("in_bounds (th_dry <= th <= th_s) is proved invariant for every water process and for the day as a whole (day_bounds), ponding within [0, bund height] and 0 without bunds, root-zone storage non-negative; the one exception is stated exactly (capillary rise may overshoot by 5e-5 when fcadj = th_s: capillary_in_bounds_refuted) and measured by the monitor.", "8 (C03)", T),
 "C04": ("Sign/order theorems per process: Irr >= 0, runoff >= 0, deep percolation >= 0, CR in [0,99], GwIn >= 0, 0 <= Es <= EsPot (EsPot >= 0 from parameter ranges), 0 <= Tr <= TrPot, exact lower bound of the net-irrigation requirement (-0.01 mm per root-zone compartment), off-season zeros by the orchestration (off_season_wiring) and by transpiration/irrigation themselves.", "8 (C04)", T),
 "C05": ("Canopy envelope as an invariant over all assignment sites of canopy_cover and any sequence of days (canopy_inv_run: 0 <= CC <= CCx, CC <= CC_ns), rooting depth range/monotonicity/water-table limit for any profile with penetrabilities in [0,100] (after the root fix), harvest-index reference monotone and <= HI0, adjusted index cap, biomass monotone, gdd range (kernel). Finiteness only as definedness of modelled operations; the YldWC = 0 catalogue defect is a listed finding.", "8 (C05)", T),
 "C06": ("Biomass-gain identity with the yield-formation factor in [WPy/100, 1], yield identities read from the row the orchestration writes, summary row = that day's values and the seasonal irrigation counter (Day.v, every Procs), exactly one summary row per harvested season in season order written on its harvest step (Clock.v invariant sums_inv, every physics).", "8 (C06)", T),
 "C07": ("Clock theorems for EVERY physics (axiom-free): rows strictly increasing in step index and carrying their own index, one day forward / jump to the next planting date, dap counting, season end at first maturity or harvest date, termination within n_steps with the stated final day; Gregorian date functions inverse and monotone for ALL integers; the season list built at initialisation has the configured planting days in consecutive years from the first one >= start and always satisfies the clock well-formedness (season_list_wf).", "8 (C07)", T),
 "C08": ("The reset assigns exactly the regenerated reset list and leaves the rest unchanged (reset_frame, reset_fields_match); every state field not reset is in a hand-justified whitelist (obligation over tables regenerated from the source on every run) and the first day of a season provably does not depend on the blanked carried fields (day1_dead, under four named per-process hypotheses). Two defects found this way were repaired (cc0_adj; earlier e_pot/t_pot, thini).", "8 (C08)", T),
 "C09": ("run_steps_add, partition_eq (every sequence of calls that finishes yields the model of one uninterrupted run), overshoot_stops, fuel-independence — for every physics, axiom-free; tied by the clock suite with random call partitions against the real run_model.", "8 (C09)", T),
 "C10": ("PARTIAL by nature: theorems over the store-site table regenerated from the source (no store on module-level objects, default-argument objects; enumerated whitelist) decide the logical core; process / hash-seed / history behaviour lives in the CPython runtime and is explored by the monitor (fresh interpreters per hash seed, A-then-B, interleaved stepping), not proved.", "8 (C10)", "Coq proof over translator-generated store-site tables + implementation-vs-implementation monitor"),
 "C11": ("Initialisation write-backs into user objects are enumerated by theorem over the regenerated store-site table; re-initialising from the written-back weather table / CO2 object / harvest date gives the same structures (init_idempotent_weather, co2_init_idempotent, default_harvest_explicit); pandas-internal state is trusted and explored by re-run / rebuild monitors.", "8 (C11)", T),
 "C12": ("No store site in aquacrop.solution/timestep is rooted at profile, soil, management, groundwater, weather or clock-date objects (enumerated exceptions), proved over the regenerated table; the reset changes only listed state fields; parameters do not occur in the result type of the day model; monitor hashes every parameter object after every step.", "8 (C12)", "Coq proof over translator-generated store-site tables + frame theorems on Day.v + per-step hash monitor"),
 "C13": ("Strategy contracts on the irrigation model: rainfed/off-season/net zero, daily and seasonal caps, interval days, schedule exactness (with the re-indexing spec of the dated schedule), constant depth, threshold iff and amount, as the code computes them; 18+4 theorems.", "8 (C13)", T),
 "C14": ("prefix_causal for every physics: weather changed from day t on cannot change a row or summary row before t when the reset does not read the weather (regenerated fact: only under CalendarType == 2); binding depends only on rows inside the window; monitor perturbs, clips, extends.", "8 (C14)", T),
 "C15": ("bind_perm / bind_extra_col / bind_reindex / bind_extra_rows / bind_by_date for every number type (axiom-free) on the table model of read_weather_inputs + matrix construction; suite covers all 120 column permutations; the positional-binding defect was repaired earlier.", "8 (C15)", T),
 "C16": ("PARTIAL by nature: catalogue obligations over the regenerated crop table, exact classification of initialisation rejections, termination of run loop and profile deepening, definedness of every process model under well-formedness are proved; NaN/inf propagation and library exceptions are explored by the catalogue-sweep monitor only. Open findings listed in known_findings.txt.", "8 (C16)", "Coq proof (definedness, termination, catalogue obligations) + catalogue-sweep monitor"),
 "C17": ("Theorems over exact reals for all 37 regenerated catalogue rows and ALL real arguments: water-stress coefficients in [0,1] and antitone in depletion, heat/cold coefficients in [0,1] and monotone, GDD range/monotone (3 methods), canopy growth/decline curves monotone within [0,CCx], cc_required_time inverts the growth curve, fCO2 = 1 at reference and monotone.", "8 (C17)", "Coq proof over R + catalogue obligation by vm_compute + bit-exact extracted-model correspondence"),
 "C18": ("build_wf (well-formed profile from valid layers), geometry for whole-centimetre thickness lists, layer contiguity, deepening spec incl. unconditional termination, initial water content = independent specification (Layer and Depth methods), texture ordering on five boxes (interval); refuted parts stated (stale zBot/zMid after deepening: open finding; texture corners).", "8 (C18)", T),
 "C19": ("fcadj range/far/pointwise, inflow post-condition (saturated below the table), capillary cap and CR <= 99, balance with rounding allowance, no-table zeros, and the daily series spec (step function / interpolation by date, first/last held) after the series fix.", "8 (C19)", T),
 "C20": ("Two-configuration equalities on the process models: mulch off/neutral, bund height without bunds, other-strategy parameters per method, neutral irrigation settings give request 0, efficiency without irrigation, explicit default harvest date = None; the curve-number flag gating is plumbing tied by the day replay.", "8 (C20)", T),
}
def main():
    props = [json.loads(l) for l in open(os.path.join(VERIF, "properties.jsonl"))]
    checks = []
    na = []
    for p in props:
        pid = p["id"]
        if pid in CHECKS:
            text, ref, tech = CHECKS[pid]
            checks.append({"property_id": pid, "quick_cmd": "./check %s --tier quick" % pid,
                           "thorough_cmd": "./check %s --tier thorough" % pid,
                           "evidence_file": "evidence/%s.json" % pid,
                           "replay_cmd_template": "./check %s --replay {path}" % pid,
                           "engine": "coq-proof+correspondence",
                           "level_claimed": {"category": "proof", "text": text, "design_ref": "DESIGN.md section " + ref},
                           "level_note": NOTE, "technique": tech})
        else:
            na.append({"property_id": pid, "reason": "not claimed"})
    m = {"version": 1, "setup_cmd": "./setup.sh",
         "hooks": {"guard": "AQUACROP_VERIF", "enable": "no source hooks: the harness observes /repo by rebinding names in module namespaces; nothing to enable",
                   "baseline_off_cmd": "cd /repo && /venv/bin/python -m pytest -ra -q -p no:cacheprovider --timeout=900 --continue-on-collection-errors",
                   "source_commits": [], "add_only": True},
         "engines": [{"name": "coq-proof+correspondence", "path": "coq/ harness/", "serves_properties": sorted(CHECKS),
                      "kind_free_text": "Coq 8.16 theorems over a hand-written Gallina model generic in the number type; extracted OCaml run bit-for-bit against the Python implementation; tables generated from the source by an ast translator; implementation-side monitors for replay search"}],
         "checks": checks, "not_applicable": na,
         "notes": "Every check: regenerate facts from /repo, make the Coq development, re-check Properties/Cnn*.v with Print Assumptions, run the correspondence suites, run the monitor, decide. Known findings: known_findings.txt."}
    with open(os.path.join(VERIF, "MANIFEST.json"), "w") as f:
        json.dump(m, f, indent=1)
if __name__ == "__main__":
    main()
