#!/venv/bin/python
"""writes MANIFEST.json from the per-property metadata below (kept in one place so it stays valid)."""
import json, os
VERIF = os.path.dirname(os.path.dirname(os.path.abspath(__file__)))
NOTE = ("Trusted: Coq 8.16.1 kernel; Coq Reals axioms (sig_not_dec, sig_forall_dec, functional_extensionality_dep, classic) where the theorem is over R; "
        "hand-written Gallina model tied to /repo by bit-exact correspondence (extracted OCaml, ExtrOcamlBasic only, float record in coq/ocaml/drvlib.ml, libm proxy for np.exp/log/log10/power); "
        "generated facts by harness/gen_facts.py (ast); exact-real idealisation of float arithmetic. See DESIGN.md section 9.")
CHECKS = {
 "C17": ("Theorems over exact reals for all 37 regenerated catalogue rows and ALL real arguments: water-stress coefficients in [0,1] and antitone in depletion, "
         "heat/cold coefficients in [0,1] and monotone, GDD range/monotone (3 methods), canopy growth/decline curves monotone within [0,CCx], "
         "cc_required_time inverts the growth curve, fCO2 = 1 at reference and monotone. Model tied to the code by bit-exact L1 (14k cases quick) and fCO2 via real initialisation; "
         "a lattice monitor on the implementation supplies the failing input.", "8 (C17)",
         "Coq proof over R + catalogue obligation by vm_compute + bit-exact extracted-model correspondence"),
}
NOT_YET = {}
def main():
    props = [json.loads(l) for l in open(os.path.join(VERIF, "properties.jsonl"))]
    checks = []
    na = []
    for p in props:
        pid = p["id"]
        if pid in CHECKS:
            text, ref, tech = CHECKS[pid]
            checks.append({"property_id": pid, "quick_cmd": "./check %s --tier quick" % pid,
                           "thorough_cmd": "./check %s --tier thorough" % pid,
                           "evidence_file": "evidence/%s.json" % pid,
                           "replay_cmd_template": "./check %s --replay {path}" % pid,
                           "engine": "coq-proof+correspondence",
                           "level_claimed": {"category": "proof", "text": text, "design_ref": "DESIGN.md section " + ref},
                           "level_note": NOTE, "technique": tech})
        else:
            na.append({"property_id": pid, "reason": NOT_YET.get(pid, "not yet claimed: model/theorems for this property are still being built in this development (see DESIGN.md section 8); the technique applies")})
    m = {"version": 1, "setup_cmd": "./setup.sh",
         "hooks": {"guard": "AQUACROP_VERIF", "enable": "no source hooks: the harness observes /repo by rebinding names in module namespaces; nothing to enable",
                   "baseline_off_cmd": "cd /repo && /venv/bin/python -m pytest -ra -q -p no:cacheprovider --timeout=900 --continue-on-collection-errors",
                   "source_commits": [], "add_only": True},
         "engines": [{"name": "coq-proof+correspondence", "path": "coq/ harness/", "serves_properties": sorted(CHECKS),
                      "kind_free_text": "Coq 8.16 theorems over a hand-written Gallina model generic in the number type; extracted OCaml run bit-for-bit against the Python implementation; generated catalogue facts; implementation-side monitors for replay search"}],
         "checks": checks, "not_applicable": na,
         "notes": "Every check: regenerate facts from /repo, make the Coq development, re-check Properties/Cnn.v with Print Assumptions, run the correspondence suites, run the monitor, decide. Known findings: known_findings.txt."}
    with open(os.path.join(VERIF, "MANIFEST.json"), "w") as f:
        json.dump(m, f, indent=1)
if __name__ == "__main__":
    main()
