"""monitors.py — the properties' statements evaluated directly on the implementation (search /
replay side of every check; never stands in for a theorem).  Each check_Cnn(tr) takes a trace
(trace.trace_run) and returns a list of violations {key, what, kind, ...}."""
import math
import numpy as np
import pandas as pd
from common import *
import sim, trace

TOL = 1e-6


def V(key, what, cfg=None, **kw):
    d = {"key": key, "what": what, "kind": "simulation"}
    d.update(kw)
    return d


def col(tr, table, name):
    cols = tr[table + "_cols"]
    return tr[table][:, cols.index(name)]


def day_rows(tr):
    """(d, flux_row, growth_row, storage_row) for every simulated step"""
    for d in tr["days"]:
        t = d["tsc"]
        yield d, tr["flux"][t], tr["growth"][t], tr["storage"][t]


FL = {n: i for i, n in enumerate(["time_step_counter", "season_counter", "dap", "Wr", "z_gw", "surface_storage", "IrrDay", "Infl",
                                  "Runoff", "DeepPerc", "CR", "GwIn", "Es", "EsPot", "Tr", "TrPot"])}
GR = {n: i for i, n in enumerate(["time_step_counter", "season_counter", "dap", "gdd", "gdd_cum", "z_root", "canopy_cover",
                                  "canopy_cover_ns", "biomass", "biomass_ns", "harvest_index", "harvest_index_adj", "DryYield",
                                  "FreshYield", "YieldPot"])}


def active_field(tr, gs):
    return tr["init"]["field"] if gs else tr["init"]["fallow_field"]


# ------------------------------------------------------------------------------------------
def check_C01(tr):
    out = []
    init = tr["init"]; dz = init["prof"]["dz"]
    method = init["irr"]["irrigation_method"]
    prof_m = float(np.sum(dz))
    prev = None
    for d, f, g, s in day_rows(tr):
        t = d["tsc"]
        gs = bool(s[1])
        S0 = float(np.sum(d["th_pre"] * dz) * 1000) + d["surf_pre"]
        S1 = float(np.sum(s[3:] * dz) * 1000) + float(f[FL["surface_storage"]])
        irr_add = float(f[FL["IrrDay"]]) if (method == 4 and gs) else 0.0
        rhs = f[FL["Infl"]] + irr_add + f[FL["CR"]] + f[FL["GwIn"]] - f[FL["DeepPerc"]] - f[FL["Es"]] - f[FL["Tr"]]
        allow = TOL + (0.05 * prof_m + 1e-9 if f[FL["CR"]] != 0 or any(l[0] == "capillary_rise" and abs(l[2] - l[1]) > 0 for l in d["ledger"]) else 0.0)
        if not abs((S1 - S0) - rhs) <= allow:
            # which process leaks?
            proc = None
            for nm, a, b, fl in d["ledger"]:
                exp = {"pre_irrigation": fl.get("PreIrr", 0), "drainage": -fl.get("DeepPerc", 0),
                       "capillary_rise": fl.get("CR", 0), "soil_evaporation": -fl.get("Es", 0),
                       "transpiration": -fl.get("Tr", 0) + fl.get("IrrNet", 0), "groundwater_inflow": fl.get("GwIn", 0)}.get(nm)
                if nm == "infiltration":
                    exp = (max(fl["Infl_in"], 0) + (fl["Irr"] * fl["eff"] / 100 if fl["gs"] else 0)) - (fl["DeepPerc"] - fl["DeepPerc0"]) - (fl["Runoff"] - fl["Runoff0"])
                if exp is not None and abs((b - a) - exp) > (TOL if nm != "capillary_rise" else allow):
                    proc = nm; break
            out.append(V("C01:day_balance:%s" % (proc or "row"), "daily water balance does not close: dS=%.9g, fluxes=%.9g (diff %.3g mm) on step %d" % (S1 - S0, rhs, (S1 - S0) - rhs, t), step=t, process=proc))
            if len(out) > 3: break
        # carry-over
        if prev is not None:
            pd_, pf, ps = prev
            reset = (d["season"] != pd_["season"]) and (not init["off_season"])
            if reset:
                exp_th = init["th0"]; exp_surf = None
            else:
                exp_th = ps[3:]; exp_surf = float(pf[FL["surface_storage"]])
            if not np.allclose(d["th_pre"], exp_th, rtol=0, atol=1e-12):
                out.append(V("C01:carry_over:%s" % ("reset" if reset else "day"), "water content entering step %d differs from %s (max diff %.3g)" % (
                    t, "the configured initial content" if reset else "that leaving the previous step", float(np.max(np.abs(d["th_pre"] - exp_th)))), step=t))
                if len(out) > 3: break
            if exp_surf is not None and abs(d["surf_pre"] - exp_surf) > 1e-12:
                out.append(V("C01:carry_over:surf", "ponded water entering step %d differs from that leaving the previous step" % t, step=t))
        prev = (d, f, s)
    return out


def eff_cn_ok(tr):
    i = tr["init"]
    for fm in (i["field"], i["fallow_field"]):
        if i["soil"]["cn"] * (1 + fm["curve_number_adj_pct"] / 100.0) > 100:
            return False
    return True


def check_C02(tr):
    out = []
    if not eff_cn_ok(tr):
        return out
    init = tr["init"]; method = init["irr"]["irrigation_method"]; eff = float(init["irr"]["AppEff"])
    W = init["weather"]
    prev_zb = None
    for d, f, g, s in day_rows(tr):
        t = d["tsc"]; gs = bool(s[1])
        P = float(W[t, 2])
        irr = float(f[FL["IrrDay"]]) if (gs and method != 4) else 0.0
        app = irr * eff / 100.0
        infl = float(f[FL["Infl"]]); ro = float(f[FL["Runoff"]])
        if abs((infl + ro) - (P + app)) > TOL:
            out.append(V("C02:partition", "Infl+Runoff=%.9g but rain+applied irrigation=%.9g on step %d" % (infl + ro, P + app, t), step=t))
        if ro < -TOL or ro > P + app + d["surf_pre"] + TOL:
            out.append(V("C02:runoff_bounds", "Runoff=%.9g outside [0, P+Irr+ponded=%.9g] on step %d" % (ro, P + app + d["surf_pre"], t), step=t))
        fm = active_field(tr, gs)
        bunds_on = bool(fm["bunds"]) and fm["z_bund"] > 0.001
        zb = float(fm["z_bund"]) * 1000.0 if bunds_on else 0.0        # height of the bunds in force today (mm)
        if infl < -TOL:
            # negative only on the day the bunds are removed — or replaced by LOWER ones (the fallow management may have its own, lower
            # bunds: the water ponded above the new height is released the same way) — and then by no more than the ponded water
            lowered = prev_zb is not None and zb < prev_zb - 1e-9
            if not lowered:
                out.append(V("C02:infl_negative" if bunds_on else "C02:infl_negative_no_bunds_removed",
                             "Infl=%.9g negative on step %d although the bunds in force were neither removed nor lowered since the previous simulated day "
                             "(height %.6g mm, before %s; ponded %.9g at the start of the day)" % (infl, t, zb, "%.6g mm" % prev_zb if prev_zb is not None else "n/a", d["surf_pre"]), step=t))
            elif d["surf_pre"] <= 0 or infl < -d["surf_pre"] - TOL:
                out.append(V("C02:infl_negative", "Infl=%.9g negative beyond the ponded water %.9g on step %d" % (infl, d["surf_pre"], t), step=t))
        prev_zb = zb
        if P == 0 and app == 0 and d["surf_pre"] == 0 and (abs(infl) > 0 or abs(ro) > 0):
            out.append(V("C02:dry_day", "dry day with nothing ponded has Infl=%.9g Runoff=%.9g on step %d" % (infl, ro, t), step=t))
        if len(out) > 3: break
    return out


def check_C03(tr):
    out = []
    init = tr["init"]; p = init["prof"]
    if np.any(init["th0"] < p["th_wp"] - 1e-12) or np.any(init["th0"] > p["th_s"] + 1e-12):
        return out
    for d, f, g, s in day_rows(tr):
        t = d["tsc"]; gs = bool(s[1]); th = s[3:]
        lo = th < p["th_dry"] - 1e-9; hi = th > p["th_s"] + 1e-9
        if lo.any() or hi.any():
            i = int(np.argmax(lo | hi))
            out.append(V("C03:th_bounds:%s" % ("low" if lo.any() else "high"), "th[%d]=%.9g outside [th_dry=%.4g, th_s=%.4g] on step %d" % (i, th[i], p["th_dry"][i], p["th_s"][i], t), step=t, comp=i))
        surf = float(f[FL["surface_storage"]])
        fm = active_field(tr, gs)
        zb = fm["z_bund"] if (fm["bunds"] and fm["z_bund"] > 0.001) else 0.0
        if surf < -1e-9 or surf > zb + 1e-9:
            out.append(V("C03:ponding", "ponded water %.9g outside [0, bund height %.9g] on step %d" % (surf, zb, t), step=t))
        if f[FL["Wr"]] < -1e-9:
            out.append(V("C03:wr_negative", "root-zone storage %.9g negative on step %d" % (f[FL["Wr"]], t), step=t))
        if len(out) > 3: break
    return out


def check_C04(tr):
    out = []
    init = tr["init"]; method = init["irr"]["irrigation_method"]; nc = len(init["prof"]["dz"])
    for d, f, g, s in day_rows(tr):
        t = d["tsc"]; gs = bool(s[1])
        for nm in ("Runoff", "DeepPerc", "CR", "GwIn", "EsPot", "Es", "TrPot", "Tr", "IrrDay"):
            lim = -1e-9
            if nm == "IrrDay" and method == 4:
                lim = -0.01 * nc - 1e-9
            if not f[FL[nm]] >= lim:
                out.append(V("C04:negative:%s" % nm, "%s=%.9g negative on step %d" % (nm, f[FL[nm]], t), step=t))
        if f[FL["Es"]] > f[FL["EsPot"]] + 1e-9:
            out.append(V("C04:es_gt_pot", "Es=%.9g exceeds EsPot=%.9g on step %d" % (f[FL["Es"]], f[FL["EsPot"]], t), step=t))
        if f[FL["Tr"]] > f[FL["TrPot"]] + 1e-9:
            out.append(V("C04:tr_gt_pot", "Tr=%.9g exceeds TrPot=%.9g on step %d" % (f[FL["Tr"]], f[FL["TrPot"]], t), step=t))
        if not gs and (f[FL["Tr"]] != 0 or f[FL["TrPot"]] != 0 or f[FL["IrrDay"]] != 0):
            out.append(V("C04:off_season", "off-season step %d has Tr=%.9g TrPot=%.9g IrrDay=%.9g" % (t, f[FL["Tr"]], f[FL["TrPot"]], f[FL["IrrDay"]]), step=t))
        if len(out) > 3: break
    return out


def check_C05(tr):
    out = []
    init = tr["init"]
    prev = None
    for d, f, g, s in day_rows(tr):
        t = d["tsc"]; gs = bool(s[1]); k = d["season"]
        if not np.all(np.isfinite(g)):
            badc = [n for n, i in GR.items() if not np.isfinite(g[i])]
            ck = init["crops_live"].get(k, init["crops"][max(k, 0)])
            tag = ":YldWC0" if (badc == ["FreshYield"] and not ck.get("YldWC")) else ""
            out.append(V("C05:nonfinite:%s%s" % ("+".join(badc), tag), "non-finite crop output %r on step %d" % (badc, t), step=t))
            break
        if gs:
            c = dict(init["crops_live"].get(k, init["crops"][k]))
            c.update(init.get("crop_user") or {})      # the configured envelope: what the user asked for
            cc, ccns = g[GR["canopy_cover"]], g[GR["canopy_cover_ns"]]
            if cc < -1e-9 or cc > c["CCx"] + 1e-9 or cc > ccns + 1e-9:
                out.append(V("C05:canopy", "canopy %.9g outside [0, CCx=%.4g] or above no-stress canopy %.9g on step %d" % (cc, c["CCx"], ccns, t), step=t))
            zr = g[GR["z_root"]]
            if zr < c["Zmin"] - 1e-9 or zr > c["Zmax"] + 1e-9:
                out.append(V("C05:root_range", "z_root %.9g outside [Zmin=%.4g, Zmax=%.4g] on step %d" % (zr, c["Zmin"], c["Zmax"], t), step=t))
            zgw = f[FL["z_gw"]]
            if init["water_table"] == 1 and zgw >= 0 and zr > max(zgw, c["Zmin"]) + 1e-9:
                out.append(V("C05:root_below_table", "z_root %.9g below the water table %.9g on step %d" % (zr, zgw, t), step=t))
            hi, hia = g[GR["harvest_index"]], g[GR["harvest_index_adj"]]
            if hi > c["HI0"] + 1e-9:
                out.append(V("C05:hi_gt_ref", "harvest index %.9g exceeds HI0=%.4g on step %d" % (hi, c["HI0"], t), step=t))
            if hia > c["HI0"] * (1 + max(c["dHI0"], 0) / 100.0) + 1e-9:
                out.append(V("C05:hiadj_cap", "adjusted harvest index %.9g exceeds HI0*(1+dHI0/100)=%.9g on step %d" % (hia, c["HI0"] * (1 + max(c["dHI0"], 0) / 100.0), t), step=t))
            gdd = g[GR["gdd"]]
            if gdd < -1e-12 or gdd > (c["Tupp"] - c["Tbase"]) + 1e-9:
                out.append(V("C05:gdd_range", "gdd %.9g outside [0, Tupp-Tbase] on step %d" % (gdd, t), step=t))
            if prev is not None and prev[0] == k and prev[1]:
                pg = prev[2]
                if g[GR["dap"]] == pg[GR["dap"]] + 1:
                    if zr < pg[GR["z_root"]] - 1e-9 and not (init["water_table"] == 1 and zgw >= 0):
                        out.append(V("C05:root_shrinks", "z_root shrinks %.9g -> %.9g without a water table on step %d" % (pg[GR["z_root"]], zr, t), step=t))
                    if hi < pg[GR["harvest_index"]] - 1e-9:
                        out.append(V("C05:hi_decreases", "harvest index decreases %.9g -> %.9g on step %d" % (pg[GR["harvest_index"]], hi, t), step=t))
                    if g[GR["biomass"]] < pg[GR["biomass"]] - 1e-9 or g[GR["gdd_cum"]] < pg[GR["gdd_cum"]] - 1e-9:
                        out.append(V("C05:biomass_decreases", "biomass or gdd_cum decreases on step %d" % t, step=t))
                    if abs(g[GR["gdd_cum"]] - (pg[GR["gdd_cum"]] + gdd)) > 1e-6:
                        out.append(V("C05:gdd_sum", "gdd_cum %.9g != previous %.9g + gdd %.9g on step %d" % (g[GR["gdd_cum"]], pg[GR["gdd_cum"]], gdd, t), step=t))
            elif g[GR["dap"]] == 1 and abs(g[GR["gdd_cum"]] - gdd) > 1e-6:
                out.append(V("C05:gdd_sum", "gdd_cum on the first day differs from gdd on step %d" % t, step=t))
        else:
            for nm in ("canopy_cover", "biomass", "DryYield", "FreshYield", "dap"):
                if g[GR[nm]] != 0:
                    out.append(V("C05:off_season_nonzero:%s" % nm, "%s=%.9g outside a growing season on step %d" % (nm, g[GR[nm]], t), step=t))
        prev = (k, gs, g)
        if len(out) > 3: break
    return out


def check_C06(tr):
    out = []
    init = tr["init"]; W = init["weather"]
    prevB = {}
    seas_irr = {}
    harvested = []
    for d, f, g, s in day_rows(tr):
        t = d["tsc"]; gs = bool(s[1]); k = d["season"]
        if gs:
            c = init["crops_live"].get(k, init["crops"][k])
            et0 = float(W[t, 3]); tr_ = float(f[FL["Tr"]])
            B = float(g[GR["biomass"]]); B0 = prevB.get(k, 0.0)
            X = c["WP"] * c["fCO2"] * tr_ / et0
            lo = X * min(1.0, c["WPy"] / 100.0); hi = X * max(1.0, c["WPy"] / 100.0)
            dB = B - B0
            if not (lo - 1e-7 * max(1, abs(X)) <= dB <= hi + 1e-7 * max(1, abs(X))):
                out.append(V("C06:biomass_gain", "biomass gain %.9g not in [%.9g, %.9g] (WP*fCO2*Tr/ET0 scaled by WPy) on step %d" % (dB, lo, hi, t), step=t))
            prevB[k] = B
            dry = B / 100 * g[GR["harvest_index_adj"]]
            if abs(g[GR["DryYield"]] - dry) > 1e-9 * max(1, abs(dry)):
                out.append(V("C06:dry_yield", "DryYield %.9g != biomass/100*HIadj %.9g on step %d" % (g[GR["DryYield"]], dry, t), step=t))
            if c["YldWC"] and np.isfinite(g[GR["FreshYield"]]):
                fresh = g[GR["DryYield"]] / (c["YldWC"] / 100.0)
                if abs(g[GR["FreshYield"]] - fresh) > 1e-9 * max(1, abs(fresh)):
                    out.append(V("C06:fresh_yield", "FreshYield %.9g != DryYield/(YldWC/100) %.9g on step %d" % (g[GR["FreshYield"]], fresh, t), step=t))
            seas_irr[k] = seas_irr.get(k, 0.0) + float(f[FL["IrrDay"]])
        pot = g[GR["biomass_ns"]] / 100 * g[GR["harvest_index"]]
        if abs(g[GR["YieldPot"]] - pot) > 1e-9 * max(1, abs(pot)):
            out.append(V("C06:yield_pot", "YieldPot %.9g != biomass_ns/100*HI %.9g on step %d" % (g[GR["YieldPot"]], pot, t), step=t))
        if len(out) > 3: break
    # summary rows
    fin = tr["final"]
    if tr["finished"]:
        seasons = [int(r[0]) for r in fin]
        if seasons != sorted(set(seasons)):
            out.append(V("C06:summary_order", "summary seasons %r not strictly increasing / duplicated" % seasons))
        # seasons that reached harvest: those with a day where crop mature/dead or harvest date
        for r in fin:
            k = int(r[0]); step = int(r[3])
            g = tr["growth"][step]; f = tr["flux"][step]
            if int(g[GR["season_counter"]]) != k:
                out.append(V("C06:summary_step", "summary row of season %d points at step %d which belongs to season %d" % (k, step, int(g[GR["season_counter"]]))))
                continue
            for j, nm in ((4, "DryYield"), (5, "FreshYield"), (6, "YieldPot")):
                a, b = float(r[j]), float(g[GR[nm]])
                if not (a == b or (a != a and b != b)):
                    out.append(V("C06:summary_value:%s" % nm, "summary %s %.12g != daily value %.12g of harvest step %d" % (nm, a, b, step)))
            exp_date = str(init["time_span"][step + 1]) if step + 1 < len(init["time_span"]) else None
            if exp_date is not None and str(pd.Timestamp(r[2])) != exp_date:
                out.append(V("C06:summary_date", "summary harvest date %s != date following harvest step (%s)" % (r[2], exp_date)))
            tot = seas_irr.get(k, 0.0)
            if abs(float(r[7]) - tot) > 1e-6 * max(1, abs(tot)):
                out.append(V("C06:seasonal_irrigation", "seasonal irrigation %.9g != sum of daily irrigation %.9g over season %d" % (float(r[7]), tot, k), season=k))
        # every season that started and saw maturity/death/harvest date must have a row
        ended = set()
        for d in tr["days"]:
            k = d["season"]
            if k >= 0 and (d["crop_mature"] or d["crop_dead"]):
                pass
        # (the flags after a reset are cleared, so presence is checked through the growth table instead)
        for k in range(init["n_seasons"]):
            rows = [r for r in tr["growth"][[d["tsc"] for d in tr["days"]]] if int(r[GR["season_counter"]]) == k]
            if not rows:
                continue
            c = init["crops_live"].get(k, init["crops"][k])
            reached = any(((c["CalendarType"] == 1 and r[GR["dap"]] >= c["Maturity"]) or (c["CalendarType"] == 2 and r[GR["gdd_cum"]] >= c["Maturity"])) for r in rows)
            if reached and k not in seasons:
                out.append(V("C06:summary_missing", "season %d reached maturity but has no summary row" % k, season=k))
    return out


def check_C07(tr):
    out = []
    init = tr["init"]; cfg = tr.get("cfg")
    ts = init["time_span"]
    steps = [d["tsc"] for d in tr["days"]]
    if steps and steps[0] != 0:
        out.append(V("C07:first_step", "first simulated step is %d" % steps[0]))
    for a, b in zip(steps, steps[1:]):
        if b <= a:
            out.append(V("C07:order", "step %d simulated after step %d" % (b, a))); break
    for d, f, g, s in day_rows(tr):
        t = d["tsc"]
        if int(f[0]) != t or int(g[0]) != t or int(s[0]) != t:
            out.append(V("C07:row_index", "row %d carries time_step_counter %d/%d/%d" % (t, int(f[0]), int(g[0]), int(s[0])), step=t)); break
        if pd.Timestamp(ts[t]) != d["date"]:
            out.append(V("C07:row_date", "step %d simulated for date %s but time_span says %s" % (t, d["date"], ts[t]), step=t)); break
    # planting dates: configured month/day of consecutive years, first one on or after the start
    if cfg is not None:
        pm, pdd = int(cfg["crop"]["planting_date"][:2]), int(cfg["crop"]["planting_date"][3:])
        start = pd.Timestamp(cfg["start"])
        y = start.year
        first = pd.Timestamp(year=y, month=pm, day=pdd)
        if first < start:
            first = pd.Timestamp(year=y + 1, month=pm, day=pdd)
        for i, p in enumerate(init["planting"]):
            exp = pd.Timestamp(year=first.year + i, month=pm, day=pdd)
            if p != exp:
                out.append(V("C07:planting_dates", "season %d planted on %s, expected %s" % (i, p, exp))); break
    # dap counting and season structure
    by_season = {}
    for d, f, g, s in day_rows(tr):
        if bool(s[1]):
            by_season.setdefault(d["season"], []).append((d["tsc"], int(s[2]), d["date"], g))
        elif int(s[2]) != 0:
            out.append(V("C07:dap_off_season", "dap=%d outside a growing season on step %d" % (int(s[2]), d["tsc"]))); break
    for k, rows in by_season.items():
        daps = [r[1] for r in rows]
        if daps != list(range(1, len(daps) + 1)):
            out.append(V("C07:dap_gap", "days after planting of season %d do not count 1,2,3,...: %r" % (k, daps[:12])))
        if rows[0][2] != init["planting"][k]:
            # a run that starts after the planting date has no season for it; otherwise day 1 is the planting date
            out.append(V("C07:season_start", "season %d starts on %s, planting date is %s" % (k, rows[0][2], init["planting"][k])))
        c = init["crops_live"].get(k, init["crops"][k])
        # season ends on the first day maturity is reached (or earlier: death / harvest date / end of run)
        def mature(r):
            g = r[3]
            return (c["CalendarType"] == 1 and g[GR["dap"]] >= c["Maturity"]) or (c["CalendarType"] == 2 and g[GR["gdd_cum"]] >= c["Maturity"])
        firstm = next((i for i, r in enumerate(rows) if mature(r)), None)
        if firstm is not None and firstm != len(rows) - 1:
            out.append(V("C07:season_end", "season %d continues %d day(s) after maturity was reached" % (k, len(rows) - 1 - firstm), season=k))
        for (t0, _, d0, _), (t1, _, d1, _) in zip(rows, rows[1:]):
            if t1 != t0 + 1:
                out.append(V("C07:season_gap", "in-season steps of season %d are not consecutive (%d -> %d)" % (k, t0, t1))); break
    # skipping
    last = steps[-1] if steps else -1
    if init["off_season"]:
        if steps != list(range(0, last + 1)):
            out.append(V("C07:skip_off_season", "a day between start and termination was skipped although the off-season is simulated"))
    else:
        sset = set(steps)
        for a, b in zip(steps, steps[1:]):
            if b != a + 1:
                # a jump must land exactly on a planting date
                if pd.Timestamp(ts[b]) not in set(init["planting"]):
                    out.append(V("C07:jump", "jump from step %d to %d does not land on a planting date" % (a, b))); break
    # termination
    if tr["finished"] and steps:
        end_ok = (last == init["n_steps"] - 2)
        fin_seasons = [int(r[0]) for r in tr["final"]]
        harvest_ok = (init["n_seasons"] - 1) in fin_seasons and int(tr["final"][-1][3]) == last
        if not (end_ok or harvest_ok):
            out.append(V("C07:termination", "run ended at step %d: neither the day before the end date (%d) nor the last season's harvest" % (last, init["n_steps"] - 2)))
    return out


def check_C13(tr):
    out = []
    init = tr["init"]; I = init["irr"]; method = I["irrigation_method"]
    maxirr = float(I["MaxIrr"]); maxseas = float(I["MaxIrrSeason"]); eff = float(I["AppEff"])
    seas_tot = {}
    sched_dates = tr.get("cfg", {}).get("irr", {}).get("schedule") if tr.get("cfg") else None
    sched = {}
    if sched_dates:
        for dt, x in sched_dates:
            sched[pd.Timestamp(dt)] = float(x)
    for d, f, g, s in day_rows(tr):
        t = d["tsc"]; gs = bool(s[1]); k = d["season"]; irr = float(f[FL["IrrDay"]]); dap = int(s[2])
        if not gs or method == 0:
            if irr != 0:
                out.append(V("C13:irrigation_when_none", "irrigation %.9g applied %s on step %d" % (irr, "outside a growing season" if not gs else "under the rainfed strategy", t), step=t))
            continue
        if method != 4:
            if irr > maxirr + 1e-9 and maxirr >= 0:
                out.append(V("C13:daily_max", "irrigation %.9g exceeds daily maximum %.9g on step %d" % (irr, maxirr, t), step=t))
            seas_tot[k] = seas_tot.get(k, 0.0) + irr
            if maxseas >= 0 and seas_tot[k] > maxseas + 1e-6:
                out.append(V("C13:season_max", "season %d total %.9g exceeds seasonal maximum %.9g on step %d" % (k, seas_tot[k], maxseas, t), step=t))
        rec = d.get("irr")
        cap_room = max(0.0, maxseas - (seas_tot.get(k, 0.0) - irr)) if method != 4 else 0
        def capped(x):
            x = max(0.0, min(maxirr, x))
            return min(x, cap_room)
        if method == 2:
            iv = int(I["IrrInterval"])
            if irr > 0 and (dap - 1) % iv != 0:
                out.append(V("C13:interval_day", "interval irrigation %.9g on day %d after planting (interval %d) on step %d" % (irr, dap, iv, t), step=t))
            if rec and (dap - 1) % iv == 0:
                exp = capped(max(0.0, rec["Depletion"]) * ((100 - eff) + 100) / 100)
                if abs(irr - exp) > 1e-9 * max(1, exp):
                    out.append(V("C13:interval_amount", "interval irrigation %.9g, expected %.9g on step %d" % (irr, exp, t), step=t))
        if method == 3:
            exp = capped(sched.get(d["date"], 0.0))
            if abs(irr - exp) > 1e-9:
                out.append(V("C13:schedule", "scheduled irrigation: applied %.9g, schedule says %.9g for %s (step %d)" % (irr, exp, d["date"].date(), t), step=t))
        if method == 5:
            exp = capped(float(I["depth"]))
            if abs(irr - exp) > 1e-9:
                out.append(V("C13:constant_depth", "constant-depth irrigation applied %.9g, expected %.9g on step %d" % (irr, exp, t), step=t))
        if method == 1 and rec:
            stage = 1 if dap == 1 else int(rec["stage_in"])
            smt = float(I["SMT"][stage - 1])
            trig = rec["TAW"] > 0 and (rec["Depletion"] / rec["TAW"] > 1 - smt / 100.0)
            exp = capped(max(0.0, rec["Depletion"]) * ((100 - eff) + 100) / 100) if trig else 0.0
            if abs(irr - exp) > 1e-9 * max(1, exp):
                out.append(V("C13:smt", "threshold irrigation applied %.9g, expected %.9g (depletion %.6g, TAW %.6g, threshold %g%%, stage %d) on step %d" % (irr, exp, rec["Depletion"], rec["TAW"], smt, stage, t), step=t))
        if method == 4:
            if rec and rec["Irr"] != 0:
                out.append(V("C13:net_surface", "net-irrigation mode applied surface irrigation %.9g on step %d" % (rec["Irr"], t), step=t))
            if irr < -0.01 * len(init["prof"]["dz"]) - 1e-9:
                out.append(V("C13:net_negative", "net irrigation requirement %.9g negative on step %d" % (irr, t), step=t))
        if len(out) > 3: break
    return out


def fcadj_expected_far(prof, z_gw):
    """True per compartment when the table is farther than Xmax below its centre"""
    res = []
    for i in range(len(prof["dz"])):
        fc = prof["th_fc"][i]
        if fc <= 0.1: X = 1.0
        elif fc >= 0.3: X = 2.0
        else: X = math.exp((2 + 0.3 * (fc - 0.1) / 0.2) * math.log(10)) / 100
        res.append(z_gw - prof["zMid"][i] >= X)
    return np.array(res)


def check_C19(tr):
    out = []
    init = tr["init"]; p = init["prof"]
    wt = init["water_table"] == 1
    for d, f, g, s in day_rows(tr):
        t = d["tsc"]; th = s[3:]
        if not wt:
            if f[FL["CR"]] != 0 or f[FL["GwIn"]] != 0:
                out.append(V("C19:no_table_flux", "capillary rise %.9g / groundwater inflow %.9g without a water table on step %d" % (f[FL["CR"]], f[FL["GwIn"]], t), step=t))
            continue
        gw = d.get("gw")
        zgw = float(init["z_gw"][t])
        if abs(f[FL["z_gw"]] - zgw) > 1e-12:
            out.append(V("C19:zgw_series", "reported water-table depth %.9g differs from the configured series %.9g on step %d" % (f[FL["z_gw"]], zgw, t), step=t))
        if gw is not None:
            fa = gw["fcadj"]
            if np.any(fa < p["th_fc"] - 1e-9) or np.any(fa > np.maximum(p["th_s"], p["th_fc"]) + 1e-9):
                i = int(np.argmax((fa < p["th_fc"] - 1e-9) | (fa > p["th_s"] + 1e-9)))
                out.append(V("C19:fcadj_range", "adjusted field capacity %.9g of compartment %d outside [th_fc=%.4g, th_s=%.4g] on step %d" % (fa[i], i, p["th_fc"][i], p["th_s"][i], t), step=t))
            far = fcadj_expected_far(p, zgw)
            # only when every compartment below is far as well (the loop exits from the bottom up)
            if far.all() and np.any(np.abs(fa - p["th_fc"]) > 1e-12):
                out.append(V("C19:fcadj_far", "adjusted field capacity differs from field capacity although the table is far below on step %d" % t, step=t))
        # centres from the thicknesses the model runs on (the property speaks of the compartment's centre); the profile's own
        # zMid array is stale after the profile was deepened (open finding of C18) - where the two disagree the violation is
        # keyed ":deepened" so that it is told apart from any other cause
        centre = np.cumsum(p["dz"]) - p["dz"] / 2
        below = centre >= zgw - 1e-12
        if below.any() and np.any(th[below] < p["th_s"][below] - 1e-9):
            i = int(np.argmax(below & (th < p["th_s"] - 1e-9)))
            stale = not (p["zMid"][i] >= zgw)
            out.append(V("C19:below_table_unsaturated" + (":deepened" if stale else ""), "compartment %d (centre %.3g m%s) lies below the table (%.3g m) but ends the day at th=%.6g < th_s=%.4g on step %d" % (i, centre[i], (", stale zMid %.3g m" % p["zMid"][i]) if stale else "", zgw, th[i], p["th_s"][i], t), step=t))
        if "th_after_cr" in d and f[FL["CR"]] > 0:
            th_cr = d["th_after_cr"]; fa = d["fcadj_at_cr"]; th_b = d["th_before_cr"]
            # only compartments that received capillary rise
            lifted = th_cr > th_b + 1e-15
            over = th_cr > fa + 5.1e-5
            if np.any(over & lifted):
                i = int(np.argmax(over & lifted))
                out.append(V("C19:cr_above_fcadj", "capillary rise lifted compartment %d to %.9g above adjusted field capacity %.9g on step %d" % (i, th_cr[i], fa[i], t), step=t))
        if len(out) > 3: break
    # series: constant / interpolated
    return out


TRACE_CHECKS = {"C01": check_C01, "C02": check_C02, "C03": check_C03, "C04": check_C04, "C05": check_C05, "C06": check_C06,
                "C07": check_C07, "C13": check_C13, "C19": check_C19}


def worker_trace(payload):
    """payload: {'cfg':..., 'props': [...]} -> {'violations': [...], 'status': ...}"""
    cfg = payload["cfg"]; props = payload["props"]
    try:
        tr = trace.trace_run(cfg)
    except Exception as e:
        return {"status": "exception", "exc": sim.exc_info(e), "cfg": cfg, "violations": []}
    tr["cfg"] = cfg
    res = []
    for p in props:
        for v in TRACE_CHECKS[p](tr):
            v["cfg"] = cfg; v["property"] = p
            res.append(v)
    st = {"status": "ok", "steps": len(tr["days"]), "seasons": len(tr["final"]), "violations": res,
          "in_season_days": int(sum(1 for d in tr["days"] if tr["storage"][d["tsc"]][1])),
          "sig": [cfg["crop"]["name"], cfg["soil"]["type"], cfg["irr"]["irrigation_method"], bool(cfg.get("gw")), bool(cfg.get("off_season"))]}
    return st
