"""monitors2.py — properties whose statement compares RUNS with each other (implementation vs implementation):
C08 season independence, C09 stepping, C10 determinism/isolation, C11 inputs not consumed, C12 parameters
read-only, C14 no look-ahead, C15 weather binding, C16 completion/finiteness, C18 soil/IWC, C20 inert settings.
Search/replay side only; never stands in for a theorem.  Every worker takes a json-able payload."""
import copy, hashlib, math, os, subprocess, sys, json
import numpy as np
import pandas as pd
from common import *
import sim
from monitors import V, FL, GR


# ------------------------------------------------------------------------------------------
def tables_of(m):
    t = sim.tables(m)
    return {k: t[k] for k in ("flux", "storage", "growth", "final")}


def same_bits(a, b):
    a = np.asarray(a, dtype=float); b = np.asarray(b, dtype=float)
    if a.shape != b.shape:
        return False
    return bool(np.all((a == b) | (np.isnan(a) & np.isnan(b))))


def first_diff(a, b, cols=None):
    a = np.asarray(a, dtype=float); b = np.asarray(b, dtype=float)
    if a.shape != b.shape:
        return "shape %r vs %r" % (a.shape, b.shape)
    bad = ~((a == b) | (np.isnan(a) & np.isnan(b)))
    idx = np.argwhere(bad)
    if len(idx) == 0:
        return None
    i, j = idx[0]
    return "row %d col %s: %.17g vs %.17g (%d cells differ)" % (i, (cols[j] if cols else j), a[i, j], b[i, j], int(bad.sum()))


def diff_tables(t1, t2, what):
    """list of strings describing bitwise differences between two table dicts"""
    out = []
    for k in ("flux", "storage", "growth"):
        d = first_diff(t1[k], t2[k])
        if d:
            out.append("%s table %s: %s" % (what, k, d))
    if json.dumps(t1["final"], default=str) != json.dumps(t2["final"], default=str):
        out.append("%s summary differs: %r vs %r" % (what, t1["final"][:2], t2["final"][:2]))
    return out


def run_cfg_tables(cfg):
    m = sim.build_model(cfg)
    m.run_model(till_termination=True)
    return m, tables_of(m)


def _guard(fn, payload):
    """implementation exceptions are C16's business: report them as status, not as violations of the other properties"""
    try:
        return fn(payload)
    except Exception as e:
        return {"status": "exception", "exc": sim.exc_info(e), "cfg": payload.get("cfg") if isinstance(payload, dict) else None, "violations": []}


# ------------------------------------------------------------------------------------------
# C09: any partition of the run into run_model(num_steps=k, initialize_model=False) calls
def _c09(payload):
    cfg, ks_list = payload["cfg"], payload["partitions"]
    m0, t0 = run_cfg_tables(cfg)
    viol = []
    n_steps_total = int(np.count_nonzero(t0["flux"][:, FL["time_step_counter"]])) + 1
    for j, ks in enumerate(ks_list):
        # every second partition is run with ACTIVITY BETWEEN THE CALLS: while the model is paused, the user builds, initialises and (every
        # other time) runs to the end ANOTHER model from the very same input objects over a window shifted by 1-3 years, and reads the
        # paused model's tables.  The paused model must not notice (it works on its own copies of the inputs).
        busy = bool(payload.get("between_all")) or j % 2 == 1
        objs = sim.build_objects(cfg)
        m = sim.AquaCropModel(**objs)
        m._initialize()
        calls = 0
        for k in ks:
            if m._clock_struct.model_is_finished:
                break
            # the "continue" flags are handed over as the literal False, as numpy.bool_ False or as 0 (what `k == 0` on a numpy integer, or a
            # flag column of a scenario table, gives): all mean "do not re-initialise"
            no = (False, np.False_, 0)[(j + calls) % 3] if j % 3 == 2 else False
            tsc_before = int(m._clock_struct.time_step_counter)
            r = m.run_model(num_steps=(np.int64(k) if j % 3 == 2 and calls % 2 else int(k)), initialize_model=no, process_outputs=no)
            calls += 1
            if not m._clock_struct.model_is_finished and int(m._clock_struct.time_step_counter) < tsc_before + int(k):
                viol.append(V("C09:progress", "a call of %d step(s) from step %d left the model at step %d (continue flag %r)" % (int(k), tsc_before, int(m._clock_struct.time_step_counter), no), partition=ks, between=busy))
                break
            if busy and calls <= 8:
                _other_model(objs, cfg, calls)
                m.get_water_flux(); m.get_crop_growth(); m.get_water_storage()
            fin = bool(m._clock_struct.model_is_finished)
            info = m.get_additional_information()
            if info["has_model_finished"] != fin:
                viol.append(V("C09:status", "has_model_finished=%r but the clock says finished=%r after %d call(s)" % (info["has_model_finished"], fin, calls), partition=ks))
            res = m.get_simulation_results()
            if not fin and res is not False:
                viol.append(V("C09:early_summary", "seasonal summary returned before termination after %d call(s)" % calls, partition=ks))
        if not m._clock_struct.model_is_finished:
            m.run_model(till_termination=True, initialize_model=False)
        # calls AFTER the end was reached: their step counts overshoot the end and stop there (no exception, tables unchanged)
        for k in (1, 9):
            try:
                r = m.run_model(num_steps=k, initialize_model=False)
                if r is not True or not m.get_additional_information()["has_model_finished"]:
                    viol.append(V("C09:after_termination", "run_model(num_steps=%d, initialize_model=False) on the finished model returned %r / reports unfinished" % (k, r), partition=ks, between=busy))
            except Exception as e:
                viol.append(V("C09:after_termination", "run_model(num_steps=%d, initialize_model=False) on a model that an earlier call ran to the end raised %s: %s" % (k, type(e).__name__, str(e)[:100]), partition=ks, between=busy))
                break
        t = tables_of(m)
        for d in diff_tables(t0, t, "stepwise vs uninterrupted"):
            viol.append(V("C09:tables" + (":between_calls" if busy else ""), d + " for partition %r%s" % (ks[:12], " with another model built from the same input objects between the calls" if busy else ""), partition=ks, between=busy))
        if m.get_simulation_results() is False:
            viol.append(V("C09:final_status", "finished model still reports no summary", partition=ks))
    # overshoot: one call with far too many steps
    m = sim.build_model(cfg); m._initialize()
    m.run_model(num_steps=n_steps_total + 1000, initialize_model=False)
    if not m._clock_struct.model_is_finished:
        viol.append(V("C09:overshoot", "a step count beyond the end did not terminate the run"))
    else:
        for d in diff_tables(t0, tables_of(m), "overshooting call vs uninterrupted"):
            viol.append(V("C09:overshoot_tables", d))
    for v in viol:
        v["cfg"] = cfg
    return {"status": "ok", "violations": viol, "steps": n_steps_total, "partitions": len(ks_list)}


def _other_model(objs, cfg, calls):
    """another simulation from the same user objects, window shifted by 1-3 years (documented rejections are fine)"""
    try:
        yrs = 1 + calls % 3
        st = pd.Timestamp(cfg["start"]) + pd.DateOffset(years=yrs); en = pd.Timestamp(cfg["end"]) + pd.DateOffset(years=yrs)
        o = dict(objs, sim_start_time=st.strftime("%Y/%m/%d"), sim_end_time=en.strftime("%Y/%m/%d"))
        # ... except the CO2 object, of which the other model gets its own copy: a model keeps the user's CO2 object by reference and
        # reads its current concentration on every day (the season-start CO2 adjustment is written there: the exception C12 names), so two
        # LIVE models on one CO2 object are outside what any listed property promises (observation, DESIGN 15.10; not a finding)
        if o.get("co2_concentration") is not None:
            o["co2_concentration"] = copy.deepcopy(o["co2_concentration"])
        other = sim.AquaCropModel(**o)
        if calls % 2:
            other._initialize()
        else:
            other.run_model(till_termination=True)
    except Exception:
        pass


def worker_C09(payload):
    return _guard(_c09, payload)


def compositions(n):
    """all compositions of n"""
    if n == 0:
        return [[]]
    out = []
    for first in range(1, n + 1):
        for rest in compositions(n - first):
            out.append([first] + rest)
    return out


# ------------------------------------------------------------------------------------------
# C08: season k of a multi-season run == fresh single-season run started on planting date k
def _season_slice(t, k):
    """rows of season k that are in the growing season or belong to season k (steps with season_counter == k)"""
    f = t["flux"]; g = t["growth"]; s = t["storage"]
    idx = [i for i in range(len(f)) if int(f[i, FL["season_counter"]]) == k and (i == 0 or f[i, 0] != 0 or i == 0) and (f[i, 0] == i)]
    return idx


def _c08(payload):
    cfg = payload["cfg"]
    assert not cfg.get("off_season")
    if cfg.get("gw") and len(set(cfg["gw"].get("values", []))) > 1:
        # with a time-varying water table the "configured initial conditions" themselves depend on the start date (the initial
        # content 'FC' means field capacity adjusted for the table depth on the first day, compartments below the table start
        # saturated): a run started on a later planting date is configured differently, so the comparison is not defined
        return {"status": "skipped", "violations": [], "why": "time-varying water table"}
    m0, t0 = run_cfg_tables(cfg)
    cs = m0._clock_struct
    start = pd.Timestamp(cs.simulation_start_date)
    viol = []
    pairs = 0
    fin0 = {int(r[0]): r for r in t0["final"]}
    for k in range(1, int(cs.n_seasons)):
        if k not in fin0:
            continue
        pk = pd.Timestamp(cs.planting_dates[k])
        off = int((pk - start).days)
        hstep = int(fin0[k][3])
        c1 = copy.deepcopy(cfg); c1["start"] = pk.strftime("%Y/%m/%d")
        if c1.get("co2") and c1["co2"].get("constant_conc") and not c1["co2"].get("current_concentration"):
            # "constant concentration" without a value means the concentration of the run's FIRST year: to give the
            # fresh run the same input, state that value explicitly
            c1["co2"]["current_concentration"] = float(m0.co2_concentration.current_concentration)
        m1 = sim.build_model(c1); m1._initialize()
        n = hstep - off + 1
        m1.run_model(num_steps=n, initialize_model=False)
        t1 = tables_of(m1)
        pairs += 1
        # thermal-time crops without an explicit harvest date: the harvest dates of ALL seasons are derived at initialisation
        # from the FIRST season's thermal calendar (MaturityCD + 30 days); a run started on season k's planting date derives
        # them from season k's calendar.  When the two differ the runs are configured differently through that route: the
        # violations of this season are tagged so that this (listed) finding is told apart from any other leak.
        h0 = pd.Timestamp(cs.harvest_dates[k]); h1 = pd.Timestamp(m1._clock_struct.harvest_dates[0])
        tag = ":harvest_date_from_first_season" if (cfg["crop"].get("harvest_date") is None and (h0.month, h0.day) != (h1.month, h1.day)) else ""
        nv0 = len(viol)
        for nm, cols in (("flux", range(3, 16)), ("growth", range(2, 15)), ("storage", None)):
            a = t0[nm][off:hstep + 1]; b = t1[nm][0:n]
            if cols is None:
                a = a[:, 1:]; b = b[:, 1:]
            else:
                a = a[:, list(cols)]; b = b[:, list(cols)]
            if nm == "flux":   # z_gw column (index 4 -> position 1 after slicing from 3) follows the date, compare as is
                pass
            d = first_diff(a, b)
            if d:
                viol.append(V("C08:daily:%s" % nm, "season %d of the multi-season run differs from the fresh single-season run in table %s: %s" % (k, nm, d), season=k))
        r0 = fin0[k]; r1 = [r for r in t1["final"] if int(r[0]) == 0]
        if not r1:
            viol.append(V("C08:summary_missing", "fresh single-season run has no summary row where season %d of the multi-season run has one" % k, season=k))
        else:
            r1 = r1[0]
            for j, nm in ((4, "dry yield"), (5, "fresh yield"), (6, "potential yield"), (7, "seasonal irrigation")):
                a, b = float(r0[j]), float(r1[j])
                if not (a == b or (a != a and b != b)):
                    viol.append(V("C08:summary:%s" % nm.replace(" ", "_"), "%s of season %d: %.17g in the multi-season run, %.17g in the fresh run" % (nm, k, a, b), season=k))
            if int(r0[3]) - off != int(r1[3]):
                viol.append(V("C08:summary:harvest_step", "harvest step of season %d differs: %d vs %d" % (k, int(r0[3]) - off, int(r1[3])), season=k))
        if tag:
            for v in viol[nv0:]:
                v["key"] += tag
    for v in viol:
        v["cfg"] = cfg
    return {"status": "ok", "violations": viol, "pairs": pairs}


def worker_C08(payload):
    return _guard(_c08, payload)


# ------------------------------------------------------------------------------------------
# C10: determinism, isolation
def _c10(payload):
    cfgB, cfgA = payload["cfg"], payload["other"]
    viol = []
    _, tB = run_cfg_tables(cfgB)
    # after another model was merely built, then run
    sim.build_model(cfgA)
    _, tB1 = run_cfg_tables(cfgB)
    for d in diff_tables(tB, tB1, "B after A was constructed"):
        viol.append(V("C10:after_construct", d))
    try:
        run_cfg_tables(cfgA)
    except Exception:
        pass
    _, tB2 = run_cfg_tables(cfgB)
    for d in diff_tables(tB, tB2, "B after A was run"):
        viol.append(V("C10:after_run", d))
    # interleaved stepping of two live models
    try:
        mA = sim.build_model(cfgA); mB = sim.build_model(cfgB)
        mA._initialize(); mB._initialize()
        while not (mA._clock_struct.model_is_finished and mB._clock_struct.model_is_finished):
            if not mA._clock_struct.model_is_finished:
                mA.run_model(num_steps=7, initialize_model=False)
            if not mB._clock_struct.model_is_finished:
                mB.run_model(num_steps=5, initialize_model=False)
        for d in diff_tables(tB, tables_of(mB), "B interleaved with A"):
            viol.append(V("C10:interleaved", d))
    except Exception as e:
        if "A" not in str(e):
            pass
    digest = hashlib.sha256(b"".join(np.ascontiguousarray(tB[k]).tobytes() for k in ("flux", "storage", "growth")) + json.dumps(tB["final"], default=str).encode()).hexdigest()
    for v in viol:
        v["cfg"] = cfgB; v["other"] = cfgA
    return {"status": "ok", "violations": viol, "digest": digest}


def worker_C10(payload):
    return _guard(_c10, payload)


def digest_in_subprocess(cfg, hashseed):
    """run cfg in a fresh interpreter with the given PYTHONHASHSEED; returns the digest string"""
    code = ("import sys, json; sys.path.insert(0, %r); sys.path.insert(0, %r)\n"
            "import monitors2\n"
            "r = monitors2._digest(json.loads(sys.stdin.read()))\nprint('DIGEST', r)\n") % (os.path.join(VERIF, "harness"), REPO)
    env = dict(os.environ, PYTHONHASHSEED=str(hashseed), PYTHONPATH=os.path.join(VERIF, "harness") + ":" + REPO)
    p = subprocess.run([sys.executable, "-W", "ignore", "-c", code], input=json.dumps(cfg), capture_output=True, text=True, env=env, timeout=600)
    for line in p.stdout.split("\n"):
        if line.startswith("DIGEST "):
            return line.split(" ", 1)[1]
    return "ERROR " + p.stderr[-300:]


def _digest(cfg):
    try:
        _, t = run_cfg_tables(cfg)
    except Exception as e:
        return "EXC " + type(e).__name__
    return hashlib.sha256(b"".join(np.ascontiguousarray(t[k]).tobytes() for k in ("flux", "storage", "growth")) + json.dumps(t["final"], default=str).encode()).hexdigest()


def worker_C10_sub(payload):
    cfg = payload["cfg"]
    return {"digests": {str(s): digest_in_subprocess(cfg, s) for s in payload["seeds"]}, "cfg": cfg}


# ------------------------------------------------------------------------------------------
# C11: inputs not consumed
def _user_snapshot(objs):
    """the public content of every user object as plain comparable values (DataFrames / arrays as nested lists)"""
    def val(v):
        if isinstance(v, pd.DataFrame):
            return ("df", [str(c) for c in v.columns], [str(i) for i in v.index[:5]], len(v), [[repr(x) for x in row] for row in v.head(400).values.tolist()])
        if isinstance(v, (pd.Series, np.ndarray)):
            return ("arr", [repr(x) for x in np.asarray(v).ravel()[:2000].tolist()])
        if isinstance(v, (list, tuple)):
            return ("seq", [val(x) for x in v])
        if isinstance(v, (int, float, str, bool, type(None), np.floating, np.integer, np.bool_)):
            return repr(v)
        return ("obj", type(v).__name__)
    snap = {}
    for name in ("soil", "crop", "initial_water_content", "irrigation_management", "field_management", "fallow_field_management", "groundwater", "co2_concentration"):
        o = objs.get(name)
        if o is None:
            continue
        for k, v in sorted(vars(o).items()):
            snap["%s.%s" % (name, k)] = val(v)
    snap["weather_df"] = val(objs["weather_df"])
    return snap


def _c11(payload):
    cfg = payload["cfg"]; reps = payload.get("reps", 2)
    viol = []
    objs = sim.build_objects(cfg)
    m = sim.AquaCropModel(**objs)
    # time stepping must not touch the user's objects at all: what initialisation writes back into them (crop calendar,
    # deepened profile, ...) is in place after _initialize(); the only field the steps may still update is the CO2
    # object's current concentration (season-start adjustment)
    m._initialize()
    s1 = _user_snapshot(objs)
    m.run_model(till_termination=True, initialize_model=False)
    s2 = _user_snapshot(objs)
    for k in s1:
        if k != "co2_concentration.current_concentration" and s1[k] != s2.get(k):
            viol.append(V("C11:user_object_changed_while_stepping:%s" % k, "the user's %s was %s after initialisation and is %s after the run" % (k, str(s1[k])[:80], str(s2.get(k))[:80])))
    t0 = tables_of(m)
    for i in range(reps):
        try:
            m.run_model(till_termination=True)       # re-run of the same model object (re-initialises)
            for d in diff_tables(t0, tables_of(m), "re-run #%d of the same model object" % (i + 1)):
                viol.append(V("C11:rerun_differs", d))
        except Exception as e:
            viol.append(V("C11:rerun_raises:%s" % type(e).__name__, "re-running the same model raised %s: %s" % (type(e).__name__, str(e)[:160]), exc=sim.exc_info(e)))
            break
    for i in range(reps):
        try:
            m2 = sim.AquaCropModel(**objs)       # new model from the same user objects
            m2.run_model(till_termination=True)
            for d in diff_tables(t0, tables_of(m2), "new model #%d built from the same input objects" % (i + 1)):
                viol.append(V("C11:rebuild_differs", d))
        except Exception as e:
            viol.append(V("C11:rebuild_raises:%s" % type(e).__name__, "a new model from the same objects raised %s: %s" % (type(e).__name__, str(e)[:160]), exc=sim.exc_info(e)))
            break
    # a fresh set of equal objects must give the same thing as well (sanity of the harness)
    for v in viol:
        v["cfg"] = cfg
    return {"status": "ok", "violations": viol}


def worker_C11(payload):
    return _guard(_c11, payload)


# ------------------------------------------------------------------------------------------
# C12: parameters and weather read-only while stepping
def _hash_obj(o, depth=0):
    """stable content hash of nested parameter objects"""
    h = hashlib.sha256()
    def feed(x, d):
        if d > 6:
            h.update(b"<deep>"); return
        if isinstance(x, np.ndarray):
            if x.dtype == object:
                for y in x.ravel().tolist():
                    feed(y, d + 1)
            else:
                h.update(str(x.dtype).encode()); h.update(str(x.shape).encode()); h.update(np.ascontiguousarray(x).tobytes())
        elif isinstance(x, (pd.DataFrame, pd.Series)):
            feed(x.to_numpy(), d + 1); h.update(repr(list(getattr(x, "columns", []))).encode()); h.update(repr(x.index.tolist()[:3]).encode())
        elif isinstance(x, (pd.DatetimeIndex,)):
            h.update(x.asi8.tobytes())
        elif isinstance(x, (list, tuple)):
            h.update(b"["); [feed(y, d + 1) for y in x]; h.update(b"]")
        elif isinstance(x, dict):
            for k in sorted(x, key=str):
                h.update(str(k).encode()); feed(x[k], d + 1)
        elif isinstance(x, (int, float, str, bool, type(None), np.integer, np.floating, np.bool_, pd.Timestamp)):
            h.update(repr(x).encode())
        elif hasattr(x, "__dict__"):
            for k in sorted(vars(x)):
                h.update(k.encode()); feed(vars(x)[k], d + 1)
        else:
            h.update(repr(type(x)).encode())
    feed(o, depth)
    return h.hexdigest()


def param_fingerprint(m):
    ps = m._param_struct; cs = m._clock_struct
    fp = {}
    prof = ps.Soil.Profile
    for k in ("dz", "dzsum", "zBot", "z_top", "zMid", "Comp", "Layer", "th_wp", "th_fc", "th_s", "th_dry", "Ksat", "tau", "Penetrability", "aCR", "bCR"):
        fp["prof." + k] = _hash_obj(np.array(getattr(prof, k)))
    soil_scal = {k: v for k, v in vars(ps.Soil).items() if not k.startswith("_") and k not in ("Profile", "profile")}
    fp["soil.scalars"] = _hash_obj(soil_scal)
    fp["soil.profile_df"] = _hash_obj(getattr(ps.Soil, "profile", None))
    fp["irr"] = _hash_obj(ps.IrrMngt); fp["fallow_irr"] = _hash_obj(ps.FallowIrrMngt)
    fp["field"] = _hash_obj(ps.FieldMngt); fp["fallow_field"] = _hash_obj(ps.FallowFieldMngt)
    fp["z_gw"] = _hash_obj(np.array(ps.z_gw)) if hasattr(ps, "z_gw") else ""
    fp["water_table"] = repr(ps.water_table)
    fp["weather"] = _hash_obj(m._weather)
    fp["weather_df"] = _hash_obj(m.weather_df)
    fp["planting"] = _hash_obj(cs.planting_dates); fp["harvest"] = _hash_obj(cs.harvest_dates); fp["time_span"] = _hash_obj(cs.time_span)
    fp["co2"] = _hash_obj(ps.CO2)
    for i, c in enumerate(ps.Seasonal_Crop_List):
        fp["crop[%d]" % i] = _hash_obj(c)
    for k, o in (("user.soil", m.soil), ("user.irr", m.irrigation_management), ("user.field", m.field_management),
                 ("user.fallow_field", m.fallow_field_management), ("user.gw", m.groundwater), ("user.iwc", m.initial_water_content)):
        fp[k] = _hash_obj(o)
    return fp


def _c12(payload):
    cfg = payload["cfg"]
    m = sim.build_model(cfg); m._initialize()
    fp0 = param_fingerprint(m)
    viol = []
    steps = 0
    every = payload.get("every", 1)
    while not m._clock_struct.model_is_finished:
        season_before = int(m._clock_struct.season_counter)
        tsc = int(m._clock_struct.time_step_counter)
        m.run_model(num_steps=every, initialize_model=False)
        steps += every
        fp = param_fingerprint(m)
        season_after = int(m._clock_struct.season_counter)
        for k in fp0:
            if fp[k] != fp0[k]:
                if k.startswith("crop["):
                    idx = int(k[5:-1])
                    # a season's crop may change only at that season's start
                    if season_after != season_before and idx == season_after:
                        fp0[k] = fp[k]
                        continue
                if k == "co2" and season_after != season_before:
                    # the CO2 adjustment of a season start (current concentration of the season's year)
                    fp0[k] = fp[k]
                    continue
                viol.append(V("C12:changed:%s" % k.split("[")[0], "%s changed during the step(s) starting at step %d" % (k, tsc), step=tsc, what_changed=k))
                fp0[k] = fp[k]
        if len(viol) > 3:
            break
    for v in viol:
        v["cfg"] = cfg
    return {"status": "ok", "violations": viol, "steps": steps}


def worker_C12(payload):
    return _guard(_c12, payload)


# ------------------------------------------------------------------------------------------
# C14: no look-ahead
def _run_with_weather(cfg, wdf, end=None):
    objs = sim.build_objects(cfg)
    objs["weather_df"] = wdf
    if end:
        objs["sim_end_time"] = end
    m = sim.AquaCropModel(**objs)
    m.run_model(till_termination=True)
    return m, tables_of(m)


def _c14(payload):
    cfg = payload["cfg"]; rng = rng_for("c14", json.dumps(cfg, sort_keys=True))
    viol = []
    w = sim.make_weather(cfg["weather"])
    m0, t0 = _run_with_weather(cfg, w.copy())
    cs = m0._clock_struct
    start = pd.Timestamp(cs.simulation_start_date); endd = pd.Timestamp(cs.simulation_end_date)
    n = int(cs.n_steps)
    calendar_days = all(int(c.CalendarType) == 1 and int(getattr(c, "SwitchGDD", 0)) == 0 for c in m0._param_struct.Seasonal_Crop_List) \
        and cfg["crop"]["name"] in sim.crop_params and sim.crop_params[cfg["crop"]["name"]].get("CalendarType", 1) == 1
    checks = 0
    if calendar_days:
        for _ in range(payload.get("cuts", 3)):
            t = rng.randint(1, max(1, n - 2))
            cut = start + pd.Timedelta(days=t)
            w2 = w.copy()
            mask = w2.Date >= cut
            kind = rng.choice(["temp", "rain", "et0", "all"])
            if kind in ("temp", "all"):
                w2.loc[mask, "MaxTemp"] = w2.loc[mask, "MaxTemp"] + rng.choice([-9.0, 6.0]); w2.loc[mask, "MinTemp"] = w2.loc[mask, "MinTemp"] + rng.choice([-9.0, 4.0])
                lo = np.minimum(w2["MinTemp"], w2["MaxTemp"]); hi = np.maximum(w2["MinTemp"], w2["MaxTemp"]); w2["MinTemp"] = lo; w2["MaxTemp"] = hi
            if kind in ("rain", "all"):
                w2.loc[mask, "Precipitation"] = rng.choice([0.0, 35.0])
            if kind in ("et0", "all"):
                w2.loc[mask, "ReferenceET"] = w2.loc[mask, "ReferenceET"] * rng.choice([0.4, 2.2])
            try:
                m2, t2 = _run_with_weather(cfg, w2)
            except Exception as e:
                continue    # the perturbed future may legitimately be rejected (e.g. crop length); C16 covers crashes
            checks += 1
            for nm in ("flux", "storage", "growth"):
                a = t0[nm][:t]; b = t2[nm][:t]
                # rows of steps that were not simulated (jumped) are zero in both
                d = first_diff(a, b)
                if d:
                    viol.append(V("C14:lookahead:%s" % nm, "weather changed from step %d on (%s) changes an earlier row of table %s: %s" % (t, kind, nm, d), cut=t, kind=kind))
            f0 = [r for r in t0["final"] if int(r[3]) < t - 1]; f2 = [r for r in t2["final"] if int(r[3]) < t - 1]
            if json.dumps(f0, default=str) != json.dumps(f2, default=str):
                viol.append(V("C14:lookahead:summary", "weather changed from step %d on changes the summary row of an earlier harvest" % t, cut=t, kind=kind))
    # records outside the window have no effect (every crop)
    w3 = w.copy()
    outside = (w3.Date < start) | (w3.Date > endd)
    if outside.any():
        w3.loc[outside, ["MinTemp", "MaxTemp"]] = w3.loc[outside, ["MinTemp", "MaxTemp"]] + 7.5
        w3.loc[outside, "Precipitation"] = 99.0; w3.loc[outside, "ReferenceET"] = 9.9
        m3, t3 = _run_with_weather(cfg, w3); checks += 1
        for d in diff_tables(t0, t3, "weather perturbed outside the window"):
            viol.append(V("C14:outside_window", d))
        w4 = w[(w.Date >= start) & (w.Date <= endd)].copy()
        m4, t4 = _run_with_weather(cfg, w4); checks += 1
        for d in diff_tables(t0, t4, "weather clipped to the window"):
            viol.append(V("C14:clip", d))
    # extending the end date leaves completed seasons unchanged
    wlast = pd.Timestamp(w.Date.iloc[-1])
    exts = [endd + pd.Timedelta(days=rng.choice([1, 30, 200, 400]))]
    if payload.get("long_extension"):
        # ... however far: to (nearly) the end of the weather file — decades more, so that anything that depends on the LENGTH of the
        # whole simulation period shows in the seasons completed long before
        far = wlast - pd.Timedelta(days=rng.choice([3, 40, 400]))
        if far > exts[0] + pd.Timedelta(days=3000):
            exts.append(far)
    for ext in exts:
        if not (ext <= wlast and not (ext.month == 2 and ext.day == 29)):
            continue
        try:
            m5, t5 = _run_with_weather(cfg, w.copy(), end=ext.strftime("%Y/%m/%d"))
        except Exception:
            continue
        checks += 1
        how = "extending the end date by %d days" % (ext - endd).days
        done = [r for r in t0["final"] if int(r[3]) < n - 2]      # seasons harvested before the original end
        for r in done:
            k = int(r[0]); hs = int(r[3])
            r5 = [x for x in t5["final"] if int(x[0]) == k]
            if not r5 or json.dumps(r5[0], default=str) != json.dumps(r, default=str):
                viol.append(V("C14:extend_end:summary", "%s changes the summary row of completed season %d: %r vs %r" % (how, k, r, r5[:1]), season=k, extension_days=int((ext - endd).days), long_extension=bool(payload.get("long_extension"))))
        if done:
            hs = max(int(r[3]) for r in done)
            for nm in ("flux", "storage", "growth"):
                d = first_diff(t0[nm][:hs + 1], t5[nm][:hs + 1])
                if d:
                    viol.append(V("C14:extend_end:%s" % nm, "%s changes rows up to the last completed harvest in table %s: %s" % (how, nm, d), extension_days=int((ext - endd).days), long_extension=bool(payload.get("long_extension"))))
    for v in viol:
        v["cfg"] = cfg
    return {"status": "ok", "violations": viol, "checks": checks, "calendar_days": calendar_days}


def worker_C14(payload):
    return _guard(_c14, payload)


# ------------------------------------------------------------------------------------------
# C15: weather bound by date and column name
def _c15(payload):
    cfg = payload["cfg"]; rng = rng_for("c15", json.dumps(cfg, sort_keys=True))
    viol = []
    w = sim.make_weather(cfg["weather"])
    m0, t0 = _run_with_weather(cfg, w.copy())
    cs = m0._clock_struct
    start = pd.Timestamp(cs.simulation_start_date); endd = pd.Timestamp(cs.simulation_end_date)
    cols = ["MinTemp", "MaxTemp", "Precipitation", "ReferenceET", "Date"]
    variants = []
    for _ in range(payload.get("perms", 3)):
        p = cols[:]; rng.shuffle(p)
        variants.append(("columns permuted " + ",".join(p), w[p].copy()))
    w2 = w.copy(); w2.insert(0, "Station", "X"); w2["Wind"] = 3.3; w2.insert(2, "Humidity", np.arange(len(w2)) * 1.0)
    variants.append(("extra columns", w2))
    # unrelated extra columns as real station files have them: names that resemble the required ones (SoilTemp, MeanTemp, Temp_flag,
    # Precip_qc, ET0_source, Date_obs), and GAPS (NaN / None / NaT) in them on days inside the simulated period
    w6 = w.copy()
    inwin = np.flatnonzero(((w6.Date >= start) & (w6.Date <= endd)).values)
    gaps = [int(inwin[rng.randrange(len(inwin))]) for _ in range(5)] if len(inwin) else []
    soil = 40.0 + np.arange(len(w6)) % 17; mean = np.full(len(w6), -35.0)
    wind = np.full(len(w6), 2.5); wind[gaps] = np.nan
    w6.insert(1, "SoilTemp", soil); w6["MeanTemp"] = mean; w6["Temp_flag"] = 99.0; w6["WindSpeed"] = wind
    w6["Precip_qc"] = ["ok"] * len(w6); w6["ET0_source"] = None
    dobs = w6["Date"] + pd.Timedelta(days=400)
    dobs = dobs.astype("datetime64[ns]"); dobs.iloc[gaps] = pd.NaT
    w6["Date_obs"] = dobs
    variants.append(("look-alike extra columns with gaps", w6))
    w3 = w.copy(); w3.index = np.arange(len(w3))[::-1] + 1000
    variants.append(("re-indexed (reversed integer labels)", w3))
    w4 = w.copy(); w4.index = ["r%d" % i for i in range(len(w4))]
    variants.append(("string index", w4))
    # extra leading rows / different offset: drop a random number of leading rows that lie before the window
    lead = int((w.Date < start).sum())
    if lead > 2:
        k = rng.randint(1, lead - 1)
        variants.append(("%d leading rows dropped" % k, w.iloc[k:].copy()))
    trail = int((w.Date > endd).sum())
    if trail > 2:
        k = rng.randint(1, trail - 1)
        variants.append(("%d trailing rows dropped" % k, w.iloc[:len(w) - k].copy()))
    # both permuted and shifted and extra
    p = cols[:]; rng.shuffle(p)
    w5 = w[p].copy(); w5["Extra"] = 1.0
    if lead > 5:
        w5 = w5.iloc[rng.randint(1, lead - 1):]
    w5.index = np.arange(len(w5)) * 3 + 7
    variants.append(("permuted + extra + offset + reindexed", w5))
    checks = 0
    for name, wv in variants:
        try:
            m, t = _run_with_weather(cfg, wv)
        except Exception as e:
            viol.append(V("C15:raises:%s" % type(e).__name__, "equivalent weather table (%s) raised %s: %s" % (name, type(e).__name__, str(e)[:150]), variant=name, exc=sim.exc_info(e)))
            continue
        checks += 1
        for d in diff_tables(t0, t, "weather table variant [%s]" % name):
            viol.append(V("C15:differs", d, variant=name))
    # a model object that already ran with ANOTHER weather table and is then given this one (weather_df setter, same window)
    # must use the records of the table it holds now
    try:
        wp = w.copy()
        wp["Precipitation"] = np.roll(wp["Precipitation"].values, 37) * 0.5 + 1.0
        wp["ReferenceET"] = wp["ReferenceET"].values * 1.2
        objs = sim.build_objects(cfg); objs["weather_df"] = wp
        mh = sim.AquaCropModel(**objs)
        mh.run_model(till_termination=True)
        mh.weather_df = w.copy()
        mh.run_model(till_termination=True)
        checks += 1
        for d in diff_tables(t0, tables_of(mh), "weather table variant [assigned to a model object that ran before with other weather]"):
            viol.append(V("C15:differs", d, variant="reassigned weather_df"))
    except Exception as e:
        viol.append(V("C15:raises:%s" % type(e).__name__, "re-running a model after assigning a new weather table raised %s: %s" % (type(e).__name__, str(e)[:150]), variant="reassigned weather_df", exc=sim.exc_info(e)))
    # by date: the matrix row used for step i carries date start+i and that date's values
    W = m0._weather
    src = w.set_index("Date")
    for i in sorted(set([0, 1, len(W) // 2, len(W) - 1])):
        d = pd.Timestamp(W[i, 4])
        if d != start + pd.Timedelta(days=i):
            viol.append(V("C15:row_date", "weather row %d carries %s, expected %s" % (i, d, start + pd.Timedelta(days=i))))
        else:
            row = src.loc[d]
            exp = [float(row["MinTemp"]), float(row["MaxTemp"]), float(row["Precipitation"]), float(row["ReferenceET"])]
            if [float(x) for x in W[i, :4]] != exp:
                viol.append(V("C15:row_values", "weather row %d = %r, the table says %r for %s" % (i, [float(x) for x in W[i, :4]], exp, d)))
    for v in viol:
        v["cfg"] = cfg
    return {"status": "ok", "violations": viol, "checks": checks}


def worker_C15(payload):
    return _guard(_c15, payload)


# ------------------------------------------------------------------------------------------
# C16: completion and finiteness
DOCUMENTED = (("ValueError", "format must be"), ("ValueError", "less than 580"), ("ValueError", "weather"), ("ValueError", "date"),
              ("AssertionError", "not enough growing degree days"), ("AssertionError", "crop will take longer than 1 year"),
              ("ValueError", "The first date of the climate data cannot be longer than the start date"),
              ("ValueError", "The last date of the climate data cannot be shorter than the end date"))


def documented_rejection(exc):
    t, msg = exc["type"], exc["msg"]
    return any(t == a and b.lower() in msg.lower() for a, b in DOCUMENTED)


def worker_C16(payload):
    cfg = payload["cfg"]
    viol = []
    try:
        if payload.get("prehistory"):
            # HISTORY: the user's input objects (crop, soil, managements, groundwater, CO2, weather table) were used before by another
            # simulation over a window shifted by some years; the configuration is as valid as before
            objs = sim.build_objects(cfg)
            try:
                ph = payload["prehistory"]
                st = pd.Timestamp(cfg["start"]); en = pd.Timestamp(cfg["end"])
                if ph == "shorter":            # same start, ending (about) half-way, at least one year earlier when the window allows
                    en = st + (en - st) / 2 if (en - st).days < 800 else en - pd.DateOffset(years=max(1, (en.year - st.year) // 2))
                    en = en.normalize()
                elif ph == "later_start":      # same end, starting one year later
                    st = st + pd.DateOffset(years=1)
                else:
                    st = st + pd.DateOffset(years=int(ph)); en = en + pd.DateOffset(years=int(ph))
                pre = sim.AquaCropModel(**dict(objs, sim_start_time=st.strftime("%Y/%m/%d"), sim_end_time=en.strftime("%Y/%m/%d")))
                pre.run_model(till_termination=True)
            except Exception:
                pass
            m = sim.AquaCropModel(**objs)
        else:
            m = sim.build_model(cfg)
        m.run_model(till_termination=True)
    except Exception as e:
        x = sim.exc_info(e)
        if documented_rejection(x):
            return {"status": "rejected", "exc": x, "violations": [], "cfg": cfg}
        tag = ""
        if x["type"] == "ZeroDivisionError" and "run_single_timestep" in str(x["origin"]) and not sim.crop_params[cfg["crop"]["name"]].get("YldWC") \
                and not cfg["crop"].get("kwargs", {}).get("YldWC"):
            tag = ":YldWC0"
        # the season list of the window is empty (no planting date whose season fits: CalendarP.season_list_error_iff) and the code indexes
        # its first element — identified by the two statements that do so, not by the window length (a window of 379 days starting the day
        # after a planting date and ending before the following harvest has an empty list too)
        if x["type"] == "IndexError" and "read_model_parameters" in str(x["origin"]) and \
                ("plant_years[0]" in str(x.get("stmt")) or "planting_dates[0]" in str(x.get("stmt"))):
            tag = ":empty_season_list"
        return {"status": "exception", "exc": x, "cfg": cfg,
                "violations": [dict(V("C16:raises:%s:%s%s" % (x["type"], x["origin"], tag), "valid configuration%s raised %s at %s: %s" % (" (input objects used before by another simulation)" if payload.get("prehistory") else "", x["type"], x["last"], x["msg"][:160]), exc=x), cfg=cfg, **({"prehistory": payload["prehistory"]} if payload.get("prehistory") else {}))]}
    t = tables_of(m)
    wt = int(m._param_struct.water_table)
    steps = [i for i in range(len(t["flux"])) if i == 0 or t["flux"][i, 0] == i and (t["flux"][i, 0] != 0)]
    for nm, names in (("flux", list(FL)), ("growth", list(GR)), ("storage", None)):
        a = t[nm]
        bad = ~np.isfinite(a)
        if nm == "flux" and not wt:
            bad[:, FL["z_gw"]] = False
        if bad.any():
            i, j = np.argwhere(bad)[0]
            cname = names[j] if names else "col%d" % j
            if cname == "FreshYield" and not sim.crop_params[cfg["crop"]["name"]].get("YldWC") and not cfg["crop"].get("kwargs", {}).get("YldWC"):
                cname = "FreshYield:YldWC0"
            viol.append(V("C16:nonfinite:%s" % cname, "non-finite value %r in table %s, row %d, column %s" % (a[i, j], nm, i, cname), step=int(i)))
    for r in t["final"]:
        for j in (4, 5, 6, 7):
            if not np.isfinite(float(r[j])):
                if j == 5 and not sim.crop_params[cfg["crop"]["name"]].get("YldWC"):
                    break      # same finding as the FreshYield column above
                viol.append(V("C16:nonfinite:summary%d" % j, "non-finite value in the seasonal summary: %r" % (r,)))
                break
    if not m._clock_struct.model_is_finished:
        viol.append(V("C16:not_finished", "run returned without finishing"))
    for v in viol:
        v["cfg"] = cfg
        if payload.get("prehistory"): v["prehistory"] = payload["prehistory"]
    return {"status": "ok", "violations": viol, "steps": len(steps), "seasons": len(t["final"]), "cfg_sig": [cfg["crop"]["name"], cfg["soil"]["type"], cfg["irr"]["irrigation_method"]]}


# ------------------------------------------------------------------------------------------
# C20: neutral transformations
def neutral_transforms(cfg, rng):
    """list of (name, transformed cfg) that the property says must not change any output"""
    out = []
    def T(name, f):
        c = copy.deepcopy(cfg); f(c); out.append((name, c))
    irr = cfg.get("irr") or {"irrigation_method": 0}
    meth = irr.get("irrigation_method", 0)
    # the growing-season field management, and the FALLOW field management (in force on the days before the first planting date and on
    # off-season days): the same switches, the same inert parameters
    keys = ["field"] + (["fallow_field"] if (cfg.get("off_season") or rng.random() < 0.3) else [])
    for key in keys:
        fld = cfg.get(key) or {}
        tag = "" if key == "field" else " (fallow field management)"
        def S(c, key=key, **kw):
            c[key] = dict(c.get(key) or {}, **kw)
        if not fld.get("mulches"):
            T("mulch parameters without mulches" + tag, lambda c, S=S, a=rng.choice([30, 100]), b=rng.choice([0.3, 1.0]): S(c, mulches=False, mulch_pct=a, f_mulch=b))
            T("mulches on with 0 % cover" + tag, lambda c, S=S: S(c, mulches=True, mulch_pct=0, f_mulch=0.5))
            T("mulches on with mulch factor 0" + tag, lambda c, S=S: S(c, mulches=True, mulch_pct=70, f_mulch=0))
        if not fld.get("bunds"):
            T("bund parameters without bunds" + tag, lambda c, S=S, a=rng.choice([0.1, 0.25]), b=rng.choice([10.0, 80.0]): S(c, bunds=False, z_bund=a, bund_water=b))
        if not fld.get("curve_number_adj"):
            T("curve-number percentage without its flag" + tag, lambda c, S=S, a=rng.choice([-25, 15, 40]): S(c, curve_number_adj=False, curve_number_adj_pct=a))
    # parameters of other irrigation strategies
    def other(c):
        i = dict(c.get("irr") or {"irrigation_method": 0})
        m = i["irrigation_method"]
        if m != 1: i["SMT"] = [rng.choice([10, 55, 95]) for _ in range(4)]
        if m != 2: i["IrrInterval"] = rng.choice([2, 5, 11])
        if m != 4: i["NetIrrSMT"] = rng.choice([35.0, 66.0])
        if m != 5: i["depth"] = rng.choice([3.0, 17.0])
        if m != 3: i["schedule"] = [[c["start"], 33.0]] if False else i.get("schedule")
        c["irr"] = i
    T("parameters of the other irrigation strategies", other)
    if meth == 0:
        T("application efficiency / wetted surface / maxima without irrigation",
          lambda c: c.__setitem__("irr", dict(c.get("irr") or {"irrigation_method": 0}, AppEff=rng.choice([40.0, 77.0]), WetSurf=rng.choice([25.0, 60.0]), MaxIrr=rng.choice([3.0, 50.0]), MaxIrrSeason=rng.choice([0.0, 120.0]))))
        T("rainfed == constant depth 0", lambda c: c.__setitem__("irr", {"irrigation_method": 5, "depth": 0.0}))
        T("rainfed == empty schedule", lambda c: c.__setitem__("irr", {"irrigation_method": 3, "schedule": []}))
        T("rainfed == interval irrigation with daily maximum 0", lambda c: c.__setitem__("irr", {"irrigation_method": 2, "IrrInterval": 3, "MaxIrr": 0.0}))
        T("rainfed == threshold irrigation with seasonal maximum 0", lambda c: c.__setitem__("irr", {"irrigation_method": 1, "SMT": [80, 80, 80, 80], "MaxIrrSeason": 0.0}))
        T("rainfed == constant depth with daily maximum 0", lambda c: c.__setitem__("irr", {"irrigation_method": 5, "depth": 20.0, "MaxIrr": 0.0}))
    return out


def _c20(payload):
    cfg = payload["cfg"]; rng = rng_for("c20", json.dumps(cfg, sort_keys=True))
    viol = []
    m0, t0 = run_cfg_tables(cfg)
    trs = neutral_transforms(cfg, rng)
    # explicit default harvest date
    crop0 = m0._param_struct.Seasonal_Crop_List[0]
    hd = m0.crop.harvest_date
    if cfg["crop"].get("harvest_date") is None and hd and int(getattr(m0.crop, "SwitchGDD", 0)) == 0:
        c = copy.deepcopy(cfg)
        mm, dd = [int(x) for x in str(hd).split("/")]
        c["crop"]["harvest_date"] = "%02d/%02d" % (mm, dd)
        trs.append(("explicit default harvest date %s" % c["crop"]["harvest_date"], c))
    # combination of everything at once
    if len(trs) >= 3:
        comb = copy.deepcopy(cfg)
        names = []
        for name, c in trs:
            if name.startswith("rainfed ==") or name.startswith("mulches on") or name.startswith("explicit"):
                continue
            for k in ("field", "fallow_field", "irr"):
                if c.get(k) != cfg.get(k):
                    comb[k] = dict(comb.get(k) or {}, **(c.get(k) or {}))
            names.append(name)
        trs.append(("combined: " + "; ".join(names), comb))
    checks = 0
    for name, c in trs:
        try:
            m, t = run_cfg_tables(c)
        except Exception as e:
            viol.append(V("C20:raises:%s" % type(e).__name__, "neutral transformation [%s] raised %s: %s" % (name, type(e).__name__, str(e)[:150]), transform=name, exc=sim.exc_info(e)))
            continue
        checks += 1
        for d in diff_tables(t0, t, "neutral transformation [%s]" % name):
            viol.append(V("C20:differs:%s" % name.split(" ")[0], d, transform=name, cfg2=c))
    for v in viol:
        v["cfg"] = cfg
    return {"status": "ok", "violations": viol, "checks": checks}


def worker_C20(payload):
    return _guard(_c20, payload)


# ------------------------------------------------------------------------------------------
# C18: soil profile and initial water content, recomputed from the initialised model
def _interp(x, xs, ys):
    if x <= xs[0]: return ys[0]
    if x >= xs[-1]: return ys[-1]
    for i in range(len(xs) - 1):
        if xs[i] <= x <= xs[i + 1]:
            if xs[i + 1] == xs[i]: return ys[i]
            return ys[i] + (ys[i + 1] - ys[i]) * (x - xs[i]) / (xs[i + 1] - xs[i])


def _c18(payload):
    cfg = payload["cfg"]
    viol = []
    if payload.get("prehistory"):
        # HISTORY: the same Soil / management / groundwater / CO2 objects were used before by another model with a
        # shallow-rooted crop (Potato, Zmax 0.6 m); every soil the model runs on must still be built as specified
        objs = sim.build_objects(cfg)
        try:
            from aquacrop.entities.crop import Crop
            pre = dict(objs); pre["crop"] = Crop("Potato", planting_date=cfg["crop"]["planting_date"])
            pre["weather_df"] = objs["weather_df"].copy()
            m0 = sim.AquaCropModel(**pre); m0._initialize()
        except Exception:
            pass
        m = sim.AquaCropModel(**objs); m._initialize()
    else:
        m = sim.build_model(cfg); m._initialize()
    ps = m._param_struct; prof = ps.Soil.Profile
    dz = np.array(prof.dz, dtype=float); n = len(dz)
    dzsum = np.array(prof.dzsum, dtype=float); zbot = np.array(prof.zBot, dtype=float); ztop = np.array(prof.z_top, dtype=float); zmid = np.array(prof.zMid, dtype=float)
    cum = np.cumsum(dz)
    soil_user0 = sim.make_soil(cfg["soil"])
    dz_user = np.array(soil_user0.profile["dz"], dtype=float)
    deepened = bool(len(dz_user) != n or not np.allclose(dz_user, dz, rtol=0, atol=1e-9))
    tag = ":deepened" if deepened else ""
    def chk(ok, key, what):
        if not ok:
            viol.append(V("C18:" + key, what))
    chk(np.all(dz > 0), "dz_positive", "non-positive compartment thickness %r" % dz.tolist())
    chk(np.allclose(dzsum, cum, rtol=0, atol=5.1e-3), "dzsum", "cumulative depths %r are not the running sum of thicknesses %r" % (dzsum.tolist(), cum.tolist()))
    chk(np.allclose(zbot, cum, rtol=0, atol=5.1e-3), "bottoms" + tag, "compartment bottoms %r are not the running sum of thicknesses %r" % (zbot.tolist(), cum.tolist()))
    chk(np.allclose(ztop, zbot - dz, rtol=0, atol=1e-9), "tops" + tag, "compartment tops inconsistent with bottoms and thickness")
    chk(np.allclose(zmid, (ztop + zbot) / 2, rtol=0, atol=1e-9), "mids" + tag, "compartment mid-depths inconsistent")
    lay = np.array(prof.Layer, dtype=int)
    chk(lay[0] == 1 and np.all(np.diff(lay) >= 0) and np.all(np.diff(lay) <= 1), "layers_contiguous", "layer indices %r not contiguous from the surface" % lay.tolist())
    wp = np.array(prof.th_wp); fc = np.array(prof.th_fc); s = np.array(prof.th_s); dry = np.array(prof.th_dry); tau = np.array(prof.tau)
    chk(np.all(dry < wp) and np.all(wp < fc) and np.all(fc <= s) and np.all(dry > 0), "ordering", "air-dry < wilting point < field capacity <= saturation violated: dry=%r wp=%r fc=%r s=%r" % (dry.tolist(), wp.tolist(), fc.tolist(), s.tolist()))
    chk(np.all(tau >= 0) and np.all(tau <= 1), "tau_range", "drainage coefficient outside [0,1]: %r" % tau.tolist())
    # every compartment keeps its layer's properties (compare with the user's soil layers)
    soil_user = sim.make_soil(cfg["soil"])
    pdf = soil_user.profile
    try:
        ldf = pdf.drop_duplicates(subset=["Layer"]) if "Layer" in pdf.columns else None
    except Exception:
        ldf = None
    if ldf is not None and len(ldf):
        bylayer = {int(r["Layer"]): r for _, r in ldf.iterrows() if not pd.isna(r["Layer"])}
        for i in range(n):
            r = bylayer.get(int(lay[i]))
            if r is None:
                chk(False, "layer_unknown", "compartment %d refers to layer %d which the soil does not define" % (i, lay[i])); break
            for col, arr in (("th_wp", wp), ("th_fc", fc), ("th_s", s), ("Ksat", np.array(prof.Ksat)), ("penetrability", np.array(prof.Penetrability)), ("tau", tau)):
                if col in r and not pd.isna(r[col]) and float(r[col]) != float(arr[i]):
                    chk(False, "layer_props:%s" % col, "compartment %d (layer %d) has %s=%r, its layer says %r" % (i, lay[i], col, float(arr[i]), float(r[col]))); break
    zmax = max(float(c.Zmax) for c in ps.Seasonal_Crop_List)
    chk(float(cum[-1]) >= zmax - 1e-9, "depth", "profile ends at %.3f m (sum of thicknesses), above the maximum rooting depth %.3f m" % (float(cum[-1]), zmax))
    # layer thickness coverage: user layers contiguous
    # initial water content
    iw = cfg.get("iwc") or {"wc_type": "Prop", "method": "Layer", "depth_layer": [1], "value": ["FC"]}
    th0 = np.array(m._init_cond.th, dtype=float)
    wt = int(ps.water_table)
    fcadj = np.array(m._init_cond.th_fc_Adj, dtype=float)
    if wt == 0:
        exp = np.zeros(n)
        vals = iw["value"]; dl = iw["depth_layer"]
        def val_for(v, i):
            if iw["wc_type"] == "Prop":
                return {"WP": wp[i], "FC": fc[i], "SAT": s[i]}[v]
            if iw["wc_type"] == "Pct":
                return wp[i] + (float(v) / 100.0) * (fc[i] - wp[i])
            return float(v)
        ok = True
        if iw["method"] == "Layer":
            for i in range(n):
                if int(lay[i]) in [int(x) for x in dl]:
                    v = vals[[int(x) for x in dl].index(int(lay[i]))]
                    exp[i] = val_for(v, i)
                else:
                    ok = False
        else:
            # the given depth points carry water contents (the requested property / percentage of available water of the
            # layer found at that depth, or the number itself); these are interpolated linearly at the compartment
            # mid-depths (mid-depths from the running sum of thicknesses), constant beyond the first / last point
            xs = [float(x) for x in dl]
            def comp_at(depth):
                for j in range(n):
                    if depth < dzsum[j]:
                        return j
                return n - 1
            ys = []
            for x, v in zip(xs, vals):
                j = comp_at(x)
                ys.append(val_for(v, j))
            mids = (np.append([0.0], dzsum[:-1]) + dzsum) / 2
            for i in range(n):
                exp[i] = _interp(float(mids[i]), xs, ys)
        if ok and not np.allclose(th0, exp, rtol=0, atol=1e-9):
            i = int(np.argmax(np.abs(th0 - exp)))
            viol.append(V("C18:iwc:%s:%s" % (iw["wc_type"], iw["method"]), "initial water content of compartment %d is %.9g, the specification (%s/%s %r at %r) gives %.9g" % (i, th0[i], iw["wc_type"], iw["method"], vals, dl, exp[i])))
    for v in viol:
        v["cfg"] = cfg
        if payload.get("prehistory"):
            v["prehistory"] = True
    return {"status": "ok", "violations": viol, "ncomp": n, "zmax": zmax, "deepened": bool(n != len(soil_user.profile) or float(zbot[-1]) > float(np.sum(soil_user.profile["dz"])) + 1e-9)}


def worker_C18(payload):
    return _guard(_c18, payload)
