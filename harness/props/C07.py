"""C07 — the simulation calendar is exact."""
from common import *
import l1, sim
from props import _base
from suites import clock as clock_suite

TRUSTED_BASE = _base.STD_TRUSTED + [
    "Properties/C07.v: all theorems 'Closed under the global context' (no axioms); physics abstract (section variables)",
    "modelled: run_single_timestep's clock logic, check_model_is_finished, update_time, run_model/_perform_timestep (Clock.v); "
    "tied by suites/clock.py (extracted Clock.v vs real runs, physics replaced by the recorded crop_dead/crop_mature stream)",
    "dates are day offsets from the simulation start; pandas date_range/get_loc are trusted to map dates to offsets",
]
ASSUMPTIONS = ["wf_clock: every planting date lies in the window with a following step, harvest after its planting date and not after the next one (checked on every initialised model by the monitor)",
               "pandas Timestamp arithmetic maps dates to day offsets"]
RULE = ("correspondence: random windows (start before/at/after planting, 1-4 seasons, off-season on/off, user harvest dates, droughts, GDD crops) "
        "and random call partitions, distinct = distinct (configuration, partition); monitor: C07's statement re-evaluated on traces with an independent date oracle")


def suites(ctx):
    n = 140 if ctx["tier"] == "quick" else 1500
    from suites import calendar_ as cal
    out = [l1.run_suite("clock", clock_suite.gen, n, unit="clock"),
           l1.run_suite("calendar", cal.gen, 4000 if ctx["tier"] == "quick" else 40000, seed_names=("C07",), unit="calendar")]
    from suites import runc
    r = runc.run_custom(40 if ctx["tier"] == "quick" else 400, "C07")       # the calendar of whole concrete runs
    r["ties"] = "RunConcrete.v: whole runs (clock + concrete days + season resets) against the implementation's tables"
    out.append(r)
    from suites import initialise as ini
    r2 = ini.run_l3(48 if ctx["tier"] == "quick" else 600); r2["suite"] = "initialise"
    r2["ties"] = "Init/Initialise.v: the season list, the crop calendar of every season and whole simulations from the user's configuration"
    out.append(r2)
    if ctx["tier"] != "quick":     # exhaustive over pandas' Timestamp range (213 503 days) + samples of datetime's range
        out.append(l1.run_suite("calendar_dates", cal.gen_dates, 20000, unit="calendar"))
    return out


def monitor(ctx):
    n = 70 if ctx["tier"] == "quick" else 900
    cfgs = _base.draw_configs("C07", n)
    return _base.trace_monitor("C07", cfgs)


def replay(data):
    return _base.replay_trace("C07", data)
