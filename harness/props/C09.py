"""C09 — step-wise execution equals one uninterrupted run."""
from common import *
import l1, sim, monitors2
from props import _base
from suites import clock as clock_suite

TRUSTED_BASE = _base.STD_TRUSTED + [
    "Properties/C09.v: all theorems 'Closed under the global context' (no axioms); physics abstract",
    "modelled: AquaCropModel.run_model in both modes and _perform_timestep (Clock.v run_steps / run_till / perform); tied by suites/clock.py with random call partitions",
    "Properties/C09_api.v: Api.v models the wrapper itself (both run modes, initialize_model / process_outputs, the private flags, the DataFrame conversion, the getters, calls after termination); tied by suites/api.py on call sequences",
    "not modelled: wall-clock fields (execution_time), the half-initialised object a raising _initialize leaves behind",
]
ASSUMPTIONS = ["the property's call pattern: one initialising call, then calls with initialize_model=False, process_outputs=False, num_steps >= 1 (smaller raises ValueError in the code: api_num_steps_*); "
               "outside it the statement is refuted for core.py (api_partition_process_outputs_refuted, api_unfinished_refuted, api_reinitialise_refuted, api_num_steps_state_refuted: observations, DESIGN 15.7)"]
RULE = ("correspondence as C07 (with partitions); monitor: implementation vs implementation, every composition of short windows and random partitions "
        "of long ones (every second one with another model built, initialised or run from the same input objects between the calls), bitwise tables + status after every call; distinct = distinct (configuration, partition list)")


def suites(ctx):
    n = 140 if ctx["tier"] == "quick" else 1500
    out = [l1.run_suite("clock", clock_suite.gen, n, seed_names=("C09",), unit="clock")]
    from suites import api as api_suite
    ra = l1.run_suite("api", api_suite.gen, 500 if ctx["tier"] == "quick" else 8000, seed_names=("C09",), unit="api")
    ra["ties"] = "Api.v: call sequences on the real AquaCropModel wrapper (valid, adversarial, finished-model, directed and malformed streams)"
    ra["coverage"] = {k: dict(v) for k, v in api_suite.STATS.items()}
    out.append(ra)
    from suites import runc
    r = runc.run_custom(36 if ctx["tier"] == "quick" else 400, "C09")      # every third run: the model advances by a random sequence of run_steps_c calls
    r["ties"] = "RunConcrete.v: whole concrete runs, by run_till_c and by random sequences of run_steps_c calls, against the implementation's tables"
    out.append(r)
    return out


def monitor(ctx):
    thorough = ctx["tier"] != "quick"
    payloads = []
    # short windows: all compositions
    for i in range(4 if not thorough else 14):
        rng = rng_for("C09", "short", i)
        cfg = sim.gen_config(rng, seasons=1, end_mode="mid", start_mode=rng.choice(["at", "before"]))
        import pandas as pd
        nd = rng.choice([4, 5, 6] if not thorough else [5, 6, 7, 8])
        cfg["end"] = (pd.Timestamp(cfg["start"]) + pd.Timedelta(days=nd)).strftime("%Y/%m/%d")
        payloads.append({"cfg": cfg, "partitions": monitors2.compositions(nd)})
    for i in range(22 if not thorough else 300):
        rng = rng_for("C09", "long", i)
        cfg = sim.gen_config(rng)
        parts = [[rng.choice([1, 1, 2, 3, 10, 50, 200, 1000]) for _ in range(rng.randint(1, 40))] for _ in range(3 if not thorough else 6)]      # j % 2 == 1: activity between the calls; j % 3 == 2: typed flags
        # odd partitions are run with activity between the calls (worker_C09): give them pauses spread over the seasons
        for j in range(1, len(parts), 2):
            parts[j] = [rng.choice([1, 20, 45, 90, 150, 200, 365]) for _ in range(rng.randint(3, 12))]
        payloads.append({"cfg": cfg, "partitions": parts})
    return _base.run_monitor(monitors2.worker_C09, payloads, timeout=600)


def replay(data):
    return _base.replay_worker(monitors2.worker_C09, data, {"partitions": [data.get("violation", {}).get("partition") or [1, 2, 3]], "between_all": bool(data.get("violation", {}).get("between"))})
