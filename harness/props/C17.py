"""C17 — stress and growth response functions are bounded and monotone."""
import math, types, itertools
import numpy as np
from common import *
import l1
from suites import kernels, fco2 as fco2_suite

TRUSTED_BASE = [
    "Coq 8.16.1 kernel (coqc); vm_compute for the finite catalogue obligation; no native_compute",
    "axioms (Print Assumptions): ClassicalDedekindReals.sig_not_dec, sig_forall_dec, functional_extensionality_dep, Classical_Prop.classic (Coq Reals)",
    "harness/gen_facts.py (ast translator of crop_params.py / Crop.__init__ defaults / CO2 ref_concentration)",
    "extraction: ExtrOcamlBasic only; coq/ocaml/drvlib.ml float instance (libm exp/log/log10)",
    "L1 correspondence under the libm proxy for np.exp/log/log10 (numpy differs from libm by <= 1 ulp)",
    "theorems are over exact reals; IEEE rounding is outside them (monitor tolerance 1e-12)",
]
ASSUMPTIONS = ["exact real arithmetic in theorems", "hand-written model of 6 kernel files + CO2 block, tied by bit-exact L1"]
RULE = ("L1: random + threshold-hitting arguments over all 37 crops and random parameter sets, distinct = distinct argument tuples; "
        "monitor: the property's own lattice on the implementation (range, discrete monotonicity, inversion, fCO2 at reference)")


def suites(ctx):
    n = 12000 if ctx["tier"] == "quick" else 240000
    out = [l1.run_suite("kernels", kernels.gen, n)]
    out.append(l1.run_suite("fco2_init", fco2_suite.gen, 222 if ctx["tier"] == "quick" else 1480))
    return out


def extra_obligations(ctx):
    return ["crop_catalogue_ok17 (forallb over the regenerated 37-row catalogue, vm_compute)"]


TOL = 1e-12


def monitor(ctx):
    import sim
    from suites.kernels import (growing_degree_day, water_stress, temperature_stress, cc_development,
                                cc_required_time, crop_obj, CROPS)
    thorough = ctx["tier"] != "quick"
    viol = []
    evals = 0

    def bad(key, what, info):
        viol.append({"key": key, "what": what, "kind": "function", "input": info})

    dr_lat = [x / 100.0 for x in range(-20, 121, 2 if thorough else 5)]
    et_lat = [0.1, 1, 2.5, 5, 7.5, 10, 15, 20] if not thorough else [0.1 + 0.5 * i for i in range(40)]
    t_lat = [float(t) for t in range(-30, 61, 1 if thorough else 3)]
    for name in CROPS:
        c = crop_obj(name)
        # water stress
        for et0 in et_lat:
            for beta in (False, True):
                prev = None
                for d in dr_lat:
                    taw = 120.0
                    ks = water_stress(c.p_up, c.p_lo, c.ETadj, c.beta, c.fshape_w, 1, d * taw, taw, et0, beta)
                    evals += 1
                    ks = [float(k) for k in ks]
                    if any((k < -TOL or k > 1 + TOL or k != k) for k in ks):
                        bad("C17:ws_range:%s" % name, "water-stress coefficient outside [0,1]: %r" % (ks,), {"crop": name, "Dr/TAW": d, "et0": et0, "beta": beta})
                    if prev and any(k > p + TOL for k, p in zip(ks, prev)):
                        bad("C17:ws_mono:%s" % name, "water-stress coefficient increases with depletion", {"crop": name, "Dr/TAW": d, "et0": et0, "beta": beta, "ks": ks, "prev": prev})
                    prev = ks
        # temperature stress, gdd
        prevh = prevc = None
        for t in t_lat:
            h, k = temperature_stress(c, t, t)
            evals += 1
            h, k = float(h), float(k)
            if not (-TOL <= h <= 1 + TOL and -TOL <= k <= 1 + TOL):
                bad("C17:kst_range:%s" % name, "pollination coefficient outside [0,1]", {"crop": name, "t": t, "heat": h, "cold": k})
            if prevh is not None and (h > prevh + TOL or k < prevc - TOL):
                bad("C17:kst_mono:%s" % name, "pollination coefficient not monotone in temperature", {"crop": name, "t": t, "heat": h, "cold": k, "prev": [prevh, prevc]})
            prevh, prevc = h, k
        for method in (1, 2, 3):
            for tmin in t_lat[::3]:
                prevg = None
                for tmax in t_lat:
                    g = float(growing_degree_day(method, c.Tupp, c.Tbase, tmax, tmin))
                    evals += 1
                    if g < -TOL or g > (c.Tupp - c.Tbase) + TOL or g != g:
                        bad("C17:gdd_range:%s" % name, "gdd outside [0,Tupp-Tbase]", {"crop": name, "method": method, "tmax": tmax, "tmin": tmin, "gdd": g})
                    if prevg is not None and g < prevg - TOL:
                        bad("C17:gdd_mono:%s" % name, "gdd decreases as tmax rises", {"crop": name, "method": method, "tmax": tmax, "tmin": tmin, "gdd": g, "prev": prevg})
                    prevg = g
            for tmax in t_lat[::3]:
                prevg = None
                for tmin in t_lat:
                    g = float(growing_degree_day(method, c.Tupp, c.Tbase, tmax, tmin))
                    evals += 1
                    if prevg is not None and g < prevg - TOL:
                        bad("C17:gdd_mono:%s" % name, "gdd decreases as tmin rises", {"crop": name, "method": method, "tmax": tmax, "tmin": tmin, "gdd": g, "prev": prevg})
                    prevg = g
        # canopy curves
        cgc = float(c.CGC_CD) if c.CGC_CD > 0 else float(c.CGC)
        cdc = float(c.CDC_CD) if c.CDC_CD > 0 else float(c.CDC)
        if cgc > 0 and cdc > 0:
            tmax_ = 400.0 if cgc > 0.03 else 4000.0
            ts = [tmax_ * i / (400 if thorough else 120) for i in range((400 if thorough else 120) + 1)]
            for ccx in (float(c.CCx), 0.7 * float(c.CCx)):
                pg = pd_ = None
                for t in ts:
                    g = float(cc_development(c.CC0, ccx, cgc, cdc, t, "Growth", c.CCx))
                    d = float(cc_development(c.CC0, ccx, cgc, cdc, t, "Decline", c.CCx))
                    evals += 2
                    if not (-TOL <= g <= ccx + TOL and -TOL <= d <= ccx + TOL):
                        bad("C17:cc_range:%s" % name, "canopy curve outside [0,CCx]", {"crop": name, "t": t, "CCx": ccx, "growth": g, "decline": d})
                    if pg is not None and (g < pg - TOL or d > pd_ + TOL):
                        bad("C17:cc_mono:%s" % name, "canopy growth/decline curve not monotone", {"crop": name, "t": t, "CCx": ccx, "growth": g, "decline": d, "prev": [pg, pd_]})
                    pg, pd_ = g, d
                # inversion
                for f in (0.02, 0.2, 0.5, 0.8, 0.98):
                    cc = c.CC0 + (ccx - c.CC0) * f
                    treq = float(cc_required_time(cc, c.CC0, ccx, cgc, cdc, "CGC"))
                    back = float(cc_development(c.CC0, ccx, cgc, cdc, treq, "Growth", c.CCx))
                    evals += 1
                    if abs(back - cc) > 1e-9:
                        bad("C17:cc_inverse:%s" % name, "cc_required_time does not invert the growth curve", {"crop": name, "cc": cc, "tReq": treq, "back": back})
    # fCO2 on the initialised model
    concs = [250, 300, 369.41, 400, 450, 500, 550, 551, 700, 1000, 1500, 1999, 2000, 2500]
    pairs = [(cn, float(co), "champion_climate.txt", "1985/05/01", "1986/12/30") for cn in CROPS for co in concs]
    remove_libm_proxy()
    res = sim.pmap(fco2_suite._job, pairs, timeout=60)
    install_libm_proxy()
    by = {}
    for r in res:
        if r.get("ok"):
            by.setdefault(r["crop"], []).append((r["conc"], r["fCO2"]))
            evals += 1
    for cn, lst in by.items():
        lst.sort()
        for (c0, f0), (c1, f1) in zip(lst, lst[1:]):
            if f1 < f0 - TOL:
                bad("C17:fco2_mono:%s" % cn, "fCO2 decreases with concentration", {"crop": cn, "c0": c0, "f0": f0, "c1": c1, "f1": f1})
        for c0, f0 in lst:
            if abs(c0 - 369.41) < 1e-9 and abs(f0 - 1) > TOL:
                bad("C17:fco2_ref:%s" % cn, "fCO2 at reference concentration is not 1", {"crop": cn, "fCO2": f0})
    # fCO2 of LATER seasons (assigned by the season reset): over multi-season runs with the user's own yearly CO2 series — level
    # stretches, the reference value itself, runs continuing past the last year of the series — the factor in force in a season must be a
    # function of that season's concentration: equal concentrations give equal factors, 1 at the reference, non-decreasing
    jobs = []
    sel = [c for c in CROPS if sim.crop_params[c].get("CalendarType") == 1 and c not in sim.YLDWC0]
    sel = sel if thorough else sel[::3]
    for j, cn in enumerate(sel):
        for ser in ([340.0, 369.41, 369.41, 420.0, 420.0, 420.0], [400.0, 400.0, 369.41, 369.41, 500.0], [369.41, 330.0, 330.0]):
            jobs.append((cn, ser, 1986 + j % 3, 369.41))
        # ... and with the USER's reference concentration (400 / 330 ppm): 1 at THAT value in every season
        jobs.append((cn, [380.0, 400.0, 400.0, 430.0], 1986 + j % 3, 400.0))
        jobs.append((cn, [330.0, 330.0, 369.41], 1987, 330.0))
    res2 = sim.pmap(_season_fco2_job, jobs, timeout=300)
    seasons_seen = 0
    for (cn, ser, y0, ref), r in zip(jobs, res2):
        if not r.get("ok"):
            continue
        seen = {}
        for k, conc, f in r["seasons"]:
            seasons_seen += 1; evals += 1
            if abs(conc - ref) < 1e-9 and abs(f - 1) > TOL:
                bad("C17:fco2_ref_season:%s" % cn, "fCO2 in force in season %d is %.9g at the reference concentration %.6g" % (k, f, ref), {"crop": cn, "series": ser, "first_year": y0, "season": k, "ref": ref})
            if (conc > ref and f < 1 - TOL) or (conc < ref and f > 1 + TOL):
                bad("C17:fco2_side_season:%s" % cn, "fCO2 in force in season %d is %.9g at %.6g ppm with reference %.6g (must be >= 1 above the reference, <= 1 below)" % (k, f, conc, ref), {"crop": cn, "series": ser, "first_year": y0, "season": k, "ref": ref})
            for c0, f0 in seen.items():
                if abs(c0 - conc) < 1e-9 and abs(f0 - f) > TOL:
                    bad("C17:fco2_function_season:%s" % cn, "two seasons with the same concentration %.6g have factors %.9g and %.9g" % (conc, f0, f), {"crop": cn, "series": ser, "first_year": y0, "season": k})
                if (c0 < conc and f0 > f + TOL) or (c0 > conc and f0 < f - TOL):
                    bad("C17:fco2_mono_season:%s" % cn, "fCO2 not non-decreasing across seasons: %.6g ppm -> %.9g, %.6g ppm -> %.9g" % (c0, f0, conc, f), {"crop": cn, "series": ser, "first_year": y0, "season": k})
            seen[conc] = f
    return {"violations": viol, "coverage": {"evaluations": evals, "distinct_nontrivial": evals, "fco2_seasons_of_multi_season_runs": seasons_seen,
                                             "crops": len(CROPS), "fco2_crops_initialised": len(by)},
            "samples": [{"monitor": "lattice", "crops": len(CROPS), "dr_points": len(dr_lat), "et0_points": len(et_lat), "temp_points": len(t_lat)}]}


def _season_fco2_job(job):
    """(crop, yearly ppm series, first year) -> per season (index, concentration in force, fCO2 in force) of a run over the series' years + 1"""
    import sim, pandas as pd
    cn, ser, y0, ref = job
    try:
        plant = sim.default_planting(rng_for("c17", cn), cn, "champion_climate.txt")
        cfg = {"start": "%d/%s" % (y0, plant), "end": "%d/12/30" % (y0 + len(ser)), "weather": {"file": "champion_climate.txt", "ops": []},
               "crop": {"name": cn, "planting_date": plant, "harvest_date": None, "kwargs": {}}, "off_season": False,
               "soil": {"type": "SandyLoam", "kwargs": {}}, "iwc": None, "irr": {"irrigation_method": 0}, "field": None, "fallow_field": None, "gw": None,
               "co2": dict({"series": [[y0 + i, p] for i, p in enumerate(ser)]}, **({} if ref == 369.41 else {"ref_concentration": ref}))}
        m = sim.build_model(cfg); m._initialize()
        out = []; seen = set()
        while not m._clock_struct.model_is_finished:
            k = int(m._clock_struct.season_counter)
            m.run_model(num_steps=1, initialize_model=False)
            if k >= 0 and k not in seen and k < len(m._param_struct.Seasonal_Crop_List):
                seen.add(k)
                out.append((k, float(m._param_struct.CO2.current_concentration), float(m._param_struct.Seasonal_Crop_List[k].fCO2)))
        return {"ok": True, "seasons": out}
    except Exception as e:
        return {"ok": False, "err": repr(e)[:200]}


def replay(data):
    """re-evaluate a recorded function-level violation on the current /repo"""
    v = data.get("violation", {})
    r = monitor({"tier": "quick"})
    return any(x["key"] == v.get("key") for x in r["violations"])
