"""shared plumbing of the property modules: draw configurations, run a monitor worker over them in
parallel, aggregate violations / coverage; replay of a recorded violation."""
import collections, json
from common import *
import sim, monitors


def draw_configs(name, n, **force):
    out = []
    for i in range(n):
        rng = rng_for("cfg", name, i)
        f = {k: (v(rng) if callable(v) else v) for k, v in force.items()}
        c = sim.gen_config(rng, **f)
        if i % 6 == 4:
            c["flagtypes"] = True         # read by sim.build_objects: boolean options handed over as numpy.bool_ / 0 / 1
        if i % 8 == 5 and not force.get("no_reuse"):
            c["reuse_model"] = True       # read by trace.trace_run: the traced run is the second run of a re-used model object
        out.append(c)
    return out


def run_monitor(worker, payloads, timeout=300, count_key=None):
    """returns dict(violations, coverage, samples).  worker results: {'status', 'violations', ...}"""
    res = sim.pmap(worker, payloads, timeout=timeout)
    viol = []; status = collections.Counter(); extra = collections.Counter()
    excs = collections.Counter()
    sigs = set()
    nontrivial = 0
    for p, r in zip(payloads, res):
        if r.get("hang"):
            status["hang"] += 1
            cfg = p.get("cfg") if isinstance(p, dict) else None
            viol.append({"key": "hang", "what": "the run did not finish within %d s" % timeout, "kind": "simulation", "cfg": cfg})
            continue
        if r.get("harness_error"):
            status["harness_error"] += 1
            viol.append({"key": "harness_error", "what": "harness error: " + r["harness_error"][-400:], "kind": "harness"})
            continue
        status[r.get("status", "?")] += 1
        if r.get("status") == "exception":
            x = r.get("exc", {})
            excs["%s@%s" % (x.get("type"), x.get("origin"))] += 1
        for v in r.get("violations", []):
            viol.append(v)
        for k in ("steps", "pairs", "checks", "partitions", "in_season_days", "seasons"):
            if isinstance(r.get(k), (int, float)):
                extra[k] += r[k]
        if r.get("status") == "ok":
            cfg = p.get("cfg") if isinstance(p, dict) else None
            if cfg:
                sigs.add(json.dumps(cfg, sort_keys=True, default=str))
            if (r.get("steps", 1) or r.get("checks", 0) or r.get("pairs", 0)):
                nontrivial += 1
    cov = {"evaluations": len(payloads), "distinct_nontrivial": min(nontrivial, len(sigs)) if sigs else nontrivial,
           "status": dict(status), "implementation_exceptions_not_judged_here": dict(excs), "totals": dict(extra)}
    samples = []
    for p in payloads[:2]:
        samples.append({"configuration": p.get("cfg") if isinstance(p, dict) else p})
    return {"violations": viol, "coverage": cov, "samples": samples}


def trace_monitor(pid, cfgs, timeout=300):
    payloads = [{"cfg": c, "props": [pid]} for c in cfgs]
    return run_monitor(monitors.worker_trace, payloads, timeout=timeout)


def replay_trace(pid, data):
    v = data.get("violation", {})
    cfg = v.get("cfg")
    if not cfg:
        return False
    r = monitors.worker_trace({"cfg": cfg, "props": [pid]})
    return any(x["key"] == v.get("key") for x in r.get("violations", []))


def replay_worker(worker, data, payload_extra=None):
    v = data.get("violation", {})
    cfg = v.get("cfg")
    if not cfg:
        return False
    p = {"cfg": cfg}
    p.update(payload_extra or {})
    for k in ("other", "partitions", "prehistory", "long_extension"):
        if k in v:
            p[k] = v[k]
    r = worker(p)
    return any(x["key"] == v.get("key") for x in r.get("violations", []))


STD_TRUSTED = [
    "Coq 8.16.1 kernel (coqc; coqchk in the thorough tier); vm_compute only for finite generated tables; no native_compute",
    "extraction: ExtrOcamlBasic only (bool, option, unit, list, prod, sumbool, sumor; andb/orb inlined), no Extract Constant; Z/positive/nat extracted as datatypes",
    "coq/ocaml/drvlib.ml: float instance of the Num record (IEEE doubles, libm exp/log/log10/pow, rint, printf-based decimal rounding) and the token protocol",
    "harness: libm proxy for np.exp/log/log10/power in aquacrop modules (numpy differs from libm by <= 1 ulp), argument generators, observation by rebinding names in module namespaces",
    "theorems over R are about exact real arithmetic; IEEE rounding, NaN/inf and overflow are outside them (monitor tolerances as in DESIGN.md section 4)",
    "translators (fail-closed, Python ast on the source text of /repo, run on every check): harness/gen_facts.py (catalogue / state-field / store-site / order-source tables) and harness/gen_kernels.py (kernel functions to Gallina definitions, proved equal to the hand model in proofs/KernelsSrcOK.v)",
]
