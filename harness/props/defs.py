"""defs.py — the property checks (see registry.py).  Counts: (suite, cases quick, cases thorough)."""
from common import *
import sim, monitors, monitors2
from props import _base
from props.registry import Prop, reg, trace_mon, worker_mon

R_AX = "axioms reported by Print Assumptions: the four Coq Reals axioms (ClassicalDedekindReals.sig_forall_dec, sig_not_dec, FunctionalExtensionality.functional_extensionality_dep, Classical_Prop.classic) where a theorem is over R; 'Closed under the global context' for the Z/list theorems"
EXACT = "exact real arithmetic in theorems; floats only in the correspondence"

reg(Prop("C13", "irrigation strategies honour their contracts",
    [("rainirr", 12000, 120000), ("rootzone", 3000, 30000)],
    trace_mon("C13", 60, 900, method=lambda r: r.choice([0, 1, 1, 2, 2, 3, 3, 4, 5, 5])),
    [R_AX, "modelled: irrigation.py, growth_stage.py (Water/RainIrr.v), root_zone_water.py (Water/RootZone.v); schedule re-indexing in Init/Inputs.v when claimed; "
           "NOT verified here: that run_single_timestep passes the right arguments (Day.v plumbing replay, C06/C01)"],
    [EXACT, "the threshold theorem is stated with the growth stage of the previous day, as the code computes it; 'the amount that refills it adjusted for application efficiency' is Depl*(200-eff)/100 as coded"],
    "L1: every strategy 0-5, caps binding/not, efficiencies, thresholds on/off the boundary, interval hits, schedule hits, off-season; distinct = distinct argument tuples. "
    "Monitor: IrrDay column against dap, dates, schedule and a wrapper capturing the decision's inputs on real runs"))

reg(Prop("C19", "shallow groundwater behaves consistently",
    [("gw", 12000, 120000)],
    trace_mon("C19", 50, 800, gw=lambda r: r.random() < 0.8),
    [R_AX, "modelled: check_groundwater_table.py, capillary_rise.py, groundwater_inflow.py (Water/Groundwater.v); the water-table series (read_groundwater_table) in Init/Inputs.v when claimed"],
    [EXACT, "capillary rise may exceed adjusted field capacity by the 5e-5 rounding of round(fcadj-th,4) (theorem capillary_cap; capillary_in_bounds_refuted shows th can pass th_s by that amount when fcadj = th_s)"],
    "L1: tables from 0.1 m to 30 m, inside / just below / far below the profile, class-based aCR/bCR, th near fcadj; "
    "monitor: fcadj range/far, saturation below the table at the end of the day, CR cap, z_gw column vs configured series, zero fluxes without a table"))

WATER_NOTE = ("modelled: drainage.py, rainfall_partition.py, irrigation.py, infiltration.py, capillary_rise.py, check_groundwater_table.py, groundwater_inflow.py, "
              "soil_evaporation.py (+evap_layer_water_content.py), transpiration.py, pre_irrigation.py, root_zone_water.py — each a hand-written Gallina function "
              "tied bit-for-bit by its L1 suite; the wiring of one day (which flux is reported in which column) is Day.v's plumbing replay")

reg(Prop("C02", "rain and irrigation are fully partitioned at the surface",
    [("rainirr", 8000, 100000), ("infiltration", 8000, 100000), ("drainage", 4000, 50000)],
    trace_mon("C02", 60, 900, bunds=lambda r: r.random() < 0.35),
    [R_AX, WATER_NOTE],
    [EXACT, "effective curve number in (0,100] (the property's own restriction); FluxOut entering infiltration is at most Ksat (proved for drainage's output: drainage_flux_le_ksat); ponding within [0, bund height] at the start of the day (C03 invariant)"],
    "L1: rain 0-300 mm incl. exactly 0.05*S, z_cn on/off compartment boundaries, bunds/sr_inhb, cn 30-100 and > 100 (malformed stream); infiltration with bunds on/off, "
    "ponding, bund-removal day, low-Ksat layers, back-up loop up to the surface; monitor: rows vs the weather record and the irrigation of the same step"))

reg(Prop("C01", "daily soil-water balance closes",
    [("drainage", 5000, 60000), ("infiltration", 5000, 60000), ("evap", 4000, 60000), ("gw", 5000, 60000), ("roots", 4000, 40000), ("transp", 4000, 60000)],
    trace_mon("C01", 70, 1200),
    [R_AX, WATER_NOTE],
    [EXACT, "profiles with th_dry < th_wp < th_fc < th_s strictly, tau > 0, Ksat > 0 (wf_prof); water contents within [th_dry, th_s] on entry (C03 invariant)"],
    "L1 per water process (profiles of 1-20 compartments, 1-3 layers, th from dry to saturated, fluxes 0-300 mm, every flag); monitor: per-process ledger "
    "(storage before/after each wrapped process vs the flux it returns) and day closure from the tables, 1e-6 mm (+ the capillary-rise allowance), carry-over between days and at season resets"))

reg(Prop("C03", "soil water content and ponding stay within physical limits",
    [("drainage", 5000, 60000), ("infiltration", 5000, 60000), ("evap", 4000, 60000), ("gw", 5000, 60000), ("roots", 4000, 40000), ("transp", 4000, 60000), ("rootzone", 3000, 30000)],
    trace_mon("C03", 70, 1200, bunds=lambda r: r.random() < 0.3, gw=lambda r: r.random() < 0.35),
    [R_AX, WATER_NOTE],
    [EXACT, "wf_prof; capillary rise may overshoot adjusted field capacity by 5e-5 (round(.,4)), hence th_s by the same amount only when fcadj = th_s (capillary_in_bounds_refuted; the monitor measures whether real runs reach it)"],
    "as C01; monitor: min/max of every th column against the initialised profile, ponding vs bund height, Wr >= 0; saturated starts, 300 mm storms, droughts, tables inside the profile, Paddy"))

reg(Prop("C04", "fluxes are non-negative and actual never exceeds potential",
    [("rainirr", 6000, 80000), ("drainage", 4000, 50000), ("infiltration", 4000, 50000), ("evap", 5000, 80000), ("gw", 4000, 50000), ("transp", 5000, 80000), ("kernels", 3000, 30000)],
    trace_mon("C04", 70, 1200, crop=lambda r: r.choice([None, None, "DryBean", "Soybean", "SugarCane", "Cotton", "Quinoa"]) or r.choice(sim.CROPS)),
    [R_AX, WATER_NOTE],
    [EXACT, "parameter ranges of espot_ranges (0<=kex, 0<=fwcc<=100, 0<=CCxW<=1, mulch in range) and wf_prof"],
    "as C01 plus canopy cover up to 1 (> 0.966), ponded / mulched / partially wetted fields; monitor: sign and order of every flux column, off-season zeros"))
