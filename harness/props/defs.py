"""defs.py — the property checks (see registry.py).  Counts: (suite, cases quick, cases thorough)."""
from common import *
import sim, monitors, monitors2
from props import _base
from props.registry import Prop, reg, trace_mon, worker_mon

R_AX = "axioms reported by Print Assumptions: the four Coq Reals axioms (ClassicalDedekindReals.sig_forall_dec, sig_not_dec, FunctionalExtensionality.functional_extensionality_dep, Classical_Prop.classic) where a theorem is over R; 'Closed under the global context' for the Z/list theorems"
EXACT = "exact real arithmetic in theorems; floats only in the correspondence"

reg(Prop("C13", "irrigation strategies honour their contracts",
    [("rainirr", 12000, 120000), ("rootzone", 3000, 30000)],
    trace_mon("C13", 60, 900, method=lambda r: r.choice([0, 1, 1, 2, 2, 3, 3, 4, 5, 5])),
    [R_AX, "modelled: irrigation.py, growth_stage.py (Water/RainIrr.v), root_zone_water.py (Water/RootZone.v); schedule re-indexing in Init/Inputs.v when claimed; "
           "NOT verified here: that run_single_timestep passes the right arguments (Day.v plumbing replay, C06/C01)"],
    [EXACT, "the threshold theorem is stated with the growth stage of the previous day, as the code computes it; 'the amount that refills it adjusted for application efficiency' is Depl*(200-eff)/100 as coded"],
    "L1: every strategy 0-5, caps binding/not, efficiencies, thresholds on/off the boundary, interval hits, schedule hits, off-season; distinct = distinct argument tuples. "
    "Monitor: IrrDay column against dap, dates, schedule and a wrapper capturing the decision's inputs on real runs"))

reg(Prop("C19", "shallow groundwater behaves consistently",
    [("gw", 12000, 120000)],
    trace_mon("C19", 50, 800, gw=lambda r: r.random() < 0.8),
    [R_AX, "modelled: check_groundwater_table.py, capillary_rise.py, groundwater_inflow.py (Water/Groundwater.v); the water-table series (read_groundwater_table) in Init/Inputs.v when claimed"],
    [EXACT, "capillary rise may exceed adjusted field capacity by the 5e-5 rounding of round(fcadj-th,4) (theorem capillary_cap; capillary_in_bounds_refuted shows th can pass th_s by that amount when fcadj = th_s)"],
    "L1: tables from 0.1 m to 30 m, inside / just below / far below the profile, class-based aCR/bCR, th near fcadj; "
    "monitor: fcadj range/far, saturation below the table at the end of the day, CR cap, z_gw column vs configured series, zero fluxes without a table"))

WATER_NOTE = ("modelled: drainage.py, rainfall_partition.py, irrigation.py, infiltration.py, capillary_rise.py, check_groundwater_table.py, groundwater_inflow.py, "
              "soil_evaporation.py (+evap_layer_water_content.py), transpiration.py, pre_irrigation.py, root_zone_water.py — each a hand-written Gallina function "
              "tied bit-for-bit by its L1 suite; the wiring of one day (which flux is reported in which column) is Day.v's plumbing replay")

reg(Prop("C02", "rain and irrigation are fully partitioned at the surface",
    [("rainirr", 8000, 100000), ("infiltration", 8000, 100000), ("drainage", 4000, 50000)],
    trace_mon("C02", 60, 900, bunds=lambda r: r.random() < 0.35),
    [R_AX, WATER_NOTE],
    [EXACT, "effective curve number in (0,100] (the property's own restriction); FluxOut entering infiltration is at most Ksat (proved for drainage's output: drainage_flux_le_ksat); ponding within [0, bund height] at the start of the day (C03 invariant)"],
    "L1: rain 0-300 mm incl. exactly 0.05*S, z_cn on/off compartment boundaries, bunds/sr_inhb, cn 30-100 and > 100 (malformed stream); infiltration with bunds on/off, "
    "ponding, bund-removal day, low-Ksat layers, back-up loop up to the surface; monitor: rows vs the weather record and the irrigation of the same step"))

reg(Prop("C01", "daily soil-water balance closes",
    [("drainage", 5000, 60000), ("infiltration", 5000, 60000), ("evap", 4000, 60000), ("gw", 5000, 60000), ("roots", 4000, 40000), ("transp", 4000, 60000)],
    trace_mon("C01", 70, 1200),
    [R_AX, WATER_NOTE],
    [EXACT, "profiles with th_dry < th_wp < th_fc < th_s strictly, tau > 0, Ksat > 0 (wf_prof); water contents within [th_dry, th_s] on entry (C03 invariant)"],
    "L1 per water process (profiles of 1-20 compartments, 1-3 layers, th from dry to saturated, fluxes 0-300 mm, every flag); monitor: per-process ledger "
    "(storage before/after each wrapped process vs the flux it returns) and day closure from the tables, 1e-6 mm (+ the capillary-rise allowance), carry-over between days and at season resets"))

reg(Prop("C03", "soil water content and ponding stay within physical limits",
    [("drainage", 5000, 60000), ("infiltration", 5000, 60000), ("evap", 4000, 60000), ("gw", 5000, 60000), ("roots", 4000, 40000), ("transp", 4000, 60000), ("rootzone", 3000, 30000)],
    trace_mon("C03", 70, 1200, bunds=lambda r: r.random() < 0.3, gw=lambda r: r.random() < 0.35),
    [R_AX, WATER_NOTE],
    [EXACT, "wf_prof; capillary rise may overshoot adjusted field capacity by 5e-5 (round(.,4)), hence th_s by the same amount only when fcadj = th_s (capillary_in_bounds_refuted; the monitor measures whether real runs reach it)"],
    "as C01; monitor: min/max of every th column against the initialised profile, ponding vs bund height, Wr >= 0; saturated starts, 300 mm storms, droughts, tables inside the profile, Paddy"))

reg(Prop("C04", "fluxes are non-negative and actual never exceeds potential",
    [("rainirr", 6000, 80000), ("drainage", 4000, 50000), ("infiltration", 4000, 50000), ("evap", 5000, 80000), ("gw", 4000, 50000), ("transp", 5000, 80000), ("kernels", 3000, 30000)],
    trace_mon("C04", 70, 1200, crop=lambda r: r.choice([None, None, "DryBean", "Soybean", "SugarCane", "Cotton", "Quinoa"]) or r.choice(sim.CROPS)),
    [R_AX, WATER_NOTE],
    [EXACT, "parameter ranges of espot_ranges (0<=kex, 0<=fwcc<=100, 0<=CCxW<=1, mulch in range) and wf_prof"],
    "as C01 plus canopy cover up to 1 (> 0.966), ponded / mulched / partially wetted fields; monitor: sign and order of every flux column, off-season zeros"))

CROP_NOTE = ("modelled: canopy_cover.py, adjust_CCx.py, update_CCx_CDC.py (Crop/Canopy.v), root_development.py, germination.py, pre_irrigation.py (Crop/Roots.v), "
             "biomass_accumulation.py, HIref_current_day.py, harvest_index.py, HIadj_*.py and the yield lines of run_single_timestep.py (Crop/Yield.v), kernels (Kernels.v)")

reg(Prop("C05", "crop state stays inside its configured envelope",
    [("canopy", 6000, 80000), ("roots", 6000, 80000), ("yield", 6000, 80000), ("kernels", 4000, 40000)],
    trace_mon("C05", 70, 1200, strict=lambda r: r.random() < 0.6),
    [R_AX, CROP_NOTE],
    [EXACT, "crop_ok / rc_ok / hi_crop_ok parameter hypotheses (0 < CC0 <= CCx <= 1, CGC > 0, 0 < Zmin <= Zmax in whole centimetres, 0 < HIini < HI0, b_HI >= 1 ...), step_ok = CC0*exp(CGC*dt) <= CCx for one day's time increment; "
            "penetrabilities in [0,100]; finiteness is expressed as definedness of the modelled operations only",
     "the cap on the adjusted harvest index is read as HI0*(1+max(dHI0,0)/100): the catalogue's placeholder dHI0 = -9 (SugarCane, AlfalfaGDD) is not an 'allowed increase' (hi_adj_le_refuted documents that HIadj = HIref = HI0 there)"],
    "L1: genuine crop objects of all 37 crops, chained daily trajectories through every phase (emergence, growth, plateau, senescence, early senescence, rewatering, death), restrictive layers, water tables; "
    "monitor: trajectories of get_crop_growth() against the season's crop parameters, restrictive-layer soils included"))

reg(Prop("C06", "yields and seasonal totals agree with the daily tables",
    [("yield", 8000, 80000), ("clock", 100, 1000)],
    trace_mon("C06", 70, 1200, method=lambda r: r.choice([0, 1, 2, 3, 4, 4, 5]), strict=lambda r: True),
    [R_AX, CROP_NOTE, "summary-row theorems on Clock.v are closed under the global context and hold for every physics; the plumbing of the row values is Day.v (L2 replay) when present"],
    [EXACT, "WPy <= 100, ET0 > 0, YldWC > 0 (catalogue_YldWC_refuted lists the 4 catalogue crops without YldWC)"],
    "L1 yield suite (biomass, HI, yield lines executed from the source text of run_single_timestep), clock suite; monitor: get_simulation_results() vs get_crop_growth()/get_water_flux() per season, "
    "every strategy incl. net + pre-irrigation + seasonal cap, crops that die early"))

GEN_NOTE = ("the tables StateFields.v / StoreSites.v are REGENERATED from /repo's source text on every run by the fail-closed ast translator harness/gen_facts.py "
            "(alias rules: plain assignment, attribute, basic index, tuple unpacking, per-function return summaries; heap-mediated aliasing and callables held in variables are not tracked) — the translator is trusted")

reg(Prop("C08", "seasons are independent when the off-season is not simulated",
    [("day", 40, 400)],
    worker_mon("C08", monitors2.worker_C08, 36, 500, timeout=600, off_season=False, seasons=lambda r: r.choice([2, 3, 3]), start_mode="at", end_mode="after",
               method=lambda r: r.choice([0, 1, 1, 2, 2, 3, 4, 4, 5])),
    ["all theorems 'Closed under the global context' (finite tables, vm_compute lifted by forallb_forall)", GEN_NOTE,
     "the whitelist carried_ok (21 fields not reset but dead or re-initialised on day 1) is justified by reading the code, field by field, in proofs/GenFactsOK.v; day1_dead in proofs/DayP.v proves it on the Day.v model under named per-process hypotheses"],
    ["a state field missing from the reset list and not in the hand-justified whitelist breaks carried_fields_whitelisted"],
    "monitor: multi-season run vs fresh single-season runs started on each later planting date, bitwise after aligning steps: all strategies, dry starts, bunds with initial ponding, GDD crops, time-varying CO2; "
    "distinct = distinct configurations with >= 1 compared season",
    replay=lambda d: _base.replay_worker(monitors2.worker_C08, d),
    extra_obl=["translator run on the current source (fail-closed)"]))

def _c10_monitor(ctx):
    thorough = ctx["tier"] != "quick"
    n = 14 if not thorough else 150
    cfgs = _base.draw_configs("C10", 2 * n)
    payloads = [{"cfg": cfgs[2 * i], "other": cfgs[2 * i + 1]} for i in range(n)]
    r = _base.run_monitor(monitors2.worker_C10, payloads, timeout=900)
    # fresh interpreters, different hash seeds
    sub = sim.pmap(monitors2.worker_C10_sub, [{"cfg": c, "seeds": [0, 1, 4242, "random"]} for c in cfgs[:(6 if not thorough else 40)]], timeout=900)
    res = sim.pmap(monitors2.worker_C10, payloads[:0], timeout=10)
    inproc = {}
    for s in sub:
        if "digests" not in s:
            continue
        ds = s["digests"]
        vals = set(ds.values())
        r["coverage"]["evaluations"] += len(ds)
        if len(vals) > 1 or any(v.startswith("ERROR") for v in vals):
            r["violations"].append({"key": "C10:hashseed", "what": "outputs differ between fresh interpreters with different hash seeds: %r" % ds, "kind": "simulation", "cfg": s["cfg"]})
        else:
            here = monitors2._digest(s["cfg"])
            if here not in vals:
                r["violations"].append({"key": "C10:process", "what": "outputs in this process (after many other models ran) differ from a fresh interpreter: %s vs %r" % (here, ds), "kind": "simulation", "cfg": s["cfg"]})
    r["coverage"]["fresh_interpreter_runs"] = sum(len(s.get("digests", {})) for s in sub)
    return r

reg(Prop("C10", "runs are deterministic and model instances are isolated",
    [],
    _c10_monitor,
    ["all theorems 'Closed under the global context'", GEN_NOTE,
     "PARTIAL: process / hash-seed / import-order behaviour lives in the CPython runtime and is not expressible in the Gallina model; it is explored by the monitor only (fresh interpreters with PYTHONHASHSEED in {0,1,4242,random}, histories A-then-B, interleaved stepping)"],
    ["the one store on a module-level name (utils/lars.py appends to sys.path at import) is listed by name in reported_sites and excluded from the theorem"],
    "monitor: implementation vs implementation: B alone / after A constructed / after A run / interleaved with A; fresh subprocesses per hash seed; distinct = distinct (B, A) pairs",
    replay=lambda d: _base.replay_worker(monitors2.worker_C10, d),
    extra_obl=["translator run on the current source (fail-closed)"]))

reg(Prop("C12", "configured parameters and weather stay read-only while stepping",
    [("day", 40, 400)],
    worker_mon("C12", monitors2.worker_C12, 40, 600, timeout=900),
    ["all theorems 'Closed under the global context'", GEN_NOTE,
     "Day.v: day_proc returns the state only — parameters, profile and weather do not occur in its result type (frame by typing), tied by the L2 plumbing replay"],
    ["exceptions enumerated in GenFactsOK.v: reset_initial_conditions writes the season crop's thermal-calendar fields / fCO2 and CO2.current_concentration; update_time writes the clock counters; "
     "run_single_timestep sets Aer/Zmin on the deep-copied fallow crop before the first season (reported site)"],
    "monitor: content hash of every parameter array/struct, the weather matrix and the user objects before the first step and after every step, z_cn / z_germ off compartment boundaries, deepened profiles; "
    "reports object, field, step",
    replay=lambda d: _base.replay_worker(monitors2.worker_C12, d),
    extra_obl=["translator run on the current source (fail-closed)"]))
