"""defs.py — the property checks (see registry.py).  Counts: (suite, cases quick, cases thorough)."""
from common import *
import sim, monitors, monitors2
from props import _base
from props.registry import Prop, reg, trace_mon, worker_mon

R_AX = "axioms reported by Print Assumptions: the four Coq Reals axioms (ClassicalDedekindReals.sig_forall_dec, sig_not_dec, FunctionalExtensionality.functional_extensionality_dep, Classical_Prop.classic) where a theorem is over R; 'Closed under the global context' for the Z/list theorems"
EXACT = "exact real arithmetic in theorems; floats only in the correspondence"

reg(Prop("C13", "irrigation strategies honour their contracts",
    [("rainirr", 12000, 120000), ("rootzone", 3000, 30000), ("inputs", 1500, 20000), ("day", 2000, 20000)],
    trace_mon("C13", 60, 900, method=lambda r: r.choice([0, 1, 1, 2, 2, 3, 3, 4, 5, 5])),
    [R_AX, "modelled: irrigation.py, growth_stage.py (Water/RainIrr.v), root_zone_water.py (Water/RootZone.v); schedule re-indexing in Init/Inputs.v when claimed; "
           "NOT verified here: that run_single_timestep passes the right arguments (Day.v plumbing replay, C06/C01)"],
    [EXACT, "the threshold theorem is stated with the growth stage of the previous day, as the code computes it; 'the amount that refills it adjusted for application efficiency' is Depl*(200-eff)/100 as coded"],
    "L1: every strategy 0-5, caps binding/not, efficiencies, thresholds on/off the boundary, interval hits, schedule hits, off-season; distinct = distinct argument tuples. "
    "Monitor: IrrDay column against dap, dates, schedule and a wrapper capturing the decision's inputs on real runs"))

reg(Prop("C19", "shallow groundwater behaves consistently",
    [("gw", 12000, 120000), ("inputs", 1500, 20000), ("initstate", 400, 6000), ("runc", 40, 400)],
    trace_mon("C19", 50, 800, gw=lambda r: r.random() < 0.8),
    [R_AX, "modelled: check_groundwater_table.py, capillary_rise.py, groundwater_inflow.py (Water/Groundwater.v); the water-table series (read_groundwater_table) in Init/Inputs.v when claimed"],
    [EXACT, "capillary rise may exceed adjusted field capacity by the 5e-5 rounding of round(fcadj-th,4) (theorem capillary_cap; capillary_in_bounds_refuted shows th can pass th_s by that amount when fcadj = th_s)"],
    "L1: tables from 0.1 m to 30 m, inside / just below / far below the profile, class-based aCR/bCR, th near fcadj; "
    "monitor: fcadj range/far, saturation below the table at the end of the day, CR cap, z_gw column vs configured series, zero fluxes without a table"))

WATER_NOTE = ("modelled: drainage.py, rainfall_partition.py, irrigation.py, infiltration.py, capillary_rise.py, check_groundwater_table.py, groundwater_inflow.py, "
              "soil_evaporation.py (+evap_layer_water_content.py), transpiration.py, pre_irrigation.py, root_zone_water.py — each a hand-written Gallina function "
              "tied bit-for-bit by its L1 suite; the wiring of one day (which flux is reported in which column) is Day.v's plumbing replay")

reg(Prop("C02", "rain and irrigation are fully partitioned at the surface",
    [("rainirr", 8000, 100000), ("infiltration", 8000, 100000), ("drainage", 4000, 50000), ("day", 2500, 30000), ("runc", 36, 400)],
    trace_mon("C02", 60, 900, bunds=lambda r: r.random() < 0.4, inert=True,
              # the day the bunds are removed with water still ponded (negative reported infiltration): bunds in the season, none in the
              # fallow, off-season simulated, >= 2 seasons, slowly draining soil
              off_season=lambda r: r.random() < 0.6, seasons=lambda r: r.choice([1, 2, 2, 3]),
              soil_type=lambda r: r.choice(["Paddy", "Clay", "SiltClay", "ClayLoam"]) if r.random() < 0.35 else r.choice(sim.SOILS)),
    [R_AX, WATER_NOTE],
    [EXACT, "effective curve number in (0,100] (the property's own restriction); FluxOut entering infiltration is at most Ksat (proved for drainage's output: drainage_flux_le_ksat); ponding within [0, bund height] at the start of the day (C03 invariant)"],
    "L1: rain 0-300 mm incl. exactly 0.05*S, z_cn on/off compartment boundaries, bunds/sr_inhb, cn 30-100 and > 100 (malformed stream); infiltration with bunds on/off, "
    "ponding, bund-removal day, low-Ksat layers, back-up loop up to the surface; monitor: rows vs the weather record and the irrigation of the same step"))

reg(Prop("C01", "daily soil-water balance closes",
    [("drainage", 5000, 60000), ("infiltration", 5000, 60000), ("evap", 4000, 60000), ("gw", 5000, 60000), ("roots", 4000, 40000), ("transp", 4000, 60000), ("initstate", 400, 6000), ("day", 3000, 40000), ("dayc", 2500, 30000), ("runc", 48, 500), ("initialise", 64, 800)],
    trace_mon("C01", 70, 1200),
    [R_AX, WATER_NOTE],
    [EXACT, "profiles with th_dry < th_wp < th_fc < th_s strictly, tau > 0, Ksat > 0 (wf_prof); water contents within [th_dry, th_s] on entry (C03 invariant)"],
    "L1 per water process (profiles of 1-20 compartments, 1-3 layers, th from dry to saturated, fluxes 0-300 mm, every flag); monitor: per-process ledger "
    "(storage before/after each wrapped process vs the flux it returns) and day closure from the tables, 1e-6 mm (+ the capillary-rise allowance), carry-over between days and at season resets"))

reg(Prop("C03", "soil water content and ponding stay within physical limits",
    [("drainage", 5000, 60000), ("infiltration", 5000, 60000), ("evap", 4000, 60000), ("gw", 5000, 60000), ("roots", 4000, 40000), ("transp", 4000, 60000), ("rootzone", 3000, 30000), ("initstate", 400, 6000), ("day", 2000, 30000), ("dayc", 2500, 30000), ("runc", 48, 500)],
    trace_mon("C03", 70, 1200, bunds=lambda r: r.random() < 0.3, gw=lambda r: r.random() < 0.35),
    [R_AX, WATER_NOTE],
    [EXACT, "wf_prof; capillary rise may overshoot adjusted field capacity by 5e-5 (round(.,4)), hence th_s by the same amount only when fcadj = th_s (capillary_in_bounds_refuted; the monitor measures whether real runs reach it)"],
    "as C01; monitor: min/max of every th column against the initialised profile, ponding vs bund height, Wr >= 0; saturated starts, 300 mm storms, droughts, tables inside the profile, Paddy"))

reg(Prop("C04", "fluxes are non-negative and actual never exceeds potential",
    [("rainirr", 6000, 80000), ("drainage", 4000, 50000), ("infiltration", 4000, 50000), ("evap", 5000, 80000), ("gw", 4000, 50000), ("transp", 5000, 80000), ("kernels", 3000, 30000), ("day", 2000, 30000), ("dayc", 2500, 30000), ("runc", 48, 500)],
    trace_mon("C04", 70, 1200, crop=lambda r: r.choice([None, None, "DryBean", "Soybean", "SugarCane", "Cotton", "Quinoa"]) or r.choice(sim.CROPS)),
    [R_AX, WATER_NOTE],
    [EXACT, "parameter ranges of espot_ranges (0<=kex, 0<=fwcc<=100, 0<=CCxW<=1, mulch in range) and wf_prof"],
    "as C01 plus canopy cover up to 1 (> 0.966), ponded / mulched / partially wetted fields; monitor: sign and order of every flux column, off-season zeros"))

CROP_NOTE = ("modelled: canopy_cover.py, adjust_CCx.py, update_CCx_CDC.py (Crop/Canopy.v), root_development.py, germination.py, pre_irrigation.py (Crop/Roots.v), "
             "biomass_accumulation.py, HIref_current_day.py, harvest_index.py, HIadj_*.py and the yield lines of run_single_timestep.py (Crop/Yield.v), kernels (Kernels.v)")

reg(Prop("C05", "crop state stays inside its configured envelope",
    [("canopy", 6000, 80000), ("roots", 6000, 80000), ("yield", 6000, 80000), ("kernels", 4000, 40000), ("cropinit", 3000, 40000), ("dayc", 2500, 30000), ("runc", 48, 500), ("initialise", 120, 1200)],
    trace_mon("C05", 70, 1200, strict=lambda r: r.random() < 0.6),
    [R_AX, CROP_NOTE],
    [EXACT, "crop_ok / rc_ok / hi_crop_ok parameter hypotheses (0 < CC0 <= CCx <= 1, CGC > 0, 0 < Zmin <= Zmax in whole centimetres, 0 < HIini < HI0, b_HI >= 1 ...), step_ok = CC0*exp(CGC*dt) <= CCx for one day's time increment; "
            "penetrabilities in [0,100]; finiteness is expressed as definedness of the modelled operations only",
     "the cap on the adjusted harvest index is read as HI0*(1+max(dHI0,0)/100): the catalogue's placeholder dHI0 = -9 (SugarCane, AlfalfaGDD) is not an 'allowed increase' (hi_adj_le_refuted documents that HIadj = HIref = HI0 there)"],
    "L1: genuine crop objects of all 37 crops, chained daily trajectories through every phase (emergence, growth, plateau, senescence, early senescence, rewatering, death), restrictive layers, water tables; "
    "monitor: trajectories of get_crop_growth() against the season's crop parameters, restrictive-layer soils included"))

reg(Prop("C06", "yields and seasonal totals agree with the daily tables",
    [("yield", 8000, 80000), ("cropinit", 3000, 40000), ("clock", 100, 1000), ("day", 3000, 40000), ("dayc", 2500, 30000), ("runc", 48, 500)],
    trace_mon("C06", 70, 1200, method=lambda r: r.choice([0, 1, 2, 3, 4, 4, 5]), strict=lambda r: True),
    [R_AX, CROP_NOTE, "summary-row theorems on Clock.v are closed under the global context and hold for every physics; the plumbing of the row values is Day.v (L2 replay) when present"],
    [EXACT, "WPy <= 100, ET0 > 0, YldWC > 0 (catalogue_YldWC_refuted lists the 4 catalogue crops without YldWC)"],
    "L1 yield suite (biomass, HI, yield lines executed from the source text of run_single_timestep), clock suite; monitor: get_simulation_results() vs get_crop_growth()/get_water_flux() per season, "
    "every strategy incl. net + pre-irrigation + seasonal cap, crops that die early"))

DAY_SUITE = [("day", 3000, 40000)]
DAY_RUN_SUITE = [("day", 3000, 40000), ("runc", 40, 400), ("calendar", 3000, 30000)]
GEN_NOTE = ("the tables StateFields.v / StoreSites.v are REGENERATED from /repo's source text on every run by the fail-closed ast translator harness/gen_facts.py "
            "(alias rules: plain assignment, attribute, basic index, tuple unpacking, per-function return summaries; heap-mediated aliasing and callables held in variables are not tracked) — the translator is trusted")

def _c08_monitor(ctx):
    thorough = ctx["tier"] != "quick"
    n = 30 if not thorough else 450
    cfgs = _base.draw_configs("C08", n, off_season=False, seasons=lambda r: r.choice([2, 3, 3, 4]), start_mode="at", end_mode="after",
                              method=lambda r: r.choice([0, 1, 1, 2, 2, 3, 4, 4, 5]))
    # directed: state that can only leak through the reset shows with (a) net irrigation from a dry start over >= 3 seasons
    # (pre-irrigation on day 1), (b) thermal-time crops in hot climates (season-start calendar conversion), (c) threshold
    # irrigation from a dry start (stored demand), (d) bunds with initial ponding
    for i in range(8 if not thorough else 60):
        rng = rng_for("C08", "directed", i)
        kind = i % 4
        if kind == 0:
            c = sim.gen_config(rng, off_season=False, seasons=rng.choice([3, 4]), start_mode="at", end_mode="after", method=4, gw=False,
                               crop=rng.choice(["Maize", "Wheat", "Tomato", "Potato", "Sorghum"]))
            c["iwc"] = {"wc_type": "Pct", "method": "Layer", "depth_layer": c["iwc"]["depth_layer"] if c.get("iwc") and c["iwc"]["method"] == "Layer" else [1],
                        "value": [rng.choice([0, 20, 30, 40])] * (len(c["iwc"]["depth_layer"]) if c.get("iwc") and c["iwc"]["method"] == "Layer" else 1)}
            c["irr"] = {"irrigation_method": 4, "NetIrrSMT": rng.choice([60, 70, 85])}
        elif kind == 1:
            c = sim.gen_config(rng, off_season=False, seasons=3, start_mode="at", end_mode="after", wfile="hyderabad_climate.txt",
                               crop=rng.choice(["PaddyRiceGDD", "MaizeGDD", "SorghumGDD", "CottonGDD", "SoybeanGDD"]), planting=rng.choice(["03/01", "04/01", "06/15"]), gw=False)
        elif kind == 2:
            c = sim.gen_config(rng, off_season=False, seasons=3, start_mode="at", end_mode="after", method=rng.choice([1, 2]), gw=False)
            c["iwc"] = {"wc_type": "Pct", "method": "Layer", "depth_layer": c["iwc"]["depth_layer"] if c.get("iwc") and c["iwc"]["method"] == "Layer" else [1],
                        "value": [rng.choice([30, 45])] * (len(c["iwc"]["depth_layer"]) if c.get("iwc") and c["iwc"]["method"] == "Layer" else 1)}
        else:
            c = sim.gen_config(rng, off_season=False, seasons=3, start_mode="at", end_mode="after", bunds=True, gw=False)
        cfgs.append(c)
    return _base.run_monitor(monitors2.worker_C08, [{"cfg": c} for c in cfgs], timeout=600)


reg(Prop("C08", "seasons are independent when the off-season is not simulated",
    DAY_RUN_SUITE,
    _c08_monitor,
    ["all theorems 'Closed under the global context' (finite tables, vm_compute lifted by forallb_forall)", GEN_NOTE,
     "the whitelist carried_ok (21 fields not reset but dead or re-initialised on day 1) is justified by reading the code, field by field, in proofs/GenFactsOK.v; day1_dead in proofs/DayP.v proves it on the Day.v model under named per-process hypotheses"],
    ["a state field missing from the reset list and not in the hand-justified whitelist breaks carried_fields_whitelisted"],
    "monitor: multi-season run vs fresh single-season runs started on each later planting date, bitwise after aligning steps: all strategies, dry starts, bunds with initial ponding, GDD crops, time-varying CO2; "
    "distinct = distinct configurations with >= 1 compared season",
    replay=lambda d: _base.replay_worker(monitors2.worker_C08, d),
    extra_obl=["translator run on the current source (fail-closed)"]))

def _c10_monitor(ctx):
    thorough = ctx["tier"] != "quick"
    n = 14 if not thorough else 150
    cfgs = _base.draw_configs("C10", 2 * n)
    payloads = [{"cfg": cfgs[2 * i], "other": cfgs[2 * i + 1]} for i in range(n)]
    r = _base.run_monitor(monitors2.worker_C10, payloads, timeout=900)
    # fresh interpreters, different hash seeds
    subcfgs = list(cfgs[:(5 if not thorough else 36)])
    for i in range(3 if not thorough else 12):     # containers whose iteration order could depend on the hash seed: several observations / schedule dates given as strings
        rng = rng_for("C10", "sub", i)
        c = sim.gen_config(rng, gw=True, seasons=1, method=3)
        if c["gw"]["method"] != "Constant" or len(c["gw"]["dates"]) < 2:
            import pandas as pd
            s0 = pd.Timestamp(c["start"])
            c["gw"] = {"water_table": "Y", "method": "Constant", "dates": [c["start"]] + [(s0 + pd.Timedelta(days=d)).strftime("%Y/%m/%d") for d in (40, 90, 150)],
                       "values": [2.5, 0.8, 1.6, 0.6]}
        if i % 2 == 1:
            # two observers reported on the same date: an order-dependent container would pick a different one per hash seed
            c["gw"]["dates"] = c["gw"]["dates"][:2] + [c["gw"]["dates"][1]] + c["gw"]["dates"][2:]
            c["gw"]["values"] = c["gw"]["values"][:2] + [c["gw"]["values"][1] * 2.0] + c["gw"]["values"][2:]
            if i % 4 == 3:
                c["gw"]["method"] = "Variable"
        subcfgs.append(c)
    sub = sim.pmap(monitors2.worker_C10_sub, [{"cfg": c, "seeds": [0, 1, 2, 3, 4242, "random"]} for c in subcfgs], timeout=900)
    res = sim.pmap(monitors2.worker_C10, payloads[:0], timeout=10)
    inproc = {}
    for s in sub:
        if "digests" not in s:
            continue
        ds = s["digests"]
        vals = set(ds.values())
        r["coverage"]["evaluations"] += len(ds)
        if len(vals) > 1 or any(v.startswith("ERROR") for v in vals):
            r["violations"].append({"key": "C10:hashseed", "what": "outputs differ between fresh interpreters with different hash seeds: %r" % ds, "kind": "simulation", "cfg": s["cfg"]})
        else:
            here = monitors2._digest(s["cfg"])
            if here not in vals:
                r["violations"].append({"key": "C10:process", "what": "outputs in this process (after many other models ran) differ from a fresh interpreter: %s vs %r" % (here, ds), "kind": "simulation", "cfg": s["cfg"]})
    r["coverage"]["fresh_interpreter_runs"] = sum(len(s.get("digests", {})) for s in sub)
    return r

reg(Prop("C10", "runs are deterministic and model instances are isolated",
    [],
    _c10_monitor,
    ["all theorems 'Closed under the global context'", GEN_NOTE,
     "PARTIAL: process / hash-seed / import-order behaviour lives in the CPython runtime and is not expressible in the Gallina model; it is explored by the monitor only (fresh interpreters with PYTHONHASHSEED in {0,1,4242,random}, histories A-then-B, interleaved stepping)"],
    ["the one store on a module-level name (utils/lars.py appends to sys.path at import) is listed by name in reported_sites and excluded from the theorem"],
    "monitor: implementation vs implementation: B alone / after A constructed / after A run / interleaved with A; fresh subprocesses per hash seed; distinct = distinct (B, A) pairs",
    replay=lambda d: _base.replay_worker(monitors2.worker_C10, d),
    extra_obl=["translator run on the current source (fail-closed)"]))

reg(Prop("C12", "configured parameters and weather stay read-only while stepping",
    DAY_SUITE,
    worker_mon("C12", monitors2.worker_C12, 40, 600, timeout=900),
    ["all theorems 'Closed under the global context'", GEN_NOTE,
     "Day.v: day_proc returns the state only — parameters, profile and weather do not occur in its result type (frame by typing), tied by the L2 plumbing replay"],
    ["exceptions enumerated in GenFactsOK.v: reset_initial_conditions writes the season crop's thermal-calendar fields / fCO2 and CO2.current_concentration; update_time writes the clock counters; "
     "run_single_timestep sets Aer/Zmin on the deep-copied fallow crop before the first season (reported site)"],
    "monitor: content hash of every parameter array/struct, the weather matrix and the user objects before the first step and after every step, z_cn / z_germ off compartment boundaries, deepened profiles; "
    "reports object, field, step",
    replay=lambda d: _base.replay_worker(monitors2.worker_C12, d),
    extra_obl=["translator run on the current source (fail-closed)"]))


reg(Prop("C11", "inputs are not consumed by a run",
    [("inputs", 2500, 30000), ("calendar", 2500, 30000), ("soilinit", 800, 8000), ("initialise", 64, 800)],
    worker_mon("C11", monitors2.worker_C11, 40, 600, timeout=900, method=lambda r: r.choice([0, 1, 2, 3, 3, 4, 5]),
               # a quarter of the configurations: a fallow lead-in before the first planting date with a crop whose aeration /
               # minimum-rooting parameters differ from the filler crop's (the steps before planting write Aer and Zmin of the filler crop)
               start_mode=lambda r: "before" if r.random() < 0.4 else r.choice(["at", "at", "before", "after"]),
               crop=lambda r: r.choice(["Barley", "Quinoa", "Tef", "AlfalfaGDD", "PaddyRice", "localpaddy"]) if r.random() < 0.3 else r.choice(sim.CROPS)),
    ["all theorems 'Closed under the global context'", GEN_NOTE,
     "modelled write-backs: clipped weather table (Init/Inputs.v clip/bind), CO2.current_concentration/co2_data_processed, crop.harvest_date (Init/Calendar.v); the deepened soil.profile DataFrame and the crop-calendar attributes written on the user's Crop are covered by the store-site whitelist and by the monitor only",
     "pandas object internals are trusted"],
    ["initialising again is idempotent for weather tables that have a record on the start and on the end day (init_idempotent_weather; init_idempotent_refuted documents tables with gaps at the window ends)"],
    "monitor: re-run the same model object twice and build new models from the same soil/crop/weather/irrigation/field/groundwater/CO2 objects, bitwise tables; every strategy incl. dated schedules, deep-rooted crops (profile deepening), GDD crops, CO2 options",
    replay=lambda d: _base.replay_worker(monitors2.worker_C11, d),
    extra_obl=["translator run on the current source (fail-closed)"]))

def _c14_monitor(ctx):
    n = 25 if ctx["tier"] == "quick" else 440
    pl = [{"cfg": c} for c in _base.draw_configs("C14", n)]
    # directed part: windows early in a long weather file whose end date is then extended by DECADES (to the end of the file)
    long_files = ["champion_climate.txt", "cordoba_climate.txt", "brussels_climate.txt"]
    pl += [{"cfg": c, "long_extension": True} for c in
           _base.draw_configs("C14long", 5 if ctx["tier"] == "quick" else 60, wfile=lambda r: r.choice(long_files), early=True, seasons=lambda r: r.choice([1, 2]))]
    return _base.run_monitor(monitors2.worker_C14, pl, timeout=1500)
_c14_monitor.worker = monitors2.worker_C14; _c14_monitor.payload = None


reg(Prop("C14", "no look-ahead: past outputs do not depend on future weather",
    [("clock", 120, 1200), ("inputs", 2000, 20000), ("day", 2000, 30000), ("runc", 36, 400)],
    _c14_monitor,
    ["all theorems 'Closed under the global context'; Clock.v theorems hold for every physics",
     "that one day's processes read only that day's weather record is the typing of Clock.proc (one W argument) tied by the Day.v replay (weather_step fields) and the clock suite; "
     "that the reset reads the weather only for thermal-time crops is the regenerated fact reset_weather_guard_ok (C08.v)"],
    ["calendar-day crops (CalendarType = 1, SwitchGDD = 0) for the perturbation statement, as the property says; extending the end date is explored by the monitor (season-list prefix property by C07_calendar's closed form, not stated as a separate theorem)"],
    "monitor: pairs of runs with weather perturbed from a random day t on (temperature, rain, ET0), weather perturbed/clipped outside the window, extended end dates; bitwise on rows before t / completed seasons",
    replay=lambda d: _base.replay_worker(monitors2.worker_C14, d)))

def _c15_monitor(ctx):
    n = 26 if ctx["tier"] == "quick" else 340
    cfgs = _base.draw_configs("C15", n)
    # directed part: thermal-time crops with the documented alternative degree-day methods, simulation starting on the planting date (the
    # calendar of the first season is then the one computed at initialisation from the weather TABLE)
    gdd = [c for c in sim.CROPS if sim.crop_params[c].get("CalendarType") == 2 and c not in sim.YLDWC0]
    cfgs += _base.draw_configs("C15gdd", 6 if ctx["tier"] == "quick" else 60, crop=lambda r: r.choice(gdd), crop_kwargs=lambda r: {"GDDmethod": r.choice([1, 2])},
                               start_mode="at", end_mode="after")
    return _base.run_monitor(monitors2.worker_C15, [{"cfg": c} for c in cfgs], timeout=900)
_c15_monitor.worker = monitors2.worker_C15; _c15_monitor.payload = None


reg(Prop("C15", "weather is bound by date and by column name",
    [("inputs", 6000, 40000), ("initialise", 64, 800)],
    _c15_monitor,
    ["all theorems 'Closed under the global context' and hold for every number type",
     "modelled: read_weather_inputs.py, the weather-matrix construction in core._initialize, the per-step lookup (Init/Inputs.v); pandas column selection / boolean row filtering are list functions tied by the inputs suite (all 120 column permutations, extra columns, 5 index kinds, leading/trailing rows)"],
    ["bind_by_date needs one record per day, sorted, covering the window (what prepare_weather produces); for tables with gaps the code uses the rows positionally (bind_positional, Example bind_gap_wrong_day)"],
    "monitor: bitwise outputs of full runs fed with transformed but equivalent tables (permuted / extra columns, look-alike extra columns (SoilTemp, MeanTemp, Precip_qc, Date_obs ...) with gaps, re-indexed, string index, rows dropped outside the window, combinations; a directed share of thermal-time crops with degree-day methods 1/2 started on the planting date) + row k carries date start+k with that date's values",
    replay=lambda d: _base.replay_worker(monitors2.worker_C15, d)))


def _c16_payloads(ctx):
    thorough = ctx["tier"] != "quick"
    pl = []
    n = 150 if not thorough else 2500
    for i in range(n):
        rng = rng_for("C16", i)
        # catalogue sweep: crop x soil x strategy round-robin, everything else random
        crop = sim.CROPS[i % len(sim.CROPS)]
        soil = (sim.SOILS + ["custom", "texture"])[(i // 3) % (len(sim.SOILS) + 2)]
        cfg = sim.gen_config(rng, crop=crop, soil_type=soil, method=i % 6, strict=False, **({"seasons": 2 + i % 2} if i % 5 == 3 else {}))
        p = {"cfg": cfg}
        if i % 5 == 3:
            if cfg.get("co2") is None:
                cfg["co2"] = {}          # a CO2 object supplied by the user (default table): the object that carries state between models
            # the same input objects were used before: over a window shifted by so many years, over a shorter window with the same start,
            # or over a window starting a year later
            p["prehistory"] = [-3, "shorter", 2, "later_start", -2, "shorter", 4][(i // 5) % 7]
        pl.append(p)
    return pl


def _c16_monitor(ctx):
    pl = _c16_payloads(ctx)
    r = _base.run_monitor(monitors2.worker_C16, pl, timeout=600)
    return r


reg(Prop("C16", "every valid configuration runs to completion with finite outputs",
    [("calendar", 4000, 40000), ("soilinit", 800, 8000), ("inputs", 1500, 20000), ("kernels", 3000, 30000), ("cropinit", 3000, 40000), ("clock", 100, 1000), ("initialise", 64, 800)],
    _c16_monitor,
    [R_AX, "FloatAxioms.* (specification of Coq's primitive floats) enter through the interval tactic in the texture-box lemmas only",
     "PARTIAL: proved = catalogue obligations over the regenerated crop table, exact classification of initialisation rejections (Init/Calendar.v), termination of run loop and deepening, definedness of every process model under well-formedness; "
     "NOT expressible = NaN/inf propagation in IEEE arithmetic, exceptions raised inside pandas/numpy: explored by the monitor only"],
    [EXACT, "valid = the documented input constraints; the malformed streams of the L1 suites compare error kinds"],
    "monitor: catalogue sweep 37 crops x 17 soil kinds x 6 strategies (round-robin) x random options (field management, groundwater, IWC, CO2, windows, storms); checks exception type/origin against the documented rejections and finiteness of every cell",
    replay=lambda d: _base.replay_worker(monitors2.worker_C16, d)))

reg(Prop("C18", "soil profile and initial water content are built as specified",
    [("soilinit", 2500, 20000), ("initialise", 64, 800)],
    worker_mon("C18", monitors2.worker_C18, 120, 1500, payload=lambda c, i: {"cfg": c, "prehistory": i % 4 == 3}, timeout=300, strict=lambda r: False),
    [R_AX, "FloatAxioms.* through the interval tactic (texture boxes)",
     "modelled: Soil (built-in ladder read through the real object, add_layer, add_layer_from_texture, fill_nan), deepening loop, create_soil_profile, initial water content (Init/SoilBuild.v); pandas ffill/map/groupby-mean (Kahan) are list functions tied by the suite; water-table overrides of the initial content are not modelled"],
    [EXACT, "geometry theorem for whole-centimetre thickness lists; texture ordering proved on five boxes of the calibrated range (texture_ordered_partial), refuted at the corners (texture_ordered_refuted)"],
    "Linit: 15 built-in soils, custom 1-3 layer hydraulic and texture soils, random dz lists, every crop's Zmax, every IWC type/method; monitor: the statement recomputed from the initialised model's arrays",
    replay=lambda d: _base.replay_worker(monitors2.worker_C18, d)))

reg(Prop("C20", "disabled features and neutral settings are inert",
    [("evap", 4000, 60000), ("rainirr", 6000, 60000), ("infiltration", 4000, 40000), ("roots", 3000, 30000), ("calendar", 2000, 20000), ("day", 2000, 30000), ("runc", 40, 400), ("initialise", 120, 1200)],
    worker_mon("C20", monitors2.worker_C20, 22, 300, timeout=900, method=lambda r: r.choice([0, 0, 0, 1, 2, 3, 4, 5])),
    [R_AX, WATER_NOTE, "the curve-number flag gates the percentage at the call site in run_single_timestep (Day.v arg_rp, tied by the day replay)"],
    [EXACT, "neutral irrigation settings: 0 <= MaxIrr, AppEff <= 200"],
    "monitor: base vs transformed configuration, bitwise, each listed neutral transformation alone and combined; explicit default harvest date",
    replay=lambda d: _base.replay_worker(monitors2.worker_C20, d)))
