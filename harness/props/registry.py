"""registry.py — declarative description of every property check: which correspondence suites tie the model
parts its theorems depend on to /repo, which monitor searches the implementation, what is trusted.
`get(pid)` returns an object with the interface runner.py expects (suites, monitor, replay, TRUSTED_BASE, ...)."""
import importlib, types, json
from common import *
import l1, sim, monitors, monitors2
from props import _base

# suite name -> (module, driver unit, what it ties)
SUITES = {
    "kernels": ("suites.kernels", None, "Kernels.v: gdd, water/temperature/aeration stress, canopy curves"),
    "fco2": ("suites.fco2", None, "Kernels.v fco2 via real initialisation"),
    "rootzone": ("suites.rootzone", None, "Water/RootZone.v"),
    "api": ("suites.api", "api", "Api.v: the AquaCropModel wrapper as a state machine over CALL SEQUENCES (run_model in both modes with initialize_model / process_outputs, the private reporting flags, "
            "the array -> DataFrame conversion, the getters), against real models: outcome of every call (return value / exception kind), hidden object state, rows written, summary rows"),
    "clock": ("suites.clock", "clock", "Clock.v: clock logic of run_single_timestep, check_model_is_finished, update_time, run_model"),
    "rainirr": ("suites.rainirr", "rainirr", "Water/RainIrr.v: rainfall_partition, irrigation, growth_stage"),
    "infiltration": ("suites.infiltration", "infiltration", "Water/Infiltration.v"),
    "drainage": ("suites.drainage", "drainage", "Water/Drainage.v"),
    "gw": ("suites.gw", "gw", "Water/Groundwater.v: check_groundwater_table, capillary_rise, groundwater_inflow"),
    "evap": ("suites.evap", "evap", "Water/Evaporation.v: soil_evaporation, evap_layer_water_content"),
    "transp": ("suites.transp", "transp", "Water/Transpiration.v"),
    "canopy": ("suites.canopy", "canopy", "Crop/Canopy.v: canopy_cover, adjust_CCx, update_CCx_CDC"),
    "roots": ("suites.roots", "roots", "Crop/Roots.v: root_development, germination, pre_irrigation"),
    "yield": ("suites.yield_", "yield", "Crop/Yield.v: biomass_accumulation, HIref_current_day, harvest_index, HIadj_*, yield lines"),
    "soilinit": ("suites.soilinit", "soilinit", "Init/SoilBuild.v: Soil, create_soil_profile, deepening, initial water content"),
    "day": ("suites.day", "day", "Day.v: plumbing of run_single_timestep and reset_initial_conditions (L2 replay)"),
    "dayc": ("suites.dayc", "dayc", "DayConcrete.v: one whole day = Day.v's orchestration instantiated with the 19 unit process models (no replayed process), against real simulated days"),
    "runc": ("suites.runc", "dayc", "RunConcrete.v: the WHOLE RUN = Clock.v's guarded run loop + Day.v's season reset around the concrete day; the extracted run_till_c runs complete simulations on its own "
             "(state flowing from day to day, nothing recorded fed back) and all three daily tables, the summary rows and the final clock/state are compared with the implementation's"),
    "initialise": ("suites.initialise", "initialise", "Init/Initialise.v: initialise : Config -> Init composed from the initialisation units, and run_config = the WHOLE SIMULATION from the user's configuration "
                   "(weather table, soil specification, crop row with overrides, managements, groundwater, CO2, dates): initialised structures, the crop of every season, all daily tables and summary rows bit for bit"),
    "initstate": ("suites.initstate", "initstate", "Init/InitState.v: the initial state object (InitialCondition defaults + read_model_initial_conditions incl. the water-table overrides) against real initialisations, every field"),
    "cropinit": ("suites.cropinit", "cropinit", "Init/CropInit.v: calculate_HIGC, calculate_HI_linear (fuel-bounded searches), derived crop parameters of compute_variables through real initialisations of all 37 catalogue crops"),
    "calendar": ("suites.calendar_", "calendar", "Init/Calendar.v: dates, season list, crop calendar"),
    "inputs": ("suites.inputs", "inputs", "Init/Inputs.v: weather binding, schedule re-indexing, groundwater series, CO2"),
}


def run_suites(names_counts, tier, pid):
    out = []
    for name, nq, nt in names_counts:
        modname, unit, what = SUITES[name]
        try:
            mod = importlib.import_module(modname)
            if name == "initialise":           # whole simulations FROM THE USER'S CONFIGURATION (Init/Initialise.v), parallel workers
                r = mod.run_l3(nq if tier == "quick" else nt)
                r["suite"] = "initialise"
            elif hasattr(mod, "run_custom"):     # suites that run whole simulations in parallel workers (runc)
                r = mod.run_custom(nq if tier == "quick" else nt, pid)
            else:
                r = l1.run_suite(name, mod.gen, nq if tier == "quick" else nt, seed_names=(pid,), unit=unit)
        except Exception as e:
            import traceback
            r = {"suite": name, "cases": 0, "distinct": 0, "agree": 0, "disagree": 0, "error": "suite failed to run: " + traceback.format_exc()[-600:]}
        r["ties"] = what
        out.append(r)
    return out


class Prop:
    def __init__(self, pid, title, suites, monitor, trusted, assumptions, rule, replay=None, extra_obl=None):
        self.pid = pid; self.title = title; self._suites = suites; self._monitor = monitor
        self.TRUSTED_BASE = _base.STD_TRUSTED + trusted
        self.ASSUMPTIONS = assumptions; self.RULE = rule; self._replay = replay; self._extra = extra_obl or []
        self._worker = getattr(monitor, "worker", None); self._payload = getattr(monitor, "payload", None)

    def suites(self, ctx):
        return run_suites(self._suites, ctx["tier"], self.pid)

    def monitor(self, ctx):
        return self._monitor(ctx)

    def directed(self, ctx, broken_suites):
        """second, focused search after a correspondence broke and the ordinary monitor found nothing"""
        n_each = 25 if ctx["tier"] == "quick" else 150
        cfgs = focus_configs(self.pid, broken_suites, n_each)
        if not cfgs:
            return {"violations": [], "coverage": {"evaluations": 0}}
        if self._worker is None:
            if self.pid not in monitors.TRACE_CHECKS:      # the property's monitor is not trace based and has no per-configuration worker
                return {"violations": [], "coverage": {"evaluations": 0, "note": "no focused search for this property's monitor"}}
            return _base.trace_monitor(self.pid, cfgs)
        pl = [self._payload(c, i) if self._payload else {"cfg": c} for i, c in enumerate(cfgs)]
        return _base.run_monitor(self._worker, pl, timeout=600)

    def replay(self, data):
        if self._replay:
            return self._replay(data)
        return _base.replay_trace(self.pid, data)

    def extra_obligations(self, ctx):
        return list(self._extra)


# when a correspondence suite disagrees and the ordinary monitor finds no failing input, the search is repeated on
# configurations that reach the code the disagreeing suite ties (DESIGN.md 7.1 "directed search")
FOCUS = {
    "infiltration": [dict(bunds=True, off_season=True, seasons=2, fallow_field=None, soil_type=lambda r: r.choice(["Paddy", "Clay", "custom"])),
                     dict(bunds=lambda r: r.random() < 0.5, soil_type=lambda r: r.choice(["Paddy", "custom", "ac_TunisLocal"]), method=lambda r: r.choice([1, 2, 5]))],
    "drainage": [dict(soil_type=lambda r: r.choice(["custom", "Paddy", "ac_TunisLocal"]))],
    "gw": [dict(gw=True, soil_type=lambda r: r.choice(["ac_TunisLocal", "custom", "Paddy", "Loam"]))],
    "rainirr": [dict(method=lambda r: r.choice([1, 2, 3, 5])), dict(bunds=False)],
    "evap": [dict(mulches=True, method=lambda r: r.choice([1, 2, 5])), dict(bunds=True)],
    "transp": [dict(method=4, soil_type="custom"), dict(bunds=True, soil_type="Paddy")],
    "roots": [dict(gw=True), dict(method=4), dict(strict=False, soil_type="custom")],
    "canopy": [dict(strict=False)],
    "yield": [dict(method=lambda r: r.choice([0, 4]))],
    "kernels": [dict(crop_kwargs={"GDDmethod": 2}), dict(crop_kwargs={"GDDmethod": 1})],
    "inputs": [dict(method=3), dict(gw=True)],
    "clock": [dict(off_season=True, seasons=3), dict(off_season=False, seasons=3)],
    "day": [dict(off_season=True), dict(method=4)],
    "dayc": [dict(off_season=True), dict(method=4)],
    "runc": [dict(off_season=True, seasons=3), dict(off_season=False, seasons=3)],
    "calendar": [dict(start_mode="after"), dict(start_mode="before", end_mode="mid")],
    "soilinit": [dict(soil_type="custom", strict=False), dict(soil_type="texture")],
}


def focus_configs(pid, broken_suites, n_each):
    cfgs = []
    for sname in broken_suites:
        for j, force in enumerate(FOCUS.get(sname, [dict()])):
            cfgs += _base.draw_configs("%s-focus-%s-%d" % (pid, sname, j), n_each, **force)
    return cfgs


def trace_mon(pid, nq, nt, **force):
    def f(ctx):
        n = nq if ctx["tier"] == "quick" else nt
        return _base.trace_monitor(pid, _base.draw_configs(pid, n, **force))
    return f


def worker_mon(pid, worker, nq, nt, payload=None, timeout=600, **force):
    def f(ctx):
        n = nq if ctx["tier"] == "quick" else nt
        cfgs = _base.draw_configs(pid, n, **force)
        pl = [payload(c, i) if payload else {"cfg": c} for i, c in enumerate(cfgs)]
        return _base.run_monitor(worker, pl, timeout=timeout)
    f.worker = worker; f.payload = payload
    return f


REG = {}


def reg(p):
    REG[p.pid] = p


def get(pid):
    if pid in REG:
        return REG[pid]
    return importlib.import_module("props." + pid)
