"""registry.py — declarative description of every property check: which correspondence suites tie the model
parts its theorems depend on to /repo, which monitor searches the implementation, what is trusted.
`get(pid)` returns an object with the interface runner.py expects (suites, monitor, replay, TRUSTED_BASE, ...)."""
import importlib, types, json
from common import *
import l1, sim, monitors, monitors2
from props import _base

# suite name -> (module, driver unit, what it ties)
SUITES = {
    "kernels": ("suites.kernels", None, "Kernels.v: gdd, water/temperature/aeration stress, canopy curves"),
    "fco2": ("suites.fco2", None, "Kernels.v fco2 via real initialisation"),
    "rootzone": ("suites.rootzone", None, "Water/RootZone.v"),
    "clock": ("suites.clock", "clock", "Clock.v: clock logic of run_single_timestep, check_model_is_finished, update_time, run_model"),
    "rainirr": ("suites.rainirr", "rainirr", "Water/RainIrr.v: rainfall_partition, irrigation, growth_stage"),
    "infiltration": ("suites.infiltration", "infiltration", "Water/Infiltration.v"),
    "drainage": ("suites.drainage", "drainage", "Water/Drainage.v"),
    "gw": ("suites.gw", "gw", "Water/Groundwater.v: check_groundwater_table, capillary_rise, groundwater_inflow"),
    "evap": ("suites.evap", "evap", "Water/Evaporation.v: soil_evaporation, evap_layer_water_content"),
    "transp": ("suites.transp", "transp", "Water/Transpiration.v"),
    "canopy": ("suites.canopy", "canopy", "Crop/Canopy.v: canopy_cover, adjust_CCx, update_CCx_CDC"),
    "roots": ("suites.roots", "roots", "Crop/Roots.v: root_development, germination, pre_irrigation"),
    "yield": ("suites.yield_", "yield", "Crop/Yield.v: biomass_accumulation, HIref_current_day, harvest_index, HIadj_*, yield lines"),
    "soilinit": ("suites.soilinit", "soilinit", "Init/SoilBuild.v: Soil, create_soil_profile, deepening, initial water content"),
    "day": ("suites.day", "day", "Day.v: plumbing of run_single_timestep and reset_initial_conditions (L2 replay)"),
    "dayc": ("suites.dayc", "dayc", "DayConcrete.v: one whole day = Day.v's orchestration instantiated with the 19 unit process models (no replayed process), against real simulated days"),
    "calendar": ("suites.calendar_", "calendar", "Init/Calendar.v: dates, season list, crop calendar"),
    "inputs": ("suites.inputs", "inputs", "Init/Inputs.v: weather binding, schedule re-indexing, groundwater series, CO2"),
}


def run_suites(names_counts, tier, pid):
    out = []
    for name, nq, nt in names_counts:
        modname, unit, what = SUITES[name]
        try:
            mod = importlib.import_module(modname)
            r = l1.run_suite(name, mod.gen, nq if tier == "quick" else nt, seed_names=(pid,), unit=unit)
        except Exception as e:
            import traceback
            r = {"suite": name, "cases": 0, "distinct": 0, "agree": 0, "disagree": 0, "error": "suite failed to run: " + traceback.format_exc()[-600:]}
        r["ties"] = what
        out.append(r)
    return out


class Prop:
    def __init__(self, pid, title, suites, monitor, trusted, assumptions, rule, replay=None, extra_obl=None):
        self.pid = pid; self.title = title; self._suites = suites; self._monitor = monitor
        self.TRUSTED_BASE = _base.STD_TRUSTED + trusted
        self.ASSUMPTIONS = assumptions; self.RULE = rule; self._replay = replay; self._extra = extra_obl or []

    def suites(self, ctx):
        return run_suites(self._suites, ctx["tier"], self.pid)

    def monitor(self, ctx):
        return self._monitor(ctx)

    def replay(self, data):
        if self._replay:
            return self._replay(data)
        return _base.replay_trace(self.pid, data)

    def extra_obligations(self, ctx):
        return list(self._extra)


def trace_mon(pid, nq, nt, **force):
    def f(ctx):
        n = nq if ctx["tier"] == "quick" else nt
        return _base.trace_monitor(pid, _base.draw_configs(pid, n, **force))
    return f


def worker_mon(pid, worker, nq, nt, payload=None, timeout=600, **force):
    def f(ctx):
        n = nq if ctx["tier"] == "quick" else nt
        cfgs = _base.draw_configs(pid, n, **force)
        pl = [payload(c, i) if payload else {"cfg": c} for i, c in enumerate(cfgs)]
        return _base.run_monitor(worker, pl, timeout=timeout)
    return f


REG = {}


def reg(p):
    REG[p.pid] = p


def get(pid):
    if pid in REG:
        return REG[pid]
    return importlib.import_module("props." + pid)
