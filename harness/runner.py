#!/venv/bin/python
"""runner.py — `./check Cnn [--tier quick|thorough] [--replay file]`.

Steps (DESIGN.md 7.1): regenerate facts from /repo, build the Coq development and the extracted
driver, re-check the property's theorem file (capturing Print Assumptions), run the correspondence
suites the property's theorems depend on, run the property's monitor on the implementation,
decide, write evidence/Cnn.json."""
import argparse, fcntl, importlib, os, re, subprocess, sys, time, glob, fnmatch, json
sys.path.insert(0, os.path.dirname(os.path.abspath(__file__)))
import common
from common import VERIF, COQDIR, REPO, write_json, short_hash

LOCK = os.path.join(VERIF, ".build.lock")
FORBIDDEN = re.compile(r"\b(Admitted|admit|Axiom|Axioms|Parameter|Parameters|Conjecture|Conjectures|Admit Obligations|"
                       r"Unset Guard Checking|Unset Positivity Checking|Unset Universe Checking|bypass_check|"
                       r"type-in-type|impredicative-set)\b")
STD_AXIOMS = {
    "ClassicalDedekindReals.sig_not_dec", "ClassicalDedekindReals.sig_forall_dec",
    "FunctionalExtensionality.functional_extensionality_dep", "Classical_Prop.classic",
    "ProofIrrelevance.proof_irrelevance", "Eqdep.Eq_rect_eq.eq_rect_eq", "JMeq.JMeq_eq",
}
# specification axioms of Coq's primitive floats / 63-bit integers (Coq standard library, Floats / Numbers.Cyclic.Int63);
# they enter only through the `interval` tactic (texture pedotransfer box proofs)
STD_AXIOM_PREFIXES = ("FloatAxioms.", "Uint63Axioms.", "Sint63Axioms.", "PrimFloat.", "PrimInt63.", "Uint63.", "FloatOps.", "SpecFloat.")


def sh(cmd, timeout=1800, cwd=None):
    p = subprocess.run(cmd, shell=True, cwd=cwd, capture_output=True, text=True, timeout=timeout)
    return p.returncode, p.stdout + p.stderr


def strip_comments(text):
    out = []; depth = 0; i = 0
    while i < len(text):
        if text.startswith("(*", i):
            depth += 1; i += 2
        elif text.startswith("*)", i) and depth:
            depth -= 1; i += 2
        else:
            if not depth:
                out.append(text[i])
            i += 1
    return "".join(out)


def hygiene():
    """no Admitted/Axiom/... anywhere in the development"""
    bad = []
    proj_files = set(re.findall(r"^(theories/\S+\.v)\s*$", open(os.path.join(COQDIR, "_CoqProject")).read(), re.M))
    for f in glob.glob(os.path.join(COQDIR, "theories", "**", "*.v"), recursive=True):
        if os.path.relpath(f, COQDIR) not in proj_files:
            continue        # not part of the development (a unit still being written); integrated files are all listed in _CoqProject
        txt = strip_comments(open(f).read())
        for m in FORBIDDEN.finditer(txt):
            bad.append("%s: %s" % (os.path.relpath(f, COQDIR), m.group(0)))
        if re.search(r"^\s*(Variable|Hypothesis|Variables|Hypotheses|Context)\b", txt, re.M):
            # allowed only inside sections: check crude nesting
            depth = 0
            for line in txt.split("\n"):
                if re.match(r"\s*Section\b", line): depth += 1
                elif re.match(r"\s*End\b", line) and depth: depth -= 1
                elif re.match(r"\s*(Variable|Hypothesis|Variables|Hypotheses)\b", line) and depth == 0:
                    bad.append("%s: %s outside section" % (os.path.relpath(f, COQDIR), line.strip()[:40]))
    proj = open(os.path.join(COQDIR, "_CoqProject")).read()
    if "type-in-type" in proj or "impredicative-set" in proj:
        bad.append("_CoqProject: forbidden flag")
    return bad


def build(verbose=False):
    """gen facts, make -k, driver; returns dict(ok, log, gen)"""
    os.makedirs(os.path.join(VERIF, "evidence"), exist_ok=True)
    with open(LOCK, "w") as lk:
        fcntl.flock(lk, fcntl.LOCK_EX)
        t0 = time.time()
        rc, gen_out = sh("/venv/bin/python %s/harness/gen_facts.py" % VERIF, timeout=300)
        gen_ok = rc == 0
        if not os.path.exists(os.path.join(COQDIR, "Makefile")) or \
                os.path.getmtime(os.path.join(COQDIR, "Makefile")) < os.path.getmtime(os.path.join(COQDIR, "_CoqProject")):
            sh("coq_makefile -f _CoqProject -o Makefile", cwd=COQDIR)
        rc, mk = sh("timeout 3000 make -k -j%d 2>&1" % common.NPROC, cwd=COQDIR, timeout=3100)
        drv_ok = True
        oc = os.path.join(COQDIR, "ocaml")
        # main driver + one stand-alone driver per unit (drv_<unit>.ml with its own extraction model_<unit>.ml)
        units = [("", "model", "driver.ml", "driver")]
        # only the units whose extraction file is part of the project (_CoqProject): a driver source of a unit that is still
        # being written (not yet integrated) is ignored
        registered = set()
        for vf in re.findall(r"^(theories/\S*Extract\S*\.v)\s*$", open(os.path.join(COQDIR, "_CoqProject")).read(), re.M):
            try:
                registered |= set(re.findall(r'Extraction\s+"ocaml/model_([A-Za-z0-9_]+)\.ml"', open(os.path.join(COQDIR, vf)).read()))
            except OSError:
                pass
        for f in sorted(glob.glob(os.path.join(oc, "drv_*.ml"))):
            u = os.path.basename(f)[4:-3]
            if u not in registered:
                continue
            units.append((u, "model_" + u, "drv_%s.ml" % u, "driver_" + u))
        for u, model, drvsrc, exe in units:
            srcs = [os.path.join(oc, f) for f in (model + ".ml", model + ".mli", "drvlib.ml", drvsrc)]
            drv = os.path.join(oc, exe)
            if not all(os.path.exists(s) for s in srcs):
                drv_ok = False
                mk += "\nmissing driver sources for unit '%s': %s" % (u, [s for s in srcs if not os.path.exists(s)])
                continue
            if os.path.exists(drv) and all(os.path.getmtime(s) <= os.path.getmtime(drv) for s in srcs):
                continue
            bd = os.path.join(oc, ".build", u or "main")
            os.makedirs(bd, exist_ok=True)
            import shutil
            shutil.copy(srcs[0], os.path.join(bd, "model.ml")); shutil.copy(srcs[1], os.path.join(bd, "model.mli"))
            shutil.copy(srcs[2], os.path.join(bd, "drvlib.ml"))
            txt = open(srcs[3]).read().replace("Model_" + u, "Model") if u else open(srcs[3]).read()
            open(os.path.join(bd, "driver.ml"), "w").write(txt)
            rc2, dout = sh("ocamlfind ocamlopt -w -a model.mli model.ml drvlib.ml driver.ml -o ../../%s 2>&1" % exe, cwd=bd, timeout=600)
            if rc2 != 0:
                drv_ok = False
                mk += "\n[driver %s]\n" % exe + dout
        return {"make_rc": rc, "log": mk[-6000:], "gen_ok": gen_ok, "gen_out": gen_out.strip()[-600:], "driver_ok": drv_ok,
                "build_s": round(time.time() - t0, 1)}


def check_property_file(pid):
    """compile Properties/<pid>.v and Properties/<pid>_*.v on their own; parse theorem names and Print Assumptions output."""
    pdir = os.path.join(COQDIR, "theories", "Properties")
    files = sorted(glob.glob(os.path.join(pdir, pid + ".v")) + glob.glob(os.path.join(pdir, pid + "_*.v")))
    if not files:
        return {"exists": False}
    names = []; axioms = set(); closed = 0; logs = []; ok = True; cmds = []
    for vf in files:
        txt = strip_comments(open(vf).read())
        names += re.findall(r"^\s*(?:Theorem|Example|Lemma|Corollary)\s+([A-Za-z0-9_']+)", txt, re.M)
        cmd = "timeout 1500 coqc -Q theories AC theories/Properties/%s" % os.path.basename(vf)
        cmds.append(cmd)
        with open(LOCK, "w") as lk:
            fcntl.flock(lk, fcntl.LOCK_EX)
            rc, out = sh(cmd + " 2>&1", cwd=COQDIR, timeout=1600)
        if rc != 0:
            ok = False
            logs.append(out[-3000:])
            continue
        ax = set(re.findall(r"^([A-Za-z_][A-Za-z0-9_.']*)\s*:", out, re.M)) - {"Axioms"}
        axioms |= {a for a in ax if "." in a}
        ax2 = set(re.findall(r"^([A-Za-z_][A-Za-z0-9_']*\.[A-Za-z0-9_.']+)\s*$", out, re.M))
        axioms |= ax2
        closed += len(re.findall(r"Closed under the global context", out))
    axioms = sorted(axioms)
    nonstd = [a for a in axioms if a not in STD_AXIOMS and not a.startswith(STD_AXIOM_PREFIXES)]
    return {"exists": True, "ok": ok, "theorems": names, "axioms": axioms, "nonstandard_axioms": nonstd, "files": [os.path.basename(f) for f in files],
            "closed_count": closed, "checker_cmd": "cd coq && " + " && ".join(cmds), "log": "\n".join(logs)}


def _dev_hash():
    """content hash of every compiled file of the development (what coqchk would re-check)"""
    import hashlib
    h = hashlib.sha1()
    reg = set(re.findall(r"^(theories/\S+)\.v\s*$", open(os.path.join(COQDIR, "_CoqProject")).read(), re.M))
    for f in sorted(glob.glob(os.path.join(COQDIR, "theories", "**", "*.vo"), recursive=True)):
        if os.path.relpath(f, COQDIR)[:-3] not in reg:
            continue          # compiled files of units that are not (yet) part of the project do not count
        h.update(os.path.relpath(f, COQDIR).encode())
        with open(f, "rb") as fh:
            h.update(hashlib.sha1(fh.read()).digest())
    return h.hexdigest()


def run_coqchk(files):
    """independent re-check of the compiled property files and everything they depend on (thorough tier).  coqchk is single-threaded and
    re-checks the whole dependency closure (the run-level files pull in most of the development: tens of minutes to hours), so it runs under
    a time budget (VERIF_COQCHK_BUDGET seconds, default 300 for the run-level files).  Running out of the budget is NOT a rejection (coqc's kernel has accepted
    every file; coqchk is the second, independent checker) and is reported as such; a rejection is.  Results are cached per content hash of
    all compiled files (coq/.coqchk/, not committed), so one completed run serves every later check of the same build;
    `harness/tools/coqchk_all.sh` fills the cache for all property files at once."""
    mods = ["AC.Properties." + f[:-2] for f in files]
    cdir = os.path.join(COQDIR, ".coqchk"); os.makedirs(cdir, exist_ok=True)
    key = _dev_hash()
    done = {}
    cf = os.path.join(cdir, key + ".json")
    if os.path.exists(cf):
        try:
            done = json.load(open(cf))
        except Exception:
            done = {}
    res = {"ok": True, "completed": True, "modules": mods, "served_from_cache": [m for m in mods if m in done.get("accepted", [])], "log": "", "notes": []}
    # first the property's own file Cnn.v (the per-function theorems: a closure that coqchk re-checks in about a minute), then the run- and
    # configuration-level files (closure = most of the development), each group under its own budget
    prim = [m for m in mods if re.fullmatch(r"AC\.Properties\.C\d\d", m)]
    groups = [(prim, 1500), ([m for m in mods if m not in prim], int(os.environ.get("VERIF_COQCHK_BUDGET", "300")))]
    for group, budget in groups:
        pending = [m for m in group if m not in done.get("accepted", [])]
        if not pending:
            continue
        rc, out = sh("timeout %d coqchk -silent -o -Q theories AC %s 2>&1" % (budget, " ".join(pending)), cwd=COQDIR, timeout=budget + 100)
        if rc == 0:
            m = re.search(r"\* Axioms:(.*?)\n\s*\n\* Constants", out, re.S)
            axioms = [x.strip() for x in (m.group(1).split("\n") if m else []) if x.strip() and x.strip() != "<none>"]
            done["accepted"] = sorted(set(done.get("accepted", [])) | set(pending))
            done["axioms"] = sorted(set(done.get("axioms", [])) | set(axioms))
            json.dump(done, open(cf, "w"))
        elif rc == 124:
            res["completed"] = False
            res["notes"].append("coqchk did not finish within its time budget of %d s for %s: not a rejection (every file was accepted by coqc); "
                                "harness/tools/coqchk_all.sh completes it for this build" % (budget, " ".join(pending)))
        else:
            res.update(ok=False, log=out[-1500:])
            break
    res["accepted_by_coqchk"] = [m for m in mods if m in done.get("accepted", [])]
    res["axioms_of_all_loaded_libraries"] = done.get("axioms", [])[:200]
    return res


def load_known():
    p = os.path.join(VERIF, "known_findings.txt")
    res = []
    if os.path.exists(p):
        for line in open(p):
            line = line.strip()
            if not line or line.startswith("#"):
                continue
            m = re.match(r"open:\s+property=(C\d+)\s+key=(\S+)\s+(.*)$", line)
            if m:
                res.append({"property": m.group(1), "key": m.group(2), "text": m.group(3)})
    return res


def main():
    ap = argparse.ArgumentParser()
    ap.add_argument("prop")
    ap.add_argument("--tier", default=os.environ.get("VERIF_TIER", "quick"))
    ap.add_argument("--replay", default=None)
    ap.add_argument("--build-only", action="store_true")
    a = ap.parse_args()
    common.TIER = a.tier
    os.environ["VERIF_TIER"] = a.tier
    t0 = time.time()
    if a.build_only:
        b = build()
        print(json.dumps({k: v for k, v in b.items() if k != "log"}))
        if b["make_rc"] != 0 or not b["driver_ok"] or not b["gen_ok"]:
            print(b["log"][-3000:])
            sys.exit(1)
        sys.exit(0)
    pid = a.prop
    from props import registry, defs  # noqa
    mod = registry.get(pid)
    if a.replay:
        data = json.load(open(a.replay))
        if data.get("kind") == "function":      # function-level replay (local statement on a recorded input)
            import local_checks
            v = local_checks.replay(pid, data.get("violation", {}))
        else:
            v = mod.replay(data)
        if v:
            print("VIOLATION property=%s replay=%s" % (pid, a.replay))
            sys.exit(1)
        print("replay: property holds on this input now")
        sys.exit(0)

    b = build()
    hyg = hygiene()
    pf = check_property_file(pid)
    broken = []      # names of theorems / correspondences that no longer check
    if not b["gen_ok"]:
        broken.append("translator: " + b["gen_out"][-200:])
    if hyg:
        broken.append("hygiene: " + "; ".join(hyg[:5]))
    if not pf.get("exists"):
        broken.append("Properties/%s.v missing" % pid)
    elif not pf["ok"]:
        m = re.search(r'File "([^"]+)", line (\d+)', pf["log"])
        broken.append("theorem file %s does not check (%s)" % (pid, (m.group(1) + ":" + m.group(2)) if m else "see log"))
    elif pf["nonstandard_axioms"]:
        broken.append("non-standard axioms: " + ",".join(pf["nonstandard_axioms"]))
    if not b["driver_ok"]:
        broken.append("extracted driver does not build")

    chk = None
    if a.tier == "thorough" and pf.get("exists") and pf.get("ok"):
        chk = run_coqchk(pf["files"])
        if not chk["ok"]:
            broken.append("coqchk rejects the compiled property files: " + chk["log"][-200:])
    ctx = {"tier": a.tier, "seed": common.SEED, "broken": list(broken), "driver_ok": b["driver_ok"]}
    # correspondence suites
    suites = []
    if b["driver_ok"]:
        for s in mod.suites(ctx):
            suites.append(s)
            if s.get("disagree", 0) or s.get("error"):
                broken.append("correspondence %s: %d disagreement(s)%s" % (s["suite"], s.get("disagree", 0), (" " + s["error"]) if s.get("error") else ""))
    ctx["suites"] = suites
    ctx["broken"] = list(broken)
    # monitor / search on the implementation (always: it also reproduces known findings)
    mon = mod.monitor(ctx)
    known = [k for k in load_known() if k["property"] == pid]
    viols = mon.get("violations", [])
    broken_suites = [s_["suite"] for s_ in suites if s_.get("disagree", 0) or s_.get("error")]
    directed_cov = None
    local_cov = None
    if broken_suites and not [v for v in viols if not any(fnmatch.fnmatch(v["key"], k["key"]) for k in known)]:
        # step 1 of the directed search: the property's local statement on the implementation's own outputs at the disagreeing inputs
        try:
            import local_checks
            lc = local_checks.evaluate(pid, suites)
            viols = viols + lc["violations"]
            local_cov = lc["coverage"]
        except Exception as e:
            local_cov = {"error": repr(e)[:300]}
    if broken_suites and hasattr(mod, "directed") and not [v for v in viols if not any(fnmatch.fnmatch(v["key"], k["key"]) for k in known)]:
        try:
            dm = mod.directed(ctx, broken_suites)
            viols = viols + dm.get("violations", [])
            directed_cov = dm.get("coverage", {})
        except Exception as e:     # the search is best effort
            directed_cov = {"error": repr(e)[:300]}
    new, reproduced = [], {}
    for v in viols:
        hit = [k for k in known if fnmatch.fnmatch(v["key"], k["key"])]
        if hit:
            reproduced.setdefault(hit[0]["key"], (hit[0], 0))
            reproduced[hit[0]["key"]] = (hit[0], reproduced[hit[0]["key"]][1] + 1)
        else:
            new.append(v)
    for k, (kf, n) in reproduced.items():
        print("KNOWN-FINDING: property=%s %s [key=%s, reproduced %d time(s)]" % (pid, kf["text"], kf["key"], n))

    exit_code = 0
    replay_path = None
    if new:
        v = new[0]
        replay_path = os.path.join(VERIF, "replays", "%s-%s.json" % (pid, short_hash(v)))
        write_json(replay_path, {"property": pid, "kind": v.get("kind", "simulation"), "violation": v,
                                 "other_violations": [x["key"] for x in new[1:20]], "broken": broken})
        print("VIOLATION property=%s replay=%s" % (pid, os.path.relpath(replay_path, VERIF)))
        for x in new[:5]:
            print("  - %s: %s" % (x["key"], x.get("what", "")[:200]))
        exit_code = 1
    elif broken:
        replay_path = os.path.join(VERIF, "replays", "%s-obligation-%s.json" % (pid, short_hash(broken)))
        mism = [m for s in suites for m in s.get("mismatches", [])][:5]
        write_json(replay_path, {"property": pid, "kind": "obligation", "no_longer_checks": broken,
                                 "first_disagreements": mism, "coq_log": pf.get("log", "")[-1500:] or b["log"][-1500:],
                                 "search": mon.get("coverage", {})})
        print("VIOLATION property=%s replay=%s no-failing-input-found" % (pid, os.path.relpath(replay_path, VERIF)))
        for x in broken[:5]:
            print("  - " + x[:300])
        exit_code = 1

    nth = len(pf.get("theorems", [])) if pf.get("exists") else 0
    extra_obl = mod.extra_obligations(ctx) if hasattr(mod, "extra_obligations") else []
    obligations = nth + len(extra_obl)
    discharged = obligations if (pf.get("ok") and not hyg and not pf.get("nonstandard_axioms")) else 0
    cov = {
        "obligations": max(obligations, 1), "discharged": discharged,
        "checker_cmd": pf.get("checker_cmd", "coqc (property file missing)"),
        "trusted_base": mod.TRUSTED_BASE if hasattr(mod, "TRUSTED_BASE") else [],
        "theorems": pf.get("theorems", []), "generated_obligations": extra_obl,
        "axioms_reported_by_Print_Assumptions": pf.get("axioms", []),
        "theorems_closed_under_global_context": pf.get("closed_count", 0),
        "correspondence": [{k: v for k, v in s.items() if k not in ("mismatches", "mismatches_all")} for s in suites],
        "correspondence_disagreements": sum(s.get("disagree", 0) for s in suites),
        "monitor": mon.get("coverage", {}),
        "evaluations": int(sum(s.get("cases", 0) for s in suites) + mon.get("coverage", {}).get("evaluations", 0)),
        "distinct_nontrivial": int(sum(s.get("distinct", 0) for s in suites) + mon.get("coverage", {}).get("distinct_nontrivial", 0)),
        "rule": mod.RULE if hasattr(mod, "RULE") else "",
        "samples": (mon.get("samples", []) + [x for s in suites for x in s.get("samples", [])])[:6] or ["(none)"],
        "no_longer_checks": broken,
        "coqchk": chk,
        "directed_search_after_broken_correspondence": directed_cov,
        "local_statement_on_disagreeing_inputs": local_cov,
        "known_findings_reproduced": [k for k in reproduced],
        "build": {k: v for k, v in b.items() if k != "log"},
    }
    ev = {"property_id": pid, "tier": a.tier, "seed": common.SEED, "level": "proof", "coverage": cov,
          "assumptions": mod.ASSUMPTIONS if hasattr(mod, "ASSUMPTIONS") else [], "wall_s": round(time.time() - t0, 1),
          "violations": len(new) + (1 if (broken and not new) else 0)}
    write_json(os.path.join(VERIF, "evidence", pid + ".json"), ev)
    if exit_code == 0:
        print("OK property=%s tier=%s obligations=%d/%d suites=%d (cases %d, disagreements 0) monitor_evals=%d wall=%.0fs" % (
            pid, a.tier, discharged, obligations, len(suites), sum(s.get("cases", 0) for s in suites),
            mon.get("coverage", {}).get("evaluations", 0), time.time() - t0))
    sys.exit(exit_code)


if __name__ == "__main__":
    main()
